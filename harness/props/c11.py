"""C11 — slicing along -x partitions the cases; calendar buckets; date conversions.

Ops (one line each, see harness/DEV.md):
  bucket <axis> <v1,v2,...>          axis.compute_from_times / compute_from_leadtimes on the values
  conv <fn> <a1,a2,...>              util date conversion <fn> (or a round trip rt_*) on every argument
  slices <axis> <times> <leads> <locs> <mask> <how>
                                     build a verif.data.Data (in memory or through a text file), ask
                                     get_scores(..., axis, i) for every slice i; reply = labels|slice;slice…
                                     where a slice lists the flat indices (t*L*S + l*S + s) of its cases
The oracle (`judge`) never uses datetime/calendar: it has its own textbook calendar (year lengths summed
from 1900, month lengths by the rhyme), and for slices it calls the real code again (pooled request,
Mae/Bias per slice) and checks the partition / count / weighted-mean identities.
"""
import bisect
import math
import os
import shutil
import tempfile
from fractions import Fraction

import numpy as np
from common import xr, from_xr, num_close, tokens_close

ID = "C11"
TARGETS = ["Proofs.C11", "Proofs.C11Calendar"]
GEN_PREFIXES = []
THEOREMS = {
    "Proofs.C11": ["VerifModel.C11." + t for t in [
        "C11_partition", "C11_exactly_one", "C11_counts", "C11_weighted_sum", "C11_weighted_mean",
        "C11_weighted_mean_nonempty", "C11_partition_unique", "C11_model_partition",
        "C11_model_counts", "C11_model_weighted_sum", "C11_location_axes", "C11_pooled_axes",
        "civil_textbook", "textbookDate_epoch", "C11_calendar", "C11_week", "C11_dayofyear",
        "C11_timeofday", "C11_leadtimeday", "C11_conversions", "C11_get_date"]],
    "Proofs.C11Calendar": ["VerifModel.C11Cal." + t for t in [
        "walk_ok", "months_ok", "day_facts"]],
}
TRUSTED_BASE = [
    "Lean 4.33 kernel; axioms propext, Classical.choice, Quot.sound only",
    "Spec/Calendar.lean (leap rule, month lengths, 'the day after', 1970-01-01 is a Thursday) and "
    "Spec/Slicing.lean (a slice = the cases whose bucket equals the label): my reading of the property",
    "Model/Axis.lean is hand-written (calendar code is outside the translator's language); it is tied to "
    "axis.py / util.py / data.py by the correspondence streams, exhaustive over every day 1900-2100 in the "
    "thorough tier",
    "Python datetime / calendar.timegm / matplotlib.dates (date2num, num2date) are exercised through the "
    "real functions, not modelled individually",
    "np.unique, np.where and fancy indexing are modelled (sorted de-duplication, index lists, row-major "
    "flattening) and tied by the axis.slices stream",
    "IEEE rounding: timeofday and unixtime_to_datenum are compared with rtol 1e-9, lead times lie on a "
    "decimal grid where int(l/24) is not affected by rounding",
]
ASSUMPTIONS = [
    "initialisation times are whole seconds (Data casts times to int) between 1900-01-01 and 2100-12-31 "
    "(theorems: 1970-2100 for the axes as the property says, 1900-2100 for the conversions)",
    "the day-of-year bucket is verif's leap-normalised ordinal (the ordinal that month/day has in a leap "
    "year, so that a calendar day has the same bucket in every year); it equals the ordinal within the "
    "date's own year in leap years and in Jan/Feb, and is one larger from March on in common years "
    "(theorem C11_dayofyear)",
    "lead times are non-negative (int() truncates towards zero; for l >= 0 this is the whole number of "
    "24 h periods)",
    "datenum_to_date is claimed for date numbers that are not within a microsecond below a whole number "
    "(matplotlib rounds to microseconds)",
    "an empty slice (all its cases invalid) is returned by get_scores as [nan]: count 0, weight 0",
]
RULE = ("axis.bucket: every listed day x hours {0,1,6,12,23} (+23:59:59 on boundary days) for the 8 time "
        "axes, batched 100 instants per op; lead times {0,0.5,1,23,24,25,47.9,48,240} + random grid values; "
        "conv: the 6 util functions + 4 round trips on the same days; thorough = every day 1900-01-01…"
        "2100-12-31, quick = every 7th day + first/last day of every month + 28 Feb/29 Feb/1 Mar. "
        "axis.slices: seeded random datasets (1-6 init times around year/month/leap-day/week boundaries at "
        "any hour, 1-4 lead times, 1-3 locations with possibly equal lat/lon/elev, random missing cases, "
        "sometimes a whole slice missing; built in memory or through a real text file, input order "
        "optionally reversed) x all 19 axes. An op is non-trivial if its reply has >= 2 distinct buckets "
        "/ >= 2 slices.")
EXHAUSTIVE = {"quick": False, "thorough": True}
EXHAUSTIVE_NOTE = ("thorough: the axis.bucket and conv streams enumerate every day 1900-01-01…2100-12-31 "
                   "(73 414 days) x 5 hours for all time-derived axes and all conversions; the slices stream "
                   "is seeded-random in both tiers")
LEVEL_TEXT = ("Lean theorems: for any bucket function and any list of cases the slices of the distinct "
              "bucket values are a permutation of the pooled valid cases (induction over lists), counts add "
              "up, pooled mean = count-weighted mean of slice means (over Q); the model of "
              "_apply_axis/get_axis_values satisfies this for all 19 axes; calendar buckets are the first "
              "instants of the textbook civil year/month/Monday-week/day for every second 1970-2100 and the "
              "date/unixtime/datenum conversions are mutually inverse for every day 1900-2100 (kernel "
              "evaluation over all 73 414 days, lifted by arithmetic). The model is tied to /repo by an "
              "exhaustive differential correspondence over every day and a random dataset stream through "
              "the real Data class.")
TECHNIQUE = "Lean 4 proof over a hand-written model; exhaustive differential correspondence + metamorphic oracle on the real code"

TIME_AXES = ["year", "month", "week", "day", "timeofday", "dayofyear", "dayofmonth", "monthofyear"]
ALL_AXES = ["time", "leadtime", "leadtimeday", "location", "lat", "lon", "elev", "no", "year", "month",
            "week", "timeofday", "dayofyear", "day", "dayofmonth", "monthofyear", "obs", "fcst", "threshold"]
HOURS = [0, 1, 6, 12, 23]
LEADS = [0.0, 0.5, 1.0, 23.0, 24.0, 25.0, 47.9, 48.0, 240.0]
CONV_DATE = ["date_to_unixtime", "date_to_datenum", "rt_date_unix", "rt_date_datenum"]
CONV_UNIX = ["unixtime_to_date", "unixtime_to_datenum", "rt_unix_date", "rt_unix_datenum"]
BATCH = 100


# ------------------------------------------------------------------ textbook calendar (oracle)
def _leap(y):
    return (y % 4 == 0 and y % 100 != 0) or y % 400 == 0


def _dim(y, m):
    if m == 2:
        return 29 if _leap(y) else 28
    return 30 if m in (4, 6, 9, 11) else 31


Y0, Y1 = 1890, 2111
_YEAR_START = {}          # year -> epoch day (days since 1970-01-01) of 1 January
_k = 0
for _y in range(1970, Y1 + 1):
    _YEAR_START[_y] = _k
    _k += 366 if _leap(_y) else 365
_k = 0
for _y in range(1969, Y0 - 1, -1):
    _k -= 366 if _leap(_y) else 365
    _YEAR_START[_y] = _k
_YEARS = list(range(Y0, Y1 + 1))
_STARTS = [_YEAR_START[y] for y in _YEARS]


def epochday(y, m, d):
    k = _YEAR_START[y]
    for mm in range(1, m):
        k += _dim(y, mm)
    return k + d - 1


def civil(k):
    """epoch day -> (y, m, d) by table lookup and the month-length rhyme"""
    i = bisect.bisect_right(_STARTS, k) - 1
    y = _YEARS[i]
    r = k - _STARTS[i]
    m = 1
    while r >= _dim(y, m):
        r -= _dim(y, m)
        m += 1
    return y, m, r + 1


def ymd(k):
    y, m, d = civil(k)
    return y * 10000 + m * 100 + d


def weekday(k):
    return (3 + k) % 7     # 1970-01-01 was a Thursday; Monday = 0


def leap_ordinal(m, d):
    return sum(_dim(2000, mm) for mm in range(1, m)) + d


def expected_bucket(axis, t):
    """the documented bucket of unix time t (int), exact (Fraction for timeofday)"""
    k, s = divmod(t, 86400)
    y, m, d = civil(k)
    if axis == "year":
        return 86400 * epochday(y, 1, 1)
    if axis == "month":
        return 86400 * epochday(y, m, 1)
    if axis == "week":
        return 86400 * (k - weekday(k))
    if axis == "day":
        return 86400 * k
    if axis == "timeofday":
        return Fraction(s, 3600)
    if axis == "dayofyear":
        return leap_ordinal(m, d)
    if axis == "dayofmonth":
        return d
    if axis == "monthofyear":
        return m
    raise ValueError(axis)


def expected_lead(axis, l):
    if axis == "leadtime":
        return l
    q = Fraction(l) / 24
    return math.floor(q) if q >= 0 else math.ceil(q)


def expected_conv(fn, a):
    if fn in ("date_to_unixtime", "date_to_datenum"):
        k = epochday(a // 10000, a // 100 % 100, a % 100)
        return 86400 * k if fn == "date_to_unixtime" else k
    if fn == "unixtime_to_date":
        return ymd(a // 86400)
    if fn == "unixtime_to_datenum":
        return Fraction(a, 86400)
    if fn == "datenum_to_date":
        return ymd(math.floor(a))
    if fn in ("rt_date_unix", "rt_date_datenum"):
        return a
    if fn == "rt_unix_date":
        return 86400 * (a // 86400)      # = a for day-aligned a
    if fn == "rt_unix_datenum":
        return ymd(a // 86400)
    raise ValueError(fn)


# ------------------------------------------------------------------ generators
K_LO, K_HI = epochday(1900, 1, 1), epochday(2100, 12, 31)


def _boundary_days():
    out = set()
    for y in range(1900, 2101):
        for m in range(1, 13):
            out.add(epochday(y, m, 1))
            out.add(epochday(y, m, _dim(y, m)))
        out.add(epochday(y, 2, 28))
        out.add(epochday(y, 3, 1))
    return out


def _chunks(xs, n):
    for i in range(0, len(xs), n):
        yield xs[i:i + n]


def gen_ops(tier, rng):
    bnd = _boundary_days()
    if tier == "thorough":
        days = list(range(K_LO, K_HI + 1))
    else:
        days = sorted(set(range(K_LO, K_HI + 1, 7)) | bnd)
    # 1970-2100 first (the range the property quantifies over for initialisation times), then 1900-1969
    days = [k for k in days if k >= 0] + [k for k in days if k < 0]
    # ---- (a) buckets
    per = BATCH // len(HOURS)
    for ch in _chunks(days, per):
        ts = [86400 * k + 3600 * h for k in ch for h in HOURS]
        ts += [86400 * k + 86399 for k in ch if k in bnd and k % 3 == 0]
        ts.sort()
        line = ",".join(str(t) for t in ts)
        for ax in TIME_AXES:
            yield "axis.bucket", "bucket %s %s" % (ax, line)
        for fn in CONV_UNIX:
            yield "axis.conv", "conv %s %s" % (fn, line)
    for ch in _chunks(days, BATCH):
        dates = ",".join(str(ymd(k)) for k in ch)
        for fn in CONV_DATE:
            yield "axis.conv", "conv %s %s" % (fn, dates)
        yield "axis.conv", "conv datenum_to_date %s" % ",".join(
            xr(k + f) for k in ch[::2] for f in (0, 0.25, 0.5, 0.9990234375))
        pairs = []
        for k in ch:
            diff = rng.choice([0, 1, -1, 7, 28, 29, 30, 31, 59, 60, 365, 366, -365, -366,
                               rng.randint(-800, 800)])
            if K_LO <= k + diff <= K_HI:
                pairs.append("%d:%d" % (ymd(k), diff))
        if pairs:
            yield "axis.conv", "conv get_date %s" % ",".join(pairs)
    # random seconds of the day
    n = 40 if tier == "quick" else 400
    for _ in range(n):
        ts = [86400 * rng.randint(K_LO, K_HI) + rng.randint(0, 86399) for _ in range(BATCH)]
        line = ",".join(str(t) for t in ts)
        for ax in TIME_AXES:
            yield "axis.bucket.random", "bucket %s %s" % (ax, line)
        yield "axis.conv", "conv unixtime_to_date %s" % line
    # lead times
    yield "axis.bucket", "bucket leadtimeday %s" % ",".join(xr(l) for l in LEADS)
    yield "axis.bucket", "bucket leadtime %s" % ",".join(xr(l) for l in LEADS)
    for _ in range(20 if tier == "quick" else 200):
        ls = [rng.choice([rng.randint(0, 400), rng.randint(0, 4000) / 10.0, 24.0 * rng.randint(0, 20),
                          24.0 * rng.randint(1, 20) - 0.1, rng.randint(0, 960) / 4.0])
              for _ in range(20)]
        yield "axis.bucket.random", "bucket leadtimeday %s" % ",".join(xr(l) for l in ls)
    # ---- (b) slices
    n = 60 if tier == "quick" else 600
    for i in range(n):
        ds = _random_dataset(rng, i)
        for ax in ALL_AXES:
            yield "axis.slices", "slices %s %s" % (ax, ds)


_ANCHORS = None


def _anchors():
    global _ANCHORS
    if _ANCHORS is None:
        a = []
        for y in (1970, 1971, 1972, 1999, 2000, 2001, 2024, 2038, 2096, 2099, 2100):
            a.append(epochday(y, 1, 1))
            a.append(epochday(y, 3, 1))
            a.append(epochday(y, 12, 31))
            a.append(epochday(y, 2, 28))
            for m in (4, 7, 10):
                a.append(epochday(y, m, 1))
        _ANCHORS = [k for k in a if 0 <= k <= K_HI - 40]
    return _ANCHORS


def _random_dataset(rng, i):
    anchor = rng.choice(_anchors())
    T = rng.randint(1, 6)
    how = rng.choice(["mem", "mem", "memrev", "text", "textdate"])
    times = set()
    while len(times) < T:
        k = anchor + rng.choice([-8, -7, -3, -2, -1, 0, 0, 1, 2, 6, 7, 8, 30, 31, 365, 366])
        k = max(0, min(K_HI, k))
        if how == "textdate" or rng.random() < 0.8:
            s = 3600 * rng.choice([0, 0, 6, 12, 18, 23, rng.randint(0, 23)])
        else:
            s = rng.randint(0, 86399)
        times.add(86400 * k + s)
    times = sorted(times)
    L = rng.randint(1, 4)
    leads = sorted(set(rng.choice(LEADS + [3.0, 6.0, 12.0, 36.0, 72.0, 23.9]) for _ in range(L)))
    S = rng.randint(1, 3)
    ids = sorted(rng.sample(range(1, 40), S))
    locs = []
    for j in ids:
        lat = rng.choice([60.0, 60.0, 61.5, -33.25])
        lon = rng.choice([10.0, 10.0, 11.25, -120.5])
        elev = rng.choice([0.0, 5.0, 5.0, 1200.0])
        locs.append("%s:%s:%s:%s" % (xr(j), xr(lat), xr(lon), xr(elev)))
    n = len(times) * len(leads) * S
    p = rng.choice([1.0, 0.9, 0.7, 0.4])
    mask = [1 if rng.random() < p else 0 for _ in range(n)]
    r = rng.random()
    LS = len(leads) * S
    if r < 0.15 and len(times) > 1:        # a whole init time missing
        t = rng.randrange(len(times))
        for q in range(LS):
            mask[t * LS + q] = 0
    elif r < 0.25 and S > 1:               # a whole location missing
        s = rng.randrange(S)
        for q in range(s, n, S):
            mask[q] = 0
    elif r < 0.3:
        mask = [0] * n                     # nothing valid at all
    return "%s %s %s %s %s" % (",".join(str(t) for t in times), ",".join(xr(l) for l in leads),
                               ";".join(locs), "".join(str(b) for b in mask), how)


# ------------------------------------------------------------------ implementation side
def _axis(name):
    import verif.axis
    return verif.axis.get(name)


def _fmt(v):
    return ",".join(xr(x) for x in v) if len(v) else "-"


def _conv_impl(fn, a):
    import verif.util as u
    if fn == "rt_date_unix":
        return u.unixtime_to_date(u.date_to_unixtime(a))
    if fn == "rt_unix_date":
        return u.date_to_unixtime(u.unixtime_to_date(a))
    if fn == "rt_date_datenum":
        return u.datenum_to_date(u.date_to_datenum(a))
    if fn == "rt_unix_datenum":
        return u.datenum_to_date(u.unixtime_to_datenum(a))
    return getattr(u, fn)(a)


_DATA_CACHE = {}
_TMP = []


def _tmpdir():
    if not _TMP:
        d = tempfile.mkdtemp(prefix="c11_")
        _TMP.append(d)
        import atexit
        atexit.register(shutil.rmtree, d, True)
    return _TMP[0]


def _parse_dataset(a):
    times = [int(t) for t in a[2].split(",")]
    leads = [from_xr(l) for l in a[3].split(",")]
    locs = [tuple(from_xr(x) for x in l.split(":")) for l in a[4].split(";")]
    mask = [c == "1" for c in a[5]]
    return times, leads, locs, mask, a[6]


def _offset(q):
    return float((7 * q) % 5 - 2) + (0.5 if q % 3 == 0 else 0.0)


def _build_data(a):
    """the real verif.data.Data for the dataset of a slices-op (cached per dataset)"""
    key = " ".join(a[2:])
    if key in _DATA_CACHE:
        return _DATA_CACHE[key]
    import verif.data
    import verif.input
    import verif.location
    import verif.variable
    times, leads, locs, mask, how = _parse_dataset(a)
    T, L, S = len(times), len(leads), len(locs)
    obs = np.zeros([T, L, S])
    fcst = np.zeros([T, L, S])
    for t in range(T):
        for l in range(L):
            for s in range(S):
                q = (t * L + l) * S + s
                obs[t, l, s] = q
                fcst[t, l, s] = q + _offset(q)
                if not mask[q]:
                    if q % 2 == 0:
                        obs[t, l, s] = np.nan
                    else:
                        fcst[t, l, s] = np.nan
    if how in ("mem", "memrev"):
        class MemInput(verif.input.Input):
            pass
        inp = MemInput()
        order_t, order_l, order_s = list(range(T)), list(range(L)), list(range(S))
        if how == "memrev":
            order_t.reverse()
            order_l.reverse()
            order_s.reverse()
        inp.fullname = "mem"
        inp.times = np.array([times[i] for i in order_t], float)
        inp.leadtimes = np.array([leads[i] for i in order_l], float)
        inp.locations = [verif.location.Location(*locs[i]) for i in order_s]
        inp.obs = obs[order_t][:, order_l][:, :, order_s]
        inp.fcst = fcst[order_t][:, order_l][:, :, order_s]
        inp.pit = None
        inp.ensemble = None
        inp.thresholds = np.array([])
        inp.quantiles = np.array([])
        inp.other_fields = []
        inp.variable = verif.variable.Variable("x", "u")
    else:
        path = os.path.join(_tmpdir(), "d%d.txt" % len(_DATA_CACHE))
        rows = []
        for t in range(T):
            for l in range(L):
                for s in range(S):
                    q = (t * L + l) * S + s
                    o = "-999" if np.isnan(obs[t, l, s]) else repr(float(obs[t, l, s]))
                    f = "-999" if np.isnan(fcst[t, l, s]) else repr(float(fcst[t, l, s]))
                    loc = "%d %r %r %r" % (locs[s][0], locs[s][1], locs[s][2], locs[s][3])
                    if how == "textdate":
                        tcol = "%d %d" % (ymd(times[t] // 86400), (times[t] % 86400) // 3600)
                    else:
                        tcol = "%d" % times[t]
                    rows.append(((q * 7919) % 1009, "%s %r %s %s %s" % (tcol, leads[l], loc, o, f)))
        rows.sort()   # file order is irrelevant (deterministic shuffle)
        with open(path, "w") as f:
            f.write("# variable: x\n# units: u\n")
            f.write(("date hour" if how == "textdate" else "unixtime") +
                    " leadtime location lat lon elev obs fcst\n")
            for _, r in rows:
                f.write(r + "\n")
        inp = verif.input.Text(path)
    data = verif.data.Data([inp])
    if len(_DATA_CACHE) > 50:
        _DATA_CACHE.clear()
    _DATA_CACHE[key] = data
    return data


def _slices_real(data, axis):
    import verif.field
    n = data.get_axis_size(axis)
    out = []
    for i in range(n):
        obs, fcst = data.get_scores([verif.field.Obs(), verif.field.Fcst()], 0, axis, i)
        out.append((np.array(obs), np.array(fcst)))
    return out


def impl(op):
    a = op.split(" ")
    if a[0] == "bucket":
        ax = _axis(a[1])
        if hasattr(ax, "compute_from_times"):
            ts = np.array([int(t) for t in a[2].split(",")], int)
            return _fmt(ax.compute_from_times(ts))
        ls = np.array([from_xr(l) for l in a[2].split(",")], float)
        return _fmt(ax.compute_from_leadtimes(ls))
    if a[0] == "conv":
        import verif.util as u
        if a[1] == "get_date":
            out = []
            for p in a[2].split(","):
                d, k = p.split(":")
                out.append(u.get_date(int(d), int(k)))
            return ",".join(str(x) for x in out)
        if a[1] == "datenum_to_date":
            return ",".join(str(u.datenum_to_date(from_xr(x))) for x in a[2].split(","))
        return ",".join(xr(_conv_impl(a[1], int(x))) for x in a[2].split(","))
    if a[0] == "slices":
        data = _build_data(a)
        axis = _axis(a[1])
        labels = data.get_axis_values(axis)
        sl = []
        for obs, _ in _slices_real(data, axis):
            if len(obs) == 1 and np.isnan(obs[0]):
                sl.append("nan")
            else:
                sl.append(",".join(xr(x) for x in obs))
        return _fmt(list(labels)) + "|" + ";".join(sl)
    raise ValueError(op)


def cmp(op, impl_out, model_out):
    a = op.split(" ")
    if (a[0] in ("bucket", "slices") and a[1] == "timeofday") or \
            (a[0] == "conv" and a[1] == "unixtime_to_datenum"):
        return tokens_close(impl_out.replace("|", ";"), model_out.replace("|", ";"))
    return impl_out == model_out


def spec_op(op):
    """the textbook calendar of the Lean Spec (iterating 'the day after' from 1970-01-01) as a second
    oracle for unixtime_to_date on instants from 1970 on"""
    a = op.split(" ")
    if a[0] == "conv" and a[1] == "unixtime_to_date":
        ts = [int(t) for t in a[2].split(",")]
        if ts and min(ts) >= 0 and ts == sorted(ts):
            return "spec_dates %s" % ",".join(str(t // 86400) for t in ts)
    return None


# ------------------------------------------------------------------ the oracle
def _first_diff(got, want, close=False):
    for i, (g, w) in enumerate(zip(got, want)):
        if close:
            ok = num_close(from_xr(g), float(w), 1e-9, 1e-12)
        else:
            ok = (g == xr(w))
        if not ok:
            return i
    if len(got) != len(want):
        return min(len(got), len(want))
    return None


def judge(op, impl_out, spec_out):
    a = op.split(" ")
    if impl_out.startswith("EXC:") or impl_out.startswith("EXIT:") or impl_out == "ERR":
        return ({"kind": "exception", "op": a[0], "what": a[1]}, "%s %s raised %s" % (a[0], a[1], impl_out))
    if a[0] == "bucket":
        got = impl_out.split(",")
        args = a[2].split(",")
        if a[1] in TIME_AXES:
            want = [expected_bucket(a[1], int(t)) for t in args]
        else:
            want = [expected_lead(a[1], from_xr(l)) for l in args]
        i = _first_diff(got, want, close=(a[1] == "timeofday"))
        if i is not None:
            return ({"kind": "bucket", "axis": a[1]},
                    "axis %s: input %s is put in bucket %s, the calendar says %s" %
                    (a[1], args[i] if i < len(args) else None, got[i] if i < len(got) else None,
                     xr(want[i]) if i < len(want) else None))
        return None
    if a[0] == "conv":
        got = impl_out.split(",")
        args = a[2].split(",")
        if a[1] == "get_date":
            want = []
            for p in args:
                d, k = p.split(":")
                want.append(ymd(epochday(int(d) // 10000, int(d) // 100 % 100, int(d) % 100) + int(k)))
        elif a[1] == "datenum_to_date":
            want = [expected_conv(a[1], Fraction(x)) for x in args]
        else:
            want = [expected_conv(a[1], int(x)) for x in args]
        i = _first_diff(got, want, close=(a[1] == "unixtime_to_datenum"))
        if i is not None:
            return ({"kind": "conv", "fn": a[1]},
                    "%s(%s) = %s, expected %s" % (a[1], args[i] if i < len(args) else None,
                                                  got[i] if i < len(got) else None,
                                                  xr(want[i]) if i < len(want) else None))
        if spec_out is not None and not spec_out.startswith("ERR"):
            sd = [s.split(":")[0] for s in spec_out.split(",")]
            for i, (g, w) in enumerate(zip(got, sd)):
                if g != w:
                    return ({"kind": "conv", "fn": a[1], "oracle": "lean-spec"},
                            "%s(%s) = %s, the textbook calendar (Lean Spec) says %s" % (a[1], args[i], g, w))
        return None
    if a[0] == "slices":
        return _judge_slices(a, impl_out)
    return None


def _bucket_of_case(axname, q, times, leads, locs):
    T, L, S = len(times), len(leads), len(locs)
    t, l, s = q // (L * S), (q // S) % L, q % S
    if axname == "time":
        return ("t", t)
    if axname in TIME_AXES:
        return ("v", expected_bucket(axname, times[t]))
    if axname in ("leadtime", "leadtimeday"):
        return ("v", expected_lead(axname, leads[l]))
    if axname in ("location", "lat", "lon", "elev"):
        return ("s", s)
    return ("all", 0)


def _judge_slices(a, impl_out):
    import verif.axis
    import verif.metric
    axname = a[1]
    sig = {"kind": "slices", "axis": axname}
    times, leads, locs, mask, how = _parse_dataset(a)
    T, L, S = len(times), len(leads), len(locs)
    n = T * L * S
    valid = [q for q in range(n) if mask[q]]
    labels_s, slices_s = impl_out.split("|")
    labels = [] if labels_s == "-" else labels_s.split(",")
    slices = []
    for s in slices_s.split(";"):
        slices.append([] if s == "nan" else [int(x) for x in s.split(",")])
    if len(labels) != len(slices):
        return (sig, "axis %s: %d labels but %d slices" % (axname, len(labels), len(slices)))
    # (1) partition: every valid case in exactly one slice, nothing else anywhere
    seen = {}
    for j, sl in enumerate(slices):
        for q in sl:
            if q in seen:
                return (sig, "axis %s: case %d occurs in slice %d and in slice %d" % (axname, q, seen[q], j))
            seen[q] = j
    missing = [q for q in valid if q not in seen]
    extra = [q for q in seen if not mask[q]]
    if missing:
        q = missing[0]
        return (sig, "axis %s: valid case %d (time %d, leadtime %s, location %s) is in no slice" %
                (axname, q, times[q // (L * S)], xr(leads[(q // S) % L]), xr(locs[q % S][0])))
    if extra:
        return (sig, "axis %s: invalid case %d appears in slice %d" % (axname, extra[0], seen[extra[0]]))
    # (2) buckets: all cases of a slice share the documented bucket, different slices differ, label right
    kinds = {}
    for j, sl in enumerate(slices):
        bs = set(_bucket_of_case(axname, q, times, leads, locs) for q in sl)
        if len(bs) > 1:
            return (sig, "axis %s: slice %d mixes buckets %s" % (axname, j, sorted(map(str, bs))))
        for b in bs:
            if b in kinds:
                return (sig, "axis %s: bucket %s is split over slices %d and %d" % (axname, b, kinds[b], j))
            kinds[b] = j
            if b[0] == "v" and from_xr(labels[j]) != float(b[1]) and \
                    not num_close(from_xr(labels[j]), float(b[1]), 1e-12, 0):
                return (sig, "axis %s: slice %d is labelled %s but holds bucket %s" %
                        (axname, j, labels[j], xr(b[1])))
    if axname in TIME_AXES or axname in ("leadtime", "leadtimeday"):
        want = sorted(set(_bucket_of_case(axname, q, times, leads, locs)[1] for q in range(n)))
        if len(want) != len(labels) or any(not num_close(from_xr(g), float(w), 1e-12, 0)
                                           for g, w in zip(labels, want)):
            return (sig, "axis %s: labels %s, expected the distinct buckets %s" %
                    (axname, labels_s, ",".join(xr(w) for w in want)))
    elif axname == "time":
        if labels != [str(t) for t in times]:
            return (sig, "axis time: labels %s, expected %s" % (labels_s, times))
    elif axname in ("location", "lat", "lon", "elev"):
        col = {"location": 0, "lat": 1, "lon": 2, "elev": 3}[axname]
        want = [xr(l[col]) for l in locs]
        if labels != want:
            return (sig, "axis %s: labels %s, expected one per location: %s" % (axname, labels_s, want))
    elif len(labels) != 1:
        return (sig, "axis %s pools all cases but has %d slices" % (axname, len(labels)))
    # (3) the real code again: pooled request, counts and mean-aggregated scores
    data = _build_data(a)
    pooled = _slices_real(data, verif.axis.No())
    pobs, pfc = pooled[0]
    pcount = int(np.sum(~np.isnan(pobs)))
    if pcount != len(valid):
        return ({"kind": "slices", "axis": "no"}, "pooled request returns %d cases, %d are valid" %
                (pcount, len(valid)))
    real = _slices_real(data, verif.axis.get(axname))
    counts = [int(np.sum(~np.isnan(o))) for o, _ in real]
    if sum(counts) != pcount:
        return (sig, "axis %s: slice counts %s add up to %d, pooled count is %d" %
                (axname, counts, sum(counts), pcount))
    if pcount > 0:
        import verif.interval
        everything = verif.interval.Interval(-np.inf, np.inf, True, True)
        for metric in (verif.metric.Mae(), verif.metric.Bias()):
            ps = metric.compute(data, 0, verif.axis.No(), everything)[0]
            ss = metric.compute(data, 0, verif.axis.get(axname), everything)
            if len(ss) != len(counts):
                return (sig, "axis %s: %d scores for %d slices" % (axname, len(ss), len(counts)))
            tot = sum(Fraction(c) * Fraction(float(s)) for c, s in zip(counts, ss) if c > 0)
            wm = tot / pcount
            if not num_close(float(wm), float(ps), 1e-9, 1e-12):
                return (sig, "axis %s: count-weighted mean of slice %s = %s, pooled %s = %s" %
                        (axname, metric.name, xr(float(wm)), metric.name, xr(ps)))
            for c, s in zip(counts, ss):
                if c == 0 and not np.isnan(s):
                    return (sig, "axis %s: empty slice has score %s" % (axname, xr(s)))
    return None


def nontrivial(op, out):
    a = op.split(" ")
    if a[0] == "slices":
        return out.count(";") >= 1 and "," in out
    return len(set(out.split(","))) >= 2


def shrink(op):
    """single-value ops, so that a replay names one concrete input"""
    a = op.split(" ")
    if a[0] in ("bucket", "conv"):
        for x in a[2].split(","):
            yield "%s %s %s" % (a[0], a[1], x)


def extra_evidence(rows):
    axes = {}
    how = {}
    for r in rows:
        a = r["op"].split(" ")
        if a[0] == "slices":
            axes[a[1]] = axes.get(a[1], 0) + 1
            how[a[-1]] = how.get(a[-1], 0) + 1
    return {"slices_per_axis": axes, "dataset_construction": how}
