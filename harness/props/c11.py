"""C11 — slicing along -x partitions the cases; calendar buckets; date conversions.

Ops (one line each, see harness/DEV.md):
  bucket <axis> <v1,v2,...>          axis.compute_from_times / compute_from_leadtimes on the values
  genbucket leadtimeday|timeofday <v1,...>
                                     the same two functions against their machine translation (Gen/Axis.lean)
  conv <fn> <a1,a2,...>              util date conversion <fn> (or a round trip rt_*) on every argument
  slices <axis> <times> <leads> <locs> <mask> <how> [<sub>]
                                     build a verif.data.Data (in memory or through a text file; with the user
                                     subset <sub> = d=YYYYMMDD,..;tod=h,..;t=unixtime,.. of the init times passed as
                                     dates= / tods= / times=), ask get_scores(..., axis, i) for every slice i;
                                     reply = labels|slice;slice… where a slice lists the flat indices
                                     (t*L*S + l*S + s, in the dataset BEFORE the subset) of its cases
  slicescli <axis> count|mae <times> <leads> <locs> <mask> text|textdate <sub> <mask2>
                                     write one (mask2 = -) or two text files and run the real command line
                                     verif f [g] -m obs -agg count | -m mae  -x <axis> -type csv [-d ..] [-tod ..] [-t ..];
                                     reply = rows|score column of f[|score column of g]
The oracle (`judge`) never uses datetime/calendar: it has its own textbook calendar (year lengths summed
from 1900, month lengths by the rhyme), and for slices it calls the real code again (pooled request,
Mae/Bias per slice) and checks the partition / count / weighted-mean identities; for the command line it
recomputes every row in exact arithmetic from the definition of the files and runs `-x no` for the pooled value.
"""
import bisect
import math
import os
import shutil
import tempfile
from fractions import Fraction

import numpy as np
from common import xr, from_xr, num_close, tokens_close

ID = "C11"
TARGETS = ["Proofs.C11", "Proofs.C11Calendar", "Proofs.C11Subset", "Proofs.C11All", "Proofs.GenEq.Axis"]
GEN_PREFIXES = ["axis."]
# Proofs.GenEq.Axis only ties the hand-written bucket functions to the source; the C11 theorems are about the model,
# which is also tied by the axis.bucket correspondence (see check.py, tie-only obligations)
TIE_ONLY = {"prefix": "axis.", "modules": ["Proofs.GenEq.Axis"], "gen_op_heads": ["genbucket"]}
THEOREMS = {
    "Proofs.C11": ["VerifModel.C11." + t for t in [
        "C11_partition", "C11_exactly_one", "C11_counts", "C11_weighted_sum", "C11_weighted_mean",
        "C11_weighted_mean_nonempty", "C11_partition_unique", "C11_model_partition",
        "C11_model_counts", "C11_model_weighted_sum", "C11_location_axes", "C11_pooled_axes",
        "civil_textbook", "textbookDate_epoch", "C11_calendar", "C11_week", "C11_dayofyear",
        "C11_timeofday", "C11_leadtimeday", "C11_leadtimeday_vs_floor", "C11_conversions", "C11_get_date"]],
    "Proofs.C11Calendar": ["VerifModel.C11Cal." + t for t in [
        "walk_ok", "months_ok", "day_facts"]],
    "Proofs.C11Subset": ["VerifModel.C11." + t for t in [
        "C11_subset_calendar", "C11_subset_other", "C11_subset_time", "C11_subset_partition",
        "C11_subset_tods", "C11_subset_times", "C11_subset_dates"]],
    "Proofs.C11All": ["VerifModel.C11.C11_all_axis"],
    "Proofs.GenEq.Axis": ["VerifModel.GenEq.Axis." + t for t in [
        "pyInt_eq", "leadtimeday_eq", "timeofday_eq"]],
}
TRUSTED_BASE = [
    "Lean 4.33 kernel; axioms propext, Classical.choice, Quot.sound only",
    "Spec/Calendar.lean (leap rule, month lengths, 'the day after', 1970-01-01 is a Thursday), "
    "Spec/Slicing.lean (a slice = the cases whose bucket equals the label) and Spec/LeadTime.lean (the whole number "
    "of 24 h periods in a lead time = the integer part of l/24, counted with the sign of l): my reading of the property",
    "Model/Axis.lean is hand-written (calendar code is outside the translator's language); it is tied to "
    "axis.py / util.py / data.py by the correspondence streams, exhaustive over every day 1900-2100 in the "
    "thorough tier.  Leadtimeday and Timeofday are in addition machine-translated on every run (harness/translate.py "
    "gen_axis -> Gen/Axis.lean: element-wise reading of the list comprehension / array expression over exact "
    "numbers, `/` true division, `%` floor-mod by a positive literal, int() = truncation toward zero) and proved equal "
    "to the model (Proofs/GenEq/Axis.lean); the translation is executed against the real functions (stream axis.gen)",
    "Python datetime / calendar.timegm / matplotlib.dates (date2num, num2date) are exercised through the "
    "real functions, not modelled individually",
    "np.unique, np.where and fancy indexing are modelled (sorted de-duplication, index lists, row-major "
    "flattening) and tied by the axis.slices stream; the user subset of the init times is modelled as a filter of "
    "the time dimension (Dims.restrict; _get_common_indices itself is C01-C03's subject)",
    "the axis All is modelled outside Axis.Kind (Model/AxisAll.lean sliceAll: its reply keeps invalid cases as holes, "
    "so it is a List (Option Case), not a compressed slice); tied by `slices all` ops of the axis.slices stream; its "
    "oracle is written from the op's mask (expected shape and NaN positions) plus the real pooled request",
    "the command line (stream axis.cli): argument parsing, text input, the Mae / Obs metrics, the count aggregator "
    "and the csv writer run for real and are not modelled here (C13, C09, C05, C15, C12); the model computes the "
    "rows, counts and mean absolute errors from Model/Axis `slices`; descriptor columns of the csv are not compared",
    "IEEE rounding: timeofday and unixtime_to_datenum are compared with rtol 1e-9, csv scores with rtol 1e-5 (the csv "
    "shows 6 significant digits), lead times lie on a decimal grid where int(l/24) is not affected by rounding",
]
ASSUMPTIONS = [
    "initialisation times are whole seconds (Data casts times to int) between 1900-01-01 and 2100-12-31 "
    "(theorems: 1970-2100 for the axes as the property says, 1900-2100 for the conversions)",
    "the day-of-year bucket is verif's leap-normalised ordinal (the ordinal that month/day has in a leap "
    "year, so that a calendar day has the same bucket in every year); it equals the ordinal within the "
    "date's own year in leap years and in Jan/Feb, and is one larger from March on in common years "
    "(theorem C11_dayofyear)",
    "lead-time day for a negative lead time: 'the whole number of 24 h periods' is read as the integer part of "
    "l/24 (the periods are counted backwards: -0.5 h -> 0, -24.5 h -> -1), which is what int() computes; the "
    "bucket 0 therefore holds -24 h < l < 24 h.  Under the other possible reading (the day in which the valid time "
    "falls, floor(l/24)) -0.5 h would be in bucket -1; C11_leadtimeday_vs_floor states the difference",
    "-tod h keeps the initialisation times at exactly h:00:00 (real-valued comparison of the time of day, as "
    "C03 assumes); -d keeps the init times whose UTC civil date is listed (theorem C11_subset_dates, 1900-2100, "
    "floor division as in /repo since d1f322f)",
    "datenum_to_date is claimed for date numbers that are not within a microsecond below a whole number "
    "(matplotlib rounds to microseconds)",
    "an empty slice (all its cases invalid) is returned by get_scores as [nan]: count 0, weight 0",
]
RULE = ("axis.bucket: every listed day x hours {0,1,6,12,23} (+23:59:59 on boundary days) for the 8 time "
        "axes, batched 100 instants per op; lead times {0,0.5,1,23,24,25,47.9,48,240,-0.5,-24,-24.5,-47.9} + random "
        "grid values of both signs (multiples of 24 h, 0.1 h before / after one); "
        "conv: the 6 util functions + 4 round trips on the same days; thorough = every day 1900-01-01…"
        "2100-12-31, quick = every 7th day + first/last day of every month + 28 Feb/29 Feb/1 Mar. "
        "axis.gen: the machine-translated Leadtimeday / Timeofday on the same lead times and on random instants. "
        "axis.slices: seeded random datasets (1-6 init times around year/month/leap-day/week boundaries 1968-2100 "
        "(a tenth before the unix epoch) at any hour, 1-4 lead times of either sign, 1-3 locations with possibly equal lat/lon/elev, random missing "
        "cases, sometimes a whole slice missing; built in memory or through a real text file, input order "
        "optionally reversed; a fifth of the datasets with a user subset of the init times: dates= / tods= / times= "
        "alone or combined, chosen from the dataset's own days / hours / times plus values that match nothing, "
        "sometimes removing every init time) x all 19 axes + the axis All (verif.axis.All, the default of get_scores: "
        "reply = shape and the whole 3-D array, NaN in place at the invalid cases; three fixed ops: no valid case at "
        "all, every case valid, a 1x1x1 dataset whose only case is invalid). "
        "Six fixed subset ops on init times on both sides of the unix epoch (1969-12-30 23:00 … 1970-01-02 06:00; -d on "
        "either side, -tod, -t) x 19 axes, and through the command line for time / day / timeofday / year. "
        "axis.cli: 24 (thorough 240) such datasets written as one or two text files (date+hour or unixtime column, "
        "the second file with its own missing forecasts, a third with -d / -tod / -t) and run through the real "
        "command line with -m obs -agg count and -m mae, -type csv, for the 8 calendar axes and (quick: half of) "
        "the other 8 data axes. An op is non-trivial if its reply has >= 2 distinct buckets / >= 2 slices / rows.")
EXHAUSTIVE = {"quick": False, "thorough": True}
EXHAUSTIVE_NOTE = ("thorough: the axis.bucket and conv streams enumerate every day 1900-01-01…2100-12-31 "
                   "(73 414 days) x 5 hours for all time-derived axes and all conversions; the slices and cli "
                   "streams are seeded-random in both tiers")
LEVEL_TEXT = ("Lean theorems: for any bucket function and any list of cases the slices of the distinct "
              "bucket values are a permutation of the pooled valid cases (induction over lists), counts add "
              "up, pooled mean = count-weighted mean of slice means (over Q); the model of "
              "_apply_axis/get_axis_values satisfies this for all 19 axes; for any subset of the initialisation "
              "times (-d / -tod / -t) and every axis the slices of the subset dataset are the slices of the full "
              "dataset restricted to the surviving cases, the calendar labels are exactly the buckets that still have "
              "a surviving init time, and the slices partition the surviving valid cases; the axis All (one slice "
              "with an entry for every case, NaN in place at the invalid ones: Model/AxisAll.lean, C11_all_axis) has as "
              "non-NaN entries exactly the pooled valid cases of axis no in the same row-major order, so every valid "
              "case lies in exactly one slice; calendar buckets are the "
              "first instants of the textbook civil year/month/Monday-week/day for every second 1970-2100; the "
              "lead-time day of every lead time of either sign is the integer part of l/24; the "
              "date/unixtime/datenum conversions are mutually inverse for every day 1900-2100 (kernel "
              "evaluation over all 73 414 days, lifted by arithmetic). The model is tied to /repo by an "
              "exhaustive differential correspondence over every day, a random dataset stream through "
              "the real Data class (with user subsets), a stream through the real command line (csv rows) and, for "
              "Leadtimeday / Timeofday, by machine translation of the source on every run.")
TECHNIQUE = ("Lean 4 proof over a hand-written model (two bucket functions machine-translated from the source); "
             "exhaustive differential correspondence + metamorphic / exact-recomputation oracle on the real code "
             "and the real command line")

TIME_AXES = ["year", "month", "week", "day", "timeofday", "dayofyear", "dayofmonth", "monthofyear"]
ALL_AXES = ["time", "leadtime", "leadtimeday", "location", "lat", "lon", "elev", "no", "year", "month",
            "week", "timeofday", "dayofyear", "day", "dayofmonth", "monthofyear", "obs", "fcst", "threshold",
            "all"]       # all = verif.axis.All(): the whole 3-D array, NaN in place (Model/AxisAll.lean), not a Kind
HOURS = [0, 1, 6, 12, 23]
LEADS = [0.0, 0.5, 1.0, 23.0, 24.0, 25.0, 47.9, 48.0, 240.0, -0.5, -24.0, -24.5, -47.9]
CLI_AXES = ["time", "leadtime", "leadtimeday", "location", "lat", "lon", "elev", "no", "year", "month",
            "week", "timeofday", "dayofyear", "day", "dayofmonth", "monthofyear"]
CONV_DATE = ["date_to_unixtime", "date_to_datenum", "rt_date_unix", "rt_date_datenum"]
CONV_UNIX = ["unixtime_to_date", "unixtime_to_datenum", "rt_unix_date", "rt_unix_datenum"]
BATCH = 100


# ------------------------------------------------------------------ textbook calendar (oracle)
def _leap(y):
    return (y % 4 == 0 and y % 100 != 0) or y % 400 == 0


def _dim(y, m):
    if m == 2:
        return 29 if _leap(y) else 28
    return 30 if m in (4, 6, 9, 11) else 31


Y0, Y1 = 1890, 2111
_YEAR_START = {}          # year -> epoch day (days since 1970-01-01) of 1 January
_k = 0
for _y in range(1970, Y1 + 1):
    _YEAR_START[_y] = _k
    _k += 366 if _leap(_y) else 365
_k = 0
for _y in range(1969, Y0 - 1, -1):
    _k -= 366 if _leap(_y) else 365
    _YEAR_START[_y] = _k
_YEARS = list(range(Y0, Y1 + 1))
_STARTS = [_YEAR_START[y] for y in _YEARS]


def epochday(y, m, d):
    k = _YEAR_START[y]
    for mm in range(1, m):
        k += _dim(y, mm)
    return k + d - 1


def civil(k):
    """epoch day -> (y, m, d) by table lookup and the month-length rhyme"""
    i = bisect.bisect_right(_STARTS, k) - 1
    y = _YEARS[i]
    r = k - _STARTS[i]
    m = 1
    while r >= _dim(y, m):
        r -= _dim(y, m)
        m += 1
    return y, m, r + 1


def ymd(k):
    y, m, d = civil(k)
    return y * 10000 + m * 100 + d


def weekday(k):
    return (3 + k) % 7     # 1970-01-01 was a Thursday; Monday = 0


def leap_ordinal(m, d):
    return sum(_dim(2000, mm) for mm in range(1, m)) + d


def expected_bucket(axis, t):
    """the documented bucket of unix time t (int), exact (Fraction for timeofday)"""
    k, s = divmod(t, 86400)
    y, m, d = civil(k)
    if axis == "year":
        return 86400 * epochday(y, 1, 1)
    if axis == "month":
        return 86400 * epochday(y, m, 1)
    if axis == "week":
        return 86400 * (k - weekday(k))
    if axis == "day":
        return 86400 * k
    if axis == "timeofday":
        return Fraction(s, 3600)
    if axis == "dayofyear":
        return leap_ordinal(m, d)
    if axis == "dayofmonth":
        return d
    if axis == "monthofyear":
        return m
    raise ValueError(axis)


def expected_lead(axis, l):
    if axis == "leadtime":
        return l
    q = Fraction(l) / 24
    return math.floor(q) if q >= 0 else math.ceil(q)


def expected_conv(fn, a):
    if fn in ("date_to_unixtime", "date_to_datenum"):
        k = epochday(a // 10000, a // 100 % 100, a % 100)
        return 86400 * k if fn == "date_to_unixtime" else k
    if fn == "unixtime_to_date":
        return ymd(a // 86400)
    if fn == "unixtime_to_datenum":
        return Fraction(a, 86400)
    if fn == "datenum_to_date":
        return ymd(math.floor(a))
    if fn in ("rt_date_unix", "rt_date_datenum"):
        return a
    if fn == "rt_unix_date":
        return 86400 * (a // 86400)      # = a for day-aligned a
    if fn == "rt_unix_datenum":
        return ymd(a // 86400)
    raise ValueError(fn)


# ------------------------------------------------------------------ generators
K_LO, K_HI = epochday(1900, 1, 1), epochday(2100, 12, 31)


def _boundary_days():
    out = set()
    for y in range(1900, 2101):
        for m in range(1, 13):
            out.add(epochday(y, m, 1))
            out.add(epochday(y, m, _dim(y, m)))
        out.add(epochday(y, 2, 28))
        out.add(epochday(y, 3, 1))
    return out


def _chunks(xs, n):
    for i in range(0, len(xs), n):
        yield xs[i:i + n]


def gen_ops(tier, rng):
    bnd = _boundary_days()
    if tier == "thorough":
        days = list(range(K_LO, K_HI + 1))
    else:
        days = sorted(set(range(K_LO, K_HI + 1, 7)) | bnd)
    # 1970-2100 first (the range the property quantifies over for initialisation times), then 1900-1969
    days = [k for k in days if k >= 0] + [k for k in days if k < 0]
    # ---- (a) buckets
    per = BATCH // len(HOURS)
    for ch in _chunks(days, per):
        ts = [86400 * k + 3600 * h for k in ch for h in HOURS]
        ts += [86400 * k + 86399 for k in ch if k in bnd and k % 3 == 0]
        ts.sort()
        line = ",".join(str(t) for t in ts)
        for ax in TIME_AXES:
            yield "axis.bucket", "bucket %s %s" % (ax, line)
        for fn in CONV_UNIX:
            yield "axis.conv", "conv %s %s" % (fn, line)
    for ch in _chunks(days, BATCH):
        dates = ",".join(str(ymd(k)) for k in ch)
        for fn in CONV_DATE:
            yield "axis.conv", "conv %s %s" % (fn, dates)
        yield "axis.conv", "conv datenum_to_date %s" % ",".join(
            xr(k + f) for k in ch[::2] for f in (0, 0.25, 0.5, 0.9990234375))
        pairs = []
        for k in ch:
            diff = rng.choice([0, 1, -1, 7, 28, 29, 30, 31, 59, 60, 365, 366, -365, -366,
                               rng.randint(-800, 800)])
            if K_LO <= k + diff <= K_HI:
                pairs.append("%d:%d" % (ymd(k), diff))
        if pairs:
            yield "axis.conv", "conv get_date %s" % ",".join(pairs)
    # random seconds of the day
    n = 40 if tier == "quick" else 400
    for _ in range(n):
        ts = [86400 * rng.randint(K_LO, K_HI) + rng.randint(0, 86399) for _ in range(BATCH)]
        line = ",".join(str(t) for t in ts)
        for ax in TIME_AXES:
            yield "axis.bucket.random", "bucket %s %s" % (ax, line)
        yield "axis.conv", "conv unixtime_to_date %s" % line
    # lead times
    yield "axis.bucket", "bucket leadtimeday %s" % ",".join(xr(l) for l in LEADS)
    yield "axis.bucket", "bucket leadtime %s" % ",".join(xr(l) for l in LEADS)
    for _ in range(20 if tier == "quick" else 200):
        ls = [rng.choice([rng.randint(0, 400), rng.randint(0, 4000) / 10.0, 24.0 * rng.randint(0, 20),
                          24.0 * rng.randint(1, 20) - 0.1, rng.randint(0, 960) / 4.0,
                          -rng.randint(0, 960) / 4.0, -24.0 * rng.randint(0, 20), 0.1 - 24.0 * rng.randint(1, 20),
                          -0.1 - 24.0 * rng.randint(0, 20)])
              for _ in range(20)]
        yield "axis.bucket.random", "bucket leadtimeday %s" % ",".join(xr(l) for l in ls)
        yield "axis.gen", "genbucket leadtimeday %s" % ",".join(xr(l) for l in ls)
    # the machine-translated Leadtimeday / Timeofday (Gen/Axis.lean) executed against the real functions
    yield "axis.gen", "genbucket leadtimeday %s" % ",".join(xr(l) for l in LEADS)
    for _ in range(10 if tier == "quick" else 100):
        ts = [86400 * rng.randint(K_LO, K_HI) + rng.choice([0, 1, 3599, 3600, 21600, 43200, 86399,
                                                            rng.randint(0, 86399)]) for _ in range(BATCH)]
        yield "axis.gen", "genbucket timeofday %s" % ",".join(str(t) for t in ts)
    # ---- (b) slices
    # fixed: init times on both sides of the unix epoch (1969-12-30 23:00, 1969-12-31 23:00, 1970-01-01 00:00 and
    # 01:00, 1970-01-02 06:00) with -d on either side, -tod and -t
    fixed = "-90000,-3600,0,3600,108000 0,24 7:60:10:5;9:61:10:0 11111011111111011111 %s"
    subs = ["d=19691231", "d=19700101", "d=19691230,19700102", "tod=23", "d=19691231;tod=23", "t=-3600,0"]
    # axis all with no valid case at all (get_scores must still hand back the whole array, all NaN) and with all valid
    for mask0 in ("0" * 20, "1" * 20):
        yield "axis.slices", "slices all -90000,-3600,0,3600,108000 0,24 7:60:10:5;9:61:10:0 %s %s" % (
            mask0, rng.choice(["mem", "memrev", "text"]))
    yield "axis.slices", "slices all 0 0 7:60:10:5 0 mem"
    for sub in subs:
        for ax in ALL_AXES:
            yield "axis.slices", "slices %s %s %s" % (ax, fixed % rng.choice(["mem", "memrev", "text"]), sub)
        for ax in ("time", "day", "timeofday", "year"):
            for metric in ("count", "mae"):
                yield "axis.cli", "slicescli %s %s %s %s -" % (ax, metric, fixed % "text", sub)
    n = 60 if tier == "quick" else 600
    for i in range(n):
        ds = _random_dataset(rng, i)
        for ax in ALL_AXES:
            yield "axis.slices", "slices %s %s" % (ax, ds)
    # ---- (c) the same through the command line: verif f [g] -m obs -agg count | -m mae  -x <axis> -type csv
    n = 24 if tier == "quick" else 240
    for i in range(n):
        ds = _random_dataset(rng, i, cli=True)
        for j, ax in enumerate(CLI_AXES):
            if tier == "quick" and ax not in TIME_AXES and (i + j) % 2:
                continue          # quick: every calendar axis, half of the others, per dataset
            for metric in ("count", "mae"):
                yield "axis.cli", "slicescli %s %s %s" % (ax, metric, ds)


_ANCHORS = None


def _anchors():
    global _ANCHORS
    if _ANCHORS is None:
        a = []
        for y in (1970, 1971, 1972, 1999, 2000, 2001, 2024, 2038, 2096, 2099, 2100):
            a.append(epochday(y, 1, 1))
            a.append(epochday(y, 3, 1))
            a.append(epochday(y, 12, 31))
            a.append(epochday(y, 2, 28))
            for m in (4, 7, 10):
                a.append(epochday(y, m, 1))
        for md in ((1, 1), (2, 28), (3, 1), (7, 1), (10, 1), (12, 31)):       # before the unix epoch: negative unix times
            a.append(epochday(1969, *md))
        a.append(epochday(1968, 2, 29))
        a.append(epochday(1968, 12, 31))
        _ANCHORS = [k for k in a if -800 <= k <= K_HI - 40]
    return _ANCHORS


def _random_subset(rng, times, allow_empty):
    """a user subset of the initialisation times (`-d`, `-tod`, `-t`, alone or combined) that removes some of them:
    `d=YYYYMMDD,..;tod=h,..;t=unixtime,..`"""
    for _ in range(20):
        parts = []
        kinds = rng.choice([["d"], ["tod"], ["t"], ["d"], ["tod"], ["d", "tod"], ["t", "tod"], ["d", "t"],
                            ["d", "tod", "t"]])
        for k in kinds:
            some = rng.sample(times, rng.randint(1, min(3, len(times))))
            if k == "d":
                ds = sorted(set(ymd(t // 86400) for t in some) | ({19991231} if rng.random() < 0.3 else set()))
                if rng.random() < 0.5:
                    rng.shuffle(ds)            # the order in which dates are typed is irrelevant (seeded change C11g)
                parts.append("d=" + ",".join(str(d) for d in ds))
            elif k == "tod":
                hs = sorted(set((t % 86400) // 3600 for t in some) | ({rng.randint(0, 23)} if rng.random() < 0.3
                                                                       else set()))
                parts.append("tod=" + ",".join(str(h) for h in hs))
            else:
                ts = sorted(set(some) | ({times[0] + 1} if rng.random() < 0.3 else set()))
                if rng.random() < 0.5:
                    rng.shuffle(ts)
                parts.append("t=" + ",".join(str(t) for t in ts))
        sub = ";".join(parts)
        kept = [t for t in times if _survives(t, _parse_subset(sub))]
        by_t = [t for t in times if _survives(t, {"t": _parse_subset(sub).get("t")})]
        if not by_t:
            continue                # `-t` leaving nothing is an error exit (C03's subject)
        if kept or (allow_empty and rng.random() < 0.5):
            return sub
    return "-"


def _random_dataset(rng, i, cli=False):
    anchor = rng.choice(_anchors())
    T = rng.randint(1, 6)
    how = rng.choice(["mem", "mem", "memrev", "text", "textdate"])
    if cli:
        how = rng.choice(["text", "textdate"])
    times = set()
    while len(times) < T:
        k = anchor + rng.choice([-8, -7, -3, -2, -1, 0, 0, 1, 2, 6, 7, 8, 30, 31, 365, 366])
        k = max(K_LO, min(K_HI, k))
        if how == "textdate" or rng.random() < 0.8:
            s = 3600 * rng.choice([0, 0, 6, 12, 18, 23, rng.randint(0, 23)])
        else:
            s = rng.randint(0, 86399)
        times.add(86400 * k + s)
    times = sorted(times)
    L = rng.randint(1, 4)
    leads = sorted(set(rng.choice(LEADS + [3.0, 6.0, 12.0, 36.0, 72.0, 23.9]) for _ in range(L)))
    S = rng.randint(1, 3)
    ids = sorted(rng.sample(range(1, 40), S))
    locs = []
    for j in ids:
        lat = rng.choice([60.0, 60.0, 61.5, -33.25])
        lon = rng.choice([10.0, 10.0, 11.25, -120.5])
        elev = rng.choice([0.0, 5.0, 5.0, 1200.0])
        locs.append("%s:%s:%s:%s" % (xr(j), xr(lat), xr(lon), xr(elev)))
    n = len(times) * len(leads) * S
    p = rng.choice([1.0, 0.9, 0.7, 0.4])
    mask = [1 if rng.random() < p else 0 for _ in range(n)]
    r = rng.random()
    LS = len(leads) * S
    if r < 0.15 and len(times) > 1:        # a whole init time missing
        t = rng.randrange(len(times))
        for q in range(LS):
            mask[t * LS + q] = 0
    elif r < 0.25 and S > 1:               # a whole location missing
        s = rng.randrange(S)
        for q in range(s, n, S):
            mask[q] = 0
    elif r < 0.3:
        mask = [0] * n                     # nothing valid at all
    ds = "%s %s %s %s %s" % (",".join(str(t) for t in times), ",".join(xr(l) for l in leads),
                             ";".join(locs), "".join(str(b) for b in mask), how)
    # a user subset of the init times in a fifth of the datasets (a third on the command line)
    sub = "-"
    if rng.random() < (0.34 if cli else 0.2):
        sub = _random_subset(rng, times, allow_empty=not cli)
    if cli:
        mask2 = "-"
        if rng.random() < 0.4:             # a second file with its own missing forecasts
            mask2 = "".join("1" if rng.random() < 0.85 else "0" for _ in range(n))
        return "%s %s %s" % (ds, sub, mask2)
    return ds if sub == "-" else ds + " " + sub


def _parse_subset(sub):
    out = {}
    if sub != "-":
        for part in sub.split(";"):
            k, v = part.split("=")
            out[k] = [int(x) for x in v.split(",")]
    return out


def _survives(t, sub):
    """does init time t (unix, whole seconds) pass the user's subset? (oracle: textbook calendar; `-tod h` keeps
    the init times at h:00:00, the reading of C03)"""
    k, sec = divmod(t, 86400)
    if sub.get("d") is not None and ymd(k) not in sub["d"]:
        return False
    if sub.get("tod") is not None and not any(sec == 3600 * h for h in sub["tod"]):
        return False
    if sub.get("t") is not None and t not in sub["t"]:
        return False
    return True


# ------------------------------------------------------------------ implementation side
def _axis(name):
    import verif.axis
    return verif.axis.get(name)


def _fmt(v):
    return ",".join(xr(x) for x in v) if len(v) else "-"


def _conv_impl(fn, a):
    import verif.util as u
    if fn == "rt_date_unix":
        return u.unixtime_to_date(u.date_to_unixtime(a))
    if fn == "rt_unix_date":
        return u.date_to_unixtime(u.unixtime_to_date(a))
    if fn == "rt_date_datenum":
        return u.datenum_to_date(u.date_to_datenum(a))
    if fn == "rt_unix_datenum":
        return u.datenum_to_date(u.unixtime_to_datenum(a))
    return getattr(u, fn)(a)


_DATA_CACHE = {}
_TMP = []
_N = [0]


def _tmpdir():
    if not _TMP:
        d = tempfile.mkdtemp(prefix="c11_")
        _TMP.append(d)
        import atexit
        atexit.register(shutil.rmtree, d, True)
    return _TMP[0]


def _parse_dataset(a):
    times = [int(t) for t in a[2].split(",")]
    leads = [from_xr(l) for l in a[3].split(",")]
    locs = [tuple(from_xr(x) for x in l.split(":")) for l in a[4].split(";")]
    mask = [c == "1" for c in a[5]]
    return times, leads, locs, mask, a[6]


def _subset_of(a):
    """the user subset of a slices-op (optional 8th token)"""
    return _parse_subset(a[7]) if len(a) > 7 else {}


def _subset_kwargs(sub):
    kw = {}
    if sub.get("d") is not None:
        kw["dates"] = list(sub["d"])
    if sub.get("tod") is not None:
        kw["tods"] = list(sub["tod"])
    if sub.get("t") is not None:
        kw["times"] = [float(t) for t in sub["t"]]      # as verif.util.parse_numbers returns them
    return kw


def _offset(q):
    return float((7 * q) % 5 - 2) + (0.5 if q % 3 == 0 else 0.0)


def _offset2(q):
    """forecast error of the second file of a slicescli-op"""
    return 0.25 - _offset(q)


def _write_text(path, times, leads, locs, obs, fcst, how):
    T, L, S = len(times), len(leads), len(locs)
    rows = []
    for t in range(T):
        for l in range(L):
            for s in range(S):
                q = (t * L + l) * S + s
                o = "-999" if np.isnan(obs[t, l, s]) else repr(float(obs[t, l, s]))
                f = "-999" if np.isnan(fcst[t, l, s]) else repr(float(fcst[t, l, s]))
                loc = "%d %r %r %r" % (locs[s][0], locs[s][1], locs[s][2], locs[s][3])
                if how == "textdate":
                    tcol = "%d %d" % (ymd(times[t] // 86400), (times[t] % 86400) // 3600)
                else:
                    tcol = "%d" % times[t]
                rows.append(((q * 7919) % 1009, "%s %r %s %s %s" % (tcol, leads[l], loc, o, f)))
    rows.sort()   # file order is irrelevant (deterministic shuffle)
    with open(path, "w") as f:
        f.write("# variable: x\n# units: u\n")
        f.write(("date hour" if how == "textdate" else "unixtime") +
                " leadtime location lat lon elev obs fcst\n")
        for _, r in rows:
            f.write(r + "\n")


def _arrays(times, leads, locs, mask):
    T, L, S = len(times), len(leads), len(locs)
    obs = np.zeros([T, L, S])
    fcst = np.zeros([T, L, S])
    for t in range(T):
        for l in range(L):
            for s in range(S):
                q = (t * L + l) * S + s
                obs[t, l, s] = q
                fcst[t, l, s] = q + _offset(q)
                if not mask[q]:
                    if q % 2 == 0:
                        obs[t, l, s] = np.nan
                    else:
                        fcst[t, l, s] = np.nan
    return obs, fcst


def _build_data(a):
    """the real verif.data.Data for the dataset of a slices-op (cached per dataset)"""
    key = " ".join(a[2:])
    if key in _DATA_CACHE:
        return _DATA_CACHE[key]
    import verif.data
    import verif.input
    import verif.location
    import verif.variable
    times, leads, locs, mask, how = _parse_dataset(a)
    T, L, S = len(times), len(leads), len(locs)
    obs, fcst = _arrays(times, leads, locs, mask)
    if how in ("mem", "memrev"):
        class MemInput(verif.input.Input):
            pass
        inp = MemInput()
        order_t, order_l, order_s = list(range(T)), list(range(L)), list(range(S))
        if how == "memrev":
            order_t.reverse()
            order_l.reverse()
            order_s.reverse()
        inp.fullname = "mem"
        inp.times = np.array([times[i] for i in order_t], float)
        inp.leadtimes = np.array([leads[i] for i in order_l], float)
        inp.locations = [verif.location.Location(*locs[i]) for i in order_s]
        inp.obs = obs[order_t][:, order_l][:, :, order_s]
        inp.fcst = fcst[order_t][:, order_l][:, :, order_s]
        inp.pit = None
        inp.ensemble = None
        inp.thresholds = np.array([])
        inp.quantiles = np.array([])
        inp.other_fields = []
        inp.variable = verif.variable.Variable("x", "u")
    else:
        _N[0] += 1
        path = os.path.join(_tmpdir(), "d%d.txt" % _N[0])
        _write_text(path, times, leads, locs, obs, fcst, how)
        inp = verif.input.Text(path)
    data = verif.data.Data([inp], **_subset_kwargs(_subset_of(a)))
    if len(_DATA_CACHE) > 50:
        _DATA_CACHE.clear()
    _DATA_CACHE[key] = data
    return data


def _slices_real(data, axis):
    import verif.field
    n = data.get_axis_size(axis)
    out = []
    for i in range(n):
        obs, fcst = data.get_scores([verif.field.Obs(), verif.field.Fcst()], 0, axis, i)
        out.append((np.array(obs), np.array(fcst)))
    return out


def impl(op):
    a = op.split(" ")
    if a[0] == "bucket":
        ax = _axis(a[1])
        if hasattr(ax, "compute_from_times"):
            ts = np.array([int(t) for t in a[2].split(",")], int)
            return _fmt(ax.compute_from_times(ts))
        ls = np.array([from_xr(l) for l in a[2].split(",")], float)
        return _fmt(ax.compute_from_leadtimes(ls))
    if a[0] == "conv":
        import verif.util as u
        if a[1] == "get_date":
            out = []
            for p in a[2].split(","):
                d, k = p.split(":")
                out.append(u.get_date(int(d), int(k)))
            return ",".join(str(x) for x in out)
        if a[1] == "datenum_to_date":
            return ",".join(str(u.datenum_to_date(from_xr(x))) for x in a[2].split(","))
        return ",".join(xr(_conv_impl(a[1], int(x))) for x in a[2].split(","))
    if a[0] == "slices":
        data = _build_data(a)
        axis = _axis(a[1])
        if a[1] == "all":
            import verif.field
            obs, _ = data.get_scores([verif.field.Obs(), verif.field.Fcst()], 0, axis)
            obs = np.asarray(obs)
            if obs.shape == (1,) and np.isnan(obs[0]):
                return "nan"
            return ",".join(str(k) for k in obs.shape) + "|" + ",".join(xr(x) for x in obs.flatten())
        labels = data.get_axis_values(axis)
        sl = []
        for obs, _ in _slices_real(data, axis):
            if len(obs) == 1 and np.isnan(obs[0]):
                sl.append("nan")
            else:
                sl.append(",".join(xr(x) for x in obs))
        return _fmt(list(labels)) + "|" + ";".join(sl)
    if a[0] == "genbucket":
        ax = _axis(a[1])
        if a[1] == "timeofday":
            return _fmt(ax.compute_from_times(np.array([int(t) for t in a[2].split(",")], int)))
        return _fmt(ax.compute_from_leadtimes(np.array([from_xr(l) for l in a[2].split(",")], float)))
    if a[0] == "slicescli":
        return _cli_reply(_cli_run(a, a[1]))
    raise ValueError(op)


# ------------------------------------------------------------------ the command line
_CLI_FILES = {}
_CLI_MEMO = {}
_ANSI = "\x1b["


def _cli_files(a):
    """the text file(s) of a slicescli-op: slicescli <axis> <metric> <times> <leads> <locs> <mask> <how> <sub> <mask2>"""
    key = " ".join(a[3:8] + [a[9]])
    if key in _CLI_FILES:
        return _CLI_FILES[key]
    times, leads, locs, mask, how = _parse_dataset(a[1:])
    obs, fcst = _arrays(times, leads, locs, mask)
    _N[0] += 1
    paths = [os.path.join(_tmpdir(), "c%da.txt" % _N[0])]
    _write_text(paths[0], times, leads, locs, obs, fcst, how)
    if a[9] != "-":
        T, L, S = len(times), len(leads), len(locs)
        fcst2 = np.zeros([T, L, S])
        for t in range(T):
            for l in range(L):
                for s in range(S):
                    q = (t * L + l) * S + s
                    fcst2[t, l, s] = q + _offset2(q) if a[9][q] == "1" else np.nan
        paths.append(os.path.join(_tmpdir(), "c%db.txt" % _N[0]))
        _write_text(paths[1], times, leads, locs, obs, fcst2, how)
    if len(_CLI_FILES) > 50:
        _CLI_FILES.clear()
    _CLI_FILES[key] = paths
    return paths


def _cli_argv(a, axis):
    argv = ["verif"] + _cli_files(a)
    argv += ["-m", "obs", "-agg", "count"] if a[2] == "count" else ["-m", "mae"]
    argv += ["-x", axis, "-type", "csv"]
    sub = _parse_subset(a[8])
    for k, flag in (("d", "-d"), ("tod", "-tod"), ("t", "-t")):
        if sub.get(k) is not None:
            argv += [flag, ",".join(str(x) for x in sub[k])]
    return argv


def _cli_run(a, axis):
    """run the real command line in-process; -> (status, number of rows, one score column per file) with the scores
    as the csv shows them (strings)"""
    import contextlib
    import io
    import warnings
    import verif.driver
    argv = _cli_argv(a, axis)
    key = " ".join(argv[1:])
    if key in _CLI_MEMO:
        return _CLI_MEMO[key]
    buf = io.StringIO()
    status = "ok"
    try:
        with contextlib.redirect_stdout(buf), contextlib.redirect_stderr(io.StringIO()), \
                np.errstate(all="ignore"), warnings.catch_warnings():
            warnings.simplefilter("ignore")
            verif.driver.run(argv)
    except SystemExit:
        status = "ERR"
    lines = [l for l in buf.getvalue().split("\n") if l.strip() and not l.startswith(_ANSI)]
    nf = len(_cli_files(a))
    cols = [[] for _ in range(nf)]
    if status == "ok":
        if not lines or len(lines[0].split(",")) <= nf:
            status = "BADCSV"
        else:
            for l in lines[1:]:
                c = l.split(",")
                if len(c) != len(lines[0].split(",")):
                    status = "BADCSV"
                    break
                for f in range(nf):
                    cols[f].append(c[len(c) - nf + f])
    res = (status, max(0, len(lines) - 1), cols)
    if len(_CLI_MEMO) > 400:
        _CLI_MEMO.clear()
    _CLI_MEMO[key] = res
    return res


def _cli_reply(res):
    status, nrows, cols = res
    if status != "ok":
        return status
    return "%d|%s" % (nrows, "|".join(",".join(xr(float(v)) for v in c) if c else "-" for c in cols))


def cmp(op, impl_out, model_out):
    a = op.split(" ")
    if (a[0] in ("bucket", "slices") and a[1] == "timeofday") or \
            (a[0] == "conv" and a[1] == "unixtime_to_datenum"):
        return tokens_close(impl_out.replace("|", ";"), model_out.replace("|", ";"))
    if a[0] == "genbucket" and a[1] == "timeofday":
        return tokens_close(impl_out, model_out)
    if a[0] == "slicescli" and a[2] == "mae":
        # the csv shows 6 significant digits
        return tokens_close(impl_out.replace("|", ";"), model_out.replace("|", ";"), 1e-5, 0)
    return impl_out == model_out


def spec_op(op):
    """the textbook calendar of the Lean Spec (iterating 'the day after' from 1970-01-01) as a second
    oracle for unixtime_to_date on instants from 1970 on"""
    a = op.split(" ")
    if a[0] == "conv" and a[1] == "unixtime_to_date":
        ts = [int(t) for t in a[2].split(",")]
        if ts and min(ts) >= 0 and ts == sorted(ts):
            return "spec_dates %s" % ",".join(str(t // 86400) for t in ts)
    return None


# ------------------------------------------------------------------ the oracle
def _first_diff(got, want, close=False):
    for i, (g, w) in enumerate(zip(got, want)):
        if close:
            ok = num_close(from_xr(g), float(w), 1e-9, 1e-12)
        else:
            ok = (g == xr(w))
        if not ok:
            return i
    if len(got) != len(want):
        return min(len(got), len(want))
    return None


def judge(op, impl_out, spec_out):
    a = op.split(" ")
    if impl_out.startswith("EXC:") or impl_out.startswith("EXIT:") or impl_out == "ERR":
        return ({"kind": "exception", "op": a[0], "what": a[1]}, "%s %s raised %s" % (a[0], a[1], impl_out))
    if a[0] == "bucket":
        got = impl_out.split(",")
        args = a[2].split(",")
        if a[1] in TIME_AXES:
            want = [expected_bucket(a[1], int(t)) for t in args]
        else:
            want = [expected_lead(a[1], from_xr(l)) for l in args]
        i = _first_diff(got, want, close=(a[1] == "timeofday"))
        if i is not None:
            return ({"kind": "bucket", "axis": a[1]},
                    "axis %s: input %s is put in bucket %s, the calendar says %s" %
                    (a[1], args[i] if i < len(args) else None, got[i] if i < len(got) else None,
                     xr(want[i]) if i < len(want) else None))
        return None
    if a[0] == "conv":
        got = impl_out.split(",")
        args = a[2].split(",")
        if a[1] == "get_date":
            want = []
            for p in args:
                d, k = p.split(":")
                want.append(ymd(epochday(int(d) // 10000, int(d) // 100 % 100, int(d) % 100) + int(k)))
        elif a[1] == "datenum_to_date":
            want = [expected_conv(a[1], Fraction(x)) for x in args]
        else:
            want = [expected_conv(a[1], int(x)) for x in args]
        i = _first_diff(got, want, close=(a[1] == "unixtime_to_datenum"))
        if i is not None:
            return ({"kind": "conv", "fn": a[1]},
                    "%s(%s) = %s, expected %s" % (a[1], args[i] if i < len(args) else None,
                                                  got[i] if i < len(got) else None,
                                                  xr(want[i]) if i < len(want) else None))
        if spec_out is not None and not spec_out.startswith("ERR"):
            sd = [s.split(":")[0] for s in spec_out.split(",")]
            for i, (g, w) in enumerate(zip(got, sd)):
                if g != w:
                    return ({"kind": "conv", "fn": a[1], "oracle": "lean-spec"},
                            "%s(%s) = %s, the textbook calendar (Lean Spec) says %s" % (a[1], args[i], g, w))
        return None
    if a[0] == "slices":
        return _judge_slices(a, impl_out)
    if a[0] == "slicescli":
        return _judge_cli(a, impl_out)
    if a[0] == "genbucket":
        args = a[2].split(",")
        if a[1] == "timeofday":
            want = [expected_bucket(a[1], int(t)) for t in args]
        else:
            want = [expected_lead(a[1], from_xr(l)) for l in args]
        i = _first_diff(impl_out.split(","), want, close=(a[1] == "timeofday"))
        if i is not None:
            return ({"kind": "bucket", "axis": a[1]}, "axis %s: input %s is put in bucket %s, expected %s" %
                    (a[1], args[i], impl_out.split(",")[i], xr(want[i])))
    return None


def _bucket_of_case(axname, q, times, leads, locs):
    T, L, S = len(times), len(leads), len(locs)
    t, l, s = q // (L * S), (q // S) % L, q % S
    if axname == "time":
        return ("t", t)
    if axname in TIME_AXES:
        return ("v", expected_bucket(axname, times[t]))
    if axname in ("leadtime", "leadtimeday"):
        return ("v", expected_lead(axname, leads[l]))
    if axname in ("location", "lat", "lon", "elev"):
        return ("s", s)
    return ("all", 0)


def _judge_slices(a, impl_out):
    import verif.axis
    import verif.metric
    axname = a[1]
    sig = {"kind": "slices", "axis": axname}
    times, leads, locs, mask, how = _parse_dataset(a)
    T, L, S = len(times), len(leads), len(locs)
    n = T * L * S
    # the cases that survive the user's subset of the init times (-d / -tod / -t), by the textbook calendar
    sub = _subset_of(a)
    kept_t = [t for t in range(T) if _survives(times[t], sub)]
    alive = [q for q in range(n) if q // (L * S) in kept_t]
    if sub:
        sig["subset"] = "+".join(sorted(sub))
    mask = [mask[q] and (q // (L * S) in kept_t) for q in range(n)]
    valid = [q for q in range(n) if mask[q]]
    if axname == "all":
        return _judge_all(a, impl_out, sig, kept_t, alive, mask, valid, L, S)
    labels_s, slices_s = impl_out.split("|")
    labels = [] if labels_s == "-" else labels_s.split(",")
    slices = []
    for s in (slices_s.split(";") if slices_s else []):
        slices.append([] if s == "nan" else [int(x) for x in s.split(",")])
    if len(labels) != len(slices):
        return (sig, "axis %s: %d labels but %d slices" % (axname, len(labels), len(slices)))
    # (1) partition: every valid case in exactly one slice, nothing else anywhere
    seen = {}
    for j, sl in enumerate(slices):
        for q in sl:
            if q in seen:
                return (sig, "axis %s: case %d occurs in slice %d and in slice %d" % (axname, q, seen[q], j))
            seen[q] = j
    missing = [q for q in valid if q not in seen]
    extra = [q for q in seen if not mask[q]]
    dropped = [q for q in seen if q not in alive]
    if dropped:
        q = dropped[0]
        return (sig, "axis %s: case %d (time %d) is in slice %d although the subset %s removes its init time" %
                (axname, q, times[q // (L * S)], seen[q], a[7]))
    if missing:
        q = missing[0]
        return (sig, "axis %s: valid case %d (time %d, leadtime %s, location %s) is in no slice" %
                (axname, q, times[q // (L * S)], xr(leads[(q // S) % L]), xr(locs[q % S][0])))
    if extra:
        return (sig, "axis %s: invalid case %d appears in slice %d" % (axname, extra[0], seen[extra[0]]))
    # (2) buckets: all cases of a slice share the documented bucket, different slices differ, label right
    kinds = {}
    for j, sl in enumerate(slices):
        bs = set(_bucket_of_case(axname, q, times, leads, locs) for q in sl)
        if len(bs) > 1:
            return (sig, "axis %s: slice %d mixes buckets %s" % (axname, j, sorted(map(str, bs))))
        for b in bs:
            if b in kinds:
                return (sig, "axis %s: bucket %s is split over slices %d and %d" % (axname, b, kinds[b], j))
            kinds[b] = j
            if b[0] == "v" and from_xr(labels[j]) != float(b[1]) and \
                    not num_close(from_xr(labels[j]), float(b[1]), 1e-12, 0):
                return (sig, "axis %s: slice %d is labelled %s but holds bucket %s" %
                        (axname, j, labels[j], xr(b[1])))
    if axname in TIME_AXES or axname in ("leadtime", "leadtimeday"):
        # calendar buckets of the surviving init times; lead-time buckets do not depend on the init times
        want = sorted(set(_bucket_of_case(axname, q, times, leads, locs)[1]
                          for q in (alive if axname in TIME_AXES else range(n))))
        if len(want) != len(labels) or any(not num_close(from_xr(g), float(w), 1e-12, 0)
                                           for g, w in zip(labels, want)):
            return (sig, "axis %s: labels %s, expected the distinct buckets %s" %
                    (axname, labels_s, ",".join(xr(w) for w in want)))
    elif axname == "time":
        if labels != [str(times[t]) for t in kept_t]:
            return (sig, "axis time: labels %s, expected %s" % (labels_s, [times[t] for t in kept_t]))
    elif axname in ("location", "lat", "lon", "elev"):
        col = {"location": 0, "lat": 1, "lon": 2, "elev": 3}[axname]
        want = [xr(l[col]) for l in locs]
        if labels != want:
            return (sig, "axis %s: labels %s, expected one per location: %s" % (axname, labels_s, want))
    elif len(labels) != 1:
        return (sig, "axis %s pools all cases but has %d slices" % (axname, len(labels)))
    # (3) the real code again: pooled request, counts and mean-aggregated scores
    data = _build_data(a)
    pooled = _slices_real(data, verif.axis.No())
    pobs, pfc = pooled[0]
    pcount = int(np.sum(~np.isnan(pobs)))
    if pcount != len(valid):
        return ({"kind": "slices", "axis": "no"}, "pooled request returns %d cases, %d are valid" %
                (pcount, len(valid)))
    real = _slices_real(data, verif.axis.get(axname))
    counts = [int(np.sum(~np.isnan(o))) for o, _ in real]
    if sum(counts) != pcount:
        return (sig, "axis %s: slice counts %s add up to %d, pooled count is %d" %
                (axname, counts, sum(counts), pcount))
    if pcount > 0:
        import verif.interval
        everything = verif.interval.Interval(-np.inf, np.inf, True, True)
        for metric in (verif.metric.Mae(), verif.metric.Bias()):
            ps = metric.compute(data, 0, verif.axis.No(), everything)[0]
            ss = metric.compute(data, 0, verif.axis.get(axname), everything)
            if len(ss) != len(counts):
                return (sig, "axis %s: %d scores for %d slices" % (axname, len(ss), len(counts)))
            tot = sum(Fraction(c) * Fraction(float(s)) for c, s in zip(counts, ss) if c > 0)
            wm = tot / pcount
            if not num_close(float(wm), float(ps), 1e-9, 1e-12):
                return (sig, "axis %s: count-weighted mean of slice %s = %s, pooled %s = %s" %
                        (axname, metric.name, xr(float(wm)), metric.name, xr(ps)))
            for c, s in zip(counts, ss):
                if c == 0 and not np.isnan(s):
                    return (sig, "axis %s: empty slice has score %s" % (axname, xr(s)))
    return None


def _judge_all(a, impl_out, sig, kept_t, alive, mask, valid, L, S):
    """axis All (the default axis of get_scores): ONE array with an entry for every surviving case in row-major order,
    the case where it is valid and NaN in place where it is not; its non-NaN entries are the pooled request (-x no)"""
    import verif.axis
    if impl_out.startswith("EXC:") or impl_out.startswith("EXIT:") or impl_out == "ERR":
        return (sig, "axis all: get_scores ended in %s" % impl_out)
    if not kept_t:
        # no initialisation time left: the documented reply of get_scores is a single NaN
        return None if impl_out == "nan" else (sig, "axis all: no init time survives, reply %s (expected one NaN)" % impl_out[:60])
    want_shape = "%d,%d,%d" % (len(kept_t), L, S)
    if "|" not in impl_out:
        return (sig, "axis all: reply %s, expected the whole array of shape %s (%d of its cases are valid)" %
                (impl_out[:60], want_shape, len(valid)))
    shape_s, vals_s = impl_out.split("|")
    if shape_s != want_shape:
        return (sig, "axis all: array of shape %s, expected %s (times that survive the subset, lead times, locations)" %
                (shape_s, want_shape))
    got = vals_s.split(",") if vals_s else []
    want = [str(q) if mask[q] else "nan" for q in alive]
    d = _first_diff(got, want)
    if d is not None:
        i = d if isinstance(d, int) else 0
        if len(got) != len(want):
            return (sig, "axis all: %d entries, expected %d" % (len(got), len(want)))
        i = next(j for j in range(len(want)) if got[j] != want[j])
        q = alive[i]
        return (sig, "axis all: entry %d (case %d, %s) is %s, expected %s" %
                (i, q, "valid" if mask[q] else "invalid", got[i], want[i]))
    # the real code again: the non-NaN entries in order = the pooled request (C11_all_axis on the implementation)
    data = _build_data(a)
    pobs, _ = _slices_real(data, verif.axis.No())[0]
    pooled = [xr(x) for x in pobs if not np.isnan(x)]
    mine = [g for g in got if g != "nan"]
    if pooled != mine:
        return (sig, "axis all: its non-NaN entries %s differ from the pooled request (-x no) %s" %
                (",".join(mine[:12]), ",".join(pooled[:12])))
    return None


def _judge_cli(a, impl_out):
    """`verif f [g] -m obs -agg count | -m mae -x <axis> -type csv`: the rows are the documented buckets of the cases
    that survive the subset, every row's count / score is the one of exactly its cases (recomputed here in exact
    arithmetic from the definition of the files), the count column adds up to the pooled count and the count-weighted
    mean of the row scores is the pooled score that the same command prints for `-x no`"""
    axname, metric = a[1], a[2]
    sig = {"kind": "cli", "axis": axname, "metric": metric}
    times, leads, locs, mask, how = _parse_dataset(a[1:])
    sub, mask2 = _parse_subset(a[8]), a[9]
    if sub:
        sig["subset"] = "+".join(sorted(sub))
    T, L, S = len(times), len(leads), len(locs)
    n = T * L * S
    nf = 1 if mask2 == "-" else 2
    kept_t = [t for t in range(T) if _survives(times[t], sub)]
    alive = [q for q in range(n) if q // (L * S) in kept_t]
    if metric == "count":
        ok = [mask[q] or q % 2 == 1 for q in range(n)]                 # the observation is there
    else:
        ok = [mask[q] and (mask2 == "-" or mask2[q] == "1") for q in range(n)]   # obs and every forecast are there
    cmdline = " ".join(_cli_argv(a, axname)[3 if nf == 2 else 2:])
    parts = impl_out.split("|")
    if len(parts) != nf + 1:
        return (sig, "%s: %d score columns for %d files" % (cmdline, len(parts) - 1, nf))
    # rows = documented buckets of the surviving cases
    if axname == "time":
        keys = [("t", t) for t in kept_t]
    elif axname in ("location", "lat", "lon", "elev"):
        keys = [("s", j) for j in range(S)]
    elif axname == "no":
        keys = [("all", 0)]
    else:
        keys = [("v", v) for v in sorted(set(_bucket_of_case(axname, q, times, leads, locs)[1]
                                             for q in (alive if axname in TIME_AXES else range(n))))]
    groups = dict((k, []) for k in keys)
    for q in alive:
        if ok[q]:
            groups[_bucket_of_case(axname, q, times, leads, locs)].append(q)
    if int(parts[0]) != len(keys):
        return (sig, "%s: %d rows, expected %d (%s)" % (cmdline, int(parts[0]), len(keys),
                                                        ",".join(xr(k[1]) for k in keys)))
    pooled = _cli_run(a, "no")
    npool = sum(len(groups[k]) for k in keys)
    for f in range(nf):
        got = [] if parts[1 + f] == "-" else [from_xr(x) for x in parts[1 + f].split(",")]
        if len(got) != len(keys):
            return (sig, "%s: column %d has %d values for %d rows" % (cmdline, f, len(got), len(keys)))
        if metric == "count":
            want = [len(groups[k]) for k in keys]
            for j, (g, w) in enumerate(zip(got, want)):
                if g != w:
                    return (sig, "%s: row %d (%s) shows count %s, %d valid cases fall in that bucket" %
                            (cmdline, j, xr(keys[j][1]), xr(g), w))
            if pooled[0] != "ok" or len(pooled[2][f]) != 1 or float(pooled[2][f][0]) != sum(got):
                return (sig, "%s: the count column adds up to %s, -x no shows %s" %
                        (cmdline, xr(sum(got)), pooled[2][f] if pooled[0] == "ok" else pooled[0]))
            if sum(got) != npool:
                return (sig, "%s: the count column adds up to %s, %d valid cases survive" % (cmdline, xr(sum(got)), npool))
        else:
            err = (lambda q: abs(Fraction(_offset(q)))) if f == 0 else (lambda q: abs(Fraction(_offset2(q))))
            tot = Fraction(0)
            for j, k in enumerate(keys):
                qs = groups[k]
                if not qs:
                    if not math.isnan(got[j]):
                        return (sig, "%s: row %d has no valid case but shows %s" % (cmdline, j, xr(got[j])))
                    continue
                want = sum(err(q) for q in qs) / len(qs)
                if math.isnan(got[j]) or abs(Fraction(got[j]) - want) > Fraction(6, 10 ** 6) * want + Fraction(1, 10 ** 12):
                    return (sig, "%s: row %d (%s) shows MAE %s, the mean absolute error of its %d cases is %s" %
                            (cmdline, j, xr(keys[j][1]), xr(got[j]), len(qs), want))
                tot += len(qs) * Fraction(got[j])
            if npool:
                if pooled[0] != "ok" or len(pooled[2][f]) != 1:
                    return (sig, "%s: -x no gives %s" % (cmdline, pooled[0]))
                p = Fraction(float(pooled[2][f][0])) if not math.isnan(float(pooled[2][f][0])) else None
                wm = tot / npool
                if p is None or abs(wm - p) > Fraction(12, 10 ** 6) * p + Fraction(1, 10 ** 12):
                    return (sig, "%s: count-weighted mean of the row scores = %s, -x no shows %s" %
                            (cmdline, float(wm), pooled[2][f][0]))
    return None


def nontrivial(op, out):
    a = op.split(" ")
    if a[0] == "slices":
        if a[1] == "all":
            return "nan" in out and out != "nan" and any(c.isdigit() for c in out.split("|")[-1])
        return out.count(";") >= 1 and "," in out
    if a[0] == "slicescli":
        return out.split("|")[0] not in ("0", "1", "ERR", "BADCSV")
    return len(set(out.split(","))) >= 2


def shrink(op):
    """single-value ops, so that a replay names one concrete input"""
    a = op.split(" ")
    if a[0] in ("bucket", "conv"):
        for x in a[2].split(","):
            yield "%s %s %s" % (a[0], a[1], x)


def extra_evidence(rows):
    axes = {}
    how = {}
    subs = {}
    cli = {}
    for r in rows:
        a = r["op"].split(" ")
        if a[0] == "slices":
            axes[a[1]] = axes.get(a[1], 0) + 1
            how[a[6]] = how.get(a[6], 0) + 1
            if len(a) > 7:
                k = "+".join(sorted(_parse_subset(a[7])))
                subs[(k, a[1] in TIME_AXES)] = subs.get((k, a[1] in TIME_AXES), 0) + 1
        if a[0] == "slicescli":
            k = "+".join(sorted(_parse_subset(a[8]))) or "none"
            cli[(a[2], k, "2 files" if a[9] != "-" else "1 file")] = cli.get((a[2], k, "2 files" if a[9] != "-" else "1 file"), 0) + 1
    return {"slices_per_axis": axes, "dataset_construction": how,
            "slices_with_subset": {"%s on %s axis" % (k, "calendar" if c else "other"): v
                                   for (k, c), v in sorted(subs.items())},
            "cli_ops": {" / ".join(k): v for k, v in sorted(cli.items())}}
