"""C08 — probabilistic scores follow their definitions; event probability from the CDF."""
import itertools
import math
import random
import statistics
import warnings
from fractions import Fraction as F
import numpy as np
import common
from props import mmulti
from common import xr, xvec, from_xr, from_xvec, num_close

ID = "C08"
TARGETS = ["Proofs.C08", "Proofs.GenEq.Prob", "Proofs.GenEq.Brier"]
GEN_PREFIXES = ["prob.", "brier."]
TRANSLATED = ["bs", "bsunc", "bss", "ign0", "spherical", "quantilescore"]
THRESHOLD_FAMILY = ["bs", "bsrel", "bsres", "bsunc", "bss", "bssrel", "bssres", "ign0", "spherical", "marginalratio"]
BINNED = ["bsrel", "bsres", "bssrel", "bssres"]
PIT_FAMILY = ["pit", "pithistdev", "pithistslope", "pithistshape"]
QUANTILE_FAMILY = ["quantilescore", "quantilecoverage", "spread", "spreadskillratio", "quantile"]
ALL_METRICS = THRESHOLD_FAMILY + QUANTILE_FAMILY + ["threshold"] + PIT_FAMILY
THEOREMS = {
    "Proofs.C08": ["VerifModel.C08." + t for t in [
        "C08_getp", "C08_getp_infinite_end", "C08_getp_complement", "C08_getp_vector",
        "C08_threshold_from_ens", "C08_threshold_range", "C08_threshold_mono", "C08_threshold_missing_member",
        "C08_threshold_stored_wins",
        "C08_quantile_from_ens", "C08_quantile_spec", "C08_quantile_missing_member",
        "C08_bins_cover", "C08_bins_spec",
        "C08_def_bsres", "C08_def_bsrel", "C08_def_bssrel", "C08_def_bssres",
        "C08_def_marginalratio", "C08_def_quantilecoverage", "C08_def_spread", "C08_def_spreadskillratio",
        "C08_def_pit", "C08_def_pithistdev", "C08_def_pithistslope", "C08_def_pithistshape",
        "C08_decomposition", "C08_complement", "C08_complement_getp",
        "C08_no_valid_case"]],
    "Proofs.GenEq.Prob": ["VerifModel.GenEq.Prob.%s_eq" % n for n in TRANSLATED],
    "Proofs.GenEq.Brier": ["VerifModel.GenEq.Brier." + t for t in [
        "fold_eq", "H_find", "inBin_disjoint", "bsrel_eq", "bsres_eq", "bssrel_eq", "bssres_eq", "init_consts"]],
}
TRUSTED_BASE = [
    "Lean 4.33 kernel; axioms propext, Classical.choice, Quot.sound only",
    "Spec/Prob.lean: Brier 1950; Murphy 1973 partition over 10 probability bins (top bin closed at 1); BSS against the "
    "sample climatology; pinball loss; Hyndman & Fan definition 9; binary ignorance; spherical rule; PIT-histogram "
    "deviation (Nipen & Stull 2011), slope and shape as the class descriptions state them",
    "harness/translate.py for the six closed-form kernels (Bs, BsUnc, Bss vector code; Ign0, Spherical, QuantileScore "
    "read per case) — validated each run by the streams prob.small / prob.metric, which execute the generated code",
    "hand-written model of get_p, the threshold/quantile fields from the ensemble (np.nanmean, np.quantile "
    "normal_unbiased), the loops over probability bins, np.histogram and the quantile-field metrics, tied by "
    "correspondence; Data.get_scores' common-validity filter is modelled in three lines (its laws are C01/C04)",
    "np.log2 / np.sqrt as the parameter Tr (theorems for every Tr, every lawful Tr for ignorance); "
    "scipy.stats.norm.ppf enters the spread-skill ratio as a parameter (oracle: statistics.NormalDist)",
    "IEEE rounding: scores compared with tolerance 1e-9; forecast probabilities derived from an ensemble are float32 "
    "numbers in the code (tolerance 1e-6) and rationals k/n in the model; where that rounding moves a probability "
    "across a bin edge the correspondence is not asserted (the textbook oracle, evaluated on the code's own "
    "probabilities, still is)",
]
ASSUMPTIONS = [
    "observation indicators are 0/1 and forecast probabilities lie in [0, 1] (C08_bins_cover: then every case is in "
    "exactly one bin); CDF columns are non-decreasing in the threshold",
    "REL is compared with Murphy's bin-mean form when each bin holds one forecast value (the hypothesis of the "
    "decomposition); otherwise with the per-case form (1/N) sum (p_i - obar_k(i))^2 (the two differ by the within-bin "
    "variance of the forecasts)",
    "a slice without any valid case is outside the definitions; model and oracle demand NaN there (C08_no_valid_case)",
]
RULE = ("prob.small: EVERY p in {0,.1,..,1}^n, o in {0,1}^n, n<=3 (thorough: plus every multiset of 4 cases), 10 "
        "threshold-family scores + complement through the real get_p and metric classes; prob.metric: vectors of length 1..12 over {0,.05,..,1} "
        "(bin edges, constant obs/p, one value per bin, missing cases) x 10 metrics through a real verif.data.Data; "
        "prob.data: datasets with CDF columns and/or ensembles of 1..6 (thorough 10) members with missing members, "
        "quantile columns, pit, all 8 bin types, stored / unstored / nearly-equal thresholds x 20 metrics; prob.getp, "
        "prob.ensthr, prob.ensq, prob.field: the derivations alone; prob.pit, prob.quantile: PIT and quantile scores; "
        "prob.sequence: 3..5 threshold-family scores on events sharing thresholds, one after the other on one Data "
        "object, each compared with the model, the oracle and the same score computed on its own; "
        "non-trivial = finite reply")
EXHAUSTIVE = {"quick": True, "thorough": True}
EXHAUSTIVE_NOTE = ("all (p, o) in {0,.1,..,1}^n x {0,1}^n for n<=3 (11 154 vectors; thorough adds all 12 650 multisets of 4 "
                   "cases, i.e. n=4 up to the order of the cases), 10 scores + complement each")
LEVEL_TEXT = ("Lean theorems: get_p's probability is F(upper) - F(lower) with 1/0 at infinite ends and complementary events "
              "get complementary probabilities; the ensemble probability is #(members <= t)/#(present members), in [0,1], "
              "monotone in t, blind to missing members, and a stored column wins; the normal_unbiased quantile equals "
              "Hyndman-Fan definition 9, lies within the members' range and is monotone in the level; six machine-"
              "translated kernels and thirteen hand-modelled ones equal the textbook definitions; BS = REL - RES + UNC "
              "when each bin holds one forecast value; BS of an event equals BS of its complement; the Brier bins "
              "partition [0,1].")
TECHNIQUE = "Lean 4 proof; closed-form kernels regenerated from source by a translator and re-proved each run; exhaustive differential correspondence"
BINS = ["below", "below=", "above", "above=", "within", "=within", "within=", "=within="]
NAN = float("nan")


# ------------------------------------------------------------------ datasets
def enc_cols(cols):
    return "|".join("%s:%s" % (xr(t), xvec(v)) for t, v in cols)


def enc_ds(D):
    parts = ["obs=%s" % xvec(D["obs"])]
    for k in ("fcst", "pit"):
        if D.get(k) is not None:
            parts.append("%s=%s" % (k, xvec(D[k])))
    for k in ("thr", "qnt"):
        if D.get(k):
            parts.append("%s=%s" % (k, enc_cols(D[k])))
    if D.get("ens") is not None:
        parts.append("ens=%s" % "|".join(xvec(m) for m in D["ens"]))
    return ";".join(parts)


def dec_ds(s):
    D = {"obs": [], "fcst": None, "pit": None, "thr": [], "qnt": [], "ens": None}
    for kv in s.split(";"):
        if not kv:
            continue
        k, v = kv.split("=")
        if k in ("obs", "fcst", "pit"):
            D[k] = from_xvec(v)
        elif k in ("thr", "qnt"):
            D[k] = [(from_xr(c.split(":")[0]), from_xvec(c.split(":")[1])) for c in v.split("|") if c]
        elif k == "ens":
            D[k] = [from_xvec(m) for m in v.split("|")]
    return D


def enc_iv(lo, hi, le, ue):
    return "%s:%s:%d:%d" % (xr(lo), xr(hi), 1 if le else 0, 1 if ue else 0)


def dec_iv(s):
    lo, hi, le, ue = s.split(":")
    return from_xr(lo), from_xr(hi), le == "1", ue == "1"


def iv_of(b, t, u):
    inf = float("inf")
    return {"below": (-inf, t, False, False), "below=": (-inf, t, False, True), "above": (t, inf, False, False),
            "above=": (t, inf, True, False), "within": (t, u, False, False), "=within": (t, u, True, False),
            "within=": (t, u, False, True), "=within=": (t, u, True, True)}[b]


def build(D):
    """a real verif.data.Data over one in-memory input: N cases = N times x 1 lead time x 1 location"""
    import verif.data
    import verif.input
    import verif.location
    import verif.variable

    class MemInput(verif.input.Input):
        description = "in-memory input of the verification harness"

    n = len(D["obs"])
    m = MemInput()
    m.fullname = "in0"
    m.times = np.arange(n, dtype=float) * 3600 + 1325376000
    m.leadtimes = np.array([0.0])
    m.locations = [verif.location.Location(0, 0, 0, 0)]
    m.variable = verif.variable.Variable("T", "C", x0=D.get("x0"), x1=D.get("x1"))
    m.obs = np.array(D["obs"], float).reshape(n, 1, 1)
    m.fcst = None if D.get("fcst") is None else np.array(D["fcst"], float).reshape(n, 1, 1)
    m.pit = None if D.get("pit") is None else np.array(D["pit"], float).reshape(n, 1, 1)
    thr = D.get("thr") or []
    m.thresholds = np.array([t for t, _ in thr], float)
    m.threshold_scores = None if not thr else np.stack([np.array(v, float) for _, v in thr], -1).reshape(n, 1, 1, len(thr))
    qnt = D.get("qnt") or []
    m.quantiles = np.array([q for q, _ in qnt], float)
    m.quantile_scores = None if not qnt else np.stack([np.array(v, float) for _, v in qnt], -1).reshape(n, 1, 1, len(qnt))
    m.ensemble = None if D.get("ens") is None else np.array(D["ens"], float).reshape(n, 1, 1, -1)
    m.other_fields = []
    _BUILT.append(common.Unchanged(m.obs, m.fcst, m.pit, m.threshold_scores, m.quantile_scores, m.ensemble))
    return verif.data.Data([m])


def prob_dataset(name, a, b, extra):
    """the dataset a `prob` op stands for (same construction in Driver/Prob.lean)"""
    inf = float("inf")
    if name in PIT_FAMILY:
        return {"obs": [0.0] * len(a), "pit": a}, (-inf, inf, True, True)
    if name == "quantilescore":
        return {"obs": b, "qnt": [(extra, a)]}, (extra, extra, True, True)
    return {"obs": [1.0 - o for o in b], "thr": [(0.5, a)]}, (-inf, 0.5, False, False)


class StubData(object):
    """duck-typed data for the exhaustive stream: get_p and the metric classes are the real ones, only
    Data.get_scores (C01/C04) is replaced by handing out the arrays"""

    def __init__(self, obs, cols):
        self.obs, self.cols = obs, cols

    def get_scores(self, fields, input_index, axis=None, axis_index=None):
        import verif.field
        single = not isinstance(fields, list)
        out = []
        for f in ([fields] if single else fields):
            if f == verif.field.Obs():
                out.append(self.obs.copy())
            else:
                out.append(self.cols[f.threshold].copy())
        return out[0] if single else out


def _val(v):
    if np.ma.is_masked(v):
        return "nan"
    return xr(float(v))


_METRICS = {}


def _metric(name):
    """one instance per class (verif.metric.get walks the module with inspect on every call)"""
    import verif.metric
    if name not in _METRICS:
        _METRICS[name] = verif.metric.get(name)
    return _METRICS[name]


def _interval(iv):
    import verif.interval
    return verif.interval.Interval(iv[0], iv[1], iv[2], iv[3])


def _compute(name, data, iv):
    import verif.axis
    r = _metric(name).compute_single(data, 0, verif.axis.No(), None, _interval(iv))
    return _val(r)


_BUILT = []          # one Unchanged guard per in-memory input built during the current op


def impl(op):
    """the arrays an Input object holds must be what they were after any sequence of requests and scores (C18:
    "the input objects' data are left unmodified"; seeded change C18f: np.quantile(..., overwrite_input=True)
    permuted the members of the stored ensemble)"""
    del _BUILT[:]
    out = _impl(op)
    if not all(g.ok() for g in _BUILT):
        return "MUTATED-INPUT " + str(out)
    return out


def _impl(op):
    import verif.axis
    import verif.field
    import verif.metric
    a = op.split(" ")
    inf = float("inf")
    with warnings.catch_warnings(), np.errstate(all="ignore"):
        warnings.simplefilter("ignore")
        try:
            if a[0] == "proball":
                p, o = np.array(from_xvec(a[1]), float), np.array(from_xvec(a[2]), float)
                stub = StubData(1.0 - o, {0.5: p})
                out = [_val(_metric(n).compute_single(stub, 0, verif.axis.No(), None, _interval((-inf, 0.5, False, False))))
                       for n in THRESHOLD_FAMILY]
                out.append(_val(_metric("bs").compute_single(stub, 0, verif.axis.No(), None, _interval((0.5, inf, True, False)))))
                return " ".join(out)
            if a[0] == "genbrier":
                p, o = np.array(from_xvec(a[2]), float), np.array(from_xvec(a[3]), float)
                guard = common.Unchanged(o, p)
                return guard.tag(_val(_metric(a[1]).compute_from_obs_fcst(o, p)))
            if a[0] == "prob":
                extra = from_xr(a[4]) if len(a) > 4 else None
                D, iv = prob_dataset(a[1], from_xvec(a[2]), from_xvec(a[3]) if a[3] != "-" else [], extra)
                return _compute(a[1], build(D), iv)
            if a[0] == "pd":
                return _compute(a[1], build(dec_ds(a[3])), dec_iv(a[2]))
            if a[0] == "ensseq":
                data = build(dec_ds(a[1]))
                out = []
                for m in a[2:]:
                    r = data.get_scores(verif.field.Ensemble(int(m)), 0, verif.axis.No(), None)
                    out.append(xvec(np.array(r, float).flatten()))
                return ";".join(out)
            if a[0] == "pdseq":
                data = build(dec_ds(a[1]))
                out = []
                for name, iv in zip(a[2::2], a[3::2]):
                    try:
                        out.append(_compute(name, data, dec_iv(iv)))
                    except SystemExit:
                        out.append("ERR")
                    except Exception as e:       # noqa: a crash of one score must not hide the others
                        out.append("EXC:%s" % type(e).__name__)
                return " ".join(out)
            if a[0] in ("thrf", "qntf"):
                data = build(dec_ds(a[2]))
                f = verif.field.Threshold(from_xr(a[1])) if a[0] == "thrf" else verif.field.Quantile(from_xr(a[1]))
                r = data.get_scores([f], 0, verif.axis.No(), None)
                return ";".join(xvec(np.array(v, float)) for v in r)
            if a[0] in ("ensthr", "ensq"):
                data = build({"obs": [0.0], "ens": [from_xvec(a[2])]})
                f = verif.field.Threshold(from_xr(a[1])) if a[0] == "ensthr" else verif.field.Quantile(from_xr(a[1]))
                r = data.get_scores([f], 0, verif.axis.No(), None)
                return xr(float(r[0][0]))
            if a[0] == "getp":
                iv = dec_iv(a[1])
                thr = []
                if a[2] != "-":
                    thr.append((iv[0], [from_xr(a[2])]))
                if a[3] != "-":
                    thr.append((iv[1], [from_xr(a[3])]))
                data = build({"obs": [from_xr(a[4])], "thr": thr})
                ob, p = verif.metric.get_p(data, 0, verif.axis.No(), None, _interval(iv))
                return "%s %s" % (xvec(np.array(ob, float)), xvec(np.array(p, float)))
            if a[0] == "edges":
                es = [list(cls()._edges) for cls in (verif.metric.BsRel, verif.metric.BsRes, verif.metric.BssRel, verif.metric.BssRes)]
                if any(e != es[0] for e in es) or len(es[0]) != 11:
                    return "differ"
                out = []
                for k, e in enumerate(es[0]):
                    e = float(e)
                    # an interior edge is reported as k/10 when it is the smallest double >= k/10 (then `p >= e`,
                    # `p < e` agree with the exact comparison for every double p), otherwise as its exact value
                    if k < 10 and F(e) >= F(k, 10) > F(float(np.nextafter(e, -1.0))):
                        out.append(xr(F(k, 10)))
                    else:
                        out.append(xr(e))
                return ",".join(out)
            if a[0] == "probperfect":
                m = verif.metric.get(a[1])
                return "ERR" if m.perfect_score is None else xr(m.perfect_score)
        except SystemExit:
            return "ERR"
    raise ValueError(op)


# ------------------------------------------------------------------ documented semantics, exact arithmetic
def fr(x):
    return F(x)


def mean(xs):
    return sum(xs) / len(xs)


def isfin(x):
    return not (math.isnan(x) or math.isinf(x))


def doc_event(iv, x):
    lo, hi, le, ue = iv
    return (x > lo or (le and x == lo)) and (x < hi or (ue and x == hi))


def np_isclose(a, b):
    return abs(a - b) <= 1e-8 + 1e-5 * abs(b)


def doc_ens_prob(members, t):
    """fraction of the members present that are at or below t (None: no member present)"""
    pres = [m for m in members if not math.isnan(m)]
    if not pres:
        return None
    return F(sum(1 for m in pres if m <= t), len(pres))


def doc_hf9(members, q):
    """Hyndman & Fan (1996) definition 9 on exact rationals; None: a member is missing"""
    if any(math.isnan(m) for m in members):
        return None
    s = sorted(fr(m) for m in members)
    n = len(s)
    g = n * fr(q) + fr(q) / 4 + F(3, 8)
    j = math.floor(g)
    gam = g - j

    def x(k):       # 1-based order statistic with x_0 = x_1 and x_{n+1} = x_n
        return s[min(max(k, 1), n) - 1]
    return x(j) + gam * (x(j + 1) - x(j))


def doc_thr_col(D, t):
    """documented threshold field: (values as Fraction/None per case, 'stored'|'ens') or None (not derivable)"""
    for tt, col in D.get("thr") or []:
        if np_isclose(tt, t):
            return [None if not isfin(c) else fr(c) for c in col], "stored"
    if D.get("ens") is None:
        return None
    return [doc_ens_prob(m, t) for m in D["ens"]], "ens"


def doc_qnt_col(D, q):
    for qq, col in D.get("qnt") or []:
        if np_isclose(qq, q):
            return [None if not isfin(c) else fr(c) for c in col], "stored"
    if D.get("ens") is None:
        return None
    return [doc_hf9(m, q) for m in D["ens"]], "ens"


def doc_obs(D):
    return [None if not isfin(o) else fr(o) for o in D["obs"]]


def common_rows(cols):
    n = len(cols[0])
    keep = [j for j in range(n) if all(c[j] is not None for c in cols)]
    return [[c[j] for j in keep] for c in cols]


def doc_getp(D, iv):
    """-> (obs indicators, probabilities, source) on the commonly valid cases, or None"""
    lo, hi = iv[0], iv[1]
    cols, src = [doc_obs(D)], "stored"
    if not math.isinf(lo):
        c = doc_thr_col(D, lo)
        if c is None:
            return None
        cols.append(c[0])
        src = c[1] if c[1] == "ens" else src
    if not math.isinf(hi):
        c = doc_thr_col(D, hi)
        if c is None:
            return None
        cols.append(c[0])
        src = c[1] if c[1] == "ens" else src
    rows = common_rows(cols)
    obs = rows[0]
    k = 1
    p0 = [F(0)] * len(obs)
    p1 = [F(1)] * len(obs)
    if not math.isinf(lo):
        p0 = rows[k]
        k += 1
    if not math.isinf(hi):
        p1 = rows[k]
    o = [F(1) if doc_event(iv, x) else F(0) for x in obs]
    p = [b - a for a, b in zip(p0, p1)]
    direct = math.isinf(lo) and src == "stored"     # p is the stored number itself, no arithmetic
    return o, p, ("direct" if direct else src)


_BIN_CACHE = {}


def bin_of(p):
    """the 10 equally wide probability bins, top bin closed at 1; None outside [0, 1]"""
    if p in _BIN_CACHE:
        return _BIN_CACHE[p]
    k = None if (p < 0 or p > 1) else min((p.numerator * 10) // p.denominator, 9)
    if len(_BIN_CACHE) < 100000:
        _BIN_CACHE[p] = k
    return k


def single_valued(ps):
    seen = {}
    for p in ps:
        k = bin_of(p)
        if k in seen and seen[k] != p:
            return False
        seen[k] = p
    return True


def t_bs(o, p):
    return mean([(b - a) ** 2 for a, b in zip(o, p)])


def _bins(o, p):
    g = {}
    for a, b in zip(o, p):
        g.setdefault(bin_of(b), []).append((a, b))
    return g


def t_rel(o, p, per_case=False):
    tot = F(0)
    for k, m in _bins(o, p).items():
        ok = mean([a for a, _ in m])
        if per_case:
            tot += sum((b - ok) ** 2 for _, b in m)
        else:
            tot += len(m) * (mean([b for _, b in m]) - ok) ** 2
    return tot / len(o)


def t_res(o, p):
    ob = mean(o)
    return sum(len(m) * (mean([a for a, _ in m]) - ob) ** 2 for m in _bins(o, p).values()) / len(o)


def t_unc(o):
    return mean(o) * (1 - mean(o))


def log2(x):
    return math.log2(x) if x > 0 else (-math.inf if x == 0 else NAN)


def textbook(name, o, p):
    """textbook value (Fraction, float, or None = undefined) of a threshold-family score"""
    if name == "bs":
        return t_bs(o, p)
    if name == "bsunc":
        return t_unc(o)
    if name in BINNED and any(bin_of(x) is None for x in p):
        return "skip"
    if name == "bsrel":
        return t_rel(o, p, per_case=not single_valued(p))
    if name == "bsres":
        return t_res(o, p)
    u = t_unc(o)
    if name == "bss":
        return None if u == 0 else 1 - t_bs(o, p) / u
    if name == "bssrel":
        return None if u == 0 else t_rel(o, p, per_case=not single_valued(p)) / u
    if name == "bssres":
        return None if u == 0 else t_res(o, p) / u
    if name == "marginalratio":
        return None if mean(p) == 0 else mean(o) / mean(p)
    pe = [b if a == 1 else 1 - b for a, b in zip(o, p)]
    if name == "ign0":
        if any(x < 0 for x in pe):
            return None
        return sum(-log2(float(x)) for x in pe) / len(pe)
    if name == "spherical":
        return sum(float(x) / math.sqrt(float(b ** 2 + (1 - b) ** 2)) for x, b in zip(pe, p)) / len(pe)
    raise KeyError(name)


def pit_freqs(pit):
    inside = [v for v in pit if 0 <= v <= 1]
    if not inside:
        return None
    return [F(sum(1 for v in inside if bin_of(v) == k), len(inside)) for k in range(10)]


def textbook_pit(name, pit):
    if name == "pit":
        return mean(pit)
    f = pit_freqs(pit)
    if f is None:
        return None
    if name == "pithistdev":
        d = math.sqrt(float(F(1, 10) * sum((x - F(1, 10)) ** 2 for x in f)))
        d0 = math.sqrt(float((1 - F(1, 10)) / (len(pit) * 10)))
        return d / d0
    if name == "pithistslope":      # mean of the 9 bar-to-bar slopes
        return mean([(f[k + 1] - f[k]) / F(1, 10) for k in range(9)])
    if name == "pithistshape":      # mean of the 8 second difference quotients
        s = [(f[k + 1] - f[k]) / F(1, 10) for k in range(9)]
        return mean([(s[k + 1] - s[k]) / F(1, 10) for k in range(8)])
    raise KeyError(name)


def pinball(tau, o, q):
    return (1 - tau) * (q - o) if o < q else tau * (o - q)


def doc_quantile_metric(name, D, iv, ns):
    """documented value of a quantile-field metric on dataset D: Fraction / float / None (undefined) / 'ERR'"""
    lo, hi, le, ue = iv
    if name == "quantilescore":
        c = doc_qnt_col(D, lo)
        if c is None:
            return "ERR"
        o, q = common_rows([doc_obs(D), c[0]])
        return None if not o else mean([pinball(fr(lo), a, b) for a, b in zip(o, q)])
    if name == "quantilecoverage":
        cols = [doc_obs(D)]
        for side in ([] if math.isinf(lo) else [lo]) + ([] if math.isinf(hi) else [hi]):
            c = doc_qnt_col(D, side)
            if c is None:
                return "ERR"
            cols.append(c[0])
        rows = common_rows(cols)
        o = rows[0]
        if not o:
            return None
        q0 = None if math.isinf(lo) else rows[1]
        q1 = None if math.isinf(hi) else rows[-1]
        for q in (q0, q1):
            # a quantile interpolated from the ensemble that misses the observation by less than rounding
            # error: which side of the tie the code lands on is decided by IEEE rounding, not by the definition
            if q is not None and any(0 < abs(a - b) < F(1, 10 ** 9) for a, b in zip(q, o)):
                return "skip"
        hit = 0
        for j, x in enumerate(o):
            ok0 = True if q0 is None else (q0[j] <= x if le else q0[j] < x)
            ok1 = True if q1 is None else (x <= q1[j] if ue else x < q1[j])
            hit += 1 if (ok0 and ok1) else 0
        return F(hit, len(o))
    if name in ("spread", "spreadskillratio", "quantile"):
        if name == "quantile" and (math.isinf(lo) or math.isinf(hi)):
            c = doc_qnt_col(D, hi if math.isinf(lo) else lo)
            if c is None:
                return "ERR"
            (q,) = common_rows([c[0]])
            return None if not q else mean(q)
        c0, c1 = doc_qnt_col(D, lo), doc_qnt_col(D, hi)
        if c0 is None or c1 is None:
            return "ERR"
        cols = [c0[0], c1[0]]
        if name == "spreadskillratio":
            if D.get("fcst") is None:
                return "ERR"
            cols += [[None if not isfin(x) else fr(x) for x in D["fcst"]], doc_obs(D)]
        rows = common_rows(cols)
        if not rows[0]:
            return None
        sp = mean([b - a for a, b in zip(rows[0], rows[1])])
        if name != "spreadskillratio":
            return sp
        rmse = math.sqrt(float(mean([(f - o) ** 2 for f, o in zip(rows[2], rows[3])])))
        if ns == 0 or rmse == 0:
            return "skip"
        return float(sp) / ns / rmse
    raise KeyError(name)


def num_std(lo, hi):
    """half the distance of the two levels on the standard-normal scale (Python's statistics module)"""
    nd = statistics.NormalDist()
    return 0.5 * (nd.inv_cdf(hi) - nd.inv_cdf(lo))


# ------------------------------------------------------------------ generators
P20 = [k / 20.0 for k in range(21)]
P10 = [k / 10.0 for k in range(11)]


def gen_po(rng):
    L = rng.choice([1, 2, 3, 4, 5, 8, 12])
    kind = rng.random()
    if kind < 0.25:        # one forecast value per probability bin
        per_bin = {}
        p = []
        for _ in range(L):
            v = rng.choice(P20)
            k = bin_of(F(v))
            per_bin.setdefault(k, v)
            p.append(per_bin[k])
    elif kind < 0.35:
        p = [rng.choice(P20)] * L
    elif kind < 0.5:
        p = [rng.choice([0.0, 1.0, 0.1, 0.9, 0.3, 0.7, 0.5]) for _ in range(L)]     # exact bin edges
    else:
        p = [rng.choice(P20) for _ in range(L)]
    o = [float(rng.random() < 0.5) for _ in range(L)]
    r = rng.random()
    if r < 0.12:
        o = [0.0] * L
    elif r < 0.24:
        o = [1.0] * L
    return p, o


def gen_dataset(rng, tier):
    n = rng.choice([1, 2, 3, 4, 6, 9])
    grid = [0.0, 0.5, 1.0, 1.5, 2.0, 3.0, 4.5, -1.0]
    obs = [rng.choice(grid) for _ in range(n)]
    if rng.random() < 0.15:
        obs = [rng.choice(grid)] * n
    D = {"obs": obs}
    pmiss = rng.choice([0.0, 0.0, 0.1, 0.3])
    thresholds = sorted(rng.sample([0.0, 0.5, 1.0, 1.5, 2.0, 3.0], rng.choice([0, 1, 2, 3, 4])))
    kind = rng.random()
    if thresholds and kind < 0.75:
        # non-decreasing CDF values per case on a dyadic grid (differences are exact) or on {0,.05,..,1}
        dy = rng.random() < 0.5
        cols = [[] for _ in thresholds]
        for _ in range(n):
            vals = sorted(rng.choice([k / 16.0 for k in range(17)] if dy else P20) for _ in thresholds)
            for c, v in zip(cols, vals):
                c.append(v)
        D["thr"] = [(t + (rng.choice([0.0, 0.0, 1e-9, -1e-9]) if t != 0 else 0.0), c) for t, c in zip(thresholds, cols)]
    if kind > 0.45 or not thresholds:
        M = rng.choice([1, 2, 3, 4, 5, 6] if tier == "quick" else [1, 2, 3, 4, 5, 6, 8, 10])
        D["ens"] = [[rng.choice(grid) for _ in range(M)] for _ in range(n)]
        for m in D["ens"]:
            for i in range(M):
                if rng.random() < pmiss:
                    m[i] = NAN
        if rng.random() < 0.1:
            D["ens"][rng.randrange(n)] = [NAN] * M
    levels = sorted(rng.sample([0.1, 0.25, 0.5, 0.75, 0.9], rng.choice([0, 2, 3])))
    if levels:
        cols = [[] for _ in levels]
        for _ in range(n):
            vals = sorted(rng.choice(grid) for _ in levels)
            for c, v in zip(cols, vals):
                c.append(v)
        D["qnt"] = list(zip(levels, cols))
    if rng.random() < 0.7:
        D["fcst"] = [rng.choice(grid) for _ in range(n)]
    if rng.random() < 0.5:
        D["pit"] = [rng.choice(P20) for _ in range(n)]
    for key in ("obs", "fcst", "pit"):
        if D.get(key) is not None:
            D[key] = [NAN if rng.random() < pmiss else v for v in D[key]]
    for key in ("thr", "qnt"):
        if D.get(key):
            D[key] = [(t, [NAN if rng.random() < pmiss / 2 else v for v in c]) for t, c in D[key]]
    rng2 = random.Random(rng.random())
    if rng2.random() < 0.3:
        # a file may store its thresholds / quantile levels in any order; a column is found by its value
        for key in ("thr", "qnt"):
            if D.get(key) and len(D[key]) > 1:
                D[key] = list(D[key])
                rng2.shuffle(D[key])
    return D


# ---- translator extension (harness/translate_more.py gen_brier): the loops over probability bins
TRUSTED_BASE = TRUSTED_BASE + [
    "harness/translate_more.py gen_brier: compute_from_obs_fcst of BsRel / BsRes / BssRel / BssRes is regenerated as a "
    "fold over the bin numbers (index sets as masks, x[I] = MA.take, x[I] = v as MA.put / MA.putS of Base/Masked.lean; "
    "self._edges is a parameter, __init__ is read as the two constants num_edges = 11 and last edge = 1.001) - validated "
    "each run by stream prob.genbrier; GenEq.Brier.bsrel_eq / bsres_eq / bssrel_eq / bssres_eq: on the model's edges the "
    "folds are the hand-written models of Model/Prob.lean for all vectors (bins are disjoint: inBin_disjoint)"]
RULE += ("; prob.genbrier: the four machine-translated bin loops against the real compute_from_obs_fcst on probabilities "
         "on / around the bin edges, in the top bin and outside [0, 1] (in no bin)")
LEVEL_TEXT += (" The loops over probability bins of BsRel / BsRes / BssRel / BssRes are machine-translated from /repo on "
               "every run as folds and proved equal to the models the C08_def_* theorems are about.")


def gen_ops(tier, rng):
    quick = tier == "quick"
    # ---- exhaustive small vectors
    for n in range(1, 4):
        for p in itertools.product(P10, repeat=n):
            for o in itertools.product([0.0, 1.0], repeat=n):
                yield "prob.small", "proball %s %s" % (xvec(p), xvec(o))
    if not quick:
        # n = 4: every multiset of four cases (the 11^4 x 2^4 ordered vectors are these up to the order of the
        # cases; order dependence is covered by the full products above and by the random stream)
        cases = [(p, o) for p in P10 for o in (0.0, 1.0)]
        for ms in itertools.combinations_with_replacement(cases, 4):
            yield "prob.small", "proball %s %s" % (xvec([c[0] for c in ms]), xvec([c[1] for c in ms]))
    # ---- random vectors through a real Data
    for _ in range(250 if quick else 5000):
        p, o = gen_po(rng)
        yield "prob.metric", "proball %s %s" % (xvec(p), xvec(o))
        if rng.random() < 0.3:
            for v in (p, o):
                for i in range(len(v)):
                    if rng.random() < 0.15:
                        v[i] = NAN
        for m in (THRESHOLD_FAMILY if rng.random() < 0.3 else rng.sample(THRESHOLD_FAMILY, 3)):
            yield "prob.metric", "prob %s %s %s" % (m, xvec(p), xvec(o))
    # ---- get_p on one case: all bin types, observation below / at / between / above the thresholds
    cdfs = [0.0, 0.25, 0.5, 0.75, 1.0, 0.1, 0.3, NAN]
    for b in BINS:
        for (t, u) in ((1.0, 2.0), (0.0, 0.5)):
            iv = iv_of(b, t, u)
            for o in (t - 1, t, (t + u) / 2, u, u + 1, NAN):
                for _ in range(2 if quick else 8):
                    c0, c1 = sorted([rng.choice(cdfs[:7]), rng.choice(cdfs[:7])])
                    if rng.random() < 0.1:
                        c0 = NAN
                    yield "prob.getp", "getp %s %s %s %s" % (enc_iv(*iv), "-" if math.isinf(iv[0]) else xr(c0),
                                                              "-" if math.isinf(iv[1]) else xr(c1), xr(o))
    # ---- threshold probability and quantile from the ensemble, one case
    grid = [0.0, 0.5, 1.0, 1.5, 2.0, 3.0, -1.0]
    for _ in range(300 if quick else 6000):
        M = rng.choice([1, 2, 3, 4, 5, 6] if quick else [1, 2, 3, 4, 5, 6, 7, 10])
        ms = [rng.choice(grid) for _ in range(M)]
        if rng.random() < 0.4:
            ms = [NAN if rng.random() < 0.3 else v for v in ms]
        t = rng.choice(grid + [0.25, 2.5, -2.0, 5.0])
        yield "prob.ensthr", "ensthr %s %s" % (xr(t), xvec(ms))
        q = rng.choice([0.0, 0.01, 0.1, 0.25, 1 / 3.0, 0.5, 0.75, 0.9, 0.99, 1.0, rng.random()])
        if rng.random() < 0.5:
            ms = [rng.choice(grid + [0.125, 7.25]) for _ in range(M)]
        yield "prob.ensq", "ensq %s %s" % (xr(q), xvec(ms))
    # ---- datasets: CDF columns, ensembles, both; quantile columns; pit
    for _ in range(220 if quick else 5000):
        D = gen_dataset(rng, tier)
        ds = enc_ds(D)
        tpool = [0.0, 0.5, 1.0, 1.5, 2.0, 3.0, 0.25]
        for m in rng.sample(THRESHOLD_FAMILY + ["threshold"], 4):
            b = rng.choice(BINS)
            t = rng.choice(tpool)
            u = t + rng.choice([0.5, 1.0, 2.0])
            yield "prob.data", "pd %s %s %s" % (m, enc_iv(*iv_of(b, t, u)), ds)
        t = rng.choice(tpool)
        yield "prob.field", "thrf %s %s" % (xr(t), ds)
        yield "prob.field", "qntf %s %s" % (xr(rng.choice([0.1, 0.25, 0.5, 0.75, 0.9, 0.3])), ds)
        for m in QUANTILE_FAMILY:
            b = rng.choice(BINS)
            lo, hi = sorted(rng.sample([0.1, 0.25, 0.5, 0.75, 0.9], 2))
            if rng.random() < 0.15:
                lo = 0.3                                  # a level that is not stored
            if m in ("spread", "spreadskillratio"):
                b = rng.choice(BINS[4:])
            iv = iv_of(b, lo, hi)
            if m == "quantilescore":
                iv = (lo, lo, True, True)
            op = "pd %s %s %s" % (m, enc_iv(*iv), ds)
            if m == "spreadskillratio":
                import scipy.stats
                op += " %s" % xr(float(0.5 * (scipy.stats.norm.ppf(iv[1]) - scipy.stats.norm.ppf(iv[0]))))
            yield "prob.quantile", op
        if D.get("pit") is not None:
            for m in PIT_FAMILY:
                yield "prob.pit", "pd %s %s %s" % (m, enc_iv(-math.inf, math.inf, True, True), ds)
    # ---- several scores one after the other on ONE Data object (a threshold plot, or one file and several scores):
    # consecutive events share thresholds, so a score computed earlier has touched the columns a later one reads
    for _ in range(120 if quick else 2500):
        D = gen_dataset(rng, tier)
        ts = sorted(t for t, _ in (D.get("thr") or []))
        if D.get("ens") is not None:
            ts = sorted(set(ts + [0.5, 1.0, 2.0]))
        if len(ts) < 2:
            continue
        items = []
        for _k in range(rng.choice([2, 3, 4])):
            m = rng.choice(THRESHOLD_FAMILY)
            i = rng.randrange(len(ts) - 1)
            b = rng.choice(BINS if rng.random() < 0.4 else BINS[4:])
            items += [m, enc_iv(*iv_of(b, ts[i], ts[i + 1]))]
        items += items[:2]                # the first score once more, after the others
        yield "prob.sequence", "pdseq %s %s" % (enc_ds(D), " ".join(items))
        # a threshold and a quantile level that are the same number (0.5 mm and the median): P(X <= 0.5) and the
        # 0.5-quantile are different fields of the same Data object
        if D.get("qnt") and D.get("thr"):
            lvl = D["qnt"][0][0]
            D2 = dict(D, thr=[(lvl, D["thr"][0][1])] + [(t, c) for t, c in D["thr"][1:] if t > lvl + 1e-3])
            q_item = ["quantilescore", enc_iv(lvl, lvl, True, True)]
            t_item = [rng.choice(THRESHOLD_FAMILY), enc_iv(*iv_of(rng.choice(BINS[:4]), lvl, lvl))]
            seq = (q_item + t_item) if rng.random() < 0.5 else (t_item + q_item)
            yield "prob.sequence", "pdseq %s %s" % (enc_ds(D2), " ".join(seq + seq[:2]))
    # ---- single ensemble members, several of them one after the other from ONE Data object
    for _ in range(60 if quick else 1200):
        D = gen_dataset(rng, tier)
        if D.get("ens") is None or len(D["ens"][0]) < 2:
            continue
        M = len(D["ens"][0])
        ms = [rng.randrange(M) for _k in range(rng.choice([2, 3, 4]))]
        if len(set(ms)) == 1:
            ms[-1] = (ms[0] + 1) % M
        yield "prob.members", "ensseq %s %s" % (enc_ds(D), " ".join(str(m) for m in ms + ms[:1]))
    # ---- PIT statistics and pinball loss on vectors
    for _ in range(80 if quick else 2000):
        L = rng.choice([1, 2, 3, 5, 10, 30])
        pit = [rng.choice(P20 + [0.0, 1.0, 0.1, 0.9, 0.999]) for _ in range(L)]
        if rng.random() < 0.1:
            pit = [rng.choice(P20)] * L
        for m in PIT_FAMILY:
            yield "prob.pit", "prob %s %s -" % (m, xvec(pit))
        obs = [rng.choice([0.0, 0.5, 1.0, 2.0, 3.5, -1.0]) for _ in range(L)]
        q = [rng.choice([0.0, 0.5, 1.0, 2.0, 3.5, -1.0]) for _ in range(L)]
        yield "prob.quantile", "prob quantilescore %s %s %s" % (xvec(q), xvec(obs), xr(rng.choice([0.1, 0.25, 0.5, 0.9, 0.0, 1.0])))
    # ---- the bin loops machine-translated from /repo (Gen/Brier.lean) executed against the real compute_from_obs_fcst:
    # probabilities on and around the bin edges, in the top bin, outside [0, 1] (in no bin), constant series, one case
    rb = random.Random(repr(rng.getstate()[1][:4]) + "genbrier")     # derived without advancing rng: the other streams keep their samples
    for _ in range(150 if quick else 3000):
        L = rb.choice([1, 2, 3, 5, 8, 12])
        pool = P20 + [0.1, 0.3, 0.7, 0.9, 1.0, 1.0, 0.0, 0.999, 0.0999] + ([-0.05, 1.0005, 1.2] if rb.random() < 0.3 else [])
        p = [rb.choice(pool) for _ in range(L)]
        if rb.random() < 0.1:
            p = [rb.choice(pool)] * L
        o = [float(rb.random() < 0.4) for _ in range(L)]
        if rb.random() < 0.1:
            o = [o[0]] * L
        for m in BINNED:
            yield "prob.genbrier", "genbrier %s %s %s" % (m, xvec(p), xvec(o))
    # ---- structural facts the model relies on (last, so that a failing score is reported with its input first)
    yield "prob.meta", "edges"
    for m in TRANSLATED:
        yield "prob.meta", "probperfect %s" % m


# ------------------------------------------------------------------ oracle
def _close(x, y, tol=1e-9):
    from common import tokens_close
    return tokens_close(x, y, tol, tol)


def _close_val(impl_tok, want, tol=1e-9):
    """want: Fraction / float / None (undefined -> NaN expected)"""
    v = from_xr(impl_tok)
    if want is None:
        return math.isnan(v)
    w = float(want)
    return num_close(v, w, tol, tol)


def _ill_conditioned(p, src):
    """rounding may move a computed probability across an interior bin edge"""
    if src == "direct":
        return False
    # the outer edges count too: a difference of two CDF values that is 0 in exact arithmetic may round to -1e-9, which
    # is in no bin
    return any(abs(x - F(k, 10)) < F(1, 10 ** 6) for x in p for k in range(0, 11))


def _pd_parts(a):
    return a[1], dec_iv(a[2]), dec_ds(a[3]), (from_xr(a[4]) if len(a) > 4 else None)


def spec_op(op):
    a = op.split(" ")
    if a[0] == "proball":
        p, o = from_xvec(a[1]), from_xvec(a[2])
        return "spec_proball %s %s" % (xvec(o), xvec(p))
    if a[0] == "prob" and a[1] in THRESHOLD_FAMILY:
        p, o = from_xvec(a[2]), from_xvec(a[3])
        rows = [(x, y) for x, y in zip(o, p) if isfin(x) and isfin(y)]
        if not rows:
            return None
        if a[1] in ("bsrel", "bssrel") and not single_valued([F(y) for _, y in rows]):
            return None
        return "spec_prob %s %s %s" % (a[1], xvec([r[0] for r in rows]), xvec([r[1] for r in rows]))
    if a[0] == "prob" and a[1] in PIT_FAMILY:
        pit = [v for v in from_xvec(a[2]) if isfin(v)]
        return "spec_prob %s %s -" % (a[1], xvec(pit)) if pit else None
    if a[0] == "prob" and a[1] == "quantilescore":
        rows = [(x, y) for x, y in zip(from_xvec(a[3]), from_xvec(a[2])) if isfin(x) and isfin(y)]
        return "spec_prob quantilescore %s %s %s" % (xvec([r[0] for r in rows]), xvec([r[1] for r in rows]), a[4]) if rows else None
    if a[0] == "ensthr":
        return "spec_ensthr %s %s" % (a[1], a[2])
    if a[0] == "ensq":
        return None if "nan" in a[2] else "spec_ensq %s %s" % (a[1], a[2])
    if a[0] == "getp":
        return "spec_getp %s %s" % (a[2], a[3]) if "nan" not in (a[2], a[3], a[4]) else None
    if a[0] == "pd" and a[1] in THRESHOLD_FAMILY:
        name, iv, D, _ = _pd_parts(a)
        g = doc_getp(D, iv)
        if g is None or not g[0] or _ill_conditioned(g[1], g[2]) or any(x < 0 or x > 1 for x in g[1]):
            return None
        if name in ("bsrel", "bssrel") and not single_valued(g[1]):
            return None
        return "spec_prob %s %s %s" % (name, xvec(g[0]), xvec(g[1]))
    return None


def cmp(op, impl_out, model_out):
    a = op.split(" ")
    if a[0] == "pdseq":
        items, it, mt = _seq_items(a), impl_out.split(" "), model_out.split(" ")
        return len(items) == len(it) == len(mt) and all(cmp(o, x, y) for o, x, y in zip(items, it, mt))
    if a[0] in ("edges", "probperfect"):
        return impl_out == model_out
    tol = 1e-9
    if a[0] in ("ensthr", "thrf", "ensseq"):
        tol = 1e-6                       # float32 in the code, k/n in the model
    if a[0] == "pd":
        name, iv, D, _ = _pd_parts(a)
        if D.get("ens") is not None:
            tol = 1e-6
        g = doc_getp(D, iv) if (name in BINNED or name in THRESHOLD_FAMILY) else None
        if name in BINNED:
            if g is not None and _ill_conditioned(g[1], g[2]):
                return True              # rounding decides the bin: outside the exact model (see TRUSTED_BASE)
        if g is not None and g[1] and g[2] != "direct":
            # a stored CDF column and an ensemble-derived one need not be consistent: a probability outside [0, 1] is
            # outside the property's domain (the oracle says so too), and a mean probability that is 0 up to rounding
            # makes ratios of it meaningless
            if any(x < 0 or x > 1 for x in g[1]) or abs(sum(g[1])) < F(1, 10 ** 6) * len(g[1]):
                return True
        if name in ("ign0",) and D.get("ens") is not None:
            tol = 1e-5                   # log of a float32 probability
        if name == "quantilecoverage" and doc_quantile_metric(name, D, iv, None) == "skip":
            return True                  # rounding decides a tie between quantile and observation
    from common import tokens_close
    return tokens_close(impl_out, model_out, tol, tol)


def _seq_items(a):
    """the stand-alone `pd` op of every member of a `pdseq` op"""
    return ["pd %s %s %s" % (name, iv, a[1]) for name, iv in zip(a[2::2], a[3::2])]


def _sig(kind, metric, **kw):
    d = {"kind": kind, "metric": metric}
    d.update(kw)
    return d


def _judge_scores(name, o, p, tok, tol, where):
    want = textbook(name, o, p)
    if want == "skip":
        return None
    if not _close_val(tok, want, tol):
        return (_sig("definition", name), "%s: implementation gives %s, textbook definition gives %s (%s)"
                % (name, tok, "undefined" if want is None else float(want), where))
    return None


def judge(op, impl_out, spec_out):
    v = common.mutated_verdict(op, impl_out)
    if v:
        return v
    a = op.split(" ")
    if a[0] == "ensseq":
        D = dec_ds(a[1])
        got = impl_out.split(";")
        for k, m in enumerate(a[2:]):
            col = [row[int(m)] for row in D["ens"] if isfin(row[int(m)])]
            want = xvec(col) if col else "nan"
            if k >= len(got) or not _close(got[k], want, 1e-6):
                return (_sig("member", "ensemble", order=("first" if k == 0 else "later")),
                        "member %s requested as number %d of %s from one Data object: got %s, the file stores %s" %
                        (m, k + 1, " ".join(a[2:]), got[k] if k < len(got) else None, want))
        return None
    if a[0] == "pdseq":
        items, toks = _seq_items(a), impl_out.split(" ")
        if len(items) != len(toks):
            return (_sig("exception", "pdseq"), "unexpected reply %s" % impl_out[:200])
        for k, (item, tok) in enumerate(zip(items, toks)):
            where = "score %d of the sequence %s on one Data object" % (k + 1, " ".join(a[2:]))
            r = judge(item, tok, None)
            if r:
                return (dict(r[0], layer="sequence"), "%s: %s" % (where, r[1]))
            alone = impl(item)            # the same score on a Data object of its own
            if not (tok == alone or _close(tok, alone, 1e-12)):
                return (_sig("history-dependence", item.split(" ")[1]),
                        "%s gives %s, the same score computed on its own gives %s (dataset %s)" % (where, tok, alone, a[1][:300]))
        return None
    metric = a[1] if a[0] in ("prob", "pd", "probperfect") else a[0]
    if impl_out.startswith("EXC:") or impl_out.startswith("EXIT:"):
        return (_sig("exception", metric), "%s ended in %s" % (op[:200], impl_out))
    if a[0] == "edges":
        want = ",".join([xr(F(k, 10)) for k in range(10)] + [xr(1.001)])
        if impl_out != want:
            return (_sig("edges", "bins"), "Brier bin edges %s, documented 0,.1,…,.9 and a top edge above 1" % impl_out)
        return None
    if a[0] == "probperfect":
        want = {"bs": 0, "bss": 1, "quantilescore": 0, "spherical": 1}.get(a[1])
        if want is not None and impl_out != xr(want):
            return (_sig("declared-perfect", a[1]), "declared perfect score %s, documented %s" % (impl_out, want))
        return None
    if a[0] == "proball":
        p, o = [F(x) for x in from_xvec(a[1])], [F(x) for x in from_xvec(a[2])]
        toks = impl_out.split(" ")
        if len(toks) != len(THRESHOLD_FAMILY) + 1:
            return (_sig("exception", "proball"), "unexpected reply %s" % impl_out)
        for name, tok in zip(THRESHOLD_FAMILY, toks):
            r = _judge_scores(name, o, p, tok, 1e-9, "p=%s o=%s" % (a[1], a[2]))
            if r:
                return r
        vals = dict(zip(THRESHOLD_FAMILY, [from_xr(t) for t in toks]))
        # Brier score of the complementary event (above= 1/2 instead of below 1/2 on the same data)
        if not num_close(vals["bs"], from_xr(toks[-1]), 1e-9, 1e-9):
            return (_sig("complement", "bs"), "BS of the event %s, of its complement %s (p=%s o=%s)" % (toks[0], toks[-1], a[1], a[2]))
        # Murphy's partition when every bin holds one forecast value
        if single_valued(p):
            rhs = vals["bsrel"] - vals["bsres"] + vals["bsunc"]
            if not num_close(vals["bs"], rhs, 1e-9, 1e-9):
                return (_sig("decomposition", "bs"), "BS=%r but REL-RES+UNC=%r with one forecast value per bin (p=%s o=%s)"
                        % (vals["bs"], rhs, a[1], a[2]))
        if spec_out is not None:
            st = spec_out.split(" ")
            for i, name in enumerate(THRESHOLD_FAMILY):
                if name in ("bsrel", "bssrel") and not single_valued(p):
                    continue
                if not _close(toks[i], st[i]):
                    return (_sig("definition", name, via="lean-spec"), "%s: implementation %s, Lean Spec %s (p=%s o=%s)"
                            % (name, toks[i], st[i], a[1], a[2]))
        return None
    if a[0] == "genbrier":
        o, p = [F(x) for x in from_xvec(a[3])], [F(x) for x in from_xvec(a[2])]
        if all(x in (0, 1) for x in o) and all(0 <= x <= 1 for x in p):     # inside the definitions' domain
            return _judge_scores(a[1], o, p, impl_out, 1e-9, op[:160])
        return None
    if a[0] == "prob" and a[1] in THRESHOLD_FAMILY:
        rows = [(F(x), F(y)) for x, y in zip(from_xvec(a[3]), from_xvec(a[2])) if isfin(x) and isfin(y)]
        if not rows:
            if impl_out != "nan":
                return (_sig("no-valid-case", a[1]), "%s from no valid case is %s (NaN expected)" % (a[1], impl_out))
            return None
        r = _judge_scores(a[1], [x for x, _ in rows], [y for _, y in rows], impl_out, 1e-9, op[:160])
        if r:
            return r
    elif a[0] == "prob" and a[1] in PIT_FAMILY:
        pit = [F(v) for v in from_xvec(a[2]) if isfin(v)]
        if not pit:
            return None if impl_out == "nan" else (_sig("no-valid-case", a[1]), "%s from no valid case is %s" % (a[1], impl_out))
        if not _close_val(impl_out, textbook_pit(a[1], pit)):
            return (_sig("definition", a[1]), "%s: implementation gives %s, definition gives %s (pit=%s)"
                    % (a[1], impl_out, textbook_pit(a[1], pit), a[2]))
    elif a[0] == "prob" and a[1] == "quantilescore":
        D, iv = prob_dataset(a[1], from_xvec(a[2]), from_xvec(a[3]), from_xr(a[4]))
        want = doc_quantile_metric("quantilescore", D, iv, None)
        if not _close_val(impl_out, want):
            return (_sig("definition", a[1]), "pinball loss: implementation %s, definition %s (%s)" % (impl_out, want, op[:160]))
    elif a[0] == "getp":
        iv = dec_iv(a[1])
        thr = ([] if a[2] == "-" else [(iv[0], [from_xr(a[2])])]) + ([] if a[3] == "-" else [(iv[1], [from_xr(a[3])])])
        g = doc_getp({"obs": [from_xr(a[4])], "thr": thr}, iv)
        if g[0]:
            want = "%s %s" % (xvec(g[0]), xvec(g[1]))
            if not _close(impl_out, want, 1e-12):
                return (_sig("getp", "get_p"), "get_p gives (obs, p) = %s, documented F(upper)-F(lower) gives %s (%s)"
                        % (impl_out, want, op))
        elif impl_out != "nan nan":
            return (_sig("no-valid-case", "get_p"), "get_p gives (obs, p) = %s for a missing case (NaN, NaN expected)" % impl_out)
    elif a[0] == "ensthr":
        want = doc_ens_prob(from_xvec(a[2]), from_xr(a[1]))
        if not _close_val(impl_out, want, 1e-6):
            return (_sig("ens-threshold", "threshold"), "P(X<=%s) from members %s is %s, fraction at or below is %s"
                    % (a[1], a[2], impl_out, want))
    elif a[0] == "ensq":
        ms = from_xvec(a[2])
        want = doc_hf9(ms, from_xr(a[1]))
        if not _close_val(impl_out, want):
            return (_sig("ens-quantile", "quantile"), "quantile %s of members %s is %s, Hyndman-Fan 9 gives %s"
                    % (a[1], a[2], impl_out, want))
        v = from_xr(impl_out)
        if want is not None and not (min(ms) - 1e-9 <= v <= max(ms) + 1e-9):
            return (_sig("ens-quantile", "quantile", law="range"), "quantile %r outside the members' range" % v)
    elif a[0] in ("thrf", "qntf"):
        D = dec_ds(a[2])
        c = doc_thr_col(D, from_xr(a[1])) if a[0] == "thrf" else doc_qnt_col(D, from_xr(a[1]))
        if c is None:
            if impl_out != "ERR":
                return (_sig("field", a[0]), "field that is neither stored nor derivable gave %s" % impl_out[:80])
            return None
        vals = [v for v in c[0] if v is not None]
        want = xvec(vals) if vals else "nan"
        if not _close(impl_out, want, 1e-6 if c[1] == "ens" else 1e-12):
            return (_sig("field", a[0], source=c[1]), "%s: implementation %s, documented %s" % (op[:120], impl_out[:120], want[:120]))
    elif a[0] == "pd":
        r = _judge_pd(a, impl_out)
        if r:
            return r
    if spec_out is not None and not spec_out.startswith("ERR"):
        tol = 1e-6 if (a[0] in ("ensthr",) or (a[0] == "pd" and "ens=" in a[3])) else 1e-9
        mine = impl_out.split(" ")[-1] if a[0] == "getp" else impl_out
        if not _close(mine, spec_out, tol):
            return (_sig("definition", metric, via="lean-spec"), "%s: implementation %s, Lean Spec %s" % (op[:160], impl_out, spec_out))
    return None


def _judge_pd(a, impl_out):
    name, iv, D, ns = _pd_parts(a)
    ens = D.get("ens") is not None
    tol = 1e-6 if ens else 1e-9
    if name in THRESHOLD_FAMILY or name == "threshold":
        if name == "threshold":
            lo, hi = iv[0], iv[1]
            cols = [doc_thr_col(D, t) for t in ([] if math.isinf(lo) else [lo]) + ([] if math.isinf(hi) else [hi])]
            if any(c is None for c in cols):
                return None if impl_out == "ERR" else (_sig("field", name), "underivable threshold gave %s" % impl_out)
            rows = common_rows([c[0] for c in cols])
            want = None if not rows[0] else (mean([b - x for x, b in zip(rows[0], rows[1])]) if len(rows) == 2 else mean(rows[0]))
            if not _close_val(impl_out, want, tol):
                return (_sig("definition", name), "mean threshold probability %s, documented %s" % (impl_out, want))
            return None
        g = doc_getp(D, iv)
        if g is None:
            return None if impl_out == "ERR" else (_sig("field", name), "underivable threshold gave %s" % impl_out)
        if impl_out == "ERR":
            return (_sig("field", name), "error exit although every threshold is stored or derivable: %s" % " ".join(a)[:200])
        o, pdoc, src = g
        if not o:
            if impl_out != "nan":
                return (_sig("no-valid-case", name), "%s from no valid case is %s (NaN expected)" % (name, impl_out))
            return None
        # the probabilities the code itself derived (real get_p), checked against the documented derivation
        import verif.axis
        import verif.metric
        with warnings.catch_warnings(), np.errstate(all="ignore"):
            warnings.simplefilter("ignore")
            ro, rp = verif.metric.get_p(build(D), 0, verif.axis.No(), None, _interval(iv))
        ro, rp = [float(x) for x in np.array(ro, float)], [float(x) for x in np.array(rp, float)]
        if len(ro) != len(o) or any(F(x) != y for x, y in zip(ro, o)) \
                or any(not num_close(x, float(y), 0, 1e-6 if src == "ens" else 1e-12) for x, y in zip(rp, pdoc)):
            return (_sig("getp", "get_p"), "get_p gives obs=%s p=%s, documented obs=%s p=%s (%s)"
                    % (ro, rp, [int(x) for x in o], [float(x) for x in pdoc], " ".join(a)[:300]))
        if any(x < 0 or x > 1 for x in rp):
            return None
        p = [F(x) for x in rp]
        t = 1e-6 if src == "ens" else 1e-9         # ensemble probabilities are float32, and so is the score arithmetic
        if name == "ign0" and src == "ens":
            t = 1e-5
        return _judge_scores(name, o, p, impl_out, t, " ".join(a)[:300])
    if name in PIT_FAMILY:
        if D.get("pit") is None:
            return None
        pit = [F(v) for v in D["pit"] if isfin(v)]
        if not pit:
            return None if impl_out == "nan" else (_sig("no-valid-case", name), "%s from no valid case is %s" % (name, impl_out))
        if not _close_val(impl_out, textbook_pit(name, pit)):
            return (_sig("definition", name), "%s: implementation gives %s, definition gives %s" % (name, impl_out, textbook_pit(name, pit)))
        return None
    if name in QUANTILE_FAMILY:
        nsd = None
        if name == "spreadskillratio":
            nsd = num_std(iv[0], iv[1])
        want = doc_quantile_metric(name, D, iv, nsd)
        if want == "skip":
            return None
        if want == "ERR":
            return None if impl_out == "ERR" else (_sig("field", name), "underivable quantile gave %s" % impl_out)
        if impl_out == "ERR":
            return (_sig("field", name), "error exit although every quantile is stored or derivable: %s" % " ".join(a)[:200])
        if not _close_val(impl_out, want, 1e-9):
            return (_sig("definition", name), "%s: implementation gives %s, definition gives %s (%s)"
                    % (name, impl_out, want, " ".join(a)[:300]))
    return None


def search_ops(rng):
    """failing-input search after a broken obligation: a fresh quick-size sample"""
    return gen_ops("quick", rng)


def nontrivial(op, out):
    return out not in ("nan", "ERR", "inf", "-inf") and not out.startswith("E")


def shrink(op):
    a = op.split(" ")
    if a[0] == "proball":
        p, o = from_xvec(a[1]), from_xvec(a[2])
        for i in range(len(p)):
            if len(p) > 1:
                yield "proball %s %s" % (xvec(p[:i] + p[i + 1:]), xvec(o[:i] + o[i + 1:]))
    if a[0] == "prob" and len(a) == 4:
        p, o = from_xvec(a[2]), from_xvec(a[3])
        for i in range(len(p)):
            if len(p) > 1 and len(o) == len(p):
                yield "prob %s %s %s" % (a[1], xvec(p[:i] + p[i + 1:]), xvec(o[:i] + o[i + 1:]))


# ------------------------------------------------------------------ PIT values at a discrete mass (# x0: / # x1:)
# Data._get_score hands the Pit field through verif.field.Pit.randomize when the variable declares a discrete mass:
# "if the obs is 0 mm and the CDF at 0 mm is 0.3, then a random number between 0 and 0.3 must be used" (and the same
# from above at x1). Model: Model/PitMass.lean with the drawn numbers as parameters; theorems Proofs/C08PitMass.lean.
# The numbers the tool draws are reproduced here (np.random.RandomState(1), one rand(shape) per declared mass, since
# repair dc3c38f) only for the model comparison; the oracle below does not know them. (Seeded change C08f: with both
# masses declared the x1 branch restarted from the stored value, so a case on the lower mass kept its stored PIT.)
TARGETS = TARGETS + ["Proofs.C08PitMass"]
THEOREMS["Proofs.C08PitMass"] = ["VerifModel.C08." + t for t in [
    "C08_pitmass_off", "C08_pitmass_lower", "C08_pitmass_upper", "C08_pitmass_spec", "C08_pitmass_length"]]


def _pitmass_ops(tier, rng):
    for k in range(60 if tier == "quick" else 1200):
        n = rng.choice([1, 2, 4, 8, 16])
        x0, x1 = [(0.0, None), (None, 100.0), (0.0, 100.0), (0.0, 100.0), (2.5, 2.5)][k % 5]
        vals = [v for v in (x0, x1) if v is not None] + [1.5, 50.0, 99.5]
        obs = [rng.choice(vals) for _ in range(n)]
        pit = [rng.choice([0.0, 0.125, 0.25, 0.5, 0.75, 1.0]) for _ in range(n)]
        g = np.random.RandomState(1)
        u0 = g.rand(n, 1, 1).flatten() if x0 is not None else np.zeros(n)
        u1 = g.rand(n, 1, 1).flatten() if x1 is not None else np.zeros(n)
        yield "prob.pitmass", "pitmass %s %s %s %s %s %s" % (
            "-" if x0 is None else xr(x0), "-" if x1 is None else xr(x1), xvec(obs), xvec(pit), xvec(u0), xvec(u1))


def _pitmass_impl(a):
    import verif.field
    import verif.variable
    x0 = None if a[1] == "-" else from_xr(a[1])
    x1 = None if a[2] == "-" else from_xr(a[2])
    D = {"obs": from_xvec(a[3]), "pit": from_xvec(a[4]), "x0": x0, "x1": x1}
    data = build(D)
    first = np.array(data.get_scores(verif.field.Pit(), 0), float).flatten()
    again = np.array(build_again(D, x0, x1).get_scores(verif.field.Pit(), 0), float).flatten()
    if not np.array_equal(first, again, equal_nan=True):
        return "NONDETERMINISTIC " + xvec(first) + " " + xvec(again)
    return xvec(first)


def build_again(D, x0, x1):
    return build(D)


def _pitmass_judge(a, impl_out):
    if impl_out.startswith("NONDETERMINISTIC"):
        return ({"kind": "pitmass", "part": "repeat"}, "the same dataset gives different PIT values when built twice: " + impl_out[:200])
    if impl_out.startswith("E"):
        return ({"kind": "pitmass", "part": "exception"}, impl_out)
    x0 = None if a[1] == "-" else from_xr(a[1])
    x1 = None if a[2] == "-" else from_xr(a[2])
    got = from_xvec(impl_out)
    for o, p, r in zip(from_xvec(a[3]), from_xvec(a[4]), got):
        low, up = (x0 is not None and o == x0), (x1 is not None and o == x1)
        if not low and not up:
            ok, want = r == p, "the stored value %r" % p
        elif low and not up:
            ok, want = (0 <= r <= p) and (p == 0 or r < p), "a random number in [0, %r)" % p
        elif up and not low:
            ok, want = (p <= r <= 1) and (p == 1 or r > p), "a random number in (%r, 1]" % p
        else:
            ok, want = 0 <= r <= 1, "a number in [0, 1]"
        if not ok:
            return ({"kind": "pitmass", "part": "lower" if low else "upper" if up else "off"},
                    "obs %r, stored PIT %r, masses x0=%r x1=%r: the Pit field is %r, documented: %s" % (o, p, x0, x1, r, want))
    return None


_gen_ops_c08, _impl_c08, _judge_c08, _cmp_c08, _nontrivial_c08 = gen_ops, _impl, judge, cmp, nontrivial


def gen_ops(tier, rng):
    for s in _gen_ops_c08(tier, rng):
        yield s
    for s in _pitmass_ops(tier, rng):
        yield s


def _impl(op):
    if op.startswith("pitmass "):
        import warnings as _w
        with _w.catch_warnings(), np.errstate(all="ignore"):
            _w.simplefilter("ignore")
            return _pitmass_impl(op.split(" "))
    return _impl_c08(op)


def judge(op, impl_out, spec_out):
    if op.startswith("pitmass "):
        v = common.mutated_verdict(op, impl_out)
        return v if v else _pitmass_judge(op.split(" "), impl_out)
    return _judge_c08(op, impl_out, spec_out)


def cmp(op, impl_out, model_out):
    if op.startswith("pitmass "):
        return common.tokens_close(impl_out, model_out, 1e-12, 1e-15)
    return _cmp_c08(op, impl_out, model_out)


def nontrivial(op, out):
    if op.startswith("pitmass "):
        a = op.split(" ")
        return any(t in (a[1], a[2]) for t in a[3].split(","))
    return _nontrivial_c08(op, out)


# stream family metric.multi (props/mmulti.py): the probabilistic scores through the real compute / compute_single on
# datasets with several inputs, for every input index, axis and slice index; ops with the prefix `mm ` are delegated
mmulti.install(globals(), "prob")
