"""C10 — NetCDF input is read faithfully and agrees with the text format.

op lines (formats documented in lean/VerifModel/Driver/Nc.lean):
  ncvars <dims> <vars> <attrs>            a NetCDF file, as netCDF4 shows it  -> canonical dataset line
  ncdata <dims> <vars> <attrs>            the same file under verif.data.Data([input]): verified times / lead times /
                                          location ids and get_scores(Obs|Fcst, 0) -> T=..;L=..;X=..;obs=..;fcst=.. | ERR
  nctext <seed> <dims> <vars> <attrs>     the same numbers as NetCDF (named *.txt) and as text (named *.nc), both read
                                          with get_input, all attributes and a handful of scores compared -> same | diff[..]
  text2nc <seed> <dataset>                text file carrying <dataset> -> scripts/text2nc.py -> canonical line of the result
  detect <isNc> <validNetcdf> <validComps> <validText> <variant> <ext>   -> netcdf | comps | text | ERR
  ncmixed <seed> <dimsA> <varsA> <attrsA> <dimsB> <varsB> <attrsB>      tables A and B, each written as text and as NetCDF;
                                          Data([text A, text B]) vs [nc A, text B] vs [text A, nc B] vs [nc A, nc B] -> same | diff[..]
"""
import atexit
import math
import os
import random
import runpy
import shutil
import subprocess
import sys
import tempfile
import warnings
import numpy as np
import common
from common import xr, xvec, from_xr, from_xvec

ID = "C10"
TARGETS = ["Proofs.C10", "Proofs.C10Mixed"]
GEN_PREFIXES = ["clean."]
THEOREMS = {"Proofs.C10": ["VerifModel.C10." + t for t in [
    "C10_clean_assemble", "C10_same_dataset", "C10_missing_coordinate", "C10_nan_coordinate_unverified",
    "C10_nan_metadata_in_no_range",
    "C10_text2nc", "C10_detect", "C10_valid_iff", "C10_optional_absent", "C10_optional_present"]],
    "Proofs.C10Mixed": ["VerifModel.C10." + t for t in [
        "C10_mixed_congr", "C10_mixed_single", "C10_mixed_replace", "C10_mixed_reordered", "dataInput_dataset"]]}
TRUSTED_BASE = [
    "Lean 4.33 kernel; axioms propext, Classical.choice, Quot.sound only",
    "the netCDF4 / HDF5 libraries (bytes <-> named arrays, masks, attributes): an external parameter of the model "
    "(NcVars = what netCDF4.Dataset shows); numpy.ma.filled",
    "float32 / int32 rounding on storing: the parameter R of text2nc; the theorem is about values R leaves alone, the "
    "harness generates float32-representable data (multiples of 1/8 within +-1024, integer ids, unix times as doubles)",
    "Model/NcAssemble.lean: hand-written model of get_input, Netcdf.is_valid, the Netcdf reader and scripts/text2nc.py, "
    "tied to the real code by the nc.read / nc.data / nc.text2nc / nc.detect correspondence streams on every run; util.clean "
    "is the machine-translated cleaner of C04; Model/Data.lean (Data.__init__ / get_scores, the subject of C01-C03) for what "
    "Data does with a NaN coordinate, tied to the NetCDF reader by the nc.data stream",
    "Spec/Dataset.lean + Spec/NcLayout.lean: my reading of the Input attributes and of the documented NetCDF layout",
    "text side: verif.input.Text on files written by this harness (the text reader itself is C09's subject)",
]
ASSUMPTIONS = [
    "WF table: no stored number is -999 or above 1e30 (those ARE the missing-value encodings); other fields have names that "
    "the reader does not reserve; any entry of any field AND of any coordinate column may be missing",
    "cross-format agreement (nc.text) for a missing COORDINATE entry is stated on the part of the dataset at non-missing "
    "times / lead times / location ids (the rest is in no verification) plus the scores, with the location metadata compared "
    "in full (a missing lat / lon / altitude entry is NaN in both formats); the text reader's former deviations (missing lat / "
    "lon / altitude token read as 0, missing id token replaced by a new id, missing date token: crash) are repaired "
    "(`fixed:` lines of known_findings.txt), their witnesses are regression inputs in corpus/C10.txt",
    "text2nc: float32-representable data, integer location ids, units in display form ($..$ or %); obs and fcst columns "
    "each present or absent (a file needs one of obs / fcst / p.. / q..): the converted file has exactly the fields of "
    "the text file",
    "files without location ids: locations are identified by their metadata (ids are synthetic in both readers)",
]
RULE = ("nc.read: generated tables (1-3 times / lead times / locations, unsorted dimension values, every optional variable "
        "present or absent, thresholds+cdf, quantiles+x, ensemble, pit, other fields, attributes) written with netCDF4 in "
        "shuffled variable order, f4/f8/i4 types, missing cells encoded per cell as fill/masked, NaN, -999, float32(1e31) "
        "or +inf, boundary values 1e30 (kept) and nextafter(1e30) (missing), ignored variables named like regular "
        "columns; for every table a second file in which a random non-empty set of the COORDINATE variables (time, leadtime, "
        "location, lat, lon, altitude, threshold, quantile) has 1..all entries missing, each in one of the same encodings "
        "(masked / explicit _FillValue, NaN, -999, float32(1e31), +inf, nextafter(1e30); i4 variables: masked, -999); nc.data: "
        "those files under verif.data.Data (verified dimensions, get_scores of obs and fcst; all entries missing = error exit); "
        "nc.text: the same table as a text file (shuffled rows/columns, date+hour or unixtime, leadtime/offset, "
        "location/id, altitude/elev, every missing token) with the file names swapped (*.txt holds NetCDF, *.nc holds "
        "text): all attributes and get_scores / mae / ets on both inputs compared exactly; every second table also with ONE "
        "coordinate column (time, leadtime, location, lat, lon, altitude) holding missing entries = rows with a missing "
        "token in that column (unixtime or date+hour); the missing tokens of the text side are -999 -999.0 nan NaN NA . and "
        "the values above 1e30 that are missing in NetCDF as well: 1e31, inf, 9.96921e+36, nextafter(1e30) (both readers "
        "must give NaN); nc.text2nc: text file -> "
        "scripts/text2nc.py (in-process, every 25th as a subprocess) -> read back and compared in every attribute incl. which "
        "of obs / fcst exist (one table in ten has no obs or no fcst, every third table is converted a second time "
        "with its obs column, its fcst column or both removed); nc.detect: content variants x file "
        "extensions incl. malformed NetCDF files; non-trivial = some field holds a finite value")
RULE += ("; nc.mixed: a text file and a NetCDF file in ONE verif.data.Data: two parts A, B of a generated master table (own "
         "selection and order of times / lead times / locations, B with other forecasts, possibly without obs / pit / an other "
         "field / cdf, other elevations, another variable name), each written as text and as NetCDF (per-cell missing encodings "
         "of each format, extensions swapped in every second op); Data([text A, text B]), Data([NetCDF A, text B]), "
         "Data([text A, NetCDF B]), Data([NetCDF A, NetCDF B]) must agree exactly in the verified dimensions, location metadata, "
         "thresholds / quantiles, variable, get_scores of obs / fcst / pit / p.. / q.. / ensemble member / other fields for BOTH "
         "inputs over the axes no / time / leadtime / location (first and last slice), obs+fcst pairs, mae / rmse / corr / ets / bs "
         "and the CLI csv tables of -m mae -x leadtime, -m obs -x time, -m ets -r 1 -x location (numbers compared as numbers); "
         "independently of every reader the verified dimensions must be the sorted common coordinates of the two tables")
EXHAUSTIVE = {"quick": False, "thorough": False}
LEVEL_TEXT = ("Lean theorems: every attribute of the assembled NetCDF input is util.clean of the stored variable (masked, NaN, "
              "-999, >1e30 -> NaN, anything else unchanged: C04_clean); for every well-formed table T and every choice of "
              "missing-value encodings the reader's dataset for the documented NetCDF layout of T equals Spec.datasetOf T in "
              "all attributes (absent lat / lon / altitude read 0), coordinate variables included: a missing entry of time / "
              "leadtime / location / lat / lon / altitude / threshold / quantile reads NaN, and in every Data object built on the "
              "file the position of a NaN time / lead time / location id is in none of the index lists the arrays are cut with "
              "(its cases take part in no verification; no verified dimension value is NaN); a NaN lat / lon / altitude is "
              "inside no range; reading back what text2nc writes returns the dataset "
              "exactly, in every attribute incl. ensemble members, x0 / x1 and WHICH of obs / fcst exist (an input without "
              "observations converts to a file without an obs variable; no assumption that obs / fcst are present), for "
              "every rounding that leaves its numbers alone; the get_input decision table over content predicates (the function has no name argument); "
              "required dims/vars and the defaults of absent optional variables. Partial: the byte level of NetCDF, "
              "float32 rounding and the text reader (C09) are outside.")
LEVEL_TEXT += (" Mixed formats (Proofs/C10Mixed.lean): Data on a list of files depends on each file only through its parsed "
               "dataset (C10_mixed_congr); with the text reader's result for file j equal to datasetOf T, replacing file j by the "
               "documented NetCDF layout of T (any missing-cell encodings) leaves the Data object and every getScores answer of "
               "every input unchanged (C10_mixed_replace = C10_same_dataset + congruence), also when the text reader lists the "
               "coordinates in another order (C10_mixed_reordered, via DataRefine.C02_order_irrelevant); for one NetCDF file the "
               "mixed model is the ncData of stream nc.data (C10_mixed_single). The text reader is a parameter there: the bridge "
               "from C09's Parsed to Dataset is not formalised and is what nc.text / nc.mixed test on real files.")
TRUSTED_BASE = TRUSTED_BASE + [
    "C10Mixed: parsedDataInput (= NcInput.dataInput, dataInput_dataset) is the view Data has of a parsed dataset: coordinates "
    "and the 3-D fields obs / fcst / pit / other; threshold / quantile / ensemble fields are carried by the Dataset equality but "
    "are not columns of the Data model's Input in this theorem (stream nc.mixed compares them on the real code)"]
ASSUMPTIONS = ASSUMPTIONS + [
    "nc.mixed: files with location ids and without missing COORDINATE entries (those cases are nc.text's, with their known "
    "findings); CLI tables compare numbers as numbers: an absent lat / lon / altitude column is the int 0 in the text reader and "
    "the float 0.0 in the NetCDF reader, printed `0` vs `0.0` in -type csv output (cosmetic, reported in MERGE_NOTES)"]
TECHNIQUE = ("Lean 4 proof over a hand-written model of the NetCDF reader and text2nc (clean regenerated from source) + "
             "differential correspondence through real NetCDF/text files + cross-format and round-trip oracles")

BIG = 1000000000000000019884624838656            # the double 1e30
REGULAR = ["obs", "fcst", "id", "location", "lat", "lon", "elev", "altitude", "hour", "date", "unixtime", "leadtime",
           "offset", "threshold", "cdf", "quantile", "x"]
SPURIOUS = ["time", "pit", "ensemble"]
FIELDS3 = ["obs", "fcst", "pit"]

_TMP = None


def tmpdir():
    global _TMP
    if _TMP is None:
        _TMP = tempfile.mkdtemp(prefix="verifc10_")
        atexit.register(shutil.rmtree, _TMP, True)
    return _TMP


_counter = [0]


def fresh(name):
    _counter[0] += 1
    return os.path.join(tmpdir(), "f%d_%s" % (_counter[0], name))


# ------------------------------------------------------------------ neutral dataset dict and canonical line
def _us(s):
    return s.replace(" ", "_")


def _argsort(v):
    v = [float(x) for x in v]
    return sorted(range(len(v)), key=lambda i: (1, 0.0) if math.isnan(v[i]) else (0, v[i]))


def _take(a, axis, perm):
    if a is None:
        return None
    if a.ndim > axis and a.shape[axis] == len(perm):
        return np.take(a, perm, axis=axis)
    return a


def _arr(a):
    if a is None:
        return "none"
    return "*".join(str(int(d)) for d in a.shape) + "@" + xvec(a.flatten())


def sort_dataset(D):
    """every dimension ascending (NaN last, stable), data moved along"""
    pt, pl = _argsort(D["times"]), _argsort(D["leads"])
    px = _argsort([l[0] for l in D["locs"]])
    ph, pq = _argsort(D["thr"]), _argsort(D["qtl"])

    def f3(a):
        return _take(_take(_take(a, 0, pt), 1, pl), 2, px)
    E = dict(D)
    E["times"] = [D["times"][i] for i in pt]
    E["leads"] = [D["leads"][i] for i in pl]
    E["locs"] = [D["locs"][i] for i in px]
    E["thr"] = [D["thr"][i] for i in ph]
    E["qtl"] = [D["qtl"][i] for i in pq]
    for n in ("obs", "fcst", "pit", "ens"):
        E[n] = f3(D[n])
    E["cdf"] = _take(f3(D["cdf"]), 3, ph)
    E["x"] = _take(f3(D["x"]), 3, pq)
    E["others"] = {n: f3(a) for n, a in D["others"].items()}
    return E


def canon_str(D):
    E = sort_dataset(D)
    others = "|".join("%s=%s" % (n, _arr(E["others"][n])) for n in sorted(E["others"]))
    locs = ",".join(":".join(xr(v) for v in l) for l in E["locs"])
    of = E.get("of")
    return ";".join([
        "T=" + xvec(E["times"]), "L=" + xvec(E["leads"]), "X=" + (locs or "-"), "TH=" + xvec(E["thr"]),
        "Q=" + xvec(E["qtl"]), "obs=" + _arr(E["obs"]), "fcst=" + _arr(E["fcst"]), "pit=" + _arr(E["pit"]),
        "ens=" + _arr(E["ens"]), "cdf=" + _arr(E["cdf"]), "x=" + _arr(E["x"]), "O=" + (others or "-"),
        "OF=" + (",".join(sorted(of)) if of else "-"),
        "V=%s|%s|%s|%s" % (_us(E["name"]), _us(E["units"]), "none" if E["x0"] is None else xr(E["x0"]),
                           "none" if E["x1"] is None else xr(E["x1"]))])


def parse_canon(s):
    kv = {}
    for part in s.split(";"):
        k, v = part.split("=", 1)
        kv[k] = v

    def arr(t):
        if t == "none":
            return None
        ds, v = t.split("@")
        return np.array(from_xvec(v), float).reshape([int(d) for d in ds.split("*")])
    locs = [] if kv["X"] == "-" else [tuple(from_xr(t) for t in l.split(":")) for l in kv["X"].split(",")]
    others = {}
    if kv["O"] != "-":
        for e in kv["O"].split("|"):
            n, a = e.split("=", 1)
            others[n] = arr(a)
    name, units, x0, x1 = kv["V"].split("|")
    return {"times": from_xvec(kv["T"]), "leads": from_xvec(kv["L"]), "locs": locs, "thr": from_xvec(kv["TH"]),
            "qtl": from_xvec(kv["Q"]), "obs": arr(kv["obs"]), "fcst": arr(kv["fcst"]), "pit": arr(kv["pit"]),
            "ens": arr(kv["ens"]), "cdf": arr(kv["cdf"]), "x": arr(kv["x"]), "others": others,
            "of": None if kv.get("OF", "-") == "-" else kv["OF"].split(","),
            "name": name.replace("_", " "), "units": units.replace("_", " "),
            "x0": None if x0 == "none" else from_xr(x0), "x1": None if x1 == "none" else from_xr(x1)}


def from_input(inp):
    """all attributes of a real verif.input.Input"""
    def a3(a):
        return None if a is None else np.array(a, float)

    def a4(a):
        if a is None:
            return None
        a = np.array(a, float)
        return None if (a.ndim == 4 and a.shape[3] == 0) else a
    names = list(inp.other_fields)
    return {"times": [float(t) for t in np.array(inp.times, float).flatten()],
            "leads": [float(t) for t in np.array(inp.leadtimes, float).flatten()],
            "locs": [(float(l.id), float(l.lat), float(l.lon), float(l.elev)) for l in inp.locations],
            "thr": [float(t) for t in np.array(inp.thresholds, float).flatten()],
            "qtl": [float(t) for t in np.array(inp.quantiles, float).flatten()],
            "obs": a3(inp.obs), "fcst": a3(inp.fcst), "pit": a3(inp.pit), "ens": a4(inp.ensemble),
            "cdf": a4(inp.threshold_scores), "x": a4(inp.quantile_scores),
            "others": {n: np.array(inp.other_score(n), float) for n in names if n not in SPURIOUS},
            "of": names, "name": inp.variable.name, "units": inp.variable.units,
            "x0": None if inp.variable.x0 is None else float(inp.variable.x0),
            "x1": None if inp.variable.x1 is None else float(inp.variable.x1)}


def close_input(inp):
    f = getattr(inp, "_file", None)
    if f is not None:
        try:
            f.close()
        except Exception:
            pass


# ------------------------------------------------------------------ NcVars encoding
def enc_nc(dims, variables, attrs):
    """dims: [(name,size)], variables: [(name, dtype, [dimnames], [cell tokens])], attrs: [(key, token)]"""
    d = ",".join("%s:%d" % p for p in dims) or "-"
    v = "|".join("%s~%s~%s~%s" % (n, t, "*".join(dn) or "-", ",".join(c) or "-") for n, t, dn, c in variables) or "-"
    a = ";".join("%s=%s" % p for p in attrs) or "-"
    return "%s %s %s" % (d, v, a)


def dec_nc(d, v, a):
    dims = [] if d == "-" else [(p.split(":")[0], int(p.split(":")[1])) for p in d.split(",")]
    variables = []
    if v != "-":
        for e in v.split("|"):
            n, t, dn, c = e.split("~")
            variables.append((n, t, [] if dn == "-" else dn.split("*"), [] if c == "-" else c.split(",")))
    attrs = [] if a == "-" else [tuple(p.split("=", 1)) for p in a.split(";")]
    return dims, variables, attrs


NP_TYPE = {"f4": np.float32, "f8": np.float64, "i4": np.int32}


def write_nc(path, dims, variables, attrs, unlimited=True):
    import netCDF4
    f = netCDF4.Dataset(path, "w")
    size = dict(dims)
    for n, k in dims:
        f.createDimension(n, None if (n == "time" and unlimited and k > 0) else k)
    for n, t, dn, cells in variables:
        fill = None
        if "@" in t:                       # dtype@fill: an explicit _FillValue that is an ordinary number
            t, fill = t.split("@")
            fill = NP_TYPE[t](from_xr(fill))
        var = f.createVariable(n, t, tuple(dn), fill_value=fill)
        vals = np.array([0.0 if c == "m" else from_xr(c) for c in cells], float)
        mask = np.array([c == "m" for c in cells], bool)
        shape = [size[d_] for d_ in dn]
        with np.errstate(all="ignore"):
            data = np.ma.masked_array(vals.astype(NP_TYPE[t]), mask=mask).reshape(shape)
        if data.size:
            var[:] = data
    for k, val in attrs:
        if k in ("x0", "x1"):
            x = from_xr(val)
            setattr(f, k, int(x) if (x == int(x) and abs(x) < 1000 and int(x) % 2 == 0) else x)
        else:
            setattr(f, k, val.replace("_", " "))
    f.close()


def get_input(path):
    """(kind, input) through the real verif.input.get_input; SystemExit -> ('ERR', None)"""
    import verif.input
    try:
        inp = verif.input.get_input(path)
    except SystemExit:
        return "ERR", None
    except AttributeError:
        # the legacy Comps reader is Python-2 code (dict.iteritems) and crashes in its constructor; the DECISION
        # of get_input (which reader was chosen) is what C10 is about: read it off the traceback
        tb = sys.exc_info()[2]
        while tb is not None:
            slf = tb.tb_frame.f_locals.get("self")
            if tb.tb_frame.f_code.co_name == "__init__" and type(slf).__name__ == "Comps":
                return "comps", None
            tb = tb.tb_next
        raise
    return {"Netcdf": "netcdf", "Comps": "comps", "Text": "text"}.get(type(inp).__name__, type(inp).__name__), inp


# ------------------------------------------------------------------ documented semantics of a NetCDF file (oracle)
def _missing(c):
    if c == "m":
        return True
    v = from_xr(c)
    return math.isnan(v) or v == -999 or v > 1e30


def _cell(c):
    return float("nan") if _missing(c) else from_xr(c)


def oracle_dataset(dims, variables, attrs):
    """the dataset a NetCDF file in the documented layout denotes (written from the format description: a value is
    missing iff it is masked / the fill value, NaN, -999 or above 1e30; absent ids are 0,1,2,..; absent lat / lon /
    altitude read 0; the variable name is long_name, else standard_name)"""
    size = dict(dims)
    byname = {n: (dn, cells) for n, _, dn, cells in variables}
    at = dict(attrs)

    def vec(n, dflt):
        return [_cell(c) for c in byname[n][1]] if n in byname else dflt

    def arr(n):
        if n not in byname:
            return None
        dn, cells = byname[n]
        return np.array([_cell(c) for c in cells], float).reshape([size[d] for d in dn])
    nloc = size["location"]
    locs = list(zip(vec("location", [float(i) for i in range(nloc)]), vec("lat", [0.0] * nloc),
                    vec("lon", [0.0] * nloc), vec("altitude", [0.0] * nloc)))
    u = at.get("units", "").replace("_", " ")
    units = "Unknown units" if u == "" else ("%" if u == "%" else "$" + u + "$")
    name = at.get("long_name", at.get("standard_name", "Unknown_variable")).replace("_", " ")
    return {"times": vec("time", []), "leads": vec("leadtime", []), "locs": locs, "thr": vec("threshold", []),
            "qtl": vec("quantile", []), "obs": arr("obs"), "fcst": arr("fcst"), "pit": arr("pit"),
            "ens": arr("ensemble"), "cdf": arr("cdf"), "x": arr("x"),
            "others": {n: arr(n) for n, _, _, _ in variables if n not in REGULAR + SPURIOUS},
            "of": None, "name": name, "units": units,
            "x0": from_xr(at["x0"]) if "x0" in at else None, "x1": from_xr(at["x1"]) if "x1" in at else None}


def oracle_data(dims, variables, attrs):
    """what verif.data.Data([file]) verifies (from the Data docstrings / README: the verified times, lead times and
    locations are the coordinate values the input has; a missing coordinate value is no value: "Remove nan values",
    data.py:674; nothing to verify = error exit): the non-missing coordinate values ascending, and per field the cells at
    those coordinates (missing or infinite cell = NaN); 'ERR' when a dimension has no non-missing value"""
    D = oracle_dataset(dims, variables, attrs)

    def keep(v):
        vals = sorted(set(x for x in v if not math.isnan(x)))
        return vals, [list(v).index(x) for x in vals]
    tv, ti = keep(D["times"])
    lv, li = keep(D["leads"])
    xv, xi = keep([l[0] for l in D["locs"]])
    if not tv or not lv or not xv:
        return "ERR"

    def fld(a):
        if a is None:
            return "ERR"
        a = np.array(a, float)[ti][:, li][:, :, xi]
        a[np.isinf(a)] = np.nan
        return xvec(a.flatten())
    return "T=%s;L=%s;X=%s;obs=%s;fcst=%s" % (xvec(tv), xvec(lv), xvec(xv), fld(D["obs"]), fld(D["fcst"]))


def valid_part(D):
    """the dataset restricted to the non-missing times / lead times / location ids (what can be verified at all)"""
    kt = [i for i, t in enumerate(D["times"]) if not math.isnan(t)]
    kl = [i for i, t in enumerate(D["leads"]) if not math.isnan(t)]
    kx = [i for i, l in enumerate(D["locs"]) if not math.isnan(l[0])]
    if len(kt) == len(D["times"]) and len(kl) == len(D["leads"]) and len(kx) == len(D["locs"]):
        return D
    nt, nl, nx = len(D["times"]), len(D["leads"]), len(D["locs"])

    def f3(a):
        if a is None or a.ndim < 3 or a.shape[:3] != (nt, nl, nx):
            return a
        return np.take(np.take(np.take(a, kt, axis=0), kl, axis=1), kx, axis=2)
    E = dict(D)
    E["times"] = [D["times"][i] for i in kt]
    E["leads"] = [D["leads"][i] for i in kl]
    E["locs"] = [D["locs"][i] for i in kx]
    for n in ("obs", "fcst", "pit", "ens", "cdf", "x"):
        E[n] = f3(D[n])
    E["others"] = {n: f3(a) for n, a in D["others"].items()}
    return E


def _same(a, b):
    if a is None or b is None:
        return a is None and b is None
    a, b = np.array(a, float), np.array(b, float)
    return a.shape == b.shape and bool(np.array_equal(a, b, equal_nan=True))


def diff_datasets(A, B, ctx=None, skip=()):
    """differences between two datasets (sorted canonically first) as (signature, message) pairs;
    the elevation-default difference is reported last"""
    ctx = ctx or {}
    A, B = sort_dataset(A), sort_dataset(B)
    out, late = [], []
    for k, nm in (("times", "time"), ("leads", "leadtime"), ("thr", "threshold"), ("qtl", "quantile")):
        if not _same(A[k], B[k]):
            out.append(({"kind": "dims", "dim": nm}, "%s: %s vs %s" % (nm, A[k], B[k])))
    if len(A["locs"]) != len(B["locs"]):
        out.append(({"kind": "dims", "dim": "location"}, "%d vs %d locations" % (len(A["locs"]), len(B["locs"]))))
    else:
        for j, nm in enumerate(("id", "lat", "lon", "elev")):
            if not _same([l[j] for l in A["locs"]], [l[j] for l in B["locs"]]):
                sig = {"kind": "locmeta", "field": nm}
                if nm == "elev":
                    sig["altitude"] = ctx.get("altitude", "present")
                (late if sig.get("altitude") == "absent" else out).append(
                    (sig, "location %s: %s vs %s" % (nm, [l[j] for l in A["locs"]], [l[j] for l in B["locs"]])))
    for n in ("obs", "fcst", "pit", "ens", "cdf", "x"):
        if n not in skip and not _same(A[n], B[n]):
            out.append(({"kind": "field", "field": n}, "%s: %s vs %s" % (n, _arr(A[n])[:150], _arr(B[n])[:150])))
    if sorted(A["others"]) != sorted(B["others"]):
        out.append(({"kind": "field", "field": "other-names"}, "other fields %s vs %s" % (sorted(A["others"]), sorted(B["others"]))))
    else:
        for n in A["others"]:
            if not _same(A["others"][n], B["others"][n]):
                out.append(({"kind": "field", "field": "other"}, "other field %s: %s vs %s" % (n, _arr(A["others"][n])[:150], _arr(B["others"][n])[:150])))
    for k in ("name", "units", "x0", "x1"):
        if k in skip:
            continue
        a, b = A[k], B[k]
        if k == "units" and "units$" in skip:
            a, b = a.replace("$", ""), b.replace("$", "")
        if a != b and not (isinstance(a, float) and isinstance(b, float) and math.isnan(a) and math.isnan(b)):
            out.append(({"kind": "meta", "field": k}, "variable %s: %r vs %r" % (k, a, b)))
    return out + late


def _sig_str(sig):
    return ",".join("%s:%s" % (k, sig[k]) for k in sorted(sig))


def _sig_parse(s):
    return dict(p.split(":", 1) for p in s.split(","))


# ------------------------------------------------------------------ text files
def table_of(dims, variables, attrs):
    """the numbers of a NetCDF description as a table (for the text writer)"""
    D = oracle_dataset(dims, variables, attrs)
    names = [n for n, _, _, _ in variables]
    D["has"] = {k: (k in names) for k in ("location", "lat", "lon", "altitude")}
    at = dict(attrs)
    D["raw_units"] = at.get("units", None)
    D["has_name"] = ("long_name" in at) or ("standard_name" in at)
    return D


def _tok(v, rng):
    if math.isnan(v):
        return _mtok(rng)
    if math.isinf(v):
        return "inf" if v > 0 else "-inf"
    if v == int(v) and abs(v) < 1e15 and rng.random() < 0.5:
        return "%d" % int(v)
    return repr(float(v))


def write_text(D, path, rng):
    """table D (dict as from table_of / parse_canon, plus D['has']) as a verif text file: shuffled columns and rows, both
    time encodings, leadtime/offset, location/id, altitude/elev, p/q/e columns, other fields, # metadata lines"""
    import verif.util
    has = D.get("has", {"location": True, "lat": True, "lon": True, "altitude": True})
    whole_hours = all(float(t).is_integer() and int(t) % 3600 == 0 and t >= 0 for t in D["times"] if not math.isnan(t))
    use_date = whole_hours and rng.random() < 0.5
    D["tcol"] = "date" if use_date else "unixtime"            # (reported in the signature of a cross-format difference)
    cols = (["date", "hour"] if use_date else ["unixtime"]) + [rng.choice(["leadtime", "offset"])]
    if has["location"]:
        cols.append(rng.choice(["location", "id"]))
    if has["lat"]:
        cols.append("lat")
    if has["lon"]:
        cols.append("lon")
    if has["altitude"]:
        cols.append(rng.choice(["altitude", "elev"]))
    data = []     # (header word, getter(it, il, ix))
    for n in FIELDS3:
        if D[n] is not None:
            data.append((n, lambda it, il, ix, a=D[n]: a[it, il, ix]))
    for k, t in enumerate(D["thr"]):
        if D["cdf"] is not None:
            data.append(("p" + _num(t), lambda it, il, ix, k=k: D["cdf"][it, il, ix, k]))
    for k, q in enumerate(D["qtl"]):
        if D["x"] is not None:
            data.append(("q" + _num(q), lambda it, il, ix, k=k: D["x"][it, il, ix, k]))
    if D["ens"] is not None:
        for k in range(D["ens"].shape[3]):
            data.append(("e%d" % k, lambda it, il, ix, k=k: D["ens"][it, il, ix, k]))
    for n in D["others"]:
        data.append((n, lambda it, il, ix, a=D["others"][n]: a[it, il, ix]))
    order = cols + [w for w, _ in data]
    rng.shuffle(order)
    getter = dict(data)
    rows = []
    for it, t in enumerate(D["times"]):
        for il, l in enumerate(D["leads"]):
            for ix, x in enumerate(D["locs"]):
                # a missing coordinate entry = a missing token in that column of every row of the slice
                tm = math.isnan(t)
                vals = {"unixtime": _mtok(rng) if tm else "%d" % t, "leadtime": _cnum(l, rng), "offset": _cnum(l, rng),
                        "location": _cnum(x[0], rng), "id": _cnum(x[0], rng), "lat": _cnum(x[1], rng), "lon": _cnum(x[2], rng),
                        "altitude": _cnum(x[3], rng), "elev": _cnum(x[3], rng)}
                if use_date:
                    vals["date"] = _mtok(rng) if tm else "%d" % verif.util.unixtime_to_date(int(t))
                    vals["hour"] = "0" if tm else "%d" % ((int(t) % 86400) // 3600)
                for w, g in data:
                    vals[w] = _tok(float(g(it, il, ix)), rng)
                rows.append(rng.choice([" ", "  ", "\t"]).join(vals[c] for c in order))
    rng.shuffle(rows)
    meta = []
    if D.get("has_name", True):
        meta.append("# variable: %s" % D["name"])
    if D.get("text_units") is not None:
        meta.append("# units: %s" % D["text_units"])
    if D["x0"] is not None:
        meta.append("# x0: %s" % _num(D["x0"]))
    if D["x1"] is not None:
        meta.append("# x1: %s" % _num(D["x1"]))
    rng.shuffle(meta)
    with open(path, "w") as f:
        f.write("\n".join(meta + [" ".join(order)] + rows) + "\n")


def _num(v):
    v = float(v)
    return "%d" % int(v) if (v == int(v) and abs(v) < 1e15) else repr(v)


# a missing value in a text file: not a number, nan, -999 and — the same encodings as in a NetCDF file (Text._clean since
# f945b9c) — anything above 1e30: inf, the usual NetCDF fill values
MISSING_TOKENS = ["-999", "nan", "NA", "-999.0", "NaN", ".", "1e31", "inf", "9.96921e+36", "1.0000000000000002e+30"]


def _mtok(rng):
    return rng.choice(MISSING_TOKENS)


def _cnum(v, rng):
    """a coordinate value as a text token; a missing one as one of the missing-value tokens"""
    return _mtok(rng) if math.isnan(float(v)) else _num(v)


def text_expressible(D):
    """can a text file carry this table and be read back to the same dataset? (the quantifier of C10)"""
    coords = list(D["times"]) + list(D["leads"]) + list(D["thr"]) + list(D["qtl"]) + [v for l in D["locs"] for v in l]
    if any(math.isinf(v) for v in coords):
        return False
    if any(math.isnan(v) for v in list(D["thr"]) + list(D["qtl"])):
        return False        # thresholds / quantile levels are header words in a text file: they cannot be missing
    if any(not float(t).is_integer() for t in D["times"] if not math.isnan(t)):
        return False

    def distinct(v):
        v = [x for x in v if not math.isnan(x)]
        return len(set(v)) == len(v)
    for k in ("times", "leads", "thr", "qtl"):
        if not distinct(D[k]):
            return False
    has = D["has"]
    if has["location"]:
        if not distinct([l[0] for l in D["locs"]]):
            return False
    else:
        if any(math.isnan(v) for l in D["locs"] for v in l[1:]):
            return False    # no ids: the metadata IS the identity of a location
        key = [(l[1] if has["lat"] else 0.0, l[2] if has["lon"] else 0.0, l[3] if has["altitude"] else 0.0) for l in D["locs"]]
        if len(set(key)) != len(key):
            return False
    if D["obs"] is None and D["fcst"] is None and not (D["cdf"] is not None or D["x"] is not None):
        return False        # a text header needs obs, fcst, a p.. or a q.. column
    if (D["cdf"] is None) != (len(D["thr"]) == 0) or (D["x"] is None) != (len(D["qtl"]) == 0):
        return False
    for a in [D[n] for n in ("obs", "fcst", "pit", "ens", "cdf", "x")] + list(D["others"].values()):
        if a is not None and (a.ndim not in (3, 4) or a.shape[:3] != (len(D["times"]), len(D["leads"]), len(D["locs"]))):
            return False
    for a in [D["obs"], D["fcst"], D["pit"]] + list(D["others"].values()):
        if a is not None and a.size and np.all(np.isnan(a)) and False:
            return False
    u = D["raw_units"]
    if u is not None and ("$" in u):
        return False
    return True


def coord_missing(D):
    """names of the coordinate variables of table D that hold missing entries"""
    cols = [("time", D["times"]), ("leadtime", D["leads"])] + [
        (n, [l[j] for l in D["locs"]]) for j, n in enumerate(("location", "lat", "lon", "altitude"))] + [
        ("threshold", D["thr"]), ("quantile", D["qtl"])]
    return [n for n, v in cols if any(math.isnan(x) for x in v)]


def rekey_by_meta(D):
    """files without location ids: both readers invent ids; identify locations by their metadata instead"""
    order = sorted(range(len(D["locs"])), key=lambda i: D["locs"][i][1:])
    E = dict(D)
    locs = list(D["locs"])
    for rank, i in enumerate(order):
        locs[i] = (float(rank),) + tuple(D["locs"][i][1:])
    E["locs"] = locs
    return E


# ------------------------------------------------------------------ scores from real inputs
def score_lines(inp, D, with_location):
    """a handful of get_scores requests and metrics on Data([inp]); list of strings"""
    import verif.data
    import verif.field
    import verif.axis
    import verif.metric
    import verif.interval
    out = []
    try:
        data = verif.data.Data([inp])
    except SystemExit:
        return ["ERR init"]
    fields = []
    if D["obs"] is not None:
        fields.append(("obs", verif.field.Obs()))
    if D["fcst"] is not None:
        fields.append(("fcst", verif.field.Fcst()))
    if D["pit"] is not None and D["x0"] is None and D["x1"] is None:
        fields.append(("pit", verif.field.Pit()))      # (with x0/x1 verif randomises the PIT: not comparable)
    for t in D["thr"][:2]:
        fields.append(("thr%s" % xr(t), verif.field.Threshold(t)))
    for q in D["qtl"][:2]:
        fields.append(("qtl%s" % xr(q), verif.field.Quantile(q)))
    if D["ens"] is not None:
        fields.append(("ens0", verif.field.Ensemble(0)))
    for n in sorted(D["others"])[:1]:
        fields.append((n, verif.field.Other(n)))
    axes = [("no", None), ("time", 0), ("leadtime", 0)] + ([("location", 0)] if with_location else [])
    for nm, f in fields:
        for ax, k in axes:
            try:
                r = data.get_scores(f, 0, verif.axis.get(ax), k)
                out.append("%s@%s=%s" % (nm, ax, xvec(np.array(r, float).flatten())))
            except SystemExit:
                out.append("%s@%s=ERR" % (nm, ax))
    if D["obs"] is not None and D["fcst"] is not None:
        for ax, k in axes[:1] + axes[2:]:
            try:
                r = data.get_scores([verif.field.Obs(), verif.field.Fcst()], 0, verif.axis.get(ax), k)
                out.append("obs+fcst@%s=%s" % (ax, ";".join(xvec(np.array(a, float).flatten()) for a in r)))
            except SystemExit:
                out.append("obs+fcst@%s=ERR" % ax)
        for mname in ("mae", "bias", "rmse"):
            try:
                m = verif.metric.get(mname)
                r = m.compute(data, 0, verif.axis.get("leadtime"), None)
                out.append("%s=%s" % (mname, xvec(np.array(r, float).flatten())))
            except SystemExit:
                out.append("%s=ERR" % mname)
        try:
            m = verif.metric.get("ets")
            r = m.compute(data, 0, verif.axis.get("no"), verif.interval.Interval(1.0, np.inf, False, False))
            out.append("ets=%s" % xvec(np.array(r, float).flatten()))
        except SystemExit:
            out.append("ets=ERR")
    return out


# ------------------------------------------------------------------ the implementation side of each op
def impl_ncvars(op):
    a = op.split(" ")
    dims, variables, attrs = dec_nc(a[1], a[2], a[3])
    path = fresh("data.txt")          # NetCDF content under a text-like name
    write_nc(path, dims, variables, attrs, unlimited=(len(op) % 2 == 0))
    try:
        kind, inp = get_input(path)
        if inp is None:
            return kind
        try:
            if kind != "netcdf":
                return "KIND:" + kind
            return canon_str(from_input(inp))
        finally:
            close_input(inp)
    finally:
        os.remove(path)


def impl_ncdata(op):
    import verif.data
    import verif.field
    a = op.split(" ")
    dims, variables, attrs = dec_nc(a[1], a[2], a[3])
    path = fresh("data.nc")
    write_nc(path, dims, variables, attrs, unlimited=(len(op) % 2 == 0))
    try:
        kind, inp = get_input(path)
        if inp is None:
            return kind
        try:
            if kind != "netcdf":
                return "KIND:" + kind
            try:
                data = verif.data.Data([inp])
            except SystemExit:
                return "ERR"

            def fld(f):
                try:
                    return xvec(np.array(data.get_scores(f, 0), float).flatten())
                except SystemExit:
                    return "ERR"
            return "T=%s;L=%s;X=%s;obs=%s;fcst=%s" % (
                xvec(np.array(data.times, float)), xvec(np.array(data.leadtimes, float)),
                xvec([float(l.id) for l in data.locations]), fld(verif.field.Obs()), fld(verif.field.Fcst()))
        finally:
            close_input(inp)
    finally:
        os.remove(path)


def impl_nctext(op):
    a = op.split(" ")
    rng = random.Random(int(a[1]))
    dims, variables, attrs = dec_nc(a[2], a[3], a[4])
    T = table_of(dims, variables, attrs)
    u = T["raw_units"]
    T["text_units"] = None if u in (None, "") else (u if u == "%" else "$" + u.replace("_", " ") + "$")
    pnc, ptx = fresh("netcdf_as.txt"), fresh("text_as.nc")
    write_nc(pnc, dims, variables, attrs, unlimited=rng.random() < 0.5)
    write_text(T, ptx, rng)
    # the coordinate columns that hold missing entries (part of every signature: cross-format differences in a file
    # with a missing coordinate are a different matter than differences in a complete file)
    cm = coord_missing(T)
    extra = {"cmiss": "+".join(cm), "tcol": T["tcol"]} if cm else {}
    knc, inc = get_input(pnc)
    itx = None
    try:
        try:
            ktx, itx = get_input(ptx)
        except Exception as e:
            if not cm:
                raise
            return "diff[%s] NetCDF vs text: the text reader raised %s on the text file (missing %s token) ;;" % (
                _sig_str(dict(extra, kind="text-crash", exc=type(e).__name__)), type(e).__name__, extra["cmiss"])
        if knc != "netcdf" or ktx != "text":
            return "diff[kind:detect] NetCDF content in %s read as %s, text content in %s read as %s" % (
                os.path.basename(pnc), knc, os.path.basename(ptx), ktx)
        # cases at a missing time / lead time / location id are in no verification: the datasets are compared on the rest
        A, B = valid_part(from_input(inc)), valid_part(from_input(itx))
        has_ids = T["has"]["location"]
        if not has_ids:
            A, B = rekey_by_meta(A), rekey_by_meta(B)
        ctx = {"altitude": "present" if T["has"]["altitude"] else "absent"}
        diffs = diff_datasets(A, B, ctx)
        if cm:
            # a difference in the very metadata column that has the missing entry is reported after all others
            own = {"lat": "lat", "lon": "lon", "altitude": "elev"}
            mine = [own[c] for c in cm if c in own]
            diffs = [(dict(s_, **extra), m) for s_, m in diffs]
            diffs.sort(key=lambda d: d[0]["kind"] == "locmeta" and d[0].get("field") in mine)
        if not diffs:
            sa = score_lines(inc, T, has_ids or len(T["locs"]) == 1)
            sb = score_lines(itx, T, has_ids or len(T["locs"]) == 1)
            if not has_ids and len(T["locs"]) > 1:
                sa = sb = []            # synthetic ids differ by a permutation: pooled order is not comparable
            for x, y in zip(sa, sb):
                if x != y:
                    diffs.append((dict(extra, kind="score"), "NetCDF gives %s, text gives %s" % (x[:150], y[:150])))
                    break
            if len(sa) != len(sb):
                diffs.append((dict(extra, kind="score"), "different number of results"))
        if not diffs:
            return "same"
        return " ".join("diff[%s] NetCDF vs text: %s ;;" % (_sig_str(s), m.replace(" ;;", "")) for s, m in diffs)
    finally:
        close_input(inc)
        os.remove(pnc)
        os.remove(ptx)


# ------------------------------------------------------------------ NetCDF and text inputs in ONE Data object
def _cli_rows(files, args):
    """verif <files> <args> -type csv, in-process: the data rows (the header carries the file names)"""
    import contextlib
    import io
    import verif.driver
    buf = io.StringIO()
    try:
        with contextlib.redirect_stdout(buf):
            verif.driver.run(["verif"] + list(files) + list(args) + ["-type", "csv"])
    except SystemExit:
        return "ERR"
    lines = buf.getvalue().strip().splitlines()
    names = [os.path.basename(f) for f in files]
    head = [l for l in lines if any(n in l for n in names)]          # the header row carries the file names
    rows = [l for l in lines if not any(n in l for n in names)]
    def norm(tok):
        # numbers are compared as numbers: a default latitude / elevation is the int 0 in the text reader and the float
        # 0.0 in the NetCDF reader, printed `0` and `0.0` (the same metadata)
        try:
            return xr(float(tok))
        except ValueError:
            return tok.replace(" ", "_")
    return "%dhdr|" % len(head) + "|".join(",".join(norm(t) for t in l.split(",")) for l in rows) if lines else "-"


def mixed_lines(paths, TA, TB):
    """everything C10 compares on Data([get_input(p) for p in paths]): verified dimensions, location metadata,
    thresholds / quantiles, a menu of get_scores requests and metrics for BOTH inputs, CLI csv tables"""
    import verif.data
    import verif.field
    import verif.axis
    import verif.metric
    import verif.interval
    inputs = []
    out = []
    try:
        for q in paths:
            kind, inp = get_input(q)
            if inp is None:
                return ["KIND:%s" % kind]
            inputs.append(inp)
        out.append("opened")
        try:
            data = verif.data.Data(inputs)
        except SystemExit:
            return ["ERR init"]
        out.append("T=" + xvec(np.array(data.times, float)))
        out.append("L=" + xvec(np.array(data.leadtimes, float)))
        out.append("X=" + ",".join("%s:%s:%s:%s" % (xr(float(l.id)), xr(float(l.lat)), xr(float(l.lon)), xr(float(l.elev)))
                                   for l in data.locations))
        out.append("thr=" + xvec(np.array(data.thresholds, float)))
        out.append("qtl=" + xvec(np.array(data.quantiles, float)))
        out.append("var=%s|%s" % (data.variable.name, data.variable.units))
        fields = [("obs", verif.field.Obs()), ("fcst", verif.field.Fcst())]
        if all(T["x0"] is None and T["x1"] is None for T in (TA, TB)):
            fields.append(("pit", verif.field.Pit()))      # (with x0/x1 verif randomises the PIT: not comparable)
        thr = sorted(set(TA["thr"]) | set(TB["thr"]))
        qtl = sorted(set(TA["qtl"]) | set(TB["qtl"]))
        for t in thr[:2]:
            fields.append(("thr%s" % xr(t), verif.field.Threshold(t)))
        for q in qtl[:2]:
            fields.append(("qtl%s" % xr(q), verif.field.Quantile(q)))
        fields.append(("ens0", verif.field.Ensemble(0)))
        for n in sorted(set(TA["others"]) | set(TB["others"]))[:2]:
            fields.append((n, verif.field.Other(n)))
        nlast = {"time": len(data.times) - 1, "leadtime": len(data.leadtimes) - 1, "location": len(data.locations) - 1}
        axes = [("no", None), ("time", 0), ("leadtime", 0), ("location", 0)] + [(a, k) for a, k in sorted(nlast.items()) if k > 0]

        def call(f):
            try:
                r = f()
            except SystemExit:
                return "ERR"
            except Exception as e:
                return "EXC:" + type(e).__name__
            if isinstance(r, list):
                return ";".join(xvec(np.array(a, float).flatten()) for a in r)
            return xvec(np.array(r, float).flatten())
        for i in range(len(inputs)):
            for nm, f in fields:
                for ax, k in (axes if nm in ("obs", "fcst") else axes[:2]):
                    out.append("%d:%s@%s%s=%s" % (i, nm, ax, "" if k is None else k,
                                                  call(lambda: data.get_scores(f, i, verif.axis.get(ax), k))))
            for ax, k in axes[:1] + axes[2:4]:
                out.append("%d:obs+fcst@%s=%s" % (i, ax, call(
                    lambda: data.get_scores([verif.field.Obs(), verif.field.Fcst()], i, verif.axis.get(ax), k))))
            for mname in ("mae", "rmse", "corr"):
                out.append("%d:%s=%s" % (i, mname, call(
                    lambda: verif.metric.get(mname).compute(data, i, verif.axis.get("leadtime"), None))))
            out.append("%d:ets=%s" % (i, call(lambda: verif.metric.get("ets").compute(
                data, i, verif.axis.get("no"), verif.interval.Interval(1.0, np.inf, False, False)))))
            if thr:
                out.append("%d:bs=%s" % (i, call(lambda: verif.metric.get("bs").compute(
                    data, i, verif.axis.get("no"), verif.interval.Interval(-np.inf, thr[0], True, True)))))
    finally:
        for inp in inputs:
            close_input(inp)
    out.append("cli-mae=" + _cli_rows(paths, ["-m", "mae", "-x", "leadtime"]))
    out.append("cli-obs=" + _cli_rows(paths, ["-m", "obs", "-x", "time"]))
    out.append("cli-ets=" + _cli_rows(paths, ["-m", "ets", "-r", "1", "-x", "location"]))
    return out


def impl_ncmixed(op):
    a = op.split(" ")
    rng = random.Random(int(a[1]))
    descr = [dec_nc(*a[2:5]), dec_nc(*a[5:8])]
    tabs, files = [], []
    try:
        for k, (dims, variables, attrs) in enumerate(descr):
            T = table_of(dims, variables, attrs)
            u = T["raw_units"]
            T["text_units"] = None if u in (None, "") else (u if u == "%" else "$" + u.replace("_", " ") + "$")
            # the extension says nothing about the content (every second op has them swapped)
            swap = rng.random() < 0.5
            pnc = fresh("%s_netcdf.%s" % ("AB"[k], "txt" if swap else "nc"))
            ptx = fresh("%s_text.%s" % ("AB"[k], "nc" if swap else "txt"))
            write_nc(pnc, dims, variables, attrs, unlimited=rng.random() < 0.5)
            write_text(T, ptx, rng)
            tabs.append(T)
            files.append({"t": ptx, "n": pnc})
        res = {}
        for combo in ("tt", "nt", "tn", "nn"):
            res[combo] = mixed_lines([files[0][combo[0]], files[1][combo[1]]], tabs[0], tabs[1])
        # independent of every reader: the verified dimensions are the sorted common coordinate values of the two tables
        ref = res["tt"]
        if ref and ref[0] == "opened":
            exp = ["T=" + xvec(sorted(set(tabs[0]["times"]) & set(tabs[1]["times"]))),
                   "L=" + xvec(sorted(set(tabs[0]["leads"]) & set(tabs[1]["leads"]))),
                   "X=" + ",".join("%s:%s:%s:%s" % tuple(xr(float(v)) for v in l) for l in sorted(tabs[0]["locs"])
                                   if l[0] in set(m[0] for m in tabs[1]["locs"]))]
            for combo in ("tt", "nt", "tn", "nn"):
                if res[combo][1:4] != exp:
                    bad = [i for i in range(3) if res[combo][1 + i: 2 + i] != exp[i: i + 1]][0]
                    return "diff[%s] Data([%s]) verifies %s, the tables have in common %s" % (
                        _sig_str({"kind": "mixed-dims", "combo": combo, "part": "TLX"[bad]}), combo,
                        res[combo][1 + bad][:200] if len(res[combo]) > 1 + bad else res[combo], exp[bad][:200])
        elif ref == ["ERR init"]:
            common_ok = all(set(tabs[0][k]) & set(tabs[1][k]) for k in ("times", "leads")) and (
                set(l[0] for l in tabs[0]["locs"]) & set(l[0] for l in tabs[1]["locs"]))
            if common_ok:
                return "diff[%s] Data([text, text]) exits although the tables share times, lead times and locations" % (
                    _sig_str({"kind": "mixed-dims", "combo": "tt", "part": "init"}))
        names = {"t": "text", "n": "NetCDF"}
        for combo in ("nt", "tn", "nn"):
            got = res[combo]
            for x, y in zip(ref, got):
                if x != y:
                    part = x.split("=")[0].split("@")[0]
                    part = part.split(":")[-1] if part[:1].isdigit() else part
                    return "diff[%s] Data([%s A, %s B]) gives %s, Data([text A, text B]) gives %s" % (
                        _sig_str({"kind": "mixed", "combo": combo, "part": part}), names[combo[0]], names[combo[1]],
                        y[:160].replace(" ", "_"), x[:160].replace(" ", "_"))
            if len(ref) != len(got):
                return "diff[%s] Data([%s A, %s B]): %d results, Data([text A, text B]): %d" % (
                    _sig_str({"kind": "mixed", "combo": combo, "part": "count"}), names[combo[0]], names[combo[1]],
                    len(got), len(ref))
        return "same" if ref[:1] == ["opened"] else "same:" + ref[0].replace(" ", "_")
    finally:
        for f in files:
            for q in f.values():
                if os.path.exists(q):
                    os.remove(q)


def run_text2nc(src, dst, sub):
    script = os.path.join(common.REPO, "scripts", "text2nc.py")
    if sub:
        p = subprocess.run([common.PY, script, src, dst], capture_output=True, text=True,
                           env=dict(os.environ, PYTHONPATH=common.REPO), timeout=300)
        if p.returncode != 0:
            return "EXC:text2nc-exit-%d" % p.returncode if "Traceback" in p.stderr else "ERR"
        return None
    old = sys.argv
    sys.argv = [script, src, dst]
    try:
        runpy.run_path(script, run_name="__main__")
    except SystemExit as e:
        if e.code not in (0, None):
            return "ERR"
    finally:
        sys.argv = old
    return None


def impl_text2nc(op):
    a = op.split(" ")
    seed = int(a[1])
    rng = random.Random(seed)
    D = parse_canon(a[2])
    D["has"] = {"location": True, "lat": True, "lon": True, "altitude": True}
    D["has_name"] = D["name"] != "Unknown variable"
    D["text_units"] = None if D["units"] == "Unknown units" else D["units"]
    src, dst = fresh("in.txt"), fresh("out.nc")
    write_text(D, src, rng)
    try:
        err = run_text2nc(src, dst, sub=(seed % 25 == 0))
        if err:
            return err
        kind, out = get_input(dst)
        if out is None:
            return kind
        try:
            res = from_input(out)
            line = canon_str(res)
            # the same comparison against what the REAL text reader sees (float32 precision = exact for this data)
            ktx, itx = get_input(src)
            tx = from_input(itx)
            d = [m for s, m in diff_datasets(tx, res, skip=("units$",))]
            if d:
                line += " !text-reader-vs-output: " + d[0]
            return line
        finally:
            close_input(out)
    finally:
        for p in (src, dst):
            if os.path.exists(p):
                os.remove(p)


DETECT_VARIANTS = {
    # (isNc, validNetcdf, validComps, validText): variants
    (1, 1, 0, 1): ["full", "minimal"],
    (1, 1, 1, 1): ["bothdims"],
    (1, 0, 1, 1): ["comps"],
    (1, 0, 0, 1): ["nolocdim", "notimedim", "noleaddim", "notimevar", "noleadvar", "empty"],
    (0, 0, 0, 1): ["text", "textnoid"],
    (0, 0, 0, 0): ["nofile", "dir"],
}


def _detect_file(variant, ext):
    """create the file of a detect op; returns its path"""
    path = fresh("probe" + ("" if ext == "none" else "." + ext))
    base_dims = [("time", 1), ("leadtime", 1), ("location", 1)]
    tvar = ("time", "f8", ["time"], ["1325376000"])
    lvar = ("leadtime", "f4", ["leadtime"], ["0"])
    ovar = ("obs", "f4", ["time", "leadtime", "location"], ["1"])
    fvar = ("fcst", "f4", ["time", "leadtime", "location"], ["2"])
    if variant == "full":
        write_nc(path, base_dims, [tvar, lvar, ovar, fvar], [])
    elif variant == "minimal":
        write_nc(path, base_dims, [tvar, lvar], [])
    elif variant == "bothdims":
        write_nc(path, base_dims + [("Offset", 1), ("Date", 1), ("Location", 1)], [tvar, lvar, ovar, fvar], [])
    elif variant == "comps":
        shutil.copy(os.path.join(common.REPO, "verif", "tests", "files", "comps_valid1.nc"), path)
    elif variant == "nolocdim":
        write_nc(path, base_dims[:2], [tvar, lvar], [])
    elif variant == "notimedim":
        write_nc(path, [("leadtime", 1), ("location", 1), ("t", 1)], [("time", "f8", ["t"], ["0"]), lvar], [])
    elif variant == "noleaddim":
        write_nc(path, [("time", 1), ("location", 1), ("l", 1)], [tvar, ("leadtime", "f4", ["l"], ["0"])], [])
    elif variant == "notimevar":
        write_nc(path, base_dims, [lvar, ovar, fvar], [])
    elif variant == "noleadvar":
        write_nc(path, base_dims, [tvar, ovar, fvar], [])
    elif variant == "empty":
        write_nc(path, [], [], [])
    elif variant == "text":
        with open(path, "w") as f:
            f.write("# variable: T\nunixtime leadtime location lat lon altitude obs fcst\n1325376000 0 7 60 10 5 1 2\n")
    elif variant == "textnoid":
        with open(path, "w") as f:
            f.write("date leadtime obs fcst\n20120101 0 1 2\n20120102 0 2 3\n")
    elif variant == "dir":
        os.mkdir(path)
    return path


def impl_detect(op):
    a = op.split(" ")
    path = _detect_file(a[5], a[6])
    try:
        kind, inp = get_input(path)
        close_input(inp)
        return kind
    finally:
        if os.path.isdir(path):
            os.rmdir(path)
        elif os.path.exists(path):
            os.remove(path)


def impl(op):
    head = op.split(" ", 1)[0]
    with warnings.catch_warnings():
        warnings.simplefilter("ignore")
        if head == "ncvars":
            return impl_ncvars(op)
        if head == "ncdata":
            return impl_ncdata(op)
        if head == "nctext":
            return impl_nctext(op)
        if head == "ncmixed":
            return impl_ncmixed(op)
        if head == "text2nc":
            return impl_text2nc(op)
        if head == "detect":
            return impl_detect(op)
    return "ERR bad-op"


def cmp(op, impl_out, model_out):
    if op.startswith("nctext ") or op.startswith("ncmixed "):
        return True          # implementation-only cross-format relation (the theorem is C10_same_dataset; text side C09)
    return impl_out == model_out


def lean_op(op):
    a = op.split(" ")
    if a[0] == "detect":
        return " ".join(a[:5])
    if a[0] == "text2nc":
        return "text2nc " + a[2]
    if a[0] == "ncmixed":
        return "ncmixed"          # implementation-only relation; the theorems are C10_mixed_replace / _reordered
    return op


# ------------------------------------------------------------------ oracle
def judge(op, impl_out, spec_out):
    a = op.split(" ")
    if impl_out.startswith("EXC:") or impl_out.startswith("EXIT:"):
        return ({"kind": "exception", "op": a[0]}, "%s raised %s" % (op[:200], impl_out))
    if a[0] == "ncvars":
        dims, variables, attrs = dec_nc(a[1], a[2], a[3])
        names = [n for n, _, _, _ in variables]
        dn = [n for n, _ in dims]
        valid = all(d in dn for d in ("time", "location", "leadtime")) and all(v in names for v in ("time", "leadtime"))
        if not valid:
            if impl_out != "ERR":
                return ({"kind": "detect", "case": "malformed"}, "NetCDF file without the required dims/vars gave %s" % impl_out[:100])
            return None
        if not impl_out.startswith("T="):
            return ({"kind": "detect", "case": "valid-netcdf"}, "valid NetCDF content (named *.txt) gave %s" % impl_out[:100])
        exp = oracle_dataset(dims, variables, attrs)
        got = parse_canon(impl_out)
        diffs = diff_datasets(exp, got, {"altitude": "present" if "altitude" in names else "absent"})
        if diffs:
            s, m = diffs[0]
            return (s, "NetCDF file vs its own numbers (expected vs read): " + m)
        return None
    if a[0] == "ncdata":
        dims, variables, attrs = dec_nc(a[1], a[2], a[3])
        exp = oracle_data(dims, variables, attrs)
        if impl_out != exp:
            cm = coord_missing(table_of(dims, variables, attrs))
            part = "status"
            if exp != "ERR" and impl_out.startswith("T="):
                part = [x.split("=")[0] for x, y in zip(impl_out.split(";"), exp.split(";")) if x != y][0]
            return ({"kind": "data", "part": part, "cmiss": "+".join(cm) or "none"},
                    "Data on the NetCDF file (missing entries in: %s): verifies %s, its numbers say %s"
                    % (", ".join(cm) or "no coordinate", impl_out[:300], exp[:300]))
        return None
    if a[0] == "nctext":
        if impl_out == "same":
            return None
        first = impl_out.split(" ;;")[0]
        sig = _sig_parse(first[first.index("[") + 1:first.index("]")])
        return (sig, first)
    if a[0] == "ncmixed":
        if impl_out.startswith("same"):
            return None
        return (_sig_parse(impl_out[impl_out.index("[") + 1:impl_out.index("]")]), impl_out[:600])
    if a[0] == "text2nc":
        if not impl_out.startswith("T="):
            return ({"kind": "text2nc", "case": "failed"}, "text2nc gave %s" % impl_out[:200])
        if " !text-reader-vs-output: " in impl_out:
            line, msg = impl_out.split(" !text-reader-vs-output: ", 1)
            return ({"kind": "text2nc", "case": "value"}, "text2nc output differs from the text input: " + msg[:300])
        D = parse_canon(a[2])
        got = parse_canon(impl_out)
        # every attribute, incl. WHICH fields exist: a text file without an obs (fcst) column converts to a file
        # without observations (forecasts), obs = None on both sides (5c8853e)
        diffs = diff_datasets(D, got, skip=("units$",))
        order = {"ens": 1, "x0": 2, "x1": 2}
        diffs.sort(key=lambda d: order.get(d[0].get("field"), 0))
        if diffs:
            s, m = diffs[0]
            return (dict(s, kind="text2nc-" + s["kind"]), "text file vs text2nc output: " + m)
        return None
    if a[0] == "detect":
        isnc, vn, vc, vt = [t == "1" for t in a[1:5]]
        exp = ("netcdf" if vn else "comps" if vc else "ERR") if isnc else ("text" if vt else "ERR")
        if impl_out != exp:
            return ({"kind": "detect", "variant": a[5], "ext": a[6]},
                    "content '%s' in a file with extension '%s' detected as %s, expected %s" % (a[5], a[6], impl_out, exp))
        return None
    return None


def nontrivial(op, out):
    if op.startswith("ncmixed"):
        return out == "same"          # (same:ERR_init = no common coordinates: the trivial agreement)
    if op.startswith("ncdata"):
        return out.startswith("T=") and any(ch.isdigit() for ch in out.split(";obs=")[1])
    if op.startswith("ncvars") or op.startswith("text2nc"):
        return out.startswith("T=") and any(ch.isdigit() for ch in out.split(";obs=")[1].split(";pit=")[0])
    return True


# ------------------------------------------------------------------ generators
GRID = [0.0, 0.5, 1.0, 1.5, 2.0, 3.0, 4.5, -1.0, 0.125, -7.25, 1023.875, -1024.0]
F32_BIG = float(np.float32(1e31))


def _val(rng):
    v = rng.choice(GRID) if rng.random() < 0.7 else rng.randint(-8192, 8192) / 8.0
    return 998.875 if v == -999 else v          # -999 is the missing-value code of both formats, never a value


def gen_table(rng):
    nt, nl, nx = rng.randint(1, 3), rng.randint(1, 3), rng.randint(1, 3)
    base = 1325376000 + rng.choice([0, 86400 * 59, 86400 * 365])
    tpool = [base + d * 86400 + h * 3600 for d in range(3) for h in (0, 6, 12)]
    if rng.random() < 0.15:
        tpool = [t + 1800 + 7 for t in tpool]          # not whole hours: unixtime column only
    T = {"nx": nx, "times": [float(t) for t in rng.sample(tpool, nt)],
         "leads": rng.sample([0.0, 1.5, 3.0, 6.0, 12.0, 24.0, 30.0, 48.0], nl)}
    if rng.random() < 0.6:
        T["times"].sort()
        T["leads"].sort()
    T["ids"] = [float(i) for i in rng.sample([0, 1, 3, 7, 18700, 99999, -5], nx)] if rng.random() < 0.8 else None
    lat0 = rng.sample([59.875, 60.0, -33.5, 0.0, 45.25, 89.0], nx)
    lon0 = rng.sample([10.75, -123.125, 0.0, 179.5, 200.0, -5.0], nx)
    el0 = rng.sample([0.0, 94.0, 1500.5, -3.0, 250.0, 8.125], nx)
    T["lats"] = lat0 if rng.random() < 0.8 else None
    T["lons"] = lon0 if rng.random() < 0.8 else None
    T["elevs"] = el0 if rng.random() < 0.75 else None
    pmiss = rng.choice([0.0, 0.15, 0.4])

    def arr(extra=None, prob=False):
        shape = (nt, nl, nx) + (() if extra is None else (extra,))
        n = int(np.prod(shape))
        vals = [(rng.randint(0, 8) / 8.0 if prob else _val(rng)) for _ in range(n)]
        a = np.array(vals, float).reshape(shape)
        m = np.array([rng.random() < pmiss for _ in range(n)], bool).reshape(shape)
        a[m] = np.nan
        if rng.random() < 0.06:
            a[rng.randrange(nt)] = np.nan
        if rng.random() < 0.03:
            a[:] = np.nan
        return a
    T["obs"] = arr() if rng.random() < 0.9 else None
    T["fcst"] = arr() if rng.random() < 0.9 else None
    T["pit"] = arr(prob=True) if rng.random() < 0.4 else None
    if rng.random() < 0.5:
        k = rng.randint(1, 3)
        T["thr"] = rng.sample([0.5, 1.0, 2.0, -3.0, 10.0, 0.125, 100.0], k)
        T["cdf"] = arr(k, prob=True)
    else:
        T["thr"], T["cdf"] = [], None
    if rng.random() < 0.4:
        k = rng.randint(1, 3)
        T["qtl"] = rng.sample([0.125, 0.25, 0.5, 0.75, 0.875], k)
        T["x"] = arr(k)
    else:
        T["qtl"], T["x"] = [], None
    T["ens"] = arr(rng.randint(1, 3)) if rng.random() < 0.4 else None
    T["others"] = {n: arr() for n in rng.sample(["wind", "T2", "rh", "foo", "spread"], rng.choice([0, 0, 1, 2]))}
    T["name"] = rng.choice([None, "T", "Precip", "Air_temperature", "RH"])
    T["units"] = rng.choice([None, "", "%", "K", "m/s", "mm", "^oC"])
    T["x0"] = rng.choice([None, None, 0.0, 0.5])
    T["x1"] = rng.choice([None, None, 100.0, 2.5])
    return T


def _enc_missing(rng, dtype):
    if dtype == "i4":
        return rng.choice(["m", "-999"])          # an integer variable cannot hold NaN or a value above 1e30
    kinds = ["m", "nan", "-999", xr(F32_BIG)] + (["inf"] if rng.random() < 0.2 else [])
    if dtype == "f8":
        kinds.append(xr(float(np.nextafter(1e30, 2e30))))
    return rng.choice(kinds)


COORD_OF = {"time": "times", "leadtime": "leads", "location": "ids", "lat": "lats", "lon": "lons", "altitude": "elevs",
            "threshold": "thr", "quantile": "qtl"}


def punch_coords(T, rng, kinds=None):
    """copy of table T in which coordinate columns have missing entries (NaN): `kinds` = the columns (default: a random
    non-empty set of the columns the table has), 1..all entries of each"""
    avail = [n for n, k in COORD_OF.items() if T[k]]
    if kinds is None:
        kinds = [n for n in avail if rng.random() < 0.3] or [rng.choice(avail)]
    U = dict(T)
    for n in kinds:
        if n not in avail:
            continue
        v = list(T[COORD_OF[n]])
        cnt = len(v) if rng.random() < 0.1 else rng.randint(1, max(1, len(v) - 1))
        for i in rng.sample(range(len(v)), cnt):
            v[i] = float("nan")
        U[COORD_OF[n]] = v
    return U


def table_to_nc(T, rng, text_compatible=True):
    """the documented NetCDF layout of table T with the writer's choices drawn from rng -> (dims, variables, attrs)"""
    nt, nl, nx = len(T["times"]), len(T["leads"]), T["nx"]
    dims = [("time", nt), ("leadtime", nl), ("location", nx)]
    if T["cdf"] is not None:
        dims.append(("threshold", len(T["thr"])))
    if T["x"] is not None:
        dims.append(("quantile", len(T["qtl"])))
    if T["ens"] is not None:
        dims.append(("ensemble_member", T["ens"].shape[3]))
    variables = []

    def coord(name, dtype, vals):
        # a coordinate variable; a missing entry (NaN in the table) in one of the encodings the data variables get
        miss = any(math.isnan(v) for v in vals)
        cells = [_enc_missing(rng, dtype) if math.isnan(v) else xr(v) for v in vals]
        if miss and rng.random() < 0.35:
            dtype += "@" + xr(rng.choice([12345.0, -7777.0] + ([] if dtype == "i4" else [0.0625])))   # explicit _FillValue
        variables.append((name, dtype, [{"lat": "location", "lon": "location", "altitude": "location"}.get(name, name)], cells))
    coord("time", rng.choice(["f8", "i4"]), T["times"])
    coord("leadtime", rng.choice(["f4", "f4", "f8"]), T["leads"])
    if T["ids"] is not None:
        coord("location", rng.choice(["i4", "i4", "f8", "f4"]) if any(math.isnan(v) for v in T["ids"]) else "i4", T["ids"])
    for n, k in (("lat", "lats"), ("lon", "lons"), ("altitude", "elevs")):
        if T[k] is not None:
            coord(n, "f4", T[k])

    def field(name, a, dn):
        dtype = rng.choice(["f4", "f4", "f4", "f8"])
        cells = []
        for v in a.flatten():
            cells.append(_enc_missing(rng, dtype) if math.isnan(v) else xr(float(v)))
        if dtype == "f8" and cells and rng.random() < 0.4:
            cells[rng.randrange(len(cells))] = str(BIG)          # exactly 1e30: a value, not a missing code
        if dtype == "f4" and cells and rng.random() < 0.03:
            cells[rng.randrange(len(cells))] = "-inf"
        if rng.random() < 0.35:
            dtype += "@" + xr(rng.choice([12345.0, -7777.0, 0.0625]))     # _FillValue inside the ordinary range
        variables.append((name, dtype, dn, cells))
    d3 = ["time", "leadtime", "location"]
    for n in FIELDS3:
        if T[n] is not None:
            field(n, T[n], d3)
    if T["cdf"] is not None:
        coord("threshold", "f4", T["thr"])
        field("cdf", T["cdf"], d3 + ["threshold"])
    if T["x"] is not None:
        coord("quantile", "f4", T["qtl"])
        field("x", T["x"], d3 + ["quantile"])
    if T["ens"] is not None:
        field("ensemble", T["ens"], d3 + ["ensemble_member"])
    for n, a in T["others"].items():
        field(n, a, d3)
    if not text_compatible:
        # variables the reader must ignore (regular column names that mean nothing in NetCDF)
        if rng.random() < 0.5:
            variables.append((rng.choice(["elev", "id", "date", "offset", "unixtime", "hour"]), "f4", ["location"],
                              [xr(float(rng.randint(0, 50))) for _ in range(nx)]))
    rng.shuffle(variables)
    attrs = []
    if T["name"] is not None:
        style = rng.choice(["long", "standard", "both"])
        if style in ("long", "both"):
            attrs.append(("long_name", T["name"]))
        if style == "standard":
            attrs.append(("standard_name", T["name"]))
        if style == "both":
            attrs.append(("standard_name", "air_temperature"))
    if T["units"] is not None:
        attrs.append(("units", T["units"]))
    if T["x0"] is not None:
        attrs.append(("x0", xr(T["x0"])))
    if T["x1"] is not None:
        attrs.append(("x1", xr(T["x1"])))
    return dims, variables, attrs


def table_as_dataset(T, rng):
    """the table as the dataset a text file carries (for text2nc ops): display units, ids/metadata always present"""
    nx = T["nx"]
    ids = T["ids"] or [float(i) for i in rng.sample(range(20), nx)]
    lats = T["lats"] or [0.0] * nx
    lons = T["lons"] or [0.0] * nx
    elevs = T["elevs"] or [0.0] * nx
    u = T["units"]
    units = "Unknown units" if u in (None, "") else ("%" if u == "%" else "$" + u + "$")

    def clean(a):
        if a is None:
            return None
        a = np.array(a, float)
        a[np.isinf(a)] = np.nan
        return a
    return {"times": T["times"], "leads": T["leads"], "locs": list(zip(ids, lats, lons, elevs)), "thr": T["thr"],
            "qtl": T["qtl"], "obs": clean(T["obs"]), "fcst": clean(T["fcst"]), "pit": clean(T["pit"]),
            "ens": clean(T["ens"]), "cdf": clean(T["cdf"]), "x": clean(T["x"]),
            "others": {n: clean(a) for n, a in T["others"].items()}, "of": None,
            "name": (T["name"] or "Unknown variable").replace("_", " "), "units": units, "x0": T["x0"], "x1": T["x1"]}


def sub_table(M, rng, second):
    """a table holding part of master table M: a non-empty selection of its times / lead times / locations in an order
    of its own (coverage and coordinate order differ between the files of one Data object); `second`: the forecasts are
    other numbers, fields may be absent (obs are then borrowed from the first input), location metadata may differ"""
    def pick(n):
        idx = rng.sample(range(n), n if rng.random() < 0.5 else rng.randint(1, n))
        return sorted(idx) if rng.random() < 0.3 else idx
    it, il, ix = pick(len(M["times"])), pick(len(M["leads"])), pick(M["nx"])
    U = dict(M)
    U["times"] = [M["times"][i] for i in it]
    U["leads"] = [M["leads"][i] for i in il]
    U["nx"] = len(ix)
    for k in ("ids", "lats", "lons", "elevs"):
        U[k] = None if M[k] is None else [M[k][i] for i in ix]

    def cutf(a):
        return None if a is None else np.array(a[np.ix_(it, il, ix)], float)
    for k in ("obs", "fcst", "pit", "cdf", "x", "ens"):
        U[k] = cutf(M[k])
    U["others"] = {n: cutf(a) for n, a in M["others"].items()}
    if second:
        if U["fcst"] is not None:
            U["fcst"] = U["fcst"] + rng.choice([0.5, -1.0, 0.125])
        if U["obs"] is not None and U["fcst"] is not None and rng.random() < 0.3:
            U["obs"] = None
        if rng.random() < 0.3:
            U["pit"] = None
        if U["others"] and rng.random() < 0.4:
            U["others"].pop(sorted(U["others"])[0])
        if rng.random() < 0.2 and (U["obs"] is not None or U["fcst"] is not None):
            U["thr"], U["cdf"] = [], None
        if U["elevs"] is not None and rng.random() < 0.3:
            U["elevs"] = [e + 1.0 for e in U["elevs"]]          # Data takes the metadata of the FIRST input
        U["name"] = rng.choice([M["name"], "Other"])
    return U


def gen_ops(tier, rng):
    n = 150 if tier == "quick" else 3000
    for k in range(n):
        T = gen_table(rng)
        dims, variables, attrs = table_to_nc(T, rng)
        enc = enc_nc(dims, variables, attrs)
        yield "nc.read", "ncvars " + enc
        D = table_of(dims, variables, attrs)
        if text_expressible(D):
            yield "nc.text", "nctext %d %s" % (rng.randrange(10 ** 6), enc)
        if k % 2 == 1 and (tier == "quick" or k % 10 == 1):          # quick: 75 ops, thorough: 600 (0.3 s each)
            # a text file and a NetCDF file in ONE Data object: two parts of a master table, each written in both formats
            M = gen_table(rng)
            if M["ids"] is None:
                M["ids"] = [float(i) for i in rng.sample([0, 1, 3, 7, 18700, 99999, -5], M["nx"])]
            if M["obs"] is None and M["fcst"] is None:
                M["obs"] = np.array([[[_val(rng) for _ in range(M["nx"])] for _ in M["leads"]] for _ in M["times"]], float)
            encs = []
            for second in (False, True):
                dd, vv, aa = table_to_nc(sub_table(M, rng, second), rng)
                encs.append((enc_nc(dd, vv, aa), text_expressible(table_of(dd, vv, aa))))
            if all(ok for _, ok in encs):
                yield "nc.mixed", "ncmixed %d %s %s" % (rng.randrange(10 ** 6), encs[0][0], encs[1][0])
        if k % 3 == 0:
            # reader-only variants: ignored variables, missing optional groups
            d2, v2, a2 = table_to_nc(T, rng, text_compatible=False)
            yield "nc.read", "ncvars " + enc_nc(d2, v2, a2)
        # missing entries in the COORDINATE variables: the reader, and Data on the file
        dm, vm, am = table_to_nc(punch_coords(T, rng), rng, text_compatible=(k % 2 == 0))
        encm = enc_nc(dm, vm, am)
        yield "nc.read", "ncvars " + encm
        yield "nc.data", "ncdata " + encm
        if k % 4 == 0:
            yield "nc.data", "ncdata " + enc
        if k % 2 == 0:
            # ... and against the text file whose rows have a missing token in ONE coordinate column
            one = rng.choice(["time", "time", "leadtime", "leadtime", "location", "lat", "lon", "altitude"])
            d1, v1, a1 = table_to_nc(punch_coords(T, rng, [one]), rng)
            if text_expressible(table_of(d1, v1, a1)):
                yield "nc.text", "nctext %d %s" % (rng.randrange(10 ** 6), enc_nc(d1, v1, a1))
        if k % 10 == 0:
            # malformed: a required dimension or variable is absent
            drop = rng.choice(["dim:location", "dim:leadtime", "dim:time", "var:time", "var:leadtime"])
            kind, name = drop.split(":")
            d3 = [p for p in dims if not (kind == "dim" and p[0] == name)]
            v3 = [v for v in variables if not (kind == "var" and v[0] == name) and not (kind == "dim" and name in v[2])]
            yield "nc.malformed", "ncvars " + enc_nc(d3, v3, attrs)
        if T["obs"] is not None or T["fcst"] is not None or T["cdf"] is not None or T["x"] is not None:
            Dt = table_as_dataset(T, rng)
            if len(set(Dt["times"])) == len(Dt["times"]):
                yield "nc.text2nc", "text2nc %d %s" % (rng.randrange(10 ** 6) * 25 + (0 if k % 25 == 0 else 1 + rng.randrange(24)),
                                                       canon_str(Dt))
                if k % 3 == 1:
                    # the same text file WITHOUT its obs column / fcst column / both (as long as the header keeps one of
                    # obs, fcst, p.., q..): the converted file must not have that variable either
                    drop = rng.choice([("obs",), ("fcst",), ("obs", "fcst")])
                    Du = dict(Dt)
                    for n in drop:
                        Du[n] = None
                    if Du["obs"] is not None or Du["fcst"] is not None or Du["cdf"] is not None or Du["x"] is not None:
                        yield "nc.text2nc", "text2nc %d %s" % (rng.randrange(10 ** 6) * 25 + 1 + rng.randrange(24),
                                                               canon_str(Du))
    exts = ["nc", "txt", "none", "dat"]
    for key, variants in sorted(DETECT_VARIANTS.items()):
        for v in variants:
            for e in (exts if tier == "thorough" or v in ("full", "text", "comps", "nolocdim") else exts[:2]):
                yield "nc.detect", "detect %d %d %d %d %s %s" % (key + (v, e))
