"""C12 — text and csv outputs report exactly the computed scores.

Streams
  fmtg        "%.{p}g" % x on doubles (ties at the rounding digit, powers of ten, subnormals, huge, specials)
  out.writer  the REAL Output.csv / Output.text on synthetic tables (an Output subclass whose _get_x_y
              returns the table): separators, padding, strip(), -f
  out.table   the REAL verif.driver.run([... -type csv|text ...]) on generated text input files; the
              table the writer looped over (x, y, labels from the wrapped _get_x_y, descriptors from the
              wrapped Data.get_axis_descriptions) is captured and sent to the model as exact doubles, so
              the comparison is on the emitted bytes
              A quarter of the files are probabilistic (CDF columns p<t>, quantile columns q<level>, pit, or ensemble
              members e0..e4) with the metrics bs, bss, ign0, quantilescore (-q), pithistdev, spread, pit; metrics that
              honour it get -agg (median, min, max, count, sum, std, a numeric level)
  out.table.perm  deterministic grid: -x threshold with the three thresholds of -r in all 6 orders x the four bin types of
              the within family x csv/text x {a, ets, bs}: row i carries threshold i of the command line and the score of
              the pair (threshold i, threshold i+1); the hit frequency a is recounted from the file rows
  out.qdesc   which list the leading "Threshold" column of `-x threshold` shows: the REAL driver on a fixed probabilistic
              file x 10 metrics x -r / -q / -b variants against Model/OutputDescs.lean (driver.py:548-572 stores the
              quantile levels in pl.thresholds for quantile metrics); the oracle has its own metric table
  out.table.sub  the same on files with several initialisation times per day (date + hour columns: 00/06/12/18 UTC
              runs; unixtime column: any second of the day): a deterministic grid over the time-like axes, then
              random; the row label must be the slice's own init time / bucket and no two rows may share one
  out.tlabel  the REAL Data.get_axis_descriptions on one axis value of a time-like axis (Time, Day, Month, Week,
              Year) against Model/TimeLabel.lean, byte for byte; the oracle writes the label out by hand
  out.acc     Standard._get_x_y with -acc on a stub metric/data   (np.cumsum(np.nan_to_num(y), axis=0))
  out.tavg    Standard._get_x_y threshold averaging on a stub metric/data

Descriptor fields: text — strings and numbers are formatted by the model (%-*s / %-*g) and compared as
bytes; csv — `str(descs[k][i])` (Python's shortest repr of a NumPy scalar) is NOT modelled: the harness
passes that string to the model and the oracle compares descriptors by parsed value against the dataset.
"""
import atexit
import contextlib
import datetime
import decimal
import io
import itertools
import json
import math
import os
import re
import shutil
import struct
import tempfile
import urllib.parse
from fractions import Fraction

import numpy as np
from common import xr, xvec, from_xr, from_xvec, num_close

ID = "C12"
TARGETS = ["Proofs.C12", "Proofs.C12Labels", "Proofs.C12Descs", "Proofs.C12Columns", "Proofs.Lemmas.Decimal",
           "Proofs.Lemmas.Table"]
GEN_PREFIXES = []
THEOREMS = {
    "Proofs.C12": ["VerifModel.C12." + t for t in [
        "C12_csv_shape", "C12_csv_lines", "C12_csv_cell", "C12_text_shape", "C12_text_lines",
        "C12_fmtG_sound", "C12_fmtG_special", "C12_fmtG_chars", "C12_descs", "C12_descs_other",
        "C12_acc", "C12_acc_full", "C12_threshold_avg", "C12_file_same"]],
    "Proofs.C12Labels": ["VerifModel.C12." + t for t in [
        "C12_time_label", "C12_time_label_inj", "C12_time_labels_nodup", "C12_bucket_label", "C12_bucket_label_iff",
        "C12_week_rows_distinct", "C12_week_label_printed", "C12_week_label_own", "C12_week_label_iff_partial",
        "C12_week_label_iff_false", "C12_week_same_label_two_weeks", "C12_week_one_week_two_labels"]],
    "Proofs.C12Descs": ["VerifModel.C12." + t for t in [
        "C12_descs_quantile", "C12_descs_not_quantile", "C12_descs_given", "C12_threshold_column_rows"]],
    "Proofs.C12Columns": ["VerifModel.C12." + t for t in [
        "C12_columns_scored", "C12_table_columns", "C12_rows_ascending", "C12_rows_ascending_axis", "C12_text_cell", "C12_loc_descs"]],
    "Proofs.Lemmas.Decimal": ["VerifModel.Decimal." + t for t in [
        "ilog10_spec", "floorLog10_spec", "roundHalfEven_spec", "toDec_digits", "toDec_sound", "toDec_exp",
        "unsignedVal_fixed", "unsignedVal_sci", "fmtG_reads", "fmtG_sound"]],
}
TRUSTED_BASE = [
    "Lean 4.33 kernel; axioms propext, Classical.choice, Quot.sound only",
    "Base/Decimal.lean as the meaning of C's %.{p}g on the exact value of a double (CPython's correctly "
    "rounded float formatting); tied by stream fmtg against Python's % operator on every run; the reader valueOf? "
    "(Base/Decimal.lean) as the meaning of 'the decimal value of the printed numeral'",
    "Model/OutputTable.lean: hand-written mirror of Output.csv / Output.text / the numeric tail of "
    "Standard._get_x_y, tied by streams out.writer (real writers, synthetic tables), out.table (real "
    "verif.driver.run, table captured by wrapping _get_x_y and Data.get_axis_descriptions), out.acc, out.tavg",
    "Model/OutputDescs.lean: hand-written evaluation of the source of pl.thresholds (-r, stored thresholds, -q, stored "
    "quantiles; the SOURCE logic is Model/Dispatch.lean, shared with C19, driven by the class table regenerated from "
    "metric.py / output.py) and of the number of intervals per bin type, tied by stream out.qdesc (real driver)",
    "Model/TimeLabel.lean: hand-written mirror of the time-like branch of Data.get_axis_descriptions (UTC "
    "broken-down time of the axis value written with the axis format; %Y for years 1000-9999, %U = (yday + 7 - "
    "wday) / 7), tied by stream out.tlabel (real method, 31 days x 12 seconds of the day x 5 axes on every run); "
    "its calendar arithmetic is Base/Calendar.lean, proved equal to the textbook calendar for 1900-2100 in "
    "Proofs/C11Calendar.lean (one kernel evaluation over the 73 414 days)",
    "Model/OutputColumns.lean: hand-written mirror of Data.num_inputs / get_names / get_legend (data.py:396-415, "
    "738-739) and of the column loop of Standard._get_x_y (output.py:836-849) over the DataS of Model/Data.lean "
    "(inputs = scored files followed by the climatology); no stream of its own: the out.table ops with -c / -C (9 % "
    "of the deterministic scenarios) compare the emitted header / columns with the scored files of the command line; "
    "the input names are a parameter of the theorem (the Input model of Model/Data.lean carries no name); locDescs "
    "(location branch of get_axis_descriptions) has no stream either: the descriptor columns reach the writer model "
    "as captured values and are compared by the oracle with the station table of the first file for every metric",
    "not modelled: Python's str() of a NumPy scalar (csv descriptor fields; compared by parsed value), "
    "the round trip of an instant through matplotlib's date numbers (exact for whole seconds; out.tlabel), "
    "fractional seconds, IEEE rounding of np.cumsum and of the "
    "threshold mean (rtol 1e-9), negative zero (\"-0\" is normalised to \"0\" in the comparison)",
    "the oracle's independent recomputation uses verif.data.Data and verif.metric.<M>.compute on a fresh "
    "dataset, with the aggregator of -agg set on the metric and the quantile levels / stored thresholds chosen by the "
    "oracle's own metric table (C01-C11, C08, C15 are responsible for those functions); for mae/bias (any -agg, "
    "aggregators written out by hand) and for the hit frequency a on the threshold axis it additionally recomputes "
    "every slice in plain Python from the generated rows",
]
ASSUMPTIONS = [
    "round-trip theorems (decidable predicates CsvOk / TextOk, non-vacuity examples in Proofs/C12.lean): csv — header "
    "names and legend non-empty lists; every name / legend / descriptor string non-empty, without ',' or newline, no "
    "blank at either end; text — first header name non-empty, every name / legend / string descriptor without '|' or "
    "newline and without blank at either end (may be empty); every row has one descriptor per header name and one "
    "score per legend entry.  Outside that domain (e.g. -leg 'c|d') only correspondence and oracle speak",
    "-acc: running sums in exact arithmetic with IEEE special values (NaN counts as 0, an infinite score makes the "
    "sum infinite, +inf and -inf together NaN) for every input (C12_acc_full); rounding of the float sums is not modelled",
    "generated datasets: init times at whole seconds (midnight in out.table; 00/03/06/12/18/21/23 UTC or odd seconds "
    "of the day in out.table.sub), obs identical across files for the same case, values exactly representable in "
    "float32",
    "time-axis label theorems: every whole second from 1900-01-01T00:00:00Z to 2100-12-31T23:59:59Z (the range of "
    "the C11 calendar facts)",
    "week label: the full statement 'equal %Y/%U labels <=> same week bucket' is FALSE (C12_week_label_iff_false: "
    "buckets start on Monday, %U counts weeks from Sunday; a Sunday carries the number of the week that starts the "
    "next day); proved instead: the labels a table PRINTS (the label of the bucket's Monday) are pairwise distinct for "
    "distinct buckets and one bucket has one label (C12_week_rows_distinct), and an instant's own label equals the "
    "printed one iff it is not a Sunday and in the year of its Monday (C12_week_label_own, _iff_partial)",
    "Threshold column theorems: for every metric description, -r / -q / stored lists with -q non-empty when given; the "
    "20 default thresholds of deterministic metrics (data dependent) and the refusal of quantilescore / spread with "
    "-b below* (raised inside the metric) are outside Model/OutputDescs.lean",
    "row order: 'ascending for data dimensions' is read as: the leading field is strictly increasing down the rows for "
    "-x time / day / week / month / year (label text order = time order for years 1000-9999), leadtime, leadtimeday, "
    "timeofday, dayofyear, dayofmonth, monthofyear (numeric) and for the location-like axes, where the order is that of "
    "Data.locations = ascending station id for -x location AND for -x lat / lon / elev (checked on the real tool: the "
    "rows of -x lat are in id order, latitudes 50, -33.5, 42 for ids 3, 7, 41, not ascending latitude); -x threshold / "
    "obs / fcst keep the order of -r and -x no has one row.  Lean: C12_rows_ascending (times, lead times, ids of every "
    "DataS that Data.init returns) and C12_rows_ascending_axis (np.unique of the bucket values)",
    "-c / -C: the climatology file has the observations of the scenario and shares at least one date, lead time and "
    "station with the scored files; anomalies of the plain-Python path are computed in float32 as the arrays are",
    "station ids >= 1e6 in -type text: the id column is %g (6 significant digits), so 1234567 and 1234568 print alike "
    "(known finding text-id-6-digits, witness in corpus/C12.txt); the text round-trip theorems speak about the printed "
    "decimal, not about the id",
    "probabilistic files: every file of a scenario has the same thresholds / quantile levels apart from one extra "
    "column in one file; CDF values k/8 non-decreasing in the threshold, quantile values non-decreasing in the level",
]
RULE = ("out.table (first, so that a failing input is a command line): 1-3 generated input files (1-4 dates x 1-4 lead "
        "times x 1-4 stations, rows shuffled, rows dropped, NaN / -999, extra dates / lead times / stations in some "
        "files), metric round-robin over 14 deterministic + 12 contingency + obsfcst, -x round-robin over 16 documented "
        "axes + default + threshold + obs/fcst, -r/-b (8 bin types), -leg, -acc, -f, -agg (12 aggregators incl. numeric "
        "levels) on the 7 metrics that honour it; 9 % of these scenarios carry a climatology file (-c or -C, one date / "
        "station fewer or one date / lead time more than the scored files, zeros and missing values among the "
        "climatological values): expected header = scored files only, scores recomputed on Data(..., clim=) and, for "
        "mae / bias / a, from the file rows as anomalies; stations include the ids 1234567 and 1234568; the leading "
        "field must be strictly increasing on every data axis; every fourth scenario is probabilistic (p<t> / q<level> / pit columns "
        "or 5 ensemble members; one file with an extra threshold and level) with bs, bss, ign0 (-r from the stored "
        "thresholds or absent, -b), quantilescore (-q or absent), spread (-q pair), pithistdev, pit (-agg), half of them "
        "on -x threshold; out.table.perm: 6 orders of -r 1,3,5 x 4 within-type bins x csv/text x {a, ets, bs}; "
        "out.qdesc: 10 metrics x -r {absent, 0,5, 5,0,2.5} x -q {absent, 0.1,0.9, 0.9,0.1, 0.5, 0.1,0.5,0.9} x -b "
        "{absent, within, below=} on a fixed file with stored thresholds 0,2.5,5 and levels 0.1,0.5,0.9; fmtg: random bit patterns, uniform "
        "values, m*10^e for e in -330..309 with mantissas at and next to the rounding tie of digit 6/4, half-integers, "
        "precisions 0,1,2,3,4,6,10,17; out.writer: the real Output.csv/.text on random tables (0-5 rows, 1-4 descriptor "
        "columns of strings/numbers/None, 1-4 score columns from a pool of special doubles, ASCII/Unicode/blank-"
        "containing labels, 12% with separators / newlines / edge blanks inside labels), with and without a file name; "
        "out.acc / out.tavg: Standard._get_x_y on a stub metric with random matrices (NaN, +-inf); "
        "out.seldesc: 2 writers x 4 axis kinds; out.table.sub: files with several init times per day (hour column "
        "with 00/06/12/18/03/21/23 UTC, or a unixtime column with seconds 0, 1, 3600, ..., 45296, 86399 of the day) — "
        "deterministic grid {hour, unixtime} x {1, 2 files} x {csv, text} x {time, timeofday, day, week, month, year, "
        "dayofmonth, dayofyear, monthofyear, default} (+ bias, -acc, -leg, ets on -x time), -f alternating, then "
        "300 (quick) / 2500 random ones with the option mix of out.table; out.tlabel: Data.get_axis_descriptions on "
        "5 time-like axes x 31 days (leap days, year / week boundaries, 1900, 1969/1970, 2038, 2100) x 12 seconds of "
        "the day, thorough + 4000 random instants of 1900-2100.  Non-trivial = the emitted table (resp. value) contains a non-zero "
        "digit after the header, i.e. at least one finite non-zero score; distinct = distinct op lines")
EXHAUSTIVE = {"quick": False, "thorough": False}
EXHAUSTIVE_NOTE = "seeded random; the metric x axis x type grid is covered round-robin, not exhaustively"
LEVEL_TEXT = ("Lean theorems over the model of the writers: parse(print(table)) returns the header (descriptor names "
              "++ legend in the given = command-line / -leg order) and exactly one line per slice, in order, each = "
              "descriptors ++ scores formatted with %g (csv) / %.4g (text) — induction over rows and columns, any "
              "size; %.{p}g is sound for every non-zero rational and every p: the printed numeral reads back as "
              "+-m*10^(X-P+1) with exactly P significant digits, within half a unit of the P-th digit of the exact "
              "value, scientific notation exactly when X < -4 or X >= P (both notations, string level); nan/inf/0 "
              "exact; the text field of input f in line i is %.4g of y[i][f] (C12_text_cell); the value columns are the scored "
              "inputs in command-line order, the climatology of -c / -C is never a column and column j is input j's score "
              "vector (C12_columns_scored, C12_table_columns over Data.init); the verified times, lead times and station "
              "ids are strictly increasing and so are the np.unique bucket values of the derived axes "
              "(C12_rows_ascending, _axis); -acc entry (i,j) is the sum over k<=i of the scores with NaN as 0 (infinite scores included); threshold "
              "averaging is the mean over intervals; the -f content is the printed content; the -x time row label of an "
              "initialisation time is YYYY-MM-DD HH:MM:SS of its textbook civil date and second of the day, two init "
              "times with the same label are the same instant (so the rows of a table carry pairwise distinct labels), "
              "and day / month / year labels are equal exactly for instants of the same bucket (every whole second "
              "1900-2100); distinct week buckets print distinct labels and one bucket one label (the instant-level "
              "equivalence is false for %Y/%U on Monday-based buckets and its negation is proved on a witness); on "
              "-x threshold the leading column is headed Threshold, has one row per interval (all n values, or the n-1 "
              "lower edges for the within family) and shows, for a metric that requires quantiles, the quantile levels "
              "(-q or those stored in the files), for the others the -r values / stored thresholds, -q having no "
              "influence.  The model is tied to "
              "/repo on every run by byte-exact correspondence with the real verif.driver.run output on generated "
              "datasets (table captured from the running code as exact doubles) and with the real writers on "
              "synthetic tables.")
TECHNIQUE = ("Lean 4 proof over a hand-written model of the writers and of %g; byte-exact differential correspondence "
             "with the real CLI; independent recomputation oracle")

AXES = ["leadtime", "time", "location", "lat", "lon", "elev", "month", "year", "week", "day", "dayofyear",
        "monthofyear", "dayofmonth", "timeofday", "leadtimeday", "no"]
DET = ["mae", "bias", "rmse", "corr", "cmae", "stderror", "obs", "fcst", "ef", "dmb", "mbias", "obsstddev",
       "fcststddev", "nsec"]
CONT = ["ets", "hit", "far", "pc", "threat", "biasfreq", "kss", "hss", "a", "b", "n", "fcstrate"]
BINS = ["below", "below=", "above", "above=", "within", "=within", "within=", "=within="]
WITHIN = ["within", "=within", "within=", "=within="]
# probabilistic input files (p<threshold> = CDF at the threshold, q<level> = forecast quantile, pit; or ensemble members)
PROB = ["bs", "bss", "ign0", "quantilescore", "pithistdev", "spread", "pit"]
PTHR = [0, 1, 2.5, 5, 7.5]
QLEV = [0.1, 0.25, 0.5, 0.75, 0.9]
# from the metric descriptions of the tool ("Use -q to set which quantiles to use" / "based on threshold"); the oracle's
# own table, never read from the code: (smallest, largest number of quantiles)
QUANT_METRICS = {"quantilescore": (None, None), "spread": (2, 2), "quantile": (None, None), "quantilecoverage": (1, 2)}
THR_METRICS = {"bs", "bss", "ign0"}
# metrics whose help says they aggregate with -agg (supports_aggregator)
AGG_METRICS = ["mae", "bias", "rmse", "cmae", "obs", "fcst", "pit"]
AGGS = ["median", "min", "max", "count", "sum", "std", "0.9", "0.25", "mean", "0.5", "1", "0"]
DATES = [20120101, 20120102, 20120103, 20120108, 20120131, 20120201, 20120229, 20120301, 20121231,
         20130101, 20130615, 20111230]
LEADS = [0, 1, 3, 6, 12, 18, 24, 30, 36, 48, 72]
LOCS = [(3, 50, 10, 12), (41, 42, 23, 341), (7, -33.5, 151.25, 0), (100, 60.25, -120.5, 1500),
        (18, 0, 0, -5), (2005, 71.125, 25.5, 10.5),
        (1234567, 10.5, 20, 100), (1234568, -10.5, 21, 200)]   # two ids that %g (6 digits) prints alike
SPECIAL_Y = [0.0, 1.0, -1.0, 0.5, 2.5e-5, 999999.5, 1e-5, 123456.5, 9.9999949e-5, 99999.95, 1234.5, 12345.0,
             0.1, 1 / 3.0, -2 / 3.0, 1e22, 1.5e-7, 5e-324, 1.7976931348623157e308, float("nan"), float("inf"),
             float("-inf"), 100.0, 1e6, 1e5, 0.0001, 0.00012345, 5.33333333, 2.0, 41.0, 0.30000000000000004]

_BASE = None
_MEMO = {}
_CAP = {"on": False}


# ------------------------------------------------------------------ encodings
def enc_s(s):
    return "s" + urllib.parse.quote(s, safe="")


def enc_list(xs):
    return ";".join(enc_s(x) for x in xs) if xs else "-"


def dec_s(tok):
    assert tok[0] == "s"
    return urllib.parse.unquote(tok[1:])


def dec_list(tok):
    return [] if tok == "-" else [dec_s(t) for t in tok.split(";")]


def esc(s):
    return s.replace("\\", "\\\\").replace("\n", "\\n").replace("\t", "\\t")


def unesc(s):
    out, i = [], 0
    while i < len(s):
        if s[i] == "\\" and i + 1 < len(s):
            out.append({"n": "\n", "t": "\t", "\\": "\\"}.get(s[i + 1], s[i + 1]))
            i += 2
        else:
            out.append(s[i])
            i += 1
    return "".join(out)


def show_matrix(m):
    return "|".join(xvec(r) for r in m) if len(m) else "-"


def parse_matrix(tok):
    return [] if tok == "-" else [from_xvec(t) for t in tok.split("|")]


def _is_str(v):
    return isinstance(v, str)


def enc_rows(kind, names, descs, x, y):
    """the table the writer loops over -> rows token.  kind 'csv': str(descs[k][i]); 'text': s/n/A"""
    rows = []
    for i in range(len(x)):
        ds = []
        for k in names:
            col = descs[k]
            if kind == "csv":
                ds.append(enc_s(str(col[i])))
            elif col is None:
                ds.append("A")
            elif _is_str(col[i]):
                ds.append(enc_s(col[i]))
            else:
                ds.append("n" + xr(float(col[i])))
        rows.append((";".join(ds) if ds else "-") + ":" + xvec([y[i, f] for f in range(y.shape[1])]))
    return "|".join(rows) if rows else "-"


# ------------------------------------------------------------------ running the real code
def _base():
    global _BASE
    if _BASE is None:
        _BASE = tempfile.mkdtemp(prefix="c12_")
        atexit.register(shutil.rmtree, _BASE, True)
    return _BASE


def _install():
    """wrap every _get_x_y and Data.get_axis_descriptions (capture only; behaviour unchanged)"""
    import verif.output
    import verif.data
    if getattr(verif.output, "_c12_patched", False):
        return
    verif.output._c12_patched = True

    def wrap(orig):
        def f(self, data, axis=None):
            r = orig(self, data, axis)
            if _CAP["on"]:
                _CAP["xy"], _CAP["pl"], _CAP["data"] = r, self, data
            return r
        return f
    for cls in list(vars(verif.output).values()):
        if isinstance(cls, type) and issubclass(cls, verif.output.Output) and "_get_x_y" in cls.__dict__ \
                and cls is not verif.output.Output:
            cls._get_x_y = wrap(cls.__dict__["_get_x_y"])
    orig_d = verif.data.Data.get_axis_descriptions

    def gad(self, axis):
        r = orig_d(self, axis)
        if _CAP["on"]:
            _CAP["descs"] = r
        return r
    verif.data.Data.get_axis_descriptions = gad


WARN = re.compile(r"^\x1b\[1;3[13]m(Warning|Error): .*\x1b\[0m$")


def _strip_warnings(text):
    lines = text.split("\n")
    keep = [l for l in lines if not WARN.match(l)]
    return "\n".join(keep)


TIMECOLS = {None: "date", "h": "date hour", "u": "unixtime"}


def _write_files(scen, d):
    """scen["t"]: absent = a date column (init times at midnight); "h" = date and hour columns; "u" = a unixtime
    column (any second of the day)"""
    paths = []
    for fl in scen["files"] + ([scen["clim"]] if scen.get("clim") else []):
        p = os.path.join(d, fl["n"])
        with open(p, "w") as f:
            f.write(TIMECOLS[scen.get("t")] + " leadtime location lat lon altitude obs fcst" +
                    "".join(" " + c for c in fl.get("c", [])) + "\n")
            for r in fl["r"]:
                f.write(r.replace("~", " ") + "\n")
        paths.append(p)
    return paths[:len(scen["files"])]                  # the scored files; the climatology file is written, not listed


def _clim_argv(scen, d=None):
    """the -c / -C option of the scenario ([] if none); scen["clim"] = {"n": file name, "r": rows, "o": "-c" | "-C"}"""
    c = scen.get("clim")
    if not c:
        return []
    return [c["o"], c["n"] if d is None else os.path.join(d, c["n"])]


def cmdline(scen, with_f=False):
    return "verif " + " ".join(fl["n"] for fl in scen["files"]) + " " + " ".join(scen["args"] + _clim_argv(scen)) + \
        (" -f out.txt" if with_f else "")


def _run(scen, with_f, capture=False):
    """-> dict(status, out, file, [cap])   status: ok | exit | exc:<Type>"""
    key = (json.dumps(scen, sort_keys=True), with_f)
    if not capture and key in _MEMO:
        return _MEMO[key]
    import verif.driver
    _install()
    d = tempfile.mkdtemp(dir=_base())
    res = {"status": "ok", "out": "", "file": None}
    try:
        paths = _write_files(scen, d)
        argv = ["verif"] + paths + list(scen["args"]) + _clim_argv(scen, d)
        ofile = os.path.join(d, "out.txt")
        if with_f:
            argv += ["-f", ofile]
        buf = io.StringIO()
        _CAP.clear()
        _CAP["on"] = capture
        try:
            with contextlib.redirect_stdout(buf), contextlib.redirect_stderr(io.StringIO()), \
                    np.errstate(all="ignore"):
                import warnings
                with warnings.catch_warnings():
                    warnings.simplefilter("ignore")
                    verif.driver.run(argv)
        except SystemExit:
            res["status"] = "exit"
        except Exception as e:
            res["status"] = "exc:" + type(e).__name__
        finally:
            _CAP["on"] = False
        res["out"] = _strip_warnings(buf.getvalue())
        if os.path.exists(ofile):
            with open(ofile) as f:
                res["file"] = f.read()
        if capture:
            res["cap"] = dict(_CAP)
    finally:
        shutil.rmtree(d, True)
    _MEMO[key] = {k: v for k, v in res.items() if k != "cap"}
    if len(_MEMO) > 40000:
        _MEMO.clear()
    return res


def _reply(res):
    if res["status"] != "ok":
        return "RUN:" + res["status"]
    return esc(res["out"]) + "\t" + ("-" if res["file"] is None else esc(res["file"]))


def _arg(args, flag, default=None):
    return args[args.index(flag) + 1] if flag in args else default


def _table_from_capture(kind, cap):
    """names, legend, rows-token of the table the writer looped over (None if nothing was captured)"""
    import verif.axis
    if "xy" not in cap:
        return None
    x, y, _, labels, descs = cap["xy"]
    pl = cap["pl"]
    if descs is None:
        if "descs" in cap:
            descs = cap["descs"]                      # what Data.get_axis_descriptions returned to the writer
        else:                                         # the writer's own threshold branch
            name = "Threshold"
            if pl.axis == verif.axis.Obs():
                name = "Observed"
            elif pl.axis == verif.axis.Fcst():
                name = "Forecasted"
            descs = {name: pl.thresholds}
    names = list(descs.keys())
    try:
        rows = enc_rows(kind, names, descs, x, np.asarray(y, float))
    except (IndexError, TypeError):
        return None
    return names, list(labels), rows


# ------------------------------------------------------------------ stubs for the writer / acc / tavg streams
def _fake_output(x, y, labels, descs, filename):
    import verif.output
    import verif.axis

    class Fake(verif.output.Output):
        def _get_x_y(self, data, axis):
            return x, y, "x", list(labels), descs
    pl = Fake()
    pl.axis = verif.axis.Leadtime()
    pl.filename = filename
    return pl


class _StubData(object):
    def __init__(self, F, n):
        self.num_inputs, self.n = F, n

    def get_axis_values(self, axis):
        return list(range(self.n))

    def get_legend(self):
        return ["i%d" % k for k in range(self.num_inputs)]


class _StubMetric(object):
    default_axis = None
    default_bin_type = None

    def __init__(self, fn):
        self.fn = fn

    def compute(self, data, f, axis, interval):
        return self.fn(f, interval)


def _std_xy(cols_of, F, n, thresholds, acc):
    import verif.output
    import verif.axis
    pl = verif.output.Standard(_StubMetric(cols_of))
    pl.thresholds = thresholds
    pl.bin_type = "above"
    pl.show_acc = acc
    with np.errstate(all="ignore"), contextlib.redirect_stdout(io.StringIO()):
        return pl._get_x_y(_StubData(F, n), verif.axis.Leadtime())[1]


# ------------------------------------------------------------------ plain-Python calendar (oracle side)
def _ut(date):
    """seconds since 1970-01-01T00:00Z of midnight of YYYYMMDD (proleptic Gregorian ordinal arithmetic only)"""
    return (datetime.date(date // 10000, date // 100 % 100, date % 100).toordinal() - 719163) * 86400


def _civil(ut):
    """unix time (whole seconds) -> (date object, hour, minute, second) in UTC"""
    d = datetime.date.fromordinal(719163 + ut // 86400)
    s = ut % 86400
    return d, s // 3600, s // 60 % 60, s % 60


def _time_label(axis, ut):
    """the documented label of the instant ut on a time-like axis, written out by hand (no strftime):
    time %Y-%m-%d %H:%M:%S, day %Y/%m/%d, month %Y/%m, year %Y, week %Y/%U (week of the year, weeks start on
    Sunday, days before the first Sunday are week 00)"""
    d, H, M, S = _civil(ut)
    if axis == "time":
        return "%04d-%02d-%02d %02d:%02d:%02d" % (d.year, d.month, d.day, H, M, S)
    if axis == "day":
        return "%04d/%02d/%02d" % (d.year, d.month, d.day)
    if axis == "month":
        return "%04d/%02d" % (d.year, d.month)
    if axis == "year":
        return "%04d" % d.year
    if axis == "week":
        yday = d.toordinal() - datetime.date(d.year, 1, 1).toordinal()
        wsun = (d.weekday() + 1) % 7
        return "%04d/%02d" % (d.year, (yday + 7 - wsun) // 7)
    raise ValueError(axis)


TL_AXES = ["time", "day", "month", "week", "year"]
TL_DAYS = [19000101, 19000228, 19000301, 19691231, 19700101, 19991231, 20000101, 20000229, 20000301, 20111231,
           20120101, 20120102, 20120107, 20120108, 20120229, 20121230, 20121231, 20130101, 20130106, 20170101,
           20180101, 20181231, 20231231, 20240101, 20240229, 20380119, 20380120, 20991231, 21000228, 21000301,
           21001231]
TL_SECS = [0, 1, 59, 60, 3599, 3600, 35999, 43199, 43200, 45296, 64800, 86399]
T_LO, T_END = -2208988800, 4133980800          # 1900-01-01T00:00:00Z ... 2101-01-01T00:00:00Z (range of the theorems)


# ------------------------------------------------------------------ generators
def _doubles(rng, n):
    out = [0.5, 2.5e-5, 999999.5, 1e-5, 123456.5, 0.0001, 0.00001, 9.9999949e-5, 9.9999951e-5, 9.999995e-5,
           5e-324, 2.2250738585072014e-308, 1.7976931348623157e308, float("nan"), float("inf"), float("-inf"),
           0.0, 12345.5, 1234.5, 0.12345, 0.123455, 100000.0, 1000000.0, 999999.0, 999999.4999, 99999.95,
           9999.5, 9998.5, 0.00099995, 1e15, 1e16, 1e17, 123456789012345678.0, -0.5, -999999.5, 1e-4, 9.9995e-5]
    for e in range(-330, 310, 1 if n > 20000 else 7):
        for m in (1, 9.999995, 9.9999949, 9.9995, 9.99949, 5, 2.5, 1.5, 1.000005, 1.00005, 0.99999949999):
            try:
                out.append(m * 10.0 ** e if e > -300 else m * 10.0 ** -290 * 10.0 ** (e + 290))
            except OverflowError:
                pass
    while len(out) < n:
        k = rng.random()
        if k < 0.25:
            v = struct.unpack("<d", struct.pack("<Q", rng.getrandbits(64)))[0]
        elif k < 0.5:
            v = rng.uniform(-1000, 1000)
        elif k < 0.65:
            v = rng.randint(-3000, 3000) + 0.5                      # ties for %.4g / %g
        elif k < 0.8:
            v = (2 * rng.randint(0, 10 ** 7) + 1) / 2.0 ** rng.randint(1, 12) * 10.0 ** rng.randint(-6, 6)
        elif k < 0.9:
            v = round(rng.uniform(0, 10), rng.randint(0, 7)) * 10.0 ** rng.randint(-8, 8)
        else:
            v = rng.choice([1, 5, 9.5, 9.9995, 9.999995]) * 10.0 ** rng.randint(-12, 12)
        out.append(v)
    return out


LABELS = ["a", "b", "file1.txt", "raw", "kf", "model B", "a b", "Tëst", "x" * 12, "y" * 25, "0", "obs", "é", "m-1", "q.r"]
WILD = ["", " lead", "trail ", "a,b", "c|d", "two\nlines", ",", "|", "  ", "\ttab"]


def _gen_writer(rng):
    kind = rng.choice(["csv", "text"])
    wild = rng.random() < 0.12
    pool = LABELS + (WILD if wild else [])
    nn = rng.randint(1, 4)
    names = rng.sample(["Leadtime", "id", "lat", "lon", "elev", "Threshold", "Time", "No", "D" * 22,
                        "Spatial scale (km)"] + (WILD[1:5] if wild else []), nn)
    F = rng.randint(1, 4)
    legend = [rng.choice(pool) for _ in range(F)]
    n = rng.choice([0, 1, 1, 2, 3, 5])
    cols = {}
    for k in names:
        t = rng.random()
        if kind == "text" and t < 0.15:
            cols[k] = None
        elif kind == "text" and t < 0.6:
            cols[k] = [float(rng.choice(SPECIAL_Y[:19] + [3.0, 12.0, 2005.0, 151.25])) for _ in range(n)]
        else:
            cols[k] = [rng.choice(pool + ["2012-01-01 00:00:00", "2012/01", "41.0", "0"]) for _ in range(n)]
    y = [[rng.choice(SPECIAL_Y) if rng.random() < 0.7 else rng.uniform(-50, 50) for _ in range(F)] for _ in range(n)]
    rows = []
    for i in range(n):
        ds = []
        for k in names:
            c = cols[k]
            ds.append("A" if c is None else (enc_s(c[i]) if _is_str(c[i]) else "n" + xr(c[i])))
        rows.append(";".join(ds) + ":" + xvec(y[i]))
    return "%s %d %s %s %s" % (kind, 1 if rng.random() < 0.3 else 0, enc_list(names), enc_list(legend),
                               "|".join(rows) if rows else "-")


def _fmtval(rng):
    v = rng.choice([rng.randint(-10, 20) / 2.0, rng.randint(-40, 80) / 8.0, round(rng.uniform(-5, 15), 2),
                    float(rng.randint(0, 6))])
    return repr(v) if v != int(v) or rng.random() < 0.5 else str(int(v))


def _gen_scenario(rng, k):
    nf = rng.choice([1, 2, 2, 3])
    dates = sorted(rng.sample(DATES, rng.randint(1, 4)))
    leads = sorted(rng.sample(LEADS, rng.randint(1, 4)))
    locs = sorted(rng.sample(LOCS, rng.randint(1, 4)))
    obs = {}
    for key in itertools.product(dates + [20140101], leads + [96], [l[0] for l in LOCS]):
        obs[key] = _fmtval(rng) if rng.random() > 0.06 else rng.choice(["nan", "-999"])
    names = rng.sample(["a.txt", "b.txt", "raw.txt", "kf.txt", "m1", "x.y.txt", "Zed.txt"], nf)
    files = []
    for f in range(nf):
        d2, l2, s2 = list(dates), list(leads), list(locs)
        if rng.random() < 0.25:
            d2.append(20140101)
        if rng.random() < 0.25:
            l2.append(96)
        if rng.random() < 0.2 and len(s2) < len(LOCS):
            s2.append([l for l in LOCS if l not in s2][0])
        rows = []
        for (d, l, s) in itertools.product(d2, l2, s2):
            if rng.random() < 0.04 and len(rows) > 0:
                continue
            fc = _fmtval(rng) if rng.random() > 0.05 else "nan"
            rows.append("%d~%d~%d~%s~%s~%s~%s~%s" % (d, l, s[0], repr(s[1]) if s[1] != int(s[1]) else int(s[1]),
                                                      repr(s[2]) if s[2] != int(s[2]) else int(s[2]),
                                                      repr(s[3]) if s[3] != int(s[3]) else int(s[3]),
                                                      obs[(d, l, s[0])], fc))
        rng.shuffle(rows)
        files.append({"n": names[f], "r": rows})
    scen = {"files": files, "args": _gen_args(rng, k, nf, AXES)}
    if rng.random() < 0.09:
        scen["clim"] = _gen_clim(rng, dates, leads, locs, obs)
    return scen


def _gen_clim(rng, dates, leads, locs, obs):
    """a climatology file for -c (subtract) / -C (divide): the dimensions of the scenario, sometimes one date / lead
    time / station fewer or more, the observations of the scenario, its forecast column = the climatological value
    (zeros and missing values included: a case without a finite anomaly is not a case)"""
    d2, l2, s2 = list(dates), list(leads), list(locs)
    if rng.random() < 0.2:
        d2.append(20140101)
    if rng.random() < 0.2:
        l2.append(96)
    if len(dates) > 1 and rng.random() < 0.15:
        d2.pop(rng.randrange(len(dates)))          # one common date fewer (never the only one)
    if len(s2) > 1 and rng.random() < 0.15:
        s2.pop(rng.randrange(len(s2)))
    flag = rng.choice(["-c", "-C"])
    rows = []
    for (d, l, s) in itertools.product(d2, l2, s2):
        if rng.random() < 0.04 and rows:
            continue
        r = rng.random()
        cv = "nan" if r < 0.05 else ("0" if r < 0.12 else _fmtval(rng))
        rows.append(_row(d, l, s, obs[(d, l, s[0])], cv))
    rng.shuffle(rows)
    return {"n": "clim.txt", "r": rows, "o": flag}


def _gen_args(rng, k, nf, axes):
    kind = ["csv", "text"][k % 2]
    r = rng.random()
    if r < 0.55:
        metric = DET[(k // 2) % len(DET)]
    elif r < 0.92:
        metric = CONT[(k // 2) % len(CONT)]
    else:
        metric = "obsfcst"
    args = ["-m", metric, "-type", kind]
    axis = axes[(k // 3) % len(axes)] if rng.random() < 0.9 else None
    thr = None
    if metric in CONT:
        if rng.random() < 0.35:
            axis = "threshold" if rng.random() < 0.8 else None      # default axis of these metrics
        thr = sorted(rng.sample([-1, 0, 0.5, 1, 2, 2.5, 3, 4.25, 6, 9], rng.randint(1, 4)))
        if rng.random() < 0.15:
            thr = thr[::-1] if len(thr) > 1 and axis == "threshold" and rng.random() < 0.5 else thr
        b = rng.choice(BINS + [None, None])
        if b is not None and "within" in b and len(thr) < 2:
            b = None
        if b is not None:
            args += ["-b", b]
    elif metric in DET:
        q = rng.random()
        if q < 0.08:
            axis = rng.choice(["obs", "fcst"])
            thr = sorted(rng.sample([0, 1, 2, 3, 5], rng.randint(1, 3)))
        elif q < 0.3:
            thr = sorted(rng.sample([0, 1, 2, 3, 5], rng.randint(1, 3)))
    if axis is not None:
        args += ["-x", axis]
    if thr is not None:
        args += ["-r", ",".join("%g" % t for t in thr)]
    if rng.random() < 0.35:
        pool = ["a", "b", "new_model", "kf", "Tëst", "raw_fcst_v2", "x" * 13, "m1", "é"] + \
               (["c|d", "_lead"] if rng.random() < 0.1 else [])
        args += ["-leg", ",".join(rng.choice(pool) for _ in range(nf))]
    if rng.random() < 0.25:
        args += ["-acc"]
    if metric in AGG_METRICS and rng.random() < 0.45:
        args += ["-agg", AGGS[(k // 5) % len(AGGS)]]
    return args


# ---- probabilistic input files
def _row(date, lead, loc, obs, fc):
    """one data row of a file with a date column (initialisation at midnight)"""
    return "%d~%d~%d~%s~%s~%s~%s~%s" % (date, lead, loc[0], _num_tok(loc[1]), _num_tok(loc[2]), _num_tok(loc[3]), obs, fc)


def _gen_prob_scenario(rng, k):
    """1-3 files with the same cases and, besides obs and fcst, either CDF columns p<t>, quantile columns q<level> and
    pit, or ensemble members e0..e4 and pit; one file may carry an extra threshold / quantile column (the thresholds
    and quantiles of the dataset are those common to all files)"""
    nf = rng.choice([1, 2, 2, 3])
    dates = sorted(rng.sample(DATES, rng.randint(1, 3)))
    leads = sorted(rng.sample(LEADS, rng.randint(1, 3)))
    locs = sorted(rng.sample(LOCS, rng.randint(1, 3)))
    ens = rng.random() < 0.25
    thr = sorted(rng.sample(PTHR, rng.randint(2, 4)))
    lev = sorted(rng.sample(QLEV, rng.randint(2, 4)))
    obs = {}
    for key in itertools.product(dates, leads, [l[0] for l in LOCS]):
        obs[key] = _fmtval(rng) if rng.random() > 0.06 else rng.choice(["nan", "-999"])
    names = rng.sample(["a.txt", "b.txt", "raw.txt", "kf.txt", "m1", "x.y.txt", "Zed.txt"], nf)
    extra = rng.randrange(nf) if (nf > 1 and not ens and rng.random() < 0.4) else None
    files = []
    for f in range(nf):
        if ens:
            cols = ["e%d" % i for i in range(5)] + ["pit"]
        else:
            t2 = thr + ([10] if f == extra else [])
            l2 = lev + ([0.99] if f == extra else [])
            cols = ["p%s" % _num_tok(t) for t in t2] + ["q%s" % repr(l) for l in l2] + ["pit"]
        rows = []
        for (d, l, s_) in itertools.product(dates, leads, locs):
            if rng.random() < 0.04 and len(rows) > 0:
                continue
            fc = _fmtval(rng) if rng.random() > 0.05 else "nan"
            if ens:
                vals = [rng.randint(-4, 20) / 2.0 for _ in range(5)]
            else:
                vals = sorted(rng.randint(0, 8) / 8.0 for _ in t2) + sorted(rng.randint(-4, 20) / 2.0 for _ in l2)
            vals.append(rng.randint(0, 16) / 16.0)
            toks = [_num_tok(v) if rng.random() > 0.03 else "nan" for v in vals]
            rows.append(_row(d, l, s_, obs[(d, l, s_[0])], fc) + "~" + "~".join(toks))
        rng.shuffle(rows)
        files.append({"n": names[f], "r": rows, "c": cols})
    return {"files": files, "args": _gen_prob_args(rng, k, nf, thr, lev, ens), "k": "ens" if ens else "cdf"}


def _gen_prob_args(rng, k, nf, thr, lev, ens):
    kind = ["csv", "text"][k % 2]
    metric = PROB[(k // 2) % len(PROB)]
    args = ["-m", metric, "-type", kind]
    axis = AXES[(k // 3) % len(AXES)] if rng.random() < 0.9 else None
    if metric in THR_METRICS:
        if rng.random() < 0.5:
            axis = "threshold" if rng.random() < 0.8 else None            # the default axis of these metrics
        r = None
        if ens:
            r = sorted(rng.sample([0, 0.5, 1, 2, 2.5, 3, 5], rng.randint(1, 3)))
        elif rng.random() < 0.7:
            r = sorted(rng.sample(thr, rng.randint(1, len(thr))))
        n = len(r) if r is not None else len(thr)
        b = rng.choice(BINS + [None, None])
        if b is not None and "within" in b and n < 2:
            b = None
        if b is not None:
            args += ["-b", b]
        if r is not None:
            args += ["-r", ",".join("%g" % t for t in r)]
    elif metric == "quantilescore":
        if rng.random() < 0.5:
            axis = "threshold"
        if ens:
            q = sorted(rng.sample([0.1, 0.2, 0.5, 0.75, 0.9], rng.randint(1, 3)))
        else:
            q = sorted(rng.sample(lev, rng.randint(1, len(lev)))) if rng.random() < 0.7 else None
        if q is not None:
            args += ["-q", ",".join(repr(x) for x in q)]
    elif metric == "spread":
        if rng.random() < 0.4:
            axis = "threshold"
        if ens:
            q = sorted(rng.sample([0.1, 0.2, 0.5, 0.75, 0.9], 2))
        else:
            q = sorted(rng.sample(lev, 2)) if (len(lev) != 2 or rng.random() < 0.5) else None
        if q is not None:
            args += ["-q", ",".join(repr(x) for x in q)]
    if axis is not None:
        args += ["-x", axis]
    if rng.random() < 0.3:
        args += ["-leg", ",".join(rng.choice(["a", "b", "new_model", "kf", "m1", "é"]) for _ in range(nf))]
    if rng.random() < 0.2:
        args += ["-acc"]
    if metric in AGG_METRICS and rng.random() < 0.6:
        args += ["-agg", AGGS[(k // 5) % len(AGGS)]]
    return args


def _det_permuted():
    """-x threshold with the thresholds of -r in every order (3 values: 6 permutations) and each bin type of the
    within family: row i must carry threshold i of the command line and the score of the interval
    (threshold i, threshold i+1) — empty when the pair is descending.  Metric a (hit frequency, which the oracle
    recounts from the file rows), ets, and bs on a file with CDF columns."""
    det_rows, prob_rows = [], []
    for i, d in enumerate((20120101, 20120102, 20120103)):
        for j, l in enumerate((0, 6)):
            for q, s_ in enumerate(LOCS[:2]):
                ob = (i * 5 + j * 3 + q * 4) % 7
                fcs = [(i * 3 + j * 5 + q * 2 + f * 3) % 7 for f in range(2)]
                det_rows.append([_row(d, l, s_, _num_tok(ob), _num_tok(fc)) for fc in fcs])
                cdf = sorted(((i + 2 * j + 3 * q + t) % 9) / 8.0 for t in range(3))
                prob_rows.append([r + "~" + "~".join(_num_tok(c) for c in cdf) for r in det_rows[-1]])
    out = []
    n = 0
    for perm in itertools.permutations([1, 3, 5]):
        for b in WITHIN:
            for kind in ("csv", "text"):
                for metric in ("a", "ets", "bs"):
                    rows = prob_rows if metric == "bs" else det_rows
                    files = [{"n": ["a.txt", "b.txt"][f], "r": [r[f] for r in rows]} for f in range(2)]
                    if metric == "bs":
                        for fl in files:
                            fl["c"] = ["p1", "p3", "p5"]
                    args = ["-m", metric, "-type", kind, "-x", "threshold", "-b", b, "-r", ",".join("%d" % t for t in perm)]
                    n += 1
                    out.append(({"files": files, "args": args}, n % 3 == 0))
    return out


# ---- the Threshold column of quantile / threshold metrics (stream out.qdesc)
QD_THR = [0, 2.5, 5]
QD_LEV = [0.1, 0.5, 0.9]
QD_METRICS = ["bs", "bss", "ign0", "quantilescore", "spread", "quantile", "quantilecoverage", "pithistdev", "mae", "ets"]


def _qdesc_scen():
    cols = ["p%s" % _num_tok(t) for t in QD_THR] + ["q%s" % repr(l) for l in QD_LEV] + ["pit"]
    rows = []
    for i, d in enumerate((20120101, 20120102)):
        for j, l in enumerate((0, 6, 12)):
            ob, fc = (i * 3 + j * 2) % 6, (i * 2 + j * 3 + 1) % 6
            cdf = sorted(((i + 2 * j + 3 * t) % 9) / 8.0 for t in range(3))
            qs = sorted((i + j + 2 * t) % 7 for t in range(3))
            rows.append("%d~%d~3~50~10~12~%d~%d~" % (d, l, ob, fc) + "~".join(_num_tok(v) for v in cdf + qs + [(i + j) / 8.0]))
    return {"files": [{"n": "qd.txt", "r": rows, "c": cols}]}


def _gen_qdesc():
    rs = ["-", "0,5", "5,0,2.5"]
    qs = ["-", "0.1,0.9", "0.9,0.1", "0.5", "0.1,0.5,0.9"]
    bins = ["-", "within", "below="]
    n = 0
    for m in QD_METRICS:
        quant = m in QUANT_METRICS
        for r in (rs[:2] if quant else rs):
            for q in (qs if quant else qs[:2]):
                for b in bins:
                    if m == "ets" and r == "-":
                        continue                      # 20 thresholds between the smallest and largest value: C13's subject
                    if m in ("mae", "pithistdev", "ets") and b == "below=":
                        continue
                    if m in ("quantilescore", "spread") and b == "below=":
                        continue                      # these two read the LOWER edge as the level: "quantile metrics need
                                                      # '-b above' or a 'within' type" (error message of the tool)
                    n += 1
                    yield "out.qdesc", "qdesc %s %s %s %s %s %s %s" % (
                        ["csv", "text"][n % 2], m, b, r, q, ",".join(xr(Fraction(repr(float(t)))) for t in QD_THR),
                        ",".join(xr(Fraction(repr(l))) for l in QD_LEV))


# ---- initialisation times that are not at midnight (hour column / unixtime column)
HOURS = [0, 6, 12, 18, 3, 21, 23]
SECS = [0, 1, 3600, 21600, 43200, 45296, 64800, 86399]
SUBAXES = ["time", "timeofday", "day", "time", "week", "month", "year", "time", "dayofyear", "dayofmonth",
           "monthofyear", "leadtime", "location", "no"]


def _num_tok(v):
    return repr(v) if v != int(v) else "%d" % int(v)


def _sub_row(t, date, sec, lead, loc, obs, fc):
    """one data row; t = "h": date and hour columns, "u": one unixtime column"""
    tcols = "%d~%d" % (date, sec // 3600) if t == "h" else "%d" % (_ut(date) + sec)
    return "%s~%d~%d~%s~%s~%s~%s~%s" % (tcols, lead, loc[0], _num_tok(loc[1]), _num_tok(loc[2]), _num_tok(loc[3]),
                                      obs, fc)


def _gen_subdaily(rng, k):
    """like _gen_scenario, but the files carry several initialisation times per day (00/06/12/18 UTC through an
    hour column, or any second of the day through a unixtime column); -x round-robin over SUBAXES"""
    t = "u" if k % 3 == 2 else "h"
    nf = rng.choice([1, 2, 2, 3])
    days = sorted(rng.sample(DATES, rng.randint(1, 3)))
    pool = [h * 3600 for h in HOURS] if t == "h" else SECS
    inits = set()
    for d in days:
        for sec in rng.sample(pool, rng.randint(1, 3)):
            inits.add((d, sec))
    if all(sec == 0 for _, sec in inits):
        inits.add((days[0], 43200))
    inits = sorted(inits)
    leads = sorted(rng.sample(LEADS, rng.randint(1, 3)))
    locs = sorted(rng.sample(LOCS, rng.randint(1, 3)))
    extra_init = (20140101, 43200)
    obs = {}
    for key in itertools.product(inits + [extra_init], leads + [96], [l[0] for l in LOCS]):
        obs[key] = _fmtval(rng) if rng.random() > 0.06 else rng.choice(["nan", "-999"])
    names = rng.sample(["a.txt", "b.txt", "raw.txt", "kf.txt", "m1", "x.y.txt", "Zed.txt"], nf)
    files = []
    for f in range(nf):
        i2, l2 = list(inits), list(leads)
        if rng.random() < 0.25:
            i2.append(extra_init)
        if rng.random() < 0.2:
            l2.append(96)
        rows = []
        for ((d, sec), l, s) in itertools.product(i2, l2, locs):
            if rng.random() < 0.04 and len(rows) > 0:
                continue
            fc = _fmtval(rng) if rng.random() > 0.05 else "nan"
            rows.append(_sub_row(t, d, sec, l, s, obs[((d, sec), l, s[0])], fc))
        rng.shuffle(rows)
        files.append({"n": names[f], "r": rows})
    return {"files": files, "args": _gen_args(rng, k, nf, SUBAXES), "t": t}


def _det_subdaily():
    """deterministic grid on two small datasets with 00 and 12 UTC runs (hour column) resp. odd seconds of the day
    (unixtime column): every time-like axis x csv/text x 1-2 files, with -f alternating"""
    sets = {"h": [(20111231, 43200), (20120101, 0), (20120101, 43200), (20120108, 0), (20120108, 64800)],
            "u": [(20120229, 0), (20120229, 45296), (20120301, 1), (20120301, 86399)]}
    out = []
    n = 0
    for t in ("h", "u"):
        inits = sets[t]
        for nf in (1, 2):
            files = []
            for f in range(nf):
                rows = []
                for i, (d, sec) in enumerate(inits):
                    for j, l in enumerate((0, 6)):
                        for q, s in enumerate(LOCS[:2]):
                            ob = ((i * 7 + j * 3 + q * 5) % 11) / 2.0
                            fc = ((i * 5 + j * 2 + q * 3 + f * 4) % 13) / 4.0
                            rows.append(_sub_row(t, d, sec, l, s, _num_tok(ob), _num_tok(fc)))
                files.append({"n": ["a.txt", "b.txt"][f], "r": rows})
            for kind in ("csv", "text"):
                for axis in ("time", "timeofday", "day", "week", "month", "year", "dayofmonth", "dayofyear",
                             "monthofyear", None):
                    variants = [["-m", "mae"]]
                    if axis == "time":
                        variants += [["-m", "bias"], ["-m", "mae", "-acc"], ["-m", "rmse", "-leg", ",".join("AB"[:nf])],
                                     ["-m", "ets", "-r", "1,3"]]
                    for v in variants:
                        args = v[:2] + ["-type", kind] + (["-x", axis] if axis else []) + v[2:]
                        n += 1
                        out.append(({"files": files, "args": args, "t": t}, n % 2))
    return out


def _scen_ops(scen, with_f, stream="out.table"):
    """run the real code once (no -f) to capture the table; -> list of (stream, op)"""
    kind = _arg(scen["args"], "-type")
    res = _run(scen, False, capture=True)
    tok = json.dumps(scen, separators=(",", ":"), ensure_ascii=True)
    assert " " not in tok
    tbl = _table_from_capture(kind, res.get("cap", {})) if res["status"] == "ok" else None
    if tbl is None:
        return [(stream, "%s %d ? ? ? %s" % (kind, with_f, tok))]
    names, legend, rows = tbl
    return [(stream, "%s %d %s %s %s %s" % (kind, with_f, enc_list(names), enc_list(legend), rows, tok))]


def _gen_matrix(rng, allow_inf=False):
    n, F = rng.randint(1, 6), rng.randint(1, 4)
    pool = [0.0, 1.0, 0.5, -2.25, 3.0, float("nan"), 7.125, 1e3, -0.125, 41.0]
    if allow_inf:   # one sign in most matrices, both in some (inf - inf = NaN from there on)
        pool += [rng.choice([float("inf"), float("-inf")])]
        if rng.random() < 0.3:
            pool += [float("inf"), float("-inf")]
    if rng.random() < 0.3:
        return [[rng.choice(pool) if rng.random() < 0.3 else rng.uniform(-10, 10) for _ in range(F)] for _ in range(n)]
    return [[rng.choice(pool) for _ in range(F)] for _ in range(n)]


def gen_ops(tier, rng):
    quick = tier == "quick"
    # ---- the command line on generated datasets
    for k in range(1200 if quick else 8000):
        scen = _gen_prob_scenario(rng, k // 4) if k % 4 == 3 else _gen_scenario(rng, k)
        for so in _scen_ops(scen, 1 if rng.random() < 0.3 else 0):
            yield so
    # ---- -x threshold with permuted thresholds and the within family of bin types (deterministic grid)
    for scen, with_f in _det_permuted():
        for so in _scen_ops(scen, 1 if with_f else 0, "out.table.perm"):
            yield so
    # ---- which list the Threshold column shows (quantile levels for quantile metrics)
    for so in _gen_qdesc():
        yield so
    # ---- the same with several initialisation times per day: deterministic grid, then random
    for scen, with_f in _det_subdaily():
        for so in _scen_ops(scen, with_f, "out.table.sub"):
            yield so
    for k in range(300 if quick else 2500):
        scen = _gen_subdaily(rng, k)
        for so in _scen_ops(scen, 1 if rng.random() < 0.3 else 0, "out.table.sub"):
            yield so
    # ---- labels of the time-like axes (Data.get_axis_descriptions on one axis value)
    for ax in TL_AXES:
        for d in TL_DAYS:
            for sec in TL_SECS:
                yield "out.tlabel", "tlabel %s %d" % (ax, _ut(d) + sec)
    for _ in range(0 if quick else 4000):
        t = rng.randrange(T_LO, T_END)
        for ax in TL_AXES:
            yield "out.tlabel", "tlabel %s %d" % (ax, t)
    # ---- %g
    vals = _doubles(rng, 3000 if quick else 50000)
    for v in vals:
        if v == 0 and math.copysign(1, v) < 0:
            continue
        for p in (6, 4):
            yield "fmtg", "fmtg %d %s" % (p, xr(v))
    for v in vals[:400 if quick else 4000]:
        for p in (1, 2, 3, 10, 17, 0):
            yield "fmtg.prec", "fmtg %d %s" % (p, xr(v))
    # ---- writers on synthetic tables
    for _ in range(1500 if quick else 20000):
        yield "out.writer", _gen_writer(rng)
    # ---- -acc and threshold averaging of Standard._get_x_y
    for i in range(300 if quick else 4000):
        yield "out.acc", "acc " + show_matrix(_gen_matrix(rng, allow_inf=(i % 10 == 0)))
        m = _gen_matrix(rng)
        yield "out.tavg", "tavg %d %s" % (len(m[0]), show_matrix(m))
    for kind in ("csv", "text"):
        for ax in ("threshold", "obs", "fcst", "other"):
            yield "out.seldesc", "seldesc %s %s" % (kind, ax)


def search_ops(rng):
    for k in range(1500):
        scen = _gen_prob_scenario(rng, k // 3) if k % 3 == 2 else _gen_scenario(rng, k)
        for so in _scen_ops(scen, 1 if rng.random() < 0.3 else 0):
            yield so
    for k in range(600):
        scen = _gen_subdaily(rng, k)
        for so in _scen_ops(scen, 1 if rng.random() < 0.3 else 0, "out.table.sub"):
            yield so
    for _ in range(1500):
        t = rng.randrange(T_LO, T_END)
        yield "out.tlabel", "tlabel %s %d" % (rng.choice(TL_AXES), t)
    for _ in range(2000):
        yield "out.writer", _gen_writer(rng)
    for i in range(500):
        yield "out.acc", "acc " + show_matrix(_gen_matrix(rng))
        m = _gen_matrix(rng)
        yield "out.tavg", "tavg %d %s" % (len(m[0]), show_matrix(m))


def lean_op(op):
    """qdesc: the -r / -q values are decimal strings on the command line and exact rationals for the model"""
    a = op.split(" ")
    if a[0] == "qdesc":
        for i in (4, 5):
            if a[i] != "-":
                a[i] = ",".join(xr(Fraction(x)) for x in a[i].split(","))
        return " ".join(a)
    return op


# ------------------------------------------------------------------ impl
def _parse_writer(a):
    kind = a[0]
    names, legend = dec_list(a[2]), dec_list(a[3])
    rows = [] if a[4] == "-" else a[4].split("|")
    descs = {k: [] for k in names}
    y = np.zeros([len(rows), len(legend)], float)
    ycols = None
    for i, r in enumerate(rows):
        d, ys = r.split(":")
        ds = [] if d == "-" else d.split(";")
        for k, t in zip(names, ds):
            if t == "A":
                descs[k] = None
            elif t[0] == "s":
                descs[k].append(dec_s(t))
            else:
                descs[k].append(np.float64(from_xr(t[1:])))
        yv = from_xvec(ys)
        if ycols is None:
            ycols = len(yv)
            y = np.zeros([len(rows), ycols], float)
        y[i, :] = yv
    return kind, names, legend, descs, y


def impl(op):
    a = op.split(" ")
    if a[0] == "fmtg":
        return ("%%.%dg" % int(a[1])) % from_xr(a[2])
    if a[0] in ("csv", "text") and len(a) >= 6:
        scen = json.loads(a[5])
        return _reply(_run(scen, a[1] == "1"))
    if a[0] in ("csv", "text"):
        kind, names, legend, descs, y = _parse_writer(a)
        d = tempfile.mkdtemp(dir=_base())
        try:
            fn = os.path.join(d, "out.txt") if a[1] == "1" else None
            pl = _fake_output(list(range(y.shape[0])), y, legend, descs, fn)
            buf = io.StringIO()
            with contextlib.redirect_stdout(buf):
                (pl.csv if kind == "csv" else pl.text)(None)
            out = buf.getvalue()
            ftxt = open(fn).read() if fn else None
        finally:
            shutil.rmtree(d, True)
        return esc(out) + "\t" + ("-" if ftxt is None else esc(ftxt))
    if a[0] == "seldesc":
        import verif.axis

        class D(object):
            def get_axis_descriptions(self, axis):
                return {"AX": [9.0]}
        pl = _fake_output([0], np.array([[1.0]]), ["a"], None, None)
        pl.axis = {"threshold": verif.axis.Threshold(), "obs": verif.axis.Obs(), "fcst": verif.axis.Fcst(),
                   "other": verif.axis.Leadtime()}[a[2]]
        pl.thresholds = [7.0]
        buf = io.StringIO()
        with contextlib.redirect_stdout(buf):
            (pl.csv if a[1] == "csv" else pl.text)(D())
        tab = _parse_emitted(a[1], buf.getvalue())
        return "%s:%s" % (tab[0][0], {7.0: "T", 9.0: "A"}.get(float(tab[1][0]), "?"))
    if a[0] == "qdesc":
        scen = dict(_qdesc_scen())
        scen["args"] = ["-m", a[2], "-x", "threshold", "-type", a[1]] + ([] if a[3] == "-" else ["-b", a[3]]) + \
            ([] if a[4] == "-" else ["-r", a[4]]) + ([] if a[5] == "-" else ["-q", a[5]])
        res = _run(scen, False)
        if res["status"] == "exit":
            return "ERR"
        if res["status"] != "ok":
            return "EXC:" + res["status"][4:]
        tab = _parse_emitted(a[1], res["out"])
        if tab is None or not tab:
            return "BAD:" + esc(res["out"])[:200]
        if tab[0][0] != "Threshold":
            return "NONE"
        return "Threshold:" + (",".join(xr(Fraction(r[0])) for r in tab[1:]) if len(tab) > 1 else "-")
    if a[0] == "tlabel":
        import verif.axis
        import verif.data
        t = int(a[2])

        class D(object):
            def get_axis_values(self, axis):
                return np.array([t], float)
        with np.errstate(all="ignore"):
            descs = verif.data.Data.get_axis_descriptions(D(), verif.axis.get(a[1]))
        return ";".join("%s:%s" % (k, ",".join(str(x).replace(" ", "_") for x in v)) for k, v in descs.items())
    if a[0] == "acc":
        m = np.array(parse_matrix(a[1]), float)
        n, F = m.shape
        y = _std_xy(lambda f, iv: m[:, f].copy(), F, n, None, True)
        return show_matrix(y)
    if a[0] == "tavg":
        m = np.array(parse_matrix(a[2]), float)
        k, n = m.shape
        y = _std_xy(lambda f, iv: m[int(iv.lower), :].copy(), 1, n, np.arange(k, dtype=float), False)
        return xvec(y[:, 0])
    raise ValueError(op)


# ------------------------------------------------------------------ comparison with the model
_NEGZERO = re.compile(r"(?<![0-9A-Za-z.+\-])-0(?![0-9A-Za-z.])")


def _num(tok):
    """token -> float; an exact model value beyond the double range reads as +-inf (float overflow)"""
    try:
        return from_xr(tok)
    except OverflowError:
        return float("-inf") if tok.startswith("-") else float("inf")


def cmp(op, impl_out, model_out):
    a = op.split(" ", 3)
    if a[0] in ("acc", "tavg"):
        ra, rb = impl_out.split("|"), model_out.split("|")
        if len(ra) != len(rb):
            return False
        for x, y in zip(ra, rb):
            ta, tb = x.split(","), y.split(",")
            if len(ta) != len(tb):
                return False
            for u, v in zip(ta, tb):
                try:
                    if u != v and not num_close(_num(u), _num(v), 1e-9, 1e-300):
                        return False
                except ValueError:
                    return False
        return True
    if a[0] in ("csv", "text"):
        if a[2] == "?":                       # the run did not get as far as a table: nothing to model
            return True
        return _NEGZERO.sub("0", impl_out) == model_out
    return impl_out == model_out


# ------------------------------------------------------------------ the property oracle (independent of the model)
def _sig_digits_ok(field, v, p):
    """field is the correctly rounded p-significant-digit decimal of the double v, in %g notation"""
    if math.isnan(v):
        return field == "nan"
    if math.isinf(v):
        return field == ("inf" if v > 0 else "-inf")
    try:
        got = decimal.Decimal(field)
    except decimal.InvalidOperation:
        return False
    P = p if p > 0 else 1
    want = decimal.Context(prec=P, rounding=decimal.ROUND_HALF_EVEN, Emin=-9999, Emax=9999).create_decimal(
        decimal.Decimal(v))
    if got != want:
        return False
    if v == 0:
        return field in ("0", "-0")
    X = want.adjusted()
    sci = X < -4 or X >= P
    if sci != ("e" in field):
        return False
    mant = field.split("e")[0]
    if "." in mant and mant.endswith("0"):
        return False                           # trailing zeros are removed
    if sci and not re.search(r"e[+-]\d\d+$", field):
        return False
    return True


def _parse_emitted(kind, text):
    """plain-Python reading of what was emitted -> list of rows of fields (None if malformed)"""
    if not text.endswith("\n"):
        return None
    lines = text[:-1].split("\n")
    out = []
    for l in lines:
        if kind == "csv":
            out.append(l.split(","))
        else:
            parts = l.split("|")
            if parts[-1].strip() != "":
                return None
            out.append([p.strip() for p in parts[:-1]])
    return out


def _expected_from_files(scen, with_clim=False):
    """pure-Python reading of the generated rows: common dimensions, per-file (obs, fcst) tables; the time key is
    the initialisation time in seconds since 1970 (date [+ hour] columns or the unixtime column)"""
    tabs, dsets, lsets, ssets, meta = [], [], [], [], {}
    t = scen.get("t")
    for fl in scen["files"] + ([scen["clim"]] if scen.get("clim") else []):   # the climatology takes part in the
        tab = {}                                                                # common dimensions (data.py:100)
        for r in fl["r"]:
            c = r.split("~")
            if t == "h":
                ut, c = _ut(int(c[0])) + 3600 * int(c[1]), c[2:]
            elif t == "u":
                ut, c = int(c[0]), c[1:]
            else:
                ut, c = _ut(int(c[0])), c[1:]
            key = (ut, float(c[0]), int(c[1]))
            if fl is scen["files"][0]:
                meta.setdefault(int(c[1]), (float(c[2]), float(c[3]), float(c[4])))

            def val(s):
                v = float(s)
                return float("nan") if v == -999 else float(np.float32(v))
            tab.setdefault(key, (val(c[5]), val(c[6])))
        tabs.append(tab)
        dsets.append({k[0] for k in tab})
        lsets.append({k[1] for k in tab})
        ssets.append({k[2] for k in tab})
    times = sorted(set.intersection(*dsets))
    leads = sorted(set.intersection(*lsets))
    locs = sorted(set.intersection(*ssets))
    ctab = None
    if scen.get("clim"):
        ctab, tabs = tabs[-1], tabs[:-1]
    return (tabs, times, leads, locs, meta, ctab) if with_clim else (tabs, times, leads, locs, meta)


def _anomaly(scen, ctab, key, vals):
    """(obs, fcst) of every scored file for one case under -c / -C: the climatology's forecast for the same case is
    subtracted from (-c) or divided into (-C) observation and forecast, in float32 as the arrays are; a case whose
    climatology is missing is missing for every file; a non-finite anomaly makes the case missing for that file"""
    if ctab is None:
        return vals
    co, cf = ctab.get(key, (float("nan"), float("nan")))
    if math.isnan(co) or math.isnan(cf):
        return [(float("nan"), float("nan"))] * len(vals)
    out = []
    with np.errstate(all="ignore"):
        for o, f in vals:
            if scen["clim"]["o"] == "-c":
                o2, f2 = np.float32(o) - np.float32(cf), np.float32(f) - np.float32(cf)
            else:
                o2, f2 = np.float32(o) / np.float32(cf), np.float32(f) / np.float32(cf)
            o2, f2 = float(o2), float(f2)
            out.append((o2, f2) if math.isfinite(o2) and math.isfinite(f2) else (float("nan"), float("nan")))
    return out


def _subdaily(scen):
    """does any row of the scenario have an initialisation time that is not at midnight?"""
    if scen.get("t") is None:
        return False
    tabs = _expected_from_files(scen)[0]
    return any(k[0] % 86400 != 0 for tab in tabs for k in tab)


def _aggregate(name, vals):
    """the documented aggregators on a non-empty list of numbers, written out by hand"""
    n = len(vals)
    if name is None or name == "mean":
        return float(np.mean(vals))
    srt = sorted(vals)
    if name == "median":
        return srt[n // 2] if n % 2 else (srt[n // 2 - 1] + srt[n // 2]) / 2.0
    if name == "min":
        return srt[0]
    if name == "max":
        return srt[-1]
    if name == "count":
        return float(n)
    if name == "sum":
        return math.fsum(vals)
    if name == "std":
        mu = math.fsum(vals) / n
        return math.sqrt(math.fsum((v - mu) ** 2 for v in vals) / n)
    q = float(name)                                   # a number: that quantile, linear interpolation between order statistics
    pos = (n - 1) * q
    lo = int(math.floor(pos))
    hi = min(lo + 1, n - 1)
    return srt[lo] + (srt[hi] - srt[lo]) * (pos - lo)


def _in_interval(b, lo, hi, x):
    """the documented bin types: below x < t, below= x <= t, above x > t, above= x >= t, within lo < x < hi, and the
    '=' on the side that is closed"""
    if b == "below":
        return x < hi
    if b == "below=":
        return x <= hi
    if b == "above":
        return x > lo
    if b == "above=":
        return x >= lo
    left = (lo <= x) if b in ("=within", "=within=") else (lo < x)
    right = (x <= hi) if b in ("within=", "=within=") else (x < hi)
    return left and right


def _pure(scen, metric, axis):
    """slices (descriptor expectation, per-file score) for mae / bias (with any -agg) on the basic axes, and for the
    hit frequency a (hits / cases) on the threshold axis; None if not covered"""
    args = scen["args"]
    agg = _arg(args, "-agg")
    if metric == "a" and axis == "threshold" and "-r" in args:
        tabs, times, leads, locs, meta, ctab = _expected_from_files(scen, True)
        thr = [float(t) for t in _arg(args, "-r").split(",")]
        b = _arg(args, "-b", "above")
        pairs = [(thr[i], thr[i + 1]) for i in range(len(thr) - 1)] if b in WITHIN else [(t, t) for t in thr]
        cases = []
        for ut, l, s in itertools.product(times, leads, locs):
            vals = [t.get((ut, l, s), (float("nan"), float("nan"))) for t in tabs]
            if all(not math.isnan(o) and not math.isnan(f) for o, f in vals):
                vals = _anomaly(scen, ctab, (ut, l, s), vals)
                if all(not math.isnan(o) for o, f in vals):       # same obs and climatology for every file
                    cases.append(vals)
        out = []
        for i, (lo, hi) in enumerate(pairs):
            sc = [sum(1 for c in cases if _in_interval(b, lo, hi, c[f][0]) and _in_interval(b, lo, hi, c[f][1])) /
                  float(len(cases)) if cases else float("nan") for f in range(len(tabs))]
            out.append(([thr[i]], sc))
        return out
    if metric not in ("mae", "bias") or axis not in ("leadtime", "location", "lat", "lon", "elev", "time", "day",
                                                      "week", "month", "year", "timeofday", "no"):
        return None
    tabs, times, leads, locs, meta, ctab = _expected_from_files(scen, True)

    def keyof(ut, l, s):
        d = _civil(ut)[0]
        return {"leadtime": l, "time": ut, "day": ut // 86400, "month": (d.year, d.month), "year": d.year,
                "week": ut // 86400 - d.weekday(),                       # the day number of the Monday of that week
                "timeofday": Fraction(ut % 86400, 3600), "no": 0}.get(axis, s)
    groups, first = {}, {}
    for ut, l, s in itertools.product(times, leads, locs):
        groups.setdefault(keyof(ut, l, s), [])
        first.setdefault(keyof(ut, l, s), ut)
        vals = [t.get((ut, l, s), (float("nan"), float("nan"))) for t in tabs]
        if all(not math.isnan(o) and not math.isnan(f) for o, f in vals):
            groups[keyof(ut, l, s)].append(_anomaly(scen, ctab, (ut, l, s), vals))
    out = []
    for k in sorted(groups):
        if axis == "leadtime":
            desc = [k]
        elif axis in ("location", "lat", "lon", "elev"):
            desc = [float(k)] + list(meta[k])
        elif axis in ("time", "day", "month", "year"):
            desc = [_time_label(axis, first[k])]       # the slice's own init time / day / month / year
        elif axis == "week":
            desc = [_time_label("week", k * 86400)]    # the week is named after its first day (the Monday), %Y/%U of it
        elif axis == "timeofday":
            desc = [float(k)]
        else:
            desc = None
        sc = []
        for f in range(len(tabs)):
            v = [g[f] for g in groups[k] if not math.isnan(g[f][0])]
            if not v:
                sc.append(float("nan"))
            elif metric == "mae":
                sc.append(float(_aggregate(agg, [abs(o - fc) for o, fc in v])))
            else:
                sc.append(float(_aggregate(agg, [fc - o for o, fc in v])))
        out.append((desc, sc))
    return out


def _half_unit_close(field, v, p):
    if math.isnan(v):
        return field == "nan"
    try:
        g = float(field)
    except ValueError:
        return False
    if v == 0:
        return abs(g) < 1e-12
    e = math.floor(math.log10(abs(v)))
    # verif computes on float32 arrays (np.mean of float32 data), this path in binary64: allow that much
    return abs(g - v) <= 0.5 * 10.0 ** (e - p + 1) * (1 + 1e-6) + 3e-6 * abs(v) + 5e-6


def _recompute(scen):
    """independent recomputation: fresh Data from freshly written files, verif.metric.<M>.compute per input,
    threshold mean and running sums done here.  -> (axis name, desc header names or None, x values, rows of scores,
    legend)"""
    import verif.data
    import verif.input
    import verif.metric
    import verif.axis
    import verif.util
    import verif.field
    import verif.output
    args = scen["args"]
    metric = _arg(args, "-m")
    kind = _arg(args, "-type")
    d = tempfile.mkdtemp(dir=_base())
    try:
        paths = _write_files(scen, d)
        with contextlib.redirect_stdout(io.StringIO()), np.errstate(all="ignore"):
            import warnings
            with warnings.catch_warnings():
                warnings.simplefilter("ignore")
                inputs = [verif.input.get_input(p) for p in paths]
                if scen.get("clim"):
                    data = verif.data.Data(inputs, clim=verif.input.get_input(_clim_argv(scen, d)[1]),
                                           clim_type="subtract" if scen["clim"]["o"] == "-c" else "divide")
                else:
                    data = verif.data.Data(inputs)
                thr = _arg(args, "-r")
                thr = None if thr is None else np.array([float(t) for t in thr.split(",")])
                if metric == "obsfcst":
                    axis = verif.axis.get(_arg(args, "-x")) if "-x" in args else verif.axis.Leadtime()
                    xs = data.get_axis_values(axis)
                    mo = verif.metric.FromField(verif.field.Obs(), aux=verif.field.Fcst())
                    mf = verif.metric.FromField(verif.field.Fcst(), aux=verif.field.Obs())
                    cols = [mo.compute(data, 0, axis, None)] + \
                           [mf.compute(data, f, axis, None) for f in range(len(paths))]
                    extra = ["obs"]
                    tlike = False
                else:
                    m = verif.metric.get(metric)
                    if _arg(args, "-agg") is not None:
                        import verif.aggregator
                        m.aggregator = verif.aggregator.get(_arg(args, "-agg"))
                    if metric in QUANT_METRICS:          # computed per quantile level: -q, else the stored levels
                        qv = _arg(args, "-q")
                        thr = np.array([float(t) for t in qv.split(",")]) if qv is not None else \
                            np.array(sorted(set.intersection(*[set(float(x) for x in i.quantiles) for i in inputs])))
                    elif metric in THR_METRICS and thr is None:   # per threshold: -r, else the stored thresholds
                        thr = np.array(sorted(set.intersection(*[set(float(x) for x in i.thresholds) for i in inputs])))
                    axis = verif.axis.get(_arg(args, "-x")) if "-x" in args else \
                        (m.default_axis if m.default_axis is not None else verif.axis.Leadtime())
                    bt = _arg(args, "-b") or m.default_bin_type or "above"
                    ivs = verif.util.get_intervals(bt, thr)
                    tlike = axis in [verif.axis.Threshold(), verif.axis.Obs(), verif.axis.Fcst()]
                    xs = list(thr) if tlike else data.get_axis_values(axis)
                    cols = []
                    for f in range(len(paths)):
                        if tlike:
                            cols.append(np.array([m.compute(data, f, axis, iv)[0] for iv in ivs], float))
                        else:
                            tot = None
                            for iv in ivs:
                                c = np.array(m.compute(data, f, axis, iv), float)
                                tot = c if tot is None else tot + c
                            cols.append(tot / len(ivs))
                    extra = []
                n = len(cols[0])
                rows = [[float(c[i]) for c in cols] for i in range(n)]
                if "-acc" in args:
                    run = [0.0] * len(cols)
                    acc = []
                    for r in rows:
                        run = [s + (0.0 if math.isnan(v) else v) for s, v in zip(run, r)]
                        acc.append(list(run))
                    rows = acc
                if tlike:
                    dvals = [[float(t)] for t in xs[:n]]
                elif axis.is_location_like:
                    dvals = [[float(l.id), float(l.lat), float(l.lon), float(l.elev)] for l in data.locations]
                elif axis.is_time_like:
                    dvals = [[datetime.datetime.fromtimestamp(int(t), datetime.timezone.utc).strftime(axis.fmt)]
                             for t in xs]
                else:
                    dvals = [[float(t)] for t in xs]
                leg = _arg(args, "-leg")
                legend = [s.replace("_", " ") for s in leg.split(",")] if leg is not None else \
                    [fl["n"] for fl in scen["files"]]
                aname = axis.name()
                if tlike:
                    hdr = [{"Threshold": "Threshold", "Obs": "Observed", "Fcst": "Forecasted"}[aname]]
                elif axis.is_location_like:
                    hdr = ["id", "lat", "lon", "elev"]
                else:
                    hdr = [aname]
                return aname.lower(), hdr, dvals, rows, extra + legend
    finally:
        shutil.rmtree(d, True)


def _desc_matches(field, want, kind="csv"):
    """csv prints str(value) (reads back exactly); text prints a numeric descriptor with %g, so a value with more
    than six significant digits (a time of day of 12:34:56 = 12.58222... h) reads back as its %g rounding"""
    if isinstance(want, str):
        return field == want
    try:
        return float(field) == float(want) or (kind == "text" and field == "%g" % want)
    except ValueError:
        return False


def _judge_table(a, impl_out):
    kind, with_f = a[0], a[1] == "1"
    p = 6 if kind == "csv" else 4
    scen = json.loads(a[5])
    args = scen["args"]
    axis_arg = _arg(args, "-x", "default")
    sig = {"type": kind, "axis": axis_arg, "metric": _arg(args, "-m"), "acc": "-acc" in args, "f": with_f,
           "subdaily": _subdaily(scen), "agg": "-agg" in args, "input": scen.get("k", "det"),
           "clim": (scen.get("clim") or {}).get("o"),
           "xgroup": "field" if axis_arg in ("obs", "fcst") else ("threshold" if axis_arg == "threshold" else "dim")}
    cl = cmdline(scen, with_f)
    if impl_out.startswith("RUN:") or impl_out.startswith("EXC:") or impl_out.startswith("EXIT:"):
        return (dict(sig, kind="crash", how=impl_out.split(":", 1)[1]), "%s ended in %s instead of a table" % (cl, impl_out))
    so, sf = impl_out.split("\t")
    out, ftxt = unesc(so), (None if sf == "-" else unesc(sf))
    if with_f:
        ref = _run(scen, False)
        if ftxt is None:
            return (dict(sig, kind="file"), "%s: no file written" % cl)
        if out.strip() != "":
            return (dict(sig, kind="file"), "%s: table also printed to the screen: %r" % (cl, out[:80]))
        if ref["status"] != "ok" or ftxt != ref["out"]:
            return (dict(sig, kind="file"), "%s: file content %r differs from what the same command prints without "
                    "-f: %r" % (cl, ftxt[:200], ref["out"][:200]))
        text = ftxt
    else:
        if ftxt is not None:
            return (dict(sig, kind="file"), "%s: a file was written without -f" % cl)
        text = out
    tab = _parse_emitted(kind, text)
    if tab is None or not tab:
        return (dict(sig, kind="layout"), "%s: output is not a table: %r" % (cl, text[:200]))
    try:
        aname, hdr, dvals, rows, legend = _recompute(scen)
    except SystemExit:
        return None
    sep = "," if kind == "csv" else "|"
    if not all(_clean(s, sep) and s == s.strip() and s != "" for s in legend):
        return None                                    # outside the domain of the round trip (e.g. -leg c|d)
    # header
    if tab[0] != hdr + legend:
        return (dict(sig, kind="header"), "%s: header %s, expected descriptor names %s followed by one column per "
                "input in command-line order %s" % (cl, tab[0], hdr, legend))
    body = tab[1:]
    if len(body) != len(rows):
        return (dict(sig, kind="rows"), "%s: %d data rows, %d slices along the axis" % (cl, len(body), len(rows)))
    nd = len(hdr)
    for i, (line, want) in enumerate(zip(body, rows)):
        if len(line) != nd + len(want):
            return (dict(sig, kind="columns"), "%s: row %d has %d fields, expected %d descriptor(s) + %d score(s): %s"
                    % (cl, i, len(line), nd, len(want), line))
        for j, dv in enumerate(dvals[i]):
            if aname == "no":
                continue
            if not _desc_matches(line[j], dv, kind):
                return (dict(sig, kind="descriptor"), "%s: row %d descriptor %r does not identify the slice (expected %r)"
                        % (cl, i, line[j], dv))
        for f, v in enumerate(want):
            fmt = ("%g" if kind == "csv" else "%.4g") % v
            if line[nd + f] != fmt and not (v == 0 and line[nd + f] in ("0", "-0")):   # the sign of a zero is not a score
                # NB an independent path recomputed v; identical float operations, so the text must agree
                k = "acc-inf" if ("-acc" in args and math.isinf(v)) else "score"
                return (dict(sig, kind=k), "%s: row %d column %s prints %r, the score recomputed with "
                        "verif.metric on a fresh dataset is %r -> %r" % (cl, i, legend[f], line[nd + f], v, fmt))
            if not _sig_digits_ok(line[nd + f], v, p):
                return (dict(sig, kind="rounding"), "%s: %r is not %r rounded to %d significant digits"
                        % (cl, line[nd + f], v, p))
    # the leading fields identify the slice: no two rows may carry the same ones
    if aname != "no":
        seen = {}
        for i, line in enumerate(body):
            lead = tuple(line[:nd])
            if lead in seen:
                return (dict(sig, kind="descriptor"), "%s: rows %d and %d carry the same leading field(s) %r although "
                        "they are different slices" % (cl, seen[lead], i, list(lead)))
            seen[lead] = i
    # rows in axis order: ascending for the data dimensions (time, lead time, location id and the axes derived from
    # them); the threshold-like axes keep the order of the command line
    if aname != "no" and hdr[0] not in ("Threshold", "Observed", "Forecasted"):
        col = [line[0] for line in body]
        try:
            keys = [float(c) for c in col]
        except ValueError:
            keys = col                                 # %Y-%m-%d %H:%M:%S, %Y/%m/%d, %Y/%m, %Y/%U: text order = time order
        for i in range(len(keys) - 1):
            if kind == "text" and hdr[0] == "id" and keys[i] == keys[i + 1] and dvals[i][0] < dvals[i + 1][0]:
                return (dict(sig, kind="id-collision"), "%s: rows %d and %d are the stations %r and %r, both are "
                        "labelled %r in the id column (%%g keeps 6 significant digits)"
                        % (cl, i, i + 1, dvals[i][0], dvals[i + 1][0], col[i]))
            if not keys[i] < keys[i + 1]:
                return (dict(sig, kind="order"), "%s: rows %d and %d carry %r then %r: the leading field is not "
                        "strictly increasing along the %s axis" % (cl, i, i + 1, col[i], col[i + 1], aname))
    # location-like axes, every metric: lat / lon / elev of a row are those the first file gives for the row's id
    if hdr[0] == "id":
        meta = _expected_from_files(scen)[4]
        for i, line in enumerate(body):
            want = meta.get(int(dvals[i][0]))
            if want is None or not all(_desc_matches(line[1 + j], want[j], kind) for j in range(3)):
                return (dict(sig, kind="descriptor"), "%s: row %d (station %r) carries lat/lon/elev %r, the first file "
                        "says %r" % (cl, i, dvals[i][0], line[1:4], want))
    # second, library-free path for mae / bias
    pure = _pure(scen, _arg(args, "-m"), aname)
    if pure is not None:
        if len(pure) != len(body):
            return (dict(sig, kind="rows"), "%s: %d data rows, the files have %d common slices" % (cl, len(body), len(pure)))
        run = [0.0] * (len(body[0]) - nd)
        for i, (line, (desc, sc)) in enumerate(zip(body, pure)):
            if desc is not None:
                for j, dv in enumerate(desc):
                    if not _desc_matches(line[j], dv, kind):
                        return (dict(sig, kind="descriptor"), "%s: row %d descriptor %r, the files say %r"
                                % (cl, i, line[j], dv))
            if "-acc" in args:
                run = [s + (0.0 if math.isnan(v) else v) for s, v in zip(run, sc)]
                sc = run
            for f, v in enumerate(sc):
                if not _half_unit_close(line[nd + f], v, p):
                    return (dict(sig, kind="score"), "%s: row %d column %d prints %r, recomputed from the file rows: %r"
                            % (cl, i, f, line[nd + f], v))
    return None


def _clean(s, sep):
    return sep not in s and "\n" not in s


def _judge_writer(a, impl_out):
    kind = a[0]
    p = 6 if kind == "csv" else 4
    if impl_out.startswith("EXC:") or impl_out.startswith("EXIT:"):
        return ({"kind": "crash", "type": kind, "stream": "writer"}, "writer ended in %s on %s" % (impl_out, " ".join(a)[:300]))
    _, names, legend, descs, y = _parse_writer(a)
    so, sf = impl_out.split("\t")
    text = unesc(so) if a[1] == "0" else (None if sf == "-" else unesc(sf))
    sig = {"type": kind, "stream": "writer", "f": a[1] == "1"}
    if text is None or (a[1] == "1" and so != ""):
        return (dict(sig, kind="file"), "with a file name the table must go to the file only: %r" % impl_out[:200])
    sep = "," if kind == "csv" else "|"
    fields_hdr = names + legend
    rows = []
    for i in range(y.shape[0]):
        ds = []
        for k in names:
            c = descs[k]
            ds.append("All" if c is None else (c[i] if _is_str(c[i]) else "%g" % c[i]))
        rows.append(ds + [("%g" if kind == "csv" else "%.4g") % v for v in y[i, :]])
    every = fields_hdr + [x for r in rows for x in r]
    if not all(_clean(s, sep) for s in every):
        return None                                    # outside the domain of the round trip
    if not all(s == s.strip() for s in every):        # strip() of the whole string / of the text cells
        return None
    if fields_hdr[0] == "" or fields_hdr[0] != fields_hdr[0].strip() or any(s.strip() == "" for s in legend):
        return None
    if y.shape[0] and y.shape[1] != len(legend):
        return None
    tab = _parse_emitted(kind, text)
    want = [fields_hdr] + rows
    if tab != want:
        return (dict(sig, kind="layout"), "parsed output %s differs from the table %s" % (tab, want))
    for i in range(y.shape[0]):
        for f in range(y.shape[1]):
            if not _sig_digits_ok(tab[i + 1][len(names) + f], float(y[i, f]), p):
                return (dict(sig, kind="rounding"), "%r is not %r to %d significant digits"
                        % (tab[i + 1][len(names) + f], y[i, f], p))
    return None


def _qdesc_expected(metric, b, r, q, stored_t, stored_q):
    """the documented leading column of `-m metric -x threshold`: quantile metrics are computed per quantile LEVEL
    (-q, else the levels stored in the files), threshold metrics per threshold (-r, else those stored in the files);
    one row per interval — every value for below/above, every consecutive pair for the within family (row i = lower
    edge i).  -> list of Fractions, "ERR" (the tool must stop with its message) or None (no threshold column)"""
    if metric in QUANT_METRICS:
        vals = q if q is not None else stored_q
        lo, hi = QUANT_METRICS[metric]
        if (lo is not None and len(vals) < lo) or (hi is not None and len(vals) > hi):
            return "ERR"
    elif metric in THR_METRICS:
        vals = r if r is not None else stored_t
        if not vals:
            return "ERR"
    elif metric in CONT and r is not None:
        vals = r
    else:
        return None
    bt = b if b is not None else ("within" if metric == "spread" else "above")
    return vals[:-1] if bt in WITHIN else vals


def _judge_qdesc(a, impl_out):
    fr = lambda tok: None if tok == "-" else [Fraction(x) for x in tok.split(",")]
    kind, metric, b = a[1], a[2], (None if a[3] == "-" else a[3])
    r, q = fr(a[4]), fr(a[5])
    st, sq = fr(a[6]) or [], fr(a[7]) or []
    cl = "verif qd.txt -m %s -x threshold -type %s%s%s%s" % (metric, kind, "" if b is None else " -b " + b,
                                                          "" if r is None else " -r " + a[4], "" if q is None else " -q " + a[5])
    sig = {"stream": "qdesc", "type": kind, "metric": metric, "axis": "threshold", "xgroup": "threshold",
           "quantile": metric in QUANT_METRICS}
    if impl_out.startswith("EXC:") or impl_out.startswith("BAD:"):
        return (dict(sig, kind="crash", how=impl_out[:40]), "%s ended in %s instead of a table or the error message" % (cl, impl_out))
    want = _qdesc_expected(metric, b, r, q, st, sq)
    if want == "ERR":
        if impl_out != "ERR":
            return (dict(sig, kind="count"), "%s: the number of quantiles / thresholds is outside what the metric documents, "
                    "but the tool printed %s" % (cl, impl_out))
        return None
    if impl_out == "ERR":
        return (dict(sig, kind="crash", how="exit"), "%s stopped with an error" % cl)
    exp = "NONE" if want is None else "Threshold:" + (",".join(xr(v) for v in want) if want else "-")
    if impl_out != exp:
        return (dict(sig, kind="descriptor"), "%s: the leading column is %s, expected %s (%s)" % (
            cl, impl_out, exp, "the quantile levels" if metric in QUANT_METRICS else "the thresholds"))
    return None


def judge(op, impl_out, spec_out):
    a = op.split(" ")
    if a[0] == "fmtg":
        v = from_xr(a[2])
        if not _sig_digits_ok(impl_out, v, int(a[1])):
            return ({"kind": "rounding", "stream": "fmtg"},
                    "'%%.%sg' %% %r gives %r: not the correctly rounded %s-significant-digit decimal in %%g notation"
                    % (a[1], v, impl_out, a[1]))
        return None
    if a[0] in ("csv", "text") and len(a) >= 6:
        return _judge_table(a, impl_out)
    if a[0] in ("csv", "text"):
        return _judge_writer(a, impl_out)
    if a[0] == "seldesc":
        want = "A" if a[2] == "other" else "T"
        if not impl_out.endswith(":" + want):
            return ({"kind": "descriptor", "type": a[1], "axis": a[2], "stream": "seldesc",
                     "xgroup": "field" if a[2] in ("obs", "fcst") else a[2]},
                    "Output.%s with the %s axis and thresholds [7] / axis descriptions [9] prints descriptor "
                    "column %s: the leading field must be the %s" % (a[1], a[2], impl_out,
                    "threshold" if want == "T" else "axis value"))
        return None
    if a[0] == "qdesc":
        return _judge_qdesc(a, impl_out)
    if a[0] == "tlabel":
        t = int(a[2])
        want = "%s:%s" % (a[1].capitalize(), _time_label(a[1], t).replace(" ", "_"))
        if impl_out != want:
            return ({"kind": "descriptor", "stream": "tlabel", "axis": a[1], "xgroup": "dim", "subdaily": t % 86400 != 0},
                    "Data.get_axis_descriptions(%s) labels the axis value %d (%s UTC) %r, the documented label is %r"
                    % (a[1], t, _time_label("time", t), impl_out, want))
        return None
    if a[0] == "acc":
        if impl_out.startswith("E"):
            return ({"kind": "crash", "stream": "acc"}, "-acc ended in %s" % impl_out)
        m = parse_matrix(a[1])
        got = parse_matrix(impl_out)
        if any(math.isinf(v) for r in m for v in r):
            if len(got) != len(m):
                return ({"kind": "acc"}, "-acc changes the number of rows: %s -> %s" % (a[1], impl_out))
            run = [0.0] * len(m[0])
            for i, r in enumerate(m):
                run = [s + (0.0 if math.isnan(v) else v) for s, v in zip(run, r)]
                if len(got[i]) != len(run):
                    return ({"kind": "acc"}, "-acc changes the number of columns in row %d: %s -> %s" % (i, a[1], impl_out))
                for g, s_ in zip(got[i], run):
                    ok = math.isnan(g) if math.isnan(s_) else (g == s_ if math.isinf(s_) else num_close(g, s_, 1e-9, 1e-300))
                    if not ok:
                        return ({"kind": "acc-inf", "stream": "acc"}, "-acc row %d is %r where the running sum is %r "
                                "(an infinite score must make the running sum infinite; the largest double is not a "
                                "sum of scores); input %s" % (i, g, s_, a[1]))
            return None
        run = [Fraction(0)] * len(m[0])
        if len(got) != len(m):
            return ({"kind": "acc"}, "-acc changes the number of rows: %s -> %s" % (a[1], impl_out))
        for i, r in enumerate(m):
            run = [s + (Fraction(0) if math.isnan(v) else Fraction(v)) for s, v in zip(run, r)]
            if len(got[i]) != len(run) or not all(num_close(g, float(s), 1e-9, 1e-300) for g, s in zip(got[i], run)):
                return ({"kind": "acc"}, "-acc row %d is %s, the running sum along the axis (NaN as 0) is %s; input %s"
                        % (i, got[i], [float(s) for s in run], a[1]))
        return None
    if a[0] == "tavg":
        if impl_out.startswith("E"):
            return ({"kind": "crash", "stream": "tavg"}, "threshold averaging ended in %s" % impl_out)
        m = parse_matrix(a[2])
        got = from_xvec(impl_out)
        for i in range(len(m[0])):
            col = [r[i] for r in m]
            if any(math.isnan(v) for v in col):
                ok = math.isnan(got[i])
            else:
                ok = num_close(got[i], float(sum(Fraction(v) for v in col) / len(col)), 1e-9, 1e-300)
            if not ok:
                return ({"kind": "tavg"}, "slice %d: reported %r, mean over intervals of %s" % (i, got[i], col))
        return None
    return None


def nontrivial(op, out):
    a = op.split(" ", 3)
    if a[0] == "fmtg":
        return out not in ("nan", "inf", "-inf", "0")
    if a[0] in ("csv", "text"):
        if out.startswith("RUN:") or out.startswith("E"):
            return False
        body = out.split("\\n", 1)
        return len(body) > 1 and re.search(r"[1-9]", body[1]) is not None
    return re.search(r"[1-9]", out) is not None


def extra_evidence(rows):
    axes, metrics, kinds, opts = {}, {}, {}, {"-f": 0, "-leg": 0, "-acc": 0, "-r": 0, "-b": 0, "-q": 0, "-agg": 0}
    inputs = {}
    crashed = sub = 0
    for r in rows:
        if not r["stream"].startswith("out.table"):
            continue
        a = r["op"].split(" ")
        scen = json.loads(a[5])
        args = scen["args"]
        axes[_arg(args, "-x", "default")] = axes.get(_arg(args, "-x", "default"), 0) + 1
        metrics[_arg(args, "-m")] = metrics.get(_arg(args, "-m"), 0) + 1
        kinds[a[0]] = kinds.get(a[0], 0) + 1
        for o in ("-leg", "-acc", "-r", "-b", "-q", "-agg"):
            opts[o] += 1 if o in args else 0
        inputs[scen.get("k", "det")] = inputs.get(scen.get("k", "det"), 0) + 1
        opts["-f"] += 1 if a[1] == "1" else 0
        crashed += 1 if a[2] == "?" else 0
        sub += 1 if scen.get("t") else 0
    return {"table_subdaily": sub, "table_inputs": inputs, "table_axes": axes, "table_metrics": metrics, "table_types": kinds, "table_options": opts,
            "table_runs_without_table": crashed}
