"""C16, the distance diagrams: -m autocorr, -m autocov (verif.output.Auto) and -m fss (verif.output.Fss).

op line:   diagw <name> <opts> <dims> <in0> [<in1> ...]        (diaglib's dataset encoding, head "diagw")
reply:     <axes>:line:<label>:<x>:<y>;...   |  -  |  ERR        (every line the diagram's _plot_core drew, drawing order)
   autocorr / autocov   per input: the cloud  (x = distance of the pair (i, j), y = statistic of the pair; all N*N ordered
                        pairs, i outer, j inner), then - unless -simple - one line per quantile level (x = mean distance of
                        the pairs of a distance bin, y = that quantile of the statistic in the bin) and the zero point
                        (x = 0, y = median of the statistic over the pairs at distance 0)
   fss                  per input one line: x = scales, y = score

What the code was found to do (verif/output.py, Auto._plot_core, Fss._get_x_y; verif/util.py bin; verif/location.py):
 * Auto: axis location (default) -> great-circle distance in km (spherical law of cosines, R = 6371 km, exactly 0 for equal
   lat/lon); lat / lon / elev -> |difference|; leadtime -> |difference| (h); time -> |difference| / 3600 (h); any other
   axis -> error.  error = obs - fcst on the cases valid in every input; pair (i, j): the two error series of slices i and
   j of the axis restricted to the cells where both are finite; fewer than 2 cells -> NaN; corr = np.corrcoef, cov =
   np.cov (divisor n - 1).  Options read: -x, -r (bin edges of the lines; default np.percentile(unique distances, 0:5:100)),
   -q (quantile levels of the lines; default .01 .1 .2 ... .9 .99), -simple (cloud only), -xlim (pairs outside are not
   computed; not exercised here).  Bins (verif.util.bin): [e_i, e_i+1) and the LAST bin [e_n-1, e_n]: every pair with a
   distance in [first edge, last edge] is in exactly one bin (for increasing edges).
 * Fss: needs exactly one -r threshold, -b without "within"; -x leadtime -> temporal, any location-like axis -> spatial,
   other -> error.  Spatial: scales 2, 4, ..., 1024 km; neighbourhood of location l = locations with distance < scale (strict),
   used only if it has MORE than 3 members; per (time, lead time) cell the fraction of events among the valid members, for
   obs and fcst; bs_l = mean squared difference of the fractions; BS = mean of bs_l, o = mean over l of the mean obs
   fraction, score = (o(1-o) - BS) / (o(1-o)) when o(1-o) > 0, else NaN.  Temporal: scales = distinct lead-time
   differences (0: NaN); windows a..b of consecutive lead times with lt_b - lt_a = scale; fractions per (time, window,
   location); same score with BS and o taken over all of them.  bs is held in float32 (relative accuracy 1e-7).
"""
import collections
import math
from fractions import Fraction
import numpy as np
from common import xr, xvec, from_xvec
import diaglib as D

PREFIX = "diagw"
NAMES = ["autocorr", "autocov", "fss"]
GRID = [0.0, 0.5, 1.0, 1.5, 2.0, 3.0]
NAN = float("nan")
JUDGE_EMPTY_NEIGHBOURHOOD = True       # since the repair c94a168 of Fss: the score over the neighbourhoods that have data
STATS = collections.Counter()          # what the oracle actually decided (diagnostics only)
R_EARTH = 6371000.0
SCALES = [2.0, 4.0, 8.0, 16.0, 32.0, 64.0, 128.0, 256.0, 512.0, 1024.0]
DEFAULT_Q = [0.01, 0.1, 0.2, 0.3, 0.4, 0.5, 0.6, 0.7, 0.8, 0.9, 0.99]
AUTO_AXES = ["location", "lat", "lon", "elev", "leadtime", "time"]
SPATIAL = ["location", "lat", "lon", "elev"]
BAD_AXES = ["leadtimeday", "year", "no", "month"]
EDGES = {
    "location": [[0.0, 200.0, 500.0, 1000.0, 3000.0], [0.0, 300.0, 1500.0], [100.0, 400.0, 800.0], [-10.0, 0.0],
                 [0.0, 150.0, 250.0, 350.0, 600.0, 900.0, 2500.0]],
    "lat": [[0.0, 1.5, 3.0, 4.5], [0.0, 3.0, 7.5], [1.5, 4.5], [-1.0, 0.0], [0.0, 1.0, 2.0, 4.0, 8.0]],
    "lon": [[0.0, 2.0, 4.0, 6.0], [0.0, 4.0, 6.0], [2.0, 6.0], [-1.0, 0.0], [0.0, 3.0, 5.0, 11.0]],
    "elev": [[0.0, 100.0, 300.0, 500.0], [0.0, 200.0, 500.0], [100.0, 200.0], [0.0, 50.0, 150.0, 450.0]],
    "leadtime": [[0.0, 6.0, 12.0, 24.0, 48.0], [0.0, 18.0, 36.0], [6.0, 24.0], [0.0, 6.0], [0.0, 5.0, 13.0, 50.0]],
    "time": [[0.0, 24.0, 48.0, 72.0], [0.0, 12.0, 36.0], [24.0, 72.0], [0.0, 30.0, 100.0]],
}
QS = [[0.5], [0.25, 0.5, 0.75], [0.0, 1.0], [0.1, 0.9], [0.5, 0.75, 1.0, 0.0]]


def is_w(op):
    return op.startswith("diagw ")


# ------------------------------------------------------------------ distances (oracle side; haversine form)
def gc_dist(a, b):
    """great-circle distance in metres between (lat, lon) a and b on the sphere of radius 6371 km; exactly 0 for equal
    coordinates"""
    if a[0] == b[0] and a[1] == b[1]:
        return 0.0
    p1, p2 = math.radians(a[0]), math.radians(b[0])
    dl = math.radians(b[1] - a[1])
    h = math.sin((p2 - p1) / 2) ** 2 + math.cos(p1) * math.cos(p2) * math.sin(dl / 2) ** 2
    return 2 * R_EARTH * math.asin(math.sqrt(min(1.0, h)))


def dist_matrix(ds, axis):
    """(N, [[distance]]) of the axis as the class documents it; location: km"""
    if axis == "location":
        P = [(l[1], l[2]) for l in ds.locs]
        return len(P), [[gc_dist(a, b) / 1000.0 for b in P] for a in P]
    if axis in ("lat", "lon", "elev"):
        k = {"lat": 1, "lon": 2, "elev": 3}[axis]
        v = [l[k] for l in ds.locs]
    elif axis == "leadtime":
        v = list(ds.leads)
    elif axis == "time":
        v = [t / 3600.0 for t in ds.times]
        return len(v), [[abs(ds.times[i] - ds.times[j]) / 3600.0 for j in range(len(v))] for i in range(len(v))]
    else:
        raise ValueError(axis)
    return len(v), [[abs(a - b) for b in v] for a in v]


def near_scale_edge(locs):
    """a pair of locations whose distance is within 1e-6 (relative) of a spatial scale of Fss, or closer than 100 m without
    being at the same place (arccos form of the code loses accuracy there)"""
    for i in range(len(locs)):
        for j in range(i):
            d = gc_dist(locs[i][1:3], locs[j][1:3])
            if 0 < d < 100.0:
                return True
            for s in SCALES:
                if abs(d - s * 1000.0) <= 1e-6 * s * 1000.0:
                    return True
    return False


# ------------------------------------------------------------------ datasets
def _knock(rng, a, sh, dims=(1, 2)):
    dims = [d for d in dims if sh[d] > 1]
    if not dims:
        return
    dim = rng.choice(dims)
    idx = [slice(None)] * 3
    idx[dim] = rng.randrange(sh[dim])
    a[tuple(idx)] = np.nan


def _fields(rng, sh, F):
    """observations and forecasts on the half-integer grid; a forecast may be the observation plus a constant (errors
    constant: no correlation), a copy of an earlier input, constant-error in one location / lead time; single cells, a
    whole location / lead time / time missing"""
    T, L, X = sh
    n = T * L * X
    pm = rng.choice([0.0, 0.0, 0.1, 0.2])

    def arr(vals):
        return np.array([rng.choice(vals) for _ in range(n)], float).reshape(sh)
    obs = arr(GRID)
    inputs = []
    for f in range(F):
        fc = arr(GRID)
        u = rng.random()
        if f > 0 and u < 0.15:
            fc = inputs[rng.randrange(f)]["fcst"].copy()
        elif u < 0.25:
            fc = obs + rng.choice([0.5, -0.5, 1.0])                  # constant error everywhere
        if rng.random() < 0.3:
            dim = rng.choice([1, 2])
            idx = [slice(None)] * 3
            idx[dim] = rng.randrange(sh[dim])
            fc[tuple(idx)] = obs[tuple(idx)] + rng.choice([0.0, 0.5])    # constant error in one slice: corr undefined there
        if rng.random() < 0.25 and X > 1:
            i, j = rng.sample(range(X), 2)
            fc[:, :, i] = obs[:, :, i] - (obs[:, :, j] - fc[:, :, j]) * rng.choice([1.0, -1.0, 2.0])   # errors proportional: corr +-1
        if pm:
            fc[np.array([rng.random() < pm for _ in range(n)]).reshape(sh)] = np.nan
        if rng.random() < 0.15:
            _knock(rng, fc, sh, (0, 1, 2))
        inputs.append({"obs": obs.copy(), "fcst": fc})
    if pm and rng.random() < 0.5:
        miss = np.array([rng.random() < pm for _ in range(n)]).reshape(sh)
        for I in inputs:
            I["obs"][miss] = np.nan
    if rng.random() < 0.1:
        _knock(rng, inputs[0]["obs"], sh)
    if rng.random() < 0.08:
        k = rng.randrange(X)
        keep = rng.sample(range(T * L), 1)[0]
        for I in inputs[:1]:
            col = I["fcst"][:, :, k].flatten()
            v = col[keep]
            col[:] = np.nan
            col[keep] = v                                           # a location with a single valid case (fewer than 2 pairs)
            I["fcst"][:, :, k] = col.reshape(T, L)
    return inputs


def _dims(rng, T, L):
    base = 1325376000.0
    times = [base + 86400 * i + rng.choice([0, 43200]) * (i == 1) for i in range(T)]
    leads = sorted(rng.sample([0.0, 6.0, 12.0, 24.0, 30.0, 48.0], L)) if rng.random() < 0.6 else [6.0 * i for i in range(L)]
    return times, leads


def gen_ds_auto(rng):
    """2-4 times x 2-4 lead times x 3-6 locations; lat = 40 + 1.5 k, lon = 10 + 2 k, elev in {0, 100, 200, 500}; a
    location repeats the lat/lon of an earlier one with probability 1/4 (distance exactly 0), pairs of locations placed
    symmetrically around a third (equal distances up to rounding)"""
    F = rng.choice([1, 2, 2, 3])
    T, L, X = rng.randint(2, 4), rng.randint(2, 4), rng.randint(3, 6)
    times, leads = _dims(rng, T, L)
    locs = []
    for i in range(X):
        el = rng.choice([0.0, 100.0, 200.0, 500.0])
        u = rng.random()
        if i > 0 and u < 0.25:
            j = rng.randrange(i)
            locs.append((float(10 * i + 1), locs[j][1], locs[j][2], el))
        elif i > 1 and u < 0.4:
            a, b = locs[0], locs[1]                                   # mirror image of location 1 in location 0
            locs.append((float(10 * i + 1), 2 * a[1] - b[1], 2 * a[2] - b[2], el))
        else:
            locs.append((float(10 * i + 1), 40.0 + 1.5 * rng.randrange(6), 10.0 + 2.0 * rng.randrange(6), el))
    return D.DDS(times, leads, locs, _fields(rng, (T, L, X), F))


def gen_ds_fss(rng, temporal):
    """spatial: 5-8 (rarely 3, 4) locations around (40..60 N, 10 E) at offsets of 0.004 .. 4 degrees (0.3 km .. 500 km) so that the
    neighbourhoods differ between the scales, some at the place of an earlier one (distance 0); drawn again when a pair
    is within 1e-6 of a scale or closer than 100 m.  temporal: 1-3 locations, 2-5 lead times"""
    F = rng.choice([1, 2, 2, 3])
    if temporal:
        T, L, X = rng.randint(2, 4), rng.randint(2, 5), rng.randint(1, 3)
    else:
        T, L, X = rng.randint(2, 3), rng.randint(1, 3), rng.randint(5, 8) if rng.random() < 0.9 else rng.choice([3, 4])
    times, leads = _dims(rng, T, L)
    while True:
        lat0 = 40.0 + 5.0 * rng.randrange(5)
        locs = []
        for i in range(X):
            if i > 0 and rng.random() < 0.2:
                j = rng.randrange(i)
                locs.append((float(10 * i + 1), locs[j][1], locs[j][2], 0.0))
            else:
                m = rng.choice([0.004, 0.004, 0.004, 0.02, 0.02, 0.02, 0.07, 0.07, 0.3, 1.5, 4.0])
                locs.append((float(10 * i + 1), lat0 + m * rng.choice([-2, -1, 0, 1, 2, 3]),
                             10.0 + m * rng.choice([-3, -2, -1, 1, 2]), 0.0))
        if not near_scale_edge(locs):
            break
    inputs = _fields(rng, (T, L, X), F)
    if not temporal and X >= 8 and rng.random() < 0.3:
        for i in range(4, 8):                    # four locations at one place without any forecast: neighbourhoods without a valid case
            locs[i] = (locs[i][0], lat0 + 8.0, 10.0, 0.0)
            inputs[0]["fcst"][:, :, i] = np.nan
    return D.DDS(times, leads, locs, inputs)


def gen_auto_op(rng):
    name = rng.choice(["autocorr", "autocov"])
    ds = gen_ds_auto(rng)
    o = {}
    u = rng.random()
    axis = "location"
    if u < 0.2:
        pass                                     # the default axis
    elif u < 0.94:
        axis = rng.choice(AUTO_AXES + ["lat", "lon", "elev", "leadtime", "time"])
        o["x"] = axis
    else:
        o["x"] = rng.choice(BAD_AXES)            # not one of the documented axes: refused
    if rng.random() < 0.65:
        o["r"] = rng.choice(EDGES[axis])
    if rng.random() < 0.5:
        o["q"] = rng.choice(QS)
    if rng.random() < 0.12:
        o["simple"] = True
    return D.enc_op(name, o, ds, head="diagw")


def gen_fss_op(rng):
    temporal = rng.random() < 0.4
    ds = gen_ds_fss(rng, temporal)
    o = {"r": [rng.choice([0.5, 0.5, 1.0, 1.0, 1.5, 1.5, 2.0, 0.75, 1.25, 0.0, 3.0])]}
    if temporal:
        o["x"] = "leadtime"
    elif rng.random() < 0.4:
        o["x"] = rng.choice(SPATIAL)
    if rng.random() < 0.6:
        o["b"] = rng.choice(["above", "above=", "below", "below="])
    u = rng.random()
    if u < 0.04:
        del o["r"]                               # no threshold
    elif u < 0.08:
        o["r"] = [1.0, 2.0]                      # two thresholds
    elif u < 0.12:
        o["b"] = rng.choice(["within", "=within", "within=", "=within="])
    elif u < 0.16:
        o["x"] = rng.choice(["time", "leadtimeday", "no"])
    return D.enc_op("fss", o, ds, head="diagw")


def gen_ops(tier, rng):
    na, nf = (26, 14) if tier == "quick" else (260, 140)
    for _ in range(na):
        yield "diag.auto", gen_auto_op(rng)
    for _ in range(nf):
        yield "diag.fss", gen_fss_op(rng)


# ------------------------------------------------------------------ implementation side
def _lab(s):
    return ("_" if (not s or s.startswith("_")) else s).replace(" ", "_").replace(":", "").replace(";", "")


def show(recs):
    if not recs:
        return "-"
    return ";".join("%d:%s:%s:%s:%s" % (r["ax"], r["kind"], _lab(r["label"]), xvec(r["x"]), xvec(r["y"])) for r in recs)


def parse(reply):
    """-> [(ax, kind, label, x, y)]"""
    if reply in ("-", ""):
        return []
    out = []
    for p in reply.split(";"):
        a = p.split(":")
        out.append((int(a[0]), a[1], a[2], from_xvec(a[3]), from_xvec(a[4])))
    return out


def impl(op):
    head, name, o, ds = D.dec_op(op)
    try:
        recs, names = D.render(name, dict(o), ds)
    except SystemExit:
        return "ERR"
    # the data of these diagrams: every line drawn by _plot_core itself (the grey zero line of Auto comes from _plot_obs)
    return show([r for r in recs if r["src"] == "_plot_core" and r["kind"] == "line"])


def code_distances(locs):
    """the great-circle distances (metres) of the real code (verif.location.Location.get_distance): an INPUT of the Lean
    model (transcendental functions are not modelled)"""
    import verif.location
    import verif.util
    L = [verif.location.Location(l[0], l[1], l[2], l[3]) for l in locs]
    with np.errstate(all="ignore"):
        return np.array(verif.util.get_distance_matrix(L), float)


def _rows(M):
    return "|".join(xvec([float(v) for v in r]) for r in M) if len(M) else "-"


def lean_op(op):
    """the op line of the Lean model (lean/VerifModel/Driver/DiagramFss.lean): options made explicit, the great-circle
    distances of the real code and (Auto without -r) the default np.percentile edges added as inputs"""
    a = op.split(" ")
    head, name, o, ds = D.dec_op(op)
    T, L, X = ds.shape
    dims = "%d,%d,%d" % (T, L, X)
    ins = [";".join(f for f in s.split(";") if f.split("=")[0] in ("obs", "fcst")) for s in a[4:]]
    if name == "fss":
        axis = o.get("x", "location")
        dist = _rows(code_distances(ds.locs)) if axis != "leadtime" else "-"
        return " ".join(["diagw", "fss", axis, o.get("b", "above"), xvec(o["r"]) if "r" in o else "-", dims,
                         xvec(ds.leads), dist] + ins)
    axis = o.get("x", "location")
    if axis not in AUTO_AXES:
        return " ".join(["diagw", name, axis, "0", "-", "def", dims, "-", "-"] + ins)
    if axis == "location":
        Dm = code_distances(ds.locs) / 1000
        vals, dist = "-", _rows(Dm)
        flat = [float(v) for v in Dm.flatten()]
    else:
        k = {"lat": 1, "lon": 2, "elev": 3}.get(axis)
        v = [l[k] for l in ds.locs] if k else list(ds.leads) if axis == "leadtime" else list(ds.times)
        vals, dist = xvec(v), "-"
        flat = [x for r in dist_matrix(ds, axis)[1] for x in r]
    if "r" in o:
        edges = list(o["r"])
    else:
        x = np.array(flat, float)
        edges = [float(np.percentile(np.unique(np.sort(x)), p)) for p in np.linspace(0, 100, 21)]
    return " ".join(["diagw", name, axis, "1" if o.get("simple") else "0", xvec(edges), xvec(o["q"]) if "q" in o else "def",
                     dims, vals, dist] + ins)


def _num_close(g, w, rtol, atol):
    if _isnan(g) or _isnan(w):
        return _isnan(g) and _isnan(w)
    return abs(g - w) <= atol + rtol * max(abs(g), abs(w))


def cmp(op, impl_out, model_out):
    """figure read-back of the real code against the Lean model's lines.  Auto: distances 1e-12, statistics 1e-9 relative
    (+1e-11); labels of the clouds.  Fss: scales exact, scores within 2e-6 (2 - y)/unc + 1e-9 (the code holds the Brier
    scores / the fractions in float32; unc = o(1-o) is the auxiliary series of the model)"""
    if model_out is None:
        return True
    if impl_out in ("ERR", "-") or model_out in ("ERR", "-") or impl_out.startswith("E") or model_out.startswith("E"):
        return impl_out == model_out
    try:
        got, mod = parse(impl_out), parse(model_out)
    except (ValueError, IndexError):
        return False
    name = op.split(" ")[1]
    if name == "fss":
        unc = [m for m in mod if m[1] == "aux"]
        mod = [m for m in mod if m[1] != "aux"]
        if len(got) != len(mod) or len(unc) != len(mod):
            return False
        for g, m, u in zip(got, mod, unc):
            if g[0] != m[0] or g[1] != m[1] or g[2] != m[2] or len(g[3]) != len(m[3]) or len(g[4]) != len(m[4]):
                return False
            if any(float(a) != float(b) for a, b in zip(g[3], m[3])):
                return False
            for a, b, uu in zip(g[4], m[4], u[4]):
                if _isnan(a) or _isnan(b):
                    if not (_isnan(a) and _isnan(b)):
                        return False
                elif abs(a - b) > 2e-6 * (2 - b) / uu + 1e-9:
                    return False
        return True
    if len(got) != len(mod):
        return False
    for g, m in zip(got, mod):
        if g[0] != m[0] or g[1] != m[1] or len(g[3]) != len(m[3]) or len(g[4]) != len(m[4]):
            return False
        if m[2] != "_" and g[2] != m[2]:
            return False
        if not all(_num_close(a, b, 1e-12, 1e-12) for a, b in zip(g[3], m[3])):
            return False
        if not all(_num_close(a, b, 1e-9, 1e-11) for a, b in zip(g[4], m[4])):
            return False
    return True


# ------------------------------------------------------------------ the oracle
def _isnan(v):
    return isinstance(v, float) and v != v


def _close(g, w, rtol=1e-9, atol=1e-11):
    """drawn float g against expected w (Fraction or float)"""
    if _isnan(w) or _isnan(g):
        return _isnan(w) and _isnan(g)
    w = float(w)
    return abs(g - w) <= atol + rtol * max(abs(g), abs(w))


def _vclose(g, w, rtol=1e-9, atol=1e-11):
    return len(g) == len(w) and all(_close(a, b, rtol, atol) for a, b in zip(g, w))


def valid_mask(ds):
    """a case counts iff observation and forecast are finite in every input"""
    V = np.ones(ds.shape, bool)
    for I in ds.inputs:
        V &= np.isfinite(I["obs"]) & np.isfinite(I["fcst"])
    return V


def errors(ds, f, V):
    """obs - fcst of input f as Fractions (None where the case is not valid)"""
    ob, fc = ds.inputs[f]["obs"], ds.inputs[f]["fcst"]
    T, L, X = ds.shape
    return [[[Fraction(float(ob[t, l, x])) - Fraction(float(fc[t, l, x])) if V[t, l, x] else None for x in range(X)]
             for l in range(L)] for t in range(T)]


def series_of(E, shape, axis, i):
    T, L, X = shape
    if axis == "leadtime":
        return [E[t][i][x] for t in range(T) for x in range(X)]
    if axis == "time":
        return [E[i][l][x] for l in range(L) for x in range(X)]
    return [E[t][l][i] for t in range(T) for l in range(L)]


def pair_stat(kind, a, b):
    """covariance (exact, divisor n - 1) or correlation of two error series over the cells where both exist; NaN with fewer
    than two common cells, correlation NaN when one of them is constant"""
    P = [(x, y) for x, y in zip(a, b) if x is not None and y is not None]
    n = len(P)
    if n < 2:
        return NAN
    mx, my = sum(p[0] for p in P) / n, sum(p[1] for p in P) / n
    sxy = sum((p[0] - mx) * (p[1] - my) for p in P)
    if kind == "cov":
        return sxy / (n - 1)
    sxx, syy = sum((p[0] - mx) ** 2 for p in P), sum((p[1] - my) ** 2 for p in P)
    if sxx == 0 or syy == 0:
        return NAN
    r2 = sxy * sxy / (sxx * syy)                       # exact
    return math.copysign(math.sqrt(float(r2)), float(sxy)) if sxy != 0 else 0.0


def quantile(vals, q):
    """linear interpolation of the order statistics at (n - 1) q"""
    s = sorted(vals)
    n = len(s)
    if n == 0:
        return NAN
    exact = all(isinstance(v, Fraction) for v in s)
    pos = (n - 1) * (Fraction(q) if exact else q)
    lo = int(math.floor(pos))
    hi = min(lo + 1, n - 1)
    return s[lo] + (s[hi] - s[lo]) * (pos - lo)


def median(vals):
    if any(_isnan(v) for v in vals) or not vals:
        return NAN
    s = sorted(vals)
    n = len(s)
    return s[n // 2] if n % 2 else (s[n // 2 - 1] + s[n // 2]) / 2


def default_edges(xs):
    """the 0, 5, ..., 100 % points (linear interpolation) of the DISTINCT distances"""
    s = sorted(set(xs))
    n = len(s)
    out = []
    for k in range(21):
        pos = (n - 1) * (5.0 * k / 100.0)
        lo = min(int(math.floor(pos)), n - 1)
        hi = min(lo + 1, n - 1)
        out.append(s[lo] + (s[hi] - s[lo]) * (pos - lo))
    return out


def bin_of(edges, d, conv="ref"):
    """index of the bin that holds distance d.  "ref": [e_i, e_i+1), the last bin closed at its upper edge - every d in
    [first edge, last edge] has exactly one bin when the edges increase.  "half-open": [e_i, e_i+1) for every bin (the
    last edge belongs to no bin).  "upper": (e_i, e_i+1], the first bin closed below"""
    nb = len(edges) - 1
    hits = []
    for i in range(nb):
        lo, hi = edges[i], edges[i + 1]
        if conv == "upper":
            ok = (lo < d <= hi) or (i == 0 and d == lo)
        else:
            ok = (lo <= d < hi) or (conv == "ref" and i == nb - 1 and lo <= d <= hi)
        if ok:
            hits.append(i)
    return hits


def curves(edges, qs, xs, ys, conv="ref"):
    nb = max(len(edges) - 1, 0)
    members = [[] for _ in range(nb)]
    lost = []
    for k, d in enumerate(xs):
        h = bin_of(edges, d, conv)
        for i in h:
            members[i].append(k)
        if nb and not h and edges[0] <= d <= edges[-1]:
            lost.append(k)
    out = []
    for q in qs:
        xx = [sum(xs[k] for k in m) / len(m) if m else NAN for m in members]
        yy = [quantile([ys[k] for k in m if not _isnan(ys[k])], q) if m else NAN for m in members]
        out.append((xx, yy))
    return out, lost


def _fmt(v):
    return "[" + ",".join("%.8g" % float(x) for x in v[:14]) + ("..." if len(v) > 14 else "") + "]"


def judge_auto(name, o, ds, got, a2):
    sig = {"diagram": name}
    kind = "corr" if name == "autocorr" else "cov"
    axis = o.get("x", "location")
    if axis not in AUTO_AXES:
        return "ERR"
    F = len(ds.inputs)
    simple = bool(o.get("simple"))
    qs = list(o["q"]) if "q" in o else DEFAULT_Q
    per = 1 if simple else 2 + len(qs)
    if got == "ERR":
        return (dict(sig, kind="error"), "-m %s %s ended in an error, -x %s is one of the documented axes" % (name, a2, axis))
    if len(got) != per * F:
        return (dict(sig, kind="series"), "-m %s %s: %d lines drawn, expected %d per input (cloud%s) for %d input(s)" %
                (name, a2, len(got), per, "" if simple else ", %d quantile lines, zero point" % len(qs), F))
    N, Dm = dist_matrix(ds, axis)
    V = valid_mask(ds)
    dist = [Dm[i][j] for i in range(N) for j in range(N)]
    for f in range(F):
        blk = got[per * f: per * (f + 1)]
        E = errors(ds, f, V)
        S = [series_of(E, ds.shape, axis, i) for i in range(N)]
        stat = [pair_stat(kind, S[i], S[j]) for i in range(N) for j in range(N)]
        cloud = blk[0]
        if cloud[2] != "in%d" % f:
            return (dict(sig, kind="series-order"), "-m %s %s: cloud number %d is labelled %s" % (name, a2, f, cloud[2]))
        gx, gy = cloud[3], cloud[4]
        # distances: 1 mm + 1e-9 relative (the code's arccos form against the haversine form); exact axes agree exactly
        if not _vclose(gx, dist, 1e-9, 1e-6 if axis == "location" else 1e-12):
            return (dict(sig, kind="distance"), "-m %s %s input %d: distances of the pairs %s, definition (-x %s) gives %s" %
                    (name, a2, f, _fmt(gx), axis, _fmt(dist)))
        if not _vclose(gy, stat):
            k = [i for i in range(len(stat))if not _close(gy[i], stat[i])][0]
            return (dict(sig, kind="pair-statistic"),
                    "-m %s %s input %d: pair (%d, %d) of -x %s at distance %.8g is drawn at %.10g, the %s of the errors obs - fcst "
                    "over the common valid cases is %s" % (name, a2, f, k // N, k % N, axis, dist[k], gy[k],
                                                             "correlation" if kind == "corr" else "covariance (n-1)", "%.10g" % float(stat[k])))
        STATS["auto.pairs-finite"] += sum(1 for v in stat if not _isnan(v))
        STATS["auto.pairs-nan"] += sum(1 for v in stat if _isnan(v))
        if simple:
            continue
        # the zero point: pairs at distance exactly 0 (same slice, or the same coordinates)
        zero = [stat[k] for k in range(len(dist)) if dist[k] == 0]
        zp = blk[-1]
        if len(zp[3]) != 1 or zp[3][0] != 0 or not _close(zp[4][0], median(zero)):
            return (dict(sig, kind="zero-point"), "-m %s %s input %d: zero point drawn at x=%s y=%s, the median of the %d pairs at "
                    "distance 0 is %s" % (name, a2, f, _fmt(zp[3]), _fmt(zp[4]), len(zero), "%.10g" % float(median(zero))))
        # binned quantile lines: a function of the DRAWN distances (just checked against the definition), so that a
        # distance that differs from an edge by rounding is binned the way the drawn number says
        if "r" in o:
            edges = list(o["r"])
        else:
            edges = default_edges(gx)
        want, lost = curves(edges, qs, gx, stat)
        lines = blk[1:-1]
        bad = [i for i, (g, w) in enumerate(zip(lines, want)) if not (_vclose(g[3], w[0], 1e-9, 1e-9) and _vclose(g[4], w[1]))]
        if lost:        # cannot happen with increasing edges under the reference convention
            return (dict(sig, kind="pair-in-no-bin"), "-m %s %s: pair at distance %.8g has no bin" % (name, a2, gx[lost[0]]))
        if not bad:
            STATS["auto.lines-judged"] += len(lines)
            STATS["auto.line-values-finite"] += sum(1 for w in want for v in w[1] if not _isnan(v))
            continue
        if "r" not in o:
            # default edges are interpolated between the distinct distances: when one of them coincides with a distance up to
            # rounding, the side it falls on is decided by the rounding of the interpolation: not judged
            tie = any(0 < i < 20 and abs(d - e) <= 1e-9 * max(1.0, abs(e)) for i, e in enumerate(edges) for d in set(gx))
            if tie:
                STATS["auto.lines-not-judged(tie at a default edge)"] += 1
                continue
        i = bad[0]
        for conv, knd in (("half-open", "pair-in-no-bin"), ("upper", "bin-edge")):
            alt, alost = curves(edges, qs, gx, stat, conv)
            if all(_vclose(g[3], w[0], 1e-9, 1e-9) and _vclose(g[4], w[1]) for g, w in zip(lines, alt)):
                if conv == "half-open":
                    return (dict(sig, kind=knd), "-m %s %s input %d: the %d pair(s) at distance %.8g = the last bin edge are in no bin "
                            "of the quantile lines (edges %s)" % (name, a2, f, len(alost), gx[alost[0]] if alost else NAN, _fmt(edges)))
                return (dict(sig, kind=knd), "-m %s %s input %d: quantile lines follow bins (e_i, e_i+1], the documented binning "
                        "(verif.util.bin) is [e_i, e_i+1) with the last bin closed; edges %s" % (name, a2, f, _fmt(edges)))
        return (dict(sig, kind="bin-curve"), "-m %s %s input %d: quantile line %d (level %s) drawn x=%s y=%s, the pairs binned by "
                "distance (edges %s) give x=%s y=%s" % (name, a2, f, i, qs[i], _fmt(lines[i][3]), _fmt(lines[i][4]), _fmt(edges),
                                                        _fmt(want[i][0]), _fmt(want[i][1])))
    return None


# ---- fss
def event(b, t, v):
    v = Fraction(float(v))
    t = Fraction(float(t))
    return {"above": v > t, "above=": v >= t, "below": v < t, "below=": v <= t}[b]


class Undefined(Exception):
    pass


def _mean(v):
    return sum(v) / len(v)


def _score(bs, mo):
    unc = mo * (1 - mo)
    if not unc > 0:
        return NAN, None
    return (unc - bs) / unc, 2e-6 * (1 + bs / unc) / unc + 1e-9         # float32 storage of bs in the code


def fss_published(pairs):
    """Roberts & Lean (2008): FSS = 1 - mean((Pf-Po)^2) / (mean(Pf^2) + mean(Po^2)) of the fraction pairs (Po, Pf), exact;
    NaN when there is no pair or the reference is 0 (no event anywhere)"""
    if not pairs:
        return NAN
    ref = sum(pf * pf for po, pf in pairs) + sum(po * po for po, pf in pairs)
    if ref == 0:
        return NAN
    return 1 - sum((pf - po) ** 2 for po, pf in pairs) / ref


def want_fss(ds, o):
    """-> "ERR" | (x, [per input [(value, tolerance) | None (not defined by the documentation)]], [per input [published FSS]])
    The third list: the fractions skill score of Roberts & Lean (2008) of the SAME neighbourhood / window fractions (all
    counting neighbourhoods pooled).
    Fractions skill score as the class states it: per scale, the fraction of observed and of forecast events (threshold -r,
    event type -b) in neighbourhoods of that scale, and from the fractions the Brier skill score against the uncertainty
    of the mean observed fraction."""
    r = o.get("r")
    b = o.get("b", "above")
    axis = o.get("x", "location")
    if r is None or len(r) != 1 or "within" in b or (axis != "leadtime" and axis not in SPATIAL):
        return "ERR"
    T, L, X = ds.shape
    V = valid_mask(ds)
    res = []
    pub = []
    if axis == "leadtime":
        lt = list(ds.leads)
        scales = sorted(set(abs(a - c) for a in lt for c in lt))
    else:
        scales = SCALES
        Dm = [[gc_dist(a[1:3], c[1:3]) for c in ds.locs] for a in ds.locs]
    for f in range(len(ds.inputs)):
        ob = [[[event(b, r[0], ds.inputs[f]["obs"][t, l, x]) if V[t, l, x] else None for x in range(X)] for l in range(L)] for t in range(T)]
        fc = [[[event(b, r[0], ds.inputs[f]["fcst"][t, l, x]) if V[t, l, x] else None for x in range(X)] for l in range(L)] for t in range(T)]
        ys = []
        rl = []
        for s in scales:
            pairs = []
            if axis == "leadtime":
                if s == 0:
                    ys.append((NAN, None))
                    rl.append(None)
                    continue
                e2, fo = [], []
                for a in range(L):
                    for c in range(a + 1, L):
                        if lt[c] - lt[a] != s:
                            continue
                        for t in range(T):
                            for x in range(X):
                                ls = [l for l in range(a, c + 1) if V[t, l, x]]
                                if not ls:
                                    continue
                                po = Fraction(sum(ob[t][l][x] for l in ls), len(ls))
                                pf = Fraction(sum(fc[t][l][x] for l in ls), len(ls))
                                e2.append((po - pf) ** 2)
                                fo.append(po)
                                pairs.append((po, pf))
                ys.append(_score(_mean(e2), _mean(fo)) if e2 else (NAN, None))
                rl.append(fss_published(pairs))
            else:
                bss, mos = [], []
                undefined = False
                for l0 in range(X):
                    for j in range(X):
                        if Dm[l0][j] != 0 and abs(Dm[l0][j] - s * 1000.0) <= 1e-6 * s * 1000.0:
                            raise Undefined()
                    I = [j for j in range(X) if Dm[l0][j] < s * 1000.0]
                    if len(I) <= 3:                  # the class uses a neighbourhood only when it has more than 3 locations
                        continue
                    e2, fo = [], []
                    for t in range(T):
                        for l in range(L):
                            js = [j for j in I if V[t, l, j]]
                            if not js:
                                continue
                            po = Fraction(sum(ob[t][l][j] for j in js), len(js))
                            pf = Fraction(sum(fc[t][l][j] for j in js), len(js))
                            e2.append((po - pf) ** 2)
                            fo.append(po)
                            pairs.append((po, pf))
                    if not e2:
                        undefined = True         # a neighbourhood without any valid case next to others that have some: its share is not documented
                        continue
                    bss.append(_mean(e2))
                    mos.append(_mean(fo))
                if undefined and bss and not JUDGE_EMPTY_NEIGHBOURHOOD:
                    ys.append(None)          # the code draws NaN there (np.nanmean of an all-NaN neighbourhood enters the sum of obs fractions)
                else:
                    ys.append(_score(_mean(bss), _mean(mos)) if bss else (NAN, None))
                rl.append(fss_published(pairs))
        res.append(ys)
        pub.append(rl)
    return list(scales), res, pub


def judge_fss(name, o, ds, got, a2):
    sig = {"diagram": name}
    try:
        want = want_fss(ds, o)
    except Undefined:
        STATS["fss.op-not-judged(distance at a scale)"] += 1
        return None
    if want == "ERR":
        return "ERR"
    if got == "ERR":
        return (dict(sig, kind="error"), "-m fss %s ended in an error, expected a figure" % a2)
    x, res, pub = want
    F = len(ds.inputs)
    if len(got) != F:
        return (dict(sig, kind="series"), "-m fss %s: %d lines drawn, expected one per input (%d)" % (a2, len(got), F))
    for f in range(F):
        g = got[f]
        if g[2] != "in%d" % f:
            return (dict(sig, kind="series-order"), "-m fss %s: line number %d is labelled %s" % (a2, f, g[2]))
        if not _vclose(g[3], x):
            return (dict(sig, kind="scales"), "-m fss %s: scales %s, expected %s" % (a2, _fmt(g[3]), _fmt(x)))
        if len(g[4]) != len(x):
            return (dict(sig, kind="series"), "-m fss %s: %d values for %d scales" % (a2, len(g[4]), len(x)))
        for i, w in enumerate(res[f]):
            if w is None:
                STATS["fss.scale-not-judged"] += 1
                continue
            v, tol = w
            STATS["fss.values-finite" if not _isnan(v) else "fss.values-nan"] += 1
            gv = g[4][i]
            ok = (_isnan(gv) and _isnan(v)) if (_isnan(v) or _isnan(gv)) else abs(gv - float(v)) <= tol
            if not ok:
                return (dict(sig, kind="fss-value"),
                        "-m fss %s input %d: scale %s drawn %.9g, the Brier skill score of the neighbourhood fractions (event %s %s) is %s" %
                        (a2, f, xr(x[i]), gv, o.get("b", "above"), xr(o["r"][0]), "nan" if _isnan(v) else "%.9g = %s" % (float(v), v)))
    # every drawn value is the class-text Brier skill score; is it also the PUBLISHED fractions skill score (Roberts & Lean 2008)
    # that the name, the help text and the axis label announce?  (known finding fss-not-roberts-lean)
    for f in range(F):
        for i, w in enumerate(res[f]):
            p = pub[f][i] if i < len(pub[f]) else None
            if w is None or p is None:
                continue
            gv = got[f][4][i]
            tol = (w[1] or 1e-9) + 1e-6
            same = (_isnan(gv) and _isnan(p)) if (_isnan(gv) or _isnan(p)) else abs(gv - float(p)) <= tol
            if not same:
                STATS["fss.not-roberts-lean"] += 1
                return (dict(sig, kind="not-roberts-lean"),
                        "-m fss %s input %d: scale %s drawn %.9g (the Brier skill score of the fractions against o(1-o)), the fractions "
                        "skill score of Roberts & Lean 2008, 1 - mean((Pf-Po)^2)/(mean(Pf^2)+mean(Po^2)), of the same fractions is %s" %
                        (a2, f, xr(x[i]), gv, "nan" if _isnan(p) else "%.9g = %s" % (float(p), p)))
    return None


_cache = {}


def judge(op, impl_out, spec_out):
    head, name, o, ds = D.dec_op(op)
    sig = {"diagram": name}
    a2 = op.split(" ")[2]
    if impl_out.startswith("EXC:") or impl_out.startswith("EXIT:"):
        return (dict(sig, kind="exception"), "-m %s %s ended in %s" % (name, a2, impl_out))
    try:
        got = "ERR" if impl_out == "ERR" else parse(impl_out)
    except (ValueError, IndexError):
        return (dict(sig, kind="series"), "-m %s %s: unreadable reply %s" % (name, a2, impl_out[:80]))
    with np.errstate(all="ignore"):
        res = (judge_fss if name == "fss" else judge_auto)(name, o, ds, got, a2)
    if res == "ERR":
        if got == "ERR":
            return None
        return (dict(sig, kind="no-error"), "-m %s %s: a figure was drawn, the options are outside what the class accepts "
                "(expected an error message)" % (name, a2))
    return res


def nontrivial(op, out):
    if out.startswith("E") or out == "-":
        return False
    return any(t not in ("nan", "-", "") for p in out.split(";") for t in p.split(":")[4].split(","))


RULE_TEXT = (
    "diag.auto / diag.fss (head diagw): -m autocorr / autocov on 1-3 inputs, 2-4 times x 2-4 lead times x 3-6 locations, values on "
    "the half-integer grid {0,.5,1,1.5,2,3}; lat = 40+1.5k, lon = 10+2k, elev in {0,100,200,500}; a location repeats the lat/lon of an "
    "earlier one (p=1/4: distance exactly 0) or mirrors location 1 in location 0 (two equal distances); forecasts with constant error "
    "(correlation undefined), proportional errors (correlation +-1), copies of another input, single missing cells, a whole missing "
    "time / lead time / location, a location with one valid case; axis: default (20%), location, lat, lon, elev, leadtime, time (6% an "
    "unsupported axis: error expected); 65% explicit -r bin edges from per-axis lists whose interior and LAST edges coincide exactly "
    "with attainable distances (lat/lon/elev/leadtime/time differences; distance 0 as last edge [-10,0]; first edge above 0), 50% -q "
    "from {.5; .25,.5,.75; 0,1; .1,.9; .5,.75,1,0}, 12% -simple.  -m fss: 60% spatial with 5-8 (10%: 3 or 4) locations at offsets of "
    "0.004..4 degrees (0.3..500 km, several at the place of an earlier one), redrawn when a pair lies within 1e-6 of a scale or "
    "closer than 100 m; with 8 locations, p=.3: four of them at one place without any forecast of input 0 (neighbourhoods without "
    "a valid case); 40% temporal (-x leadtime) with 2-5 lead times (irregular or 6-hourly), 1-3 locations; threshold from "
    "{0,.5,.75,1,1.25,1.5,2,3} (on and off the grid), -b above/above=/below/below=; 16% refused option sets (no / two thresholds, a "
    "within type, -x time/leadtimeday/no).  Non-trivial: at least one finite drawn value.")
ASSUMPTIONS_TEXT = (
    "autocorr/autocov/fss: distance between locations = great circle on a sphere of radius 6371 km (verif.location.Location."
    "radius_earth), compared at 1e-9 relative + 1 mm; pairs closer than 100 m (other than at the same place) are not generated.  The "
    "quantile lines and the zero point of Auto are not described in the class text: the oracle takes them as 'quantile (linear "
    "interpolation at (n-1)q) of the defined pair statistics per distance bin, at the mean distance of ALL pairs of the bin' with the "
    "bin convention of verif.util.bin's docstring, default edges = 0,5,..,100 % points of the distinct drawn distances, default "
    "levels .01,.1,...,.9,.99; zero point = median over the pairs at distance 0, undefined when one of them is undefined.  The lines are "
    "checked as a function of the drawn distances (themselves checked against the definition); with default edges an op is not "
    "judged on the lines when a distance coincides with an interpolated interior edge up to rounding.  -xlim is not exercised.  Fss: the "
    "oracle follows the class text (Brier skill score of the neighbourhood fractions against o(1-o)), NOT the Roberts-Lean formula "
    "1 - MSE/(mean O^2 + mean F^2); the scales 2..1024 km, 'distance < scale' and 'more than 3 locations per neighbourhood' are taken "
    "from the class attributes; a scale at which some qualifying neighbourhood has no valid case at all while others have some is not judged (the code draws "
    "NaN there; JUDGE_EMPTY_NEIGHBOURHOOD = True would expect the score of the neighbourhoods that have data); tolerance "
    "2e-6 (1 + BS/unc)/unc because the code stores the Brier scores in float32.")
THEOREMS = {"Proofs.C16Fss": ["VerifModel.C16." + t for t in [
    "C16_fss_skill_eq_bss", "C16_fss_le_one", "C16_fss_perfect", "C16_fss_roberts_lean_bounds", "C16_fss_roberts_lean_partial",
    "C16_fss_roberts_lean_perfect", "C16_auto_bins_partition", "C16_auto_bins_outside", "C16_autocov_symm", "C16_fss_fracs_range", "C16_fss_spatial_eq_bss", "C16_fss_temporal_eq_bss",
    "C16_autocov_eq_spec", "C16_autocov_pair_eq_spec", "C16_autocorr_sq_le", "C16_autocorr_range", "C16_fss_neighbourhood_mem", "C16_fss_neighbourhood_mono", "C16_fss_windows_mem",
    "C16_fss_windows_unique", "C16_auto_lines"]]}
TRUSTED_TEXT = (
    "Model/DiagramFss.lean is hand-written from Fss._get_x_y and Auto._plot_core (commit c94a168) and tied to the code by the "
    "streams diag.fss / diag.auto (every drawn line read back from the figure against the model's lines: Auto distances 1e-12, "
    "statistics 1e-9; Fss scales exact, scores within 2e-6 (2 - y)/unc + 1e-9 because the code keeps the Brier scores / the "
    "fractions in float32).  INPUTS of the model taken from the real code, not modelled: the great-circle distance matrix "
    "(verif.location.Location.get_distance via verif.util.get_distance_matrix, transcendental) and, for Auto without -r, the default "
    "bin edges np.percentile(np.unique(distances), 0:5:100); np.sqrt of np.corrcoef is the driver's Float sqrt.  Spec/DiagramFss.lean: "
    "my reading of Roberts & Lean (2008) eq. 5-7 (FSS), of the class text of verif.output.Fss (Brier skill score of the fractions) and "
    "the sample covariance with divisor n-1")
LEVEL_TEXT_ADD = (
    "autocorr, autocov, fss: Lean model (Model/DiagramFss.lean: Fss spatial and temporal branch incl. the neighbourhoods without "
    "a valid case, the scales, the refused option sets; Auto: pairing of the slices of -x location/lat/lon/elev/leadtime/time, "
    "covariance n-1 / corrcoef over the common valid cases, cloud, binned quantile lines, zero point) compared with every drawn line "
    "on every op; proved (Proofs/C16Fss.lean): the drawn Fss value is the Brier skill score 1 - BS/(o(1-o)) of the class text for every "
    "base rate in [0,1] (C16_fss_skill_eq_bss), is <= 1 (C16_fss_le_one) and = 1 for a perfect forecast (C16_fss_perfect); the "
    "published Roberts-Lean score lies in [0,1] and is 1 for a perfect forecast (C16_fss_roberts_lean_bounds, _perfect); the code's "
    "value is NOT the Roberts-Lean score and can be negative (C16_fss_roberts_lean_partial: kernel-checked witnesses; known finding "
    "fss-not-roberts-lean: the oracle computes the published score of the same fractions in exact rationals and reports every drawn "
    "value that differs from it with signature kind=not-roberts-lean, AFTER the class-text check, whose failures keep kind=fss-value "
    "and stay unlisted); every cloud pair with first edge <= distance "
    "<= last edge is in exactly one bin of the quantile lines, the others in none (C16_auto_bins_partition, _outside); autocov is "
    "symmetric in the pair (C16_autocov_symm) and equals the sample covariance of the definition (computational form, divisor n-1) "
    "of the two error series over their common cases, NaN below two (C16_autocov_eq_spec, _pair_eq_spec); the whole spatial and "
    "temporal score functions equal the Brier skill score of the class text for ALL inputs (C16_fss_spatial_eq_bss, "
    "C16_fss_temporal_eq_bss, using that fractions lie in [0,1]: C16_fss_fracs_range); Cauchy-Schwarz cov^2 <= var var for the "
    "quotient np.corrcoef forms (C16_autocorr_sq_le: with exact roots |r| <= 1 before the clipping) and the drawn autocorr value is "
    "in [-1,1] (C16_autocorr_range, by np.corrcoef's clipping which the model mirrors).  The neighbourhood of a location at a scale is exactly the set of locations with "
    "distance < 1000 scale and grows with the scale (C16_fss_neighbourhood_mem, _mono).  The temporal windows of a scale are exactly the ordered "
    "pairs of lead times with that difference, so a pair belongs to one scale only (C16_fss_windows_mem, _unique).  Auto draws per input the cloud (labelled with the input, x = all N*N distances) alone under "
    "-simple, else cloud + one line per quantile level + zero point (C16_auto_lines).  In addition the implementation-side oracle.  Checked on every op: "
    "the set and order of drawn lines; for Auto every one of the N*N pair points (distance by the definition of the axis; covariance "
    "with divisor n-1 in exact rationals / correlation from the exact r^2, of obs - fcst over the cases valid in every input and "
    "present in both slices; NaN below 2 common cases or for a constant series), the zero point, every quantile line (exact for "
    "autocov) under the convention 'every pair with first edge <= distance <= last edge is in exactly one bin: [e_i, e_i+1), last bin "
    "closed' - a pair left without a bin is reported as kind pair-in-no-bin; for Fss every scale of every input in exact rationals "
    "(spatial and temporal), NaN where no neighbourhood qualifies or the observed fraction is 0 or 1; the refused option sets must "
    "end in an error.")
