"""C06 — categorical scores equal their 2x2 contingency-table definitions."""
import itertools
import math
import random
import numpy as np
import common
from props import mmulti
from common import xr, xvec, from_xr, from_xvec, num_close

ID = "C06"
TARGETS = ["Proofs.C06", "Proofs.GenEq.Cont", "Proofs.GenEq.Abcd", "Proofs.C06FInterval"]
GEN_PREFIXES = ["cont.", "abcd."]
NAMES = ["a", "b", "c", "d", "n", "ets", "fcstrate", "dscore", "threat", "pc", "edi", "sedi", "eds", "seds",
         "biasfreq", "hss", "baserate", "or", "lor", "yulesq", "kss", "hit", "miss", "fa", "far"]
THEOREMS = {
    "Proofs.C06": ["VerifModel.C06." + t for t in [
        "C06_counts", "C06_total_pos", "C06_missing_not_counted", "C06_swap", "C06_complement",
        "C06_formula", "C06_never_inf", "C06_perfect", "C06_declared_perfect"]],
    "Proofs.GenEq.Cont": ["VerifModel.GenEq.Cont.%s_eq" % n for n in NAMES],
    "Proofs.GenEq.Abcd": ["VerifModel.GenEq.Abcd." + t for t in ["sum_zipWith", "abcd_eq", "abcd_default_eq"]],
    "Proofs.C06FInterval": ["VerifModel.C06.C06_forecast_interval", "VerifModel.C06.C06_forecast_interval_score"],
}
TRUSTED_BASE = [
    "Lean 4.33 kernel; axioms propext, Classical.choice, Quot.sound only",
    "Spec/Cont.lean: the textbook definitions of the 25 scores (Wilks; Jolliffe & Stephenson; Ferro & "
    "Stephenson 2011; Stephenson 2008; Hogan 2009; Mason & Weigel 2009), undefined where a denominator is "
    "zero or a logarithm's argument is not positive",
    "harness/translate.py for the 25 compute_from_abcd bodies (validated each run by stream cont.table: the "
    "generated definitions are executed against the real methods on every table up to the bound)",
    "hand-written model of _compute_abcd / compute_from_obs_fcst (counting with masked membership, inf -> NaN) "
    "tied by stream cont.pairs",
    "np.log as the parameter Tr.log (theorems hold for every Tr; perfect-score clauses for every Tr with log 1 = 0)",
    "IEEE rounding of the final division/logarithm (compared with relative tolerance 1e-9)",
]
ASSUMPTIONS = [
    "a table has at least one case (0 < a+b+c+d): proved for every table _compute_abcd returns (C06_total_pos)",
    "obs and fcst have equal length (asserted by the callers)",
]
RULE = ("cont.table: every 2x2 table with total <= bound (quick 9, thorough 14) x 25 metrics, plus random tables "
        "with totals up to 10^6; cont.pairs: vectors of length 0..12 on a half-integer grid with NaNs x 8 bin types "
        "x thresholds below/equal/between/above the data; an op is non-trivial if its reply is a finite number")
EXHAUSTIVE = {"quick": True, "thorough": True}
EXHAUSTIVE_NOTE = "all tables with total <= 9 (quick) / <= 14 (thorough) for all 25 metrics"
BINS = ["below", "below=", "above", "above=", "within", "=within", "within=", "=within="]
LEVEL_TEXT = ("Lean theorems: the four counts are the numbers of valid pairs in each (forecast event, observed event) "
              "cell and sum to the number of valid pairs; swapping obs/fcst swaps b and c, complementing the event "
              "swaps a<->d and b<->c; each of the 25 formulas, machine-translated from /repo on every run, equals the "
              "textbook definition for every table of naturals with >= 1 case and is NaN exactly where the definition "
              "is undefined (never +-inf); a perfect table attains the documented perfect value wherever defined.")
TECHNIQUE = "Lean 4 proof; formulas regenerated from source by a translator and re-proved each run; exhaustive differential correspondence"


# ---- translator extension (harness/translate_more.py gen_abcd): _compute_abcd itself is now regenerated from /repo
TRUSTED_BASE = TRUSTED_BASE + [
    "harness/translate_more.py gen_abcd for Contingency._compute_abcd (masked boolean array expressions read per (obs, "
    "fcst) pair, np.ma.sum as MA.sum of Base/Masked.lean; the `_usingQuantiles` branch is folded away because the class "
    "attribute is False and assigned nowhere else) - validated each run by stream cont.genabcd, which executes "
    "Gen.Abcd.abcd against the real method with equal and with different observation / forecast intervals; "
    "GenEq.Abcd.abcd_eq / abcd_default_eq: generated = the counting model `abcd` the C06 theorems are about"]
RULE += ("; cont.genabcd: the same vectors through the machine-translated _compute_abcd, forecast interval defaulted or "
         "drawn independently of the observation interval (b and c distinguishable)")
LEVEL_TEXT += (" _compute_abcd is machine-translated from /repo on every run as well (Gen/Abcd.lean) and proved equal to the "
               "counting model for all vectors and intervals (abcd_eq, abcd_default_eq).")


# ---- the optional forecast interval of compute_from_obs_fcst in C06's own streams (cont.pairs / cont.abcd)
TRUSTED_BASE = TRUSTED_BASE + [
    "Model/ContingencyF.lean: `if f_interval is None: f_interval = interval` (fcstInterval) for compute_from_obs_fcst, tied "
    "by the cont.pairs / cont.abcd ops that carry a forecast event and, for _compute_abcd itself, by the translation "
    "(C06_forecast_interval: Gen.Abcd.abcd = cells of abcdF)"]
RULE += ("; one cont.pairs / cont.abcd group in six carries a forecast interval of its own (f_interval of "
         "compute_from_obs_fcst / _compute_abcd): the caller's pattern of output.py (Roc, Performance: same bin type, forecast "
         "threshold at a forecast value / the observation threshold / 0) or an unrelated event; the oracle counts with "
         "the two events from the documentation, the score is checked against the textbook formula of that table")
LEVEL_TEXT += (" With a forecast interval the forecasts' event is membership in it and the observations' event is unchanged; "
               "without one both use `interval`; the marginals a+b / a+c count forecast / observed events among the valid "
               "pairs and the four counts sum to the number of valid pairs in either case (C06_forecast_interval).")


def tables(total_max):
    for n in range(0, total_max + 1):
        for a in range(n + 1):
            for b in range(n - a + 1):
                for c in range(n - a - b + 1):
                    yield a, b, c, n - a - b - c


def gen_ops(tier, rng):
    bound = 9 if tier == "quick" else 14
    for (a, b, c, d) in tables(bound):
        for name in NAMES:
            yield "cont.table", "gencont %s %d %d %d %d" % (name, a, b, c, d)
    for _ in range(200 if tier == "quick" else 4000):
        hi = rng.choice([20, 1000, 10 ** 6])
        t = [rng.choice([0, 0, 1, rng.randint(0, hi)]) for _ in range(4)]
        for name in NAMES:
            yield "cont.table.random", "gencont %s %d %d %d %d" % (name, t[0], t[1], t[2], t[3])
    for name in NAMES:
        yield "cont.perfect", "contperfect %s" % name
    n = 150 if tier == "quick" else 3000
    for _ in range(n):
        L = rng.choice([0, 1, 2, 3, 5, 8, 12])
        vals = [0.0, 0.5, 1.0, 1.5, 2.0, 3.0, float("nan")]
        obs = [rng.choice(vals) for _ in range(L)]
        fcst = [rng.choice(vals) for _ in range(L)]
        if rng.random() < 0.15:
            fcst = list(obs)
        b = rng.choice(BINS)
        t = rng.choice([-1.0, 0.0, 0.5, 1.0, 1.25, 2.0, 3.0, 4.0])
        u = t + rng.choice([0.0, 0.5, 1.0, 2.0])
        rng3 = random.Random(rng.random())
        if rng3.random() < 0.3:
            # values a hair off an edge, on either side (273.149 against 273.15): they are not on the edge
            for v in (obs, fcst):
                for k in range(len(v)):
                    if rng3.random() < 0.3:
                        e = rng3.choice([t, u])
                        v[k] = e * (1 + rng3.choice([-1, 1]) * 2.0 ** -20) if e != 0 else rng3.choice([-1, 1]) * 2.0 ** -30
        # about one op in six with a forecast interval of its own (compute_from_obs_fcst(obs, fcst, interval, f_interval)):
        # as verif's callers build it (output.py Roc / Performance: the SAME bin type, forecast thresholds at values of the
        # forecasts, the observation threshold, 0) or any other event
        rngf = random.Random(rng3.random())
        fsuffix = ""
        if rngf.random() < 0.16:
            if rngf.random() < 0.6:
                pool = [v for v in fcst if not math.isnan(v)] + [t, 0.0]
                ft = rngf.choice(pool)
                fb, fu = b, ft + (u - t)
            else:
                fb = rngf.choice(BINS)
                ft = rngf.choice([-1.0, 0.0, 0.5, 1.0, 1.25, 2.0, 3.0])
                fu = ft + rngf.choice([0.0, 0.5, 1.0, 2.0])
            fsuffix = " %s %s %s" % (fb, xr(ft), xr(fu))
        for name in rng.sample(NAMES, 6):
            yield "cont.pairs", "contscore %s %s %s %s %s %s%s" % (name, b, xr(t), xr(u), xvec(obs), xvec(fcst), fsuffix)
        yield "cont.abcd", "abcd %s %s %s %s %s%s" % (b, xr(t), xr(u), xvec(obs), xvec(fcst), fsuffix)
        # the machine translation of _compute_abcd (Gen/Abcd.lean) executed against the real method, with the forecast
        # interval defaulted (-) or different from the observation interval (so that b and c are distinguishable)
        if rng3.random() < 0.4:
            fb, ft, fu = "-", t, u
        else:
            fb = rng3.choice(BINS)
            ft = rng3.choice([t, t, -1.0, 0.0, 0.5, 1.0, 1.25, 2.0, 3.0])
            fu = ft + rng3.choice([0.0, 0.5, 1.0, 2.0])
        yield "cont.genabcd", "genabcd %s %s %s %s %s %s %s %s" % (b, xr(t), xr(u), fb, xr(ft), xr(fu), xvec(obs), xvec(fcst))
    # several scores one after the other on ONE Data object, the events differing in the bin type only (same thresholds,
    # values exactly on them): a table computed for `above` must not be handed out for `above=`
    for _ in range(120 if tier == "quick" else 2500):
        L = rng.choice([2, 3, 5, 8])
        t = rng.choice([0.0, 0.5, 1.0, 2.0])
        u = t + rng.choice([0.5, 1.0])
        pool = [t, u, t, u, t - 0.5, (t + u) / 2, u + 1]
        obs = [rng.choice(pool) for _ in range(L)]
        fcst = [rng.choice(pool) for _ in range(L)]
        items = []
        for _k in range(rng.choice([2, 3, 4])):
            items += [rng.choice(NAMES), rng.choice(BINS), xr(t), xr(u)]
        items += items[:4]
        yield "cont.sequence", "contseq %s %s %s" % (xvec(obs), xvec(fcst), " ".join(items))


def _interval(b, t, u):
    import verif.util
    ts = [t, u] if "within" in b else [t]
    return verif.util.get_intervals(b, np.array(ts))[0]


def _ivs(i):
    return "%s:%s:%d:%d" % (xr(i.lower), xr(i.upper), 1 if i.lower_eq else 0, 1 if i.upper_eq else 0)


def _val(v):
    if np.ma.is_masked(v):
        return "nan"
    return xr(v)


def impl(op):
    import warnings
    import verif.metric
    a = op.split(" ")
    with warnings.catch_warnings():
        warnings.simplefilter("ignore")
        if a[0] == "gencont":
            m = verif.metric.get(a[1])
            t = [np.int64(int(x)) for x in a[2:6]]
            return _val(m.compute_from_abcd(*t))
        if a[0] == "contperfect":
            m = verif.metric.get(a[1])
            return "ERR" if m.perfect_score is None else xr(m.perfect_score)
        if a[0] == "contscore":
            m = verif.metric.get(a[1])
            iv = _interval(a[2], from_xr(a[3]), from_xr(a[4]))
            s = np.zeros(1)
            o_, f_ = np.array(from_xvec(a[5]), float), np.array(from_xvec(a[6]), float)
            guard = common.Unchanged(o_, f_)
            if len(a) > 7:
                s[0] = m.compute_from_obs_fcst(o_, f_, iv, _interval(a[7], from_xr(a[8]), from_xr(a[9])))
            else:
                s[0] = m.compute_from_obs_fcst(o_, f_, iv)
            return guard.tag(xr(s[0]))
        if a[0] == "contseq":
            import verif.axis
            import datagen as dg
            obs, fcst = from_xvec(a[1]), from_xvec(a[2])
            n = len(obs)
            I = {"times": [0.0], "leads": [float(k) for k in range(n)], "locs": [(1.0, 50.0, 10.0, 0.0)],
                 "fields": {"obs": np.array(obs, float).reshape(1, n, 1), "fcst": np.array(fcst, float).reshape(1, n, 1)}}
            data = dg.build_data(dg.DS([I], {}))
            out = []
            for k in range(3, len(a), 4):
                m = verif.metric.get(a[k])
                iv = _interval(a[k + 1], from_xr(a[k + 2]), from_xr(a[k + 3]))
                try:
                    out.append(_val(m.compute_single(data, 0, verif.axis.No(), None, iv)))
                except Exception as e:       # noqa: a crash of one score must not hide the others
                    out.append("EXC:%s" % type(e).__name__)
            return " ".join(out)
        if a[0] in ("abcd", "genabcd"):
            m = verif.metric.get("ets")
            iv = _interval(a[1], from_xr(a[2]), from_xr(a[3]))
            if a[0] == "genabcd":
                fiv = None if a[4] == "-" else _interval(a[4], from_xr(a[5]), from_xr(a[6]))
                o_, f_ = np.array(from_xvec(a[7]), float), np.array(from_xvec(a[8]), float)
                guard = common.Unchanged(o_, f_)
                r = m._compute_abcd(o_, f_, iv, fiv)
            else:
                o_, f_ = np.array(from_xvec(a[4]), float), np.array(from_xvec(a[5]), float)
                guard = common.Unchanged(o_, f_)
                if len(a) > 6:
                    r = m._compute_abcd(o_, f_, iv, _interval(a[6], from_xr(a[7]), from_xr(a[8])))
                else:
                    r = m._compute_abcd(o_, f_, iv)
            if any(np.ma.is_masked(x) or (isinstance(x, float) and math.isnan(x)) for x in r):
                return guard.tag("none")
            return guard.tag(" ".join(str(int(x)) for x in r))
    raise ValueError(op)


def _doc_event(b, t, u, x):
    return {"below": x < t, "below=": x <= t, "above": x > t, "above=": x >= t, "within": t < x < u,
            "=within": t <= x < u, "within=": t < x <= u, "=within=": t <= x <= u}[b]


def _doc_table(b, t, u, obs, fcst, fevent=None):
    """documented counting, written independently of verif (fevent: the forecasts' own event, if it differs)"""
    a = bb = c = d = 0
    fb_, ft_, fu_ = fevent or (b, t, u)
    for o, f in zip(obs, fcst):
        if math.isnan(o) or math.isnan(f):
            continue
        eo, ef = _doc_event(b, t, u, o), _doc_event(fb_, ft_, fu_, f)
        if ef and eo:
            a += 1
        elif ef:
            bb += 1
        elif eo:
            c += 1
        else:
            d += 1
    return a, bb, c, d


def _fev(a, k):
    """the forecasts' own event of a contscore (k=7) / abcd (k=6) op, if the op has one"""
    return (a[k], from_xr(a[k + 1]), from_xr(a[k + 2])) if len(a) > k else None


def spec_op(op):
    a = op.split(" ")
    if a[0] == "gencont":
        if sum(int(x) for x in a[2:6]) == 0:
            return None
        return "speccont %s %s %s %s %s" % tuple(a[1:6])
    if a[0] == "contscore":
        t = _doc_table(a[2], from_xr(a[3]), from_xr(a[4]), from_xvec(a[5]), from_xvec(a[6]), _fev(a, 7))
        if sum(t) == 0:
            return None
        return "speccont %s %d %d %d %d" % ((a[1],) + t)
    if a[0] == "contperfect":
        return None
    return None


def _close(x, y):
    try:
        # absolute 1e-9: (a - a_r) cancels for tables with n ~ 1e6 and tiny off-diagonals (ets of 254228,1,1,0 is -2e-6,
        # right to 6 digits in double precision)
        return num_close(from_xr(x), from_xr(y), 1e-9, 1e-9)
    except ValueError:
        return x == y


def _seq_items(op):
    a = op.split(" ")
    return ["contscore %s %s %s %s %s %s" % (a[k], a[k + 1], a[k + 2], a[k + 3], a[1], a[2]) for k in range(3, len(a), 4)]


def cmp(op, impl_out, model_out):
    if op.startswith("abcd") or op.startswith("contperfect") or op.startswith("genabcd"):
        return impl_out == model_out
    if op.startswith("contseq"):
        items, it, mt = _seq_items(op), impl_out.split(" "), model_out.split(" ")
        return len(items) == len(it) == len(mt) and all(cmp(o, x, y) for o, x, y in zip(items, it, mt))
    return _close(impl_out, model_out)


def judge(op, impl_out, spec_out):
    a = op.split(" ")
    if common.mutated_verdict(op, impl_out):
        return common.mutated_verdict(op, impl_out)
    if a[0] == "contseq":
        items, toks = _seq_items(op), impl_out.split(" ")
        if len(items) != len(toks):
            return ({"kind": "exception", "metric": "contseq"}, "unexpected reply %s" % impl_out[:200])
        for k, (item, tok) in enumerate(zip(items, toks)):
            alone = impl(item)            # the same score from fresh arrays, through compute_from_obs_fcst
            if not (tok == alone or _close(tok, alone)):
                b = item.split(" ")
                return ({"kind": "history-dependence", "metric": b[1]},
                        "%s -b %s computed as score %d of a sequence on one Data object gives %s, computed on its own %s "
                        "(thresholds %s,%s obs=%s fcst=%s; sequence %s)" % (b[1], b[2], k + 1, tok, alone, b[3], b[4], a[1], a[2],
                                                                           " ".join(a[3:])[:200]))
        return None
    if impl_out.startswith("EXC:") or impl_out.startswith("EXIT:"):
        return ({"kind": "exception", "metric": a[1]}, "%s ended in %s" % (op[:200], impl_out))
    if a[0] in ("gencont", "contscore"):
        if spec_out is None:   # no spec reply: either no valid pair, or the driver was not available
            no_pairs = a[0] == "contscore" and sum(_doc_table(a[2], from_xr(a[3]), from_xr(a[4]), from_xvec(a[5]), from_xvec(a[6]), _fev(a, 7))) == 0
            if no_pairs and impl_out != "nan":   # (through the tool's own path): NaN, never a number
                return ({"kind": "empty-table", "metric": a[1]}, "score %s from no valid pair" % impl_out)
            return None
        if spec_out.startswith("ERR"):
            return None        # metric without a textbook definition in the Spec (new metric)
        if not _close(impl_out, spec_out):
            return ({"kind": "formula", "metric": a[1]},
                    "%s: implementation gives %s, textbook definition gives %s" % (a[1], impl_out, spec_out))
    if a[0] == "abcd":
        fev = _fev(a, 6)
        t = _doc_table(a[1], from_xr(a[2]), from_xr(a[3]), from_xvec(a[4]), from_xvec(a[5]), fev)
        want = "none" if sum(t) == 0 else "%d %d %d %d" % t
        if impl_out != want:
            return ({"kind": "counts"}, "table %s, documented counting%s gives %s"
                    % (impl_out, "" if fev is None else " (forecast event %s)" % " ".join(a[6:9]), want))
    if a[0] == "genabcd":
        fev = None if a[4] == "-" else (a[4], from_xr(a[5]), from_xr(a[6]))
        t = _doc_table(a[1], from_xr(a[2]), from_xr(a[3]), from_xvec(a[7]), from_xvec(a[8]), fev)
        want = "none" if sum(t) == 0 else "%d %d %d %d" % t
        if impl_out != want:
            return ({"kind": "counts"}, "table %s, documented counting (forecast event %s) gives %s"
                    % (impl_out, "as for obs" if fev is None else " ".join(a[4:7]), want))
    return None


def nontrivial(op, out):
    return out not in ("nan", "none", "ERR") and not out.startswith("E")


# stream family metric.multi (props/mmulti.py): the contingency scores through the real compute / compute_single on
# datasets with several inputs, for every input index, axis and slice index; ops with the prefix `mm ` are delegated
mmulti.install(globals(), "cont")
