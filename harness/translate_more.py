"""
More generators for harness/translate.py (called from its main()): pieces of the model that used to be
hand-written and tied to /repo by the correspondence streams only.

  gen_abcd      metric.Contingency._compute_abcd                    -> Gen/Abcd.lean       (C06)
  gen_subset    the location-subset predicates of data.Data.__init__ -> Gen/Subset.lean     (C03)
  gen_brier     the bin loops of BsRel / BsRes / BssRel / BssRes     -> Gen/Brier.lean      (C08)
  gen_texthdr   the header classifiers of input.Text                 -> Gen/TextHeader.lean (C09)

(np.corrcoef for Corr / Kge is a primitive added to gen_det in translate.py itself.)

Conventions as in translate.py: a construct outside the translatable fragment raises Untranslatable, the
generator then emits `-- untranslated: <reason>` with a stub and lists the item in report["untranslated"]
under its prefix, which the check counts as a broken obligation.
"""
import ast
import copy
import os

import pyexpr as px
from pyexpr import Untranslatable, Ctx, NUM, BOOL, STR, VEC

INTERVAL, OPTINTERVAL, MBOOL, COUNT, QUAD = "interval", "optinterval", "mbool", "count", "quad"


def _T():
    import translate as T
    return T


def _strip_doc(stmts):
    return [s for s in stmts
            if not (isinstance(s, ast.Expr) and isinstance(s.value, ast.Constant) and isinstance(s.value.value, str))]


class _SplitMultiAssign(ast.NodeTransformer):
    """a = b = c = e   ->   a = e; b = e; c = e   (e is a constant expression here)"""

    def visit_Assign(self, node):
        self.generic_visit(node)
        if len(node.targets) > 1 and all(isinstance(t, ast.Name) for t in node.targets):
            return [ast.Assign(targets=[t], value=copy.deepcopy(node.value)) for t in node.targets]
        return node


class _FoldConstAttr(ast.NodeTransformer):
    """`if self.<attr>:` with a class attribute that is a literal bool and is assigned nowhere else"""

    def __init__(self, consts):
        self.consts = consts

    def visit_If(self, node):
        self.generic_visit(node)
        d = px.dotted(node.test)
        if d is not None and d.startswith("self.") and d[5:] in self.consts:
            return node.body if self.consts[d[5:]] else (node.orelse or [ast.Pass()])
        return node


def _stores_of_attr(attr):
    """number of places in verif/*.py that bind <something>.<attr> or a class attribute <attr>"""
    T = _T()
    n = 0
    d = os.path.join(T.REPO, "verif")
    for f in sorted(os.listdir(d)):
        if not f.endswith(".py"):
            continue
        try:
            tree = T.parse(os.path.join("verif", f))
        except SyntaxError:
            continue
        for node in ast.walk(tree):
            if isinstance(node, ast.Attribute) and node.attr == attr and isinstance(node.ctx, ast.Store):
                n += 1
            elif isinstance(node, ast.ClassDef):
                for s in node.body:
                    if isinstance(s, ast.Assign) and any(isinstance(t, ast.Name) and t.id == attr for t in s.targets):
                        n += 1
            elif isinstance(node, ast.Call) and px.dotted(node.func) == "setattr":
                n += 1 if any(isinstance(a, ast.Constant) and a.value == attr for a in node.args) else 0
    return n


# ----------------------------------------------------------------------------------------
# Contingency._compute_abcd (C06)
#
# A masked boolean ARRAY expression over the two data vectors is translated as a function of one
# (obs element, fcst element) pair into `Option Bool` (none = masked); `np.ma.sum(E)` is
# `MA.sum (List.zipWith E obs fcst)` (obs and fcst have equal length: asserted by the callers).
# A cell of the table is an `Option Nat`: none = NaN (the initial value) or `masked`.
# ----------------------------------------------------------------------------------------
def _abcd_ext(obs_name, fcst_name):
    LAM = "(fun (o_ f_ : XR) => "

    def lam(body):
        return LAM + body + ")"

    def app(e):
        """the element of the array expression e at the current pair (beta-reduced when e is a lambda)"""
        if e.startswith(LAM) and e.endswith(")"):
            return "(" + e[len(LAM):-1] + ")"
        return "(%s o_ f_)" % e

    def as_interval(e, t):
        if t == INTERVAL:
            return e
        if t == OPTINTERVAL:
            return "(Option.getD %s default)" % e
        raise Untranslatable("within() of a %s" % t)

    def mb(node, ctx):
        e, t = px.tr_expr(node, ctx)
        if t != MBOOL:
            raise Untranslatable("masked boolean array expected, got %s" % t)
        return e

    def const_bool(node):
        if isinstance(node, ast.Constant) and isinstance(node.value, (bool, int)) and node.value in (0, 1, True, False):
            return bool(node.value)
        return None

    def ext(node, ctx):
        if isinstance(node, ast.Attribute) and px.dotted(node) in ("np.nan", "numpy.nan"):
            return "(none : Option Nat)", COUNT
        if isinstance(node, ast.Compare) and len(node.ops) == 1:
            op, right = node.ops[0], node.comparators[0]
            if isinstance(op, (ast.Is, ast.IsNot)) and isinstance(right, ast.Constant) and right.value is None \
                    and isinstance(node.left, ast.Name) and ctx.vars.get(node.left.id) == OPTINTERVAL:
                return ("(%s).isNone" if isinstance(op, ast.Is) else "(%s).isSome") % px.lname(node.left.id), BOOL
            if isinstance(op, (ast.Is, ast.IsNot)) and isinstance(right, ast.Constant) and right.value is None \
                    and isinstance(node.left, ast.Name) and ctx.vars.get(node.left.id) == INTERVAL:
                return ("false" if isinstance(op, ast.Is) else "true"), BOOL
            cb = const_bool(right)
            if isinstance(op, (ast.Eq, ast.NotEq)) and cb is not None:
                try:
                    e, t = px.tr_expr(node.left, ctx)
                except Untranslatable:
                    return None
                if t == MBOOL:
                    keep = cb == isinstance(op, ast.Eq)
                    return (e if keep else lam("MA.not %s" % app(e))), MBOOL
            return None
        if isinstance(node, ast.UnaryOp) and isinstance(node.op, ast.Invert):
            return lam("MA.not %s" % app(mb(node.operand, ctx))), MBOOL
        if isinstance(node, ast.BinOp) and isinstance(node.op, (ast.BitAnd, ast.BitOr)):
            a, at = px.tr_expr(node.left, ctx)
            b, bt = px.tr_expr(node.right, ctx)
            if at == MBOOL and bt == MBOOL:
                f = "MA.and" if isinstance(node.op, ast.BitAnd) else "MA.or"
                return lam("%s %s %s" % (f, app(a), app(b))), MBOOL
            if at == MBOOL or bt == MBOOL:
                raise Untranslatable("& / | of a masked array and a %s" % (bt if at == MBOOL else at))
            return None
        if isinstance(node, ast.Call):
            fn = px.dotted(node.func)
            if isinstance(node.func, ast.Attribute) and node.func.attr == "within" and len(node.args) == 1 \
                    and not node.keywords:
                iv = as_interval(*px.tr_expr(node.func.value, ctx))
                arg = node.args[0]
                if isinstance(arg, ast.Name) and arg.id == obs_name and ctx.vars.get(arg.id) == VEC:
                    return lam("Interval.within %s o_" % iv), MBOOL
                if isinstance(arg, ast.Name) and arg.id == fcst_name and ctx.vars.get(arg.id) == VEC:
                    return lam("Interval.within %s f_" % iv), MBOOL
                raise Untranslatable("within() of something other than the obs / fcst argument")
            if fn in ("np.ma.sum", "numpy.ma.sum") and len(node.args) == 1 and not node.keywords:
                return "(MA.sum (List.zipWith %s %s %s))" % (mb(node.args[0], ctx), px.lname(obs_name),
                                                             px.lname(fcst_name)), COUNT
            if fn in ("np.logical_not", "np.invert", "np.ma.logical_not") and len(node.args) == 1:
                return lam("MA.not %s" % app(mb(node.args[0], ctx))), MBOOL
            if fn in ("np.logical_and", "np.logical_or", "np.ma.logical_and", "np.ma.logical_or") and len(node.args) == 2:
                f = "MA.and" if fn.endswith("and") else "MA.or"
                return lam("%s %s %s" % (f, app(mb(node.args[0], ctx)), app(mb(node.args[1], ctx)))), MBOOL
            return None
        if isinstance(node, ast.List) and len(node.elts) == 4:
            parts = [px.tr_expr(e, ctx) for e in node.elts]
            if all(t == COUNT for _, t in parts):
                return "(%s)" % ", ".join(e for e, _ in parts), QUAD
            raise Untranslatable("returned list is not four table cells")
        return None
    return ext


ABCD_HEADER = """-- GENERATED by harness/translate.py from verif/metric.py (Contingency._compute_abcd) — do not edit; regenerated on every check.
import VerifModel.Base.XR
import VerifModel.Base.Vec
import VerifModel.Base.Masked
import VerifModel.Model.Interval
set_option linter.unusedVariables false
open VerifModel
namespace VerifModel.Gen.Abcd

"""


def gen_abcd(report):
    T = _T()
    sig = "(interval : Interval) (f_interval : Option Interval) (obs fcst : Vec) :\n    Option Nat × Option Nat × Option Nat × Option Nat"
    out = ABCD_HEADER
    untranslated = []
    try:
        tree = T.parse("verif/metric.py")
        cls = px.find_class(tree, "Contingency")
        fn = px.find_func(cls.body, "_compute_abcd") if cls is not None else None
        if fn is None:
            raise Untranslatable("Contingency._compute_abcd not found")
        args = [a.arg for a in fn.args.args]
        if len(args) != 5 or args[0] != "self" or fn.args.vararg or fn.args.kwarg or fn.args.kwonlyargs:
            raise Untranslatable("signature %s" % args)
        dflt = fn.args.defaults
        if len(dflt) != 1 or not (isinstance(dflt[0], ast.Constant) and dflt[0].value is None):
            raise Untranslatable("the forecast interval does not default to None")
        obs_name, fcst_name, iv_name, fiv_name = args[1:]
        consts = {}
        attrs = T.class_attr_consts(cls)
        for k, v in attrs.items():
            if isinstance(v, bool) and _stores_of_attr(k) == 1:
                consts[k] = v
        body = _strip_doc(fn.body)
        body = [_SplitMultiAssign().visit(copy.deepcopy(s)) for s in body]
        body = [x for s in body for x in (s if isinstance(s, list) else [s])]
        mod = ast.Module(body=body, type_ignores=[])
        mod = _FoldConstAttr(consts).visit(mod)
        ctx = Ctx(vars={obs_name: VEC, fcst_name: VEC, iv_name: INTERVAL, fiv_name: OPTINTERVAL},
                  ext=_abcd_ext(obs_name, fcst_name))
        text = px.tr_block(mod.body, ctx, None, QUAD, False, 1)
        # the Lean parameters carry the Python parameter names
        psig = "(%s : Interval) (%s : Option Interval) (%s %s : Vec) :\n    Option Nat × Option Nat × Option Nat × Option Nat" \
            % (px.lname(iv_name), px.lname(fiv_name), px.lname(obs_name), px.lname(fcst_name))
        out += "/-- `[a, b, c, d]` of `_compute_abcd(obs, fcst, interval, f_interval)`; a cell is `none` when it is NaN or `masked` -/\n"
        out += "def abcd %s :=\n%s\n\n" % (psig, text)
    except (Untranslatable, AttributeError, IndexError) as e:
        untranslated.append("abcd")
        report["untranslated"].append("abcd.abcd: %s" % e)
        out += "-- untranslated: %s\ndef abcd %s :=\n  (none, none, none, none)\n\n" % (e, sig)
    out += "def untranslated : List String := [%s]\n\nend VerifModel.Gen.Abcd\n" % ", ".join('"%s"' % n for n in untranslated)
    report["abcd"] = {"functions": 1, "untranslated": untranslated}
    return T.write_if_changed(os.path.join(T.GEN, "Abcd.lean"), out)


# ----------------------------------------------------------------------------------------
# Location subsetting in data.Data.__init__ (C03): the range tests of -latrange / -lonrange /
# -elevrange with their default bounds, which id a kept station contributes, the -l selection
# inside the lat/lon block and the -lx exclusion.  Each piece is a function of ONE station
# (`loc : Loc`) or of id lists; the loops `for i in range(len(lat)): if <test>: L.append(<id>)`
# are read as "keep loc iff <test>, contribute <id>".  The glue (which block runs, the error
# exits, verif.util.intersect) stays in Model/Data.lean `useLocations`; Model/SubsetGen.lean
# re-assembles it from the generated pieces and GenEq/Subset.lean proves the two equal.
# ----------------------------------------------------------------------------------------
OPTPAIR, IDS, OPTIDS = "optpair", "ids", "optids"
LOC_ATTRS = ("id", "lat", "lon", "elev")


def _is_locations_expr(node):
    """self._inputs[0].locations"""
    return isinstance(node, ast.Attribute) and node.attr == "locations" \
        and ast.dump(node.value) == ast.dump(ast.parse("self._inputs[0]").body[0].value)


def _is_none_test(test, name, positive):
    """`name is not None` (positive) / `name is None`"""
    return isinstance(test, ast.Compare) and len(test.ops) == 1 and isinstance(test.left, ast.Name) \
        and test.left.id == name and isinstance(test.ops[0], ast.IsNot if positive else ast.Is) \
        and isinstance(test.comparators[0], ast.Constant) and test.comparators[0].value is None


def _is_empty_list(node):
    return (isinstance(node, ast.Call) and px.dotted(node.func) == "list" and not node.args and not node.keywords) \
        or (isinstance(node, ast.List) and not node.elts)


def _subset_ext(elem, listvars, index_name):
    """elem: python list name -> Loc attribute (lat = [loc.lat for loc in …]); listvars: names bound to the list of
    Location objects; index_name: the loop variable"""

    def is_idx(node):
        return isinstance(node, ast.Name) and node.id == index_name

    def ids_of(node, ctx):
        e, t = px.tr_expr(node, ctx)
        if t == IDS:
            return e
        if t == OPTIDS:
            return "(Option.getD %s [])" % e
        raise Untranslatable("list of ids expected, got %s" % t)

    def ext(node, ctx):
        if isinstance(node, ast.Subscript) and isinstance(node.value, ast.Name):
            v = node.value.id
            if v in elem and is_idx(node.slice):
                return "loc.%s" % elem[v], NUM
            if ctx.vars.get(v) == OPTPAIR:
                k = px.const_value(node.slice)
                if k in (0, 1):
                    return "(Option.getD %s (XR.nan, XR.nan)).%d" % (px.lname(v), int(k) + 1), NUM
                raise Untranslatable("range index")
        if isinstance(node, ast.Attribute) and node.attr in LOC_ATTRS and isinstance(node.value, ast.Subscript) \
                and isinstance(node.value.value, ast.Name) and node.value.value.id in listvars and is_idx(node.value.slice):
            return "loc.%s" % node.attr, NUM
        if isinstance(node, ast.Compare):
            if len(node.ops) > 1:       # a <= x <= b
                parts, left = [], node.left
                for op, right in zip(node.ops, node.comparators):
                    e, t = px.tr_expr(ast.Compare(left=left, ops=[op], comparators=[right]), ctx)
                    if t != BOOL:
                        raise Untranslatable("chained comparison")
                    parts.append(e)
                    left = right
                return "(" + " && ".join(parts) + ")", BOOL
            op, right = node.ops[0], node.comparators[0]
            if isinstance(op, (ast.Is, ast.IsNot)) and isinstance(right, ast.Constant) and right.value is None \
                    and isinstance(node.left, ast.Name) and ctx.vars.get(node.left.id) in (OPTPAIR, OPTIDS):
                return ("(%s).isNone" if isinstance(op, ast.Is) else "(%s).isSome") % px.lname(node.left.id), BOOL
            if isinstance(op, (ast.In, ast.NotIn)):
                a, at = px.tr_expr(node.left, ctx)
                if at == NUM:
                    r = "(memX %s %s)" % (a, ids_of(right, ctx))
                    return (r if isinstance(op, ast.In) else "(!%s)" % r), BOOL
            return None
        if _is_empty_list(node):
            return "([] : List XR)", IDS
        if isinstance(node, ast.ListComp):
            if len(node.generators) != 1 or node.generators[0].is_async:
                raise Untranslatable("list comprehension with several generators")
            g = node.generators[0]
            if not (isinstance(g.target, ast.Name) and isinstance(node.elt, ast.Name) and node.elt.id == g.target.id):
                raise Untranslatable("list comprehension that is not a filter")
            src = ids_of(g.iter, ctx)
            c = ctx.child()
            c.vars[g.target.id] = NUM
            conds = []
            for cnd in g.ifs:
                e, t = px.tr_expr(cnd, c)
                if t != BOOL:
                    raise Untranslatable("comprehension condition")
                conds.append(e)
            if not conds:
                return src, IDS
            return "(List.filter (fun %s => %s) %s)" % (px.lname(g.target.id), " && ".join(conds), src), IDS
        return None
    return ext


def _range_loop(stmts):
    """-> (pre, loop, post) around the single `for i in range([0,] len(X)):` of a block"""
    k = [i for i, s in enumerate(stmts) if isinstance(s, ast.For)]
    if len(k) != 1:
        raise Untranslatable("expected exactly one for loop, found %d" % len(k))
    loop = stmts[k[0]]
    it = loop.iter
    ok = isinstance(loop.target, ast.Name) and isinstance(it, ast.Call) and px.dotted(it.func) == "range" \
        and not it.keywords and 1 <= len(it.args) <= 2 and not loop.orelse
    if ok and len(it.args) == 2:
        ok = px.const_value(it.args[0]) == 0
    n = it.args[-1] if ok else None
    ok = ok and isinstance(n, ast.Call) and px.dotted(n.func) == "len" and len(n.args) == 1 and isinstance(n.args[0], ast.Name)
    if not ok:
        raise Untranslatable("loop is not `for i in range(0, len(<list>))`")
    return stmts[:k[0]], loop, stmts[k[0] + 1:], n.args[0].id


def _loop_parts(loop):
    """body of the station loop -> (assignments, test, appended expression, target list)"""
    assigns, tests = [], []
    for s in loop.body:
        if isinstance(s, ast.Assign) and len(s.targets) == 1 and isinstance(s.targets[0], ast.Name):
            if tests:
                raise Untranslatable("assignment after the test in the station loop")
            assigns.append(s)
        elif isinstance(s, ast.If):
            tests.append(s)
        else:
            raise Untranslatable("statement %s in the station loop" % type(s).__name__)
    if len(tests) != 1 or tests[0].orelse or len(tests[0].body) != 1:
        raise Untranslatable("station loop is not `if <test>: <list>.append(<id>)`")
    call = tests[0].body[0]
    ok = isinstance(call, ast.Expr) and isinstance(call.value, ast.Call) and isinstance(call.value.func, ast.Attribute) \
        and call.value.func.attr == "append" and isinstance(call.value.func.value, ast.Name) \
        and len(call.value.args) == 1 and not call.value.keywords
    if not ok:
        raise Untranslatable("station loop does not append to a list")
    return assigns, tests[0].test, call.value.args[0], call.value.func.value.id


def _classify_pre(pre, loop_list):
    """statements before the station loop -> (elem bindings, listvars, the rest = bounds block)"""
    elem, listvars, rest = {}, set(), []
    for s in pre:
        if isinstance(s, ast.Assign) and len(s.targets) == 1 and isinstance(s.targets[0], ast.Name):
            name, v = s.targets[0].id, s.value
            if isinstance(v, ast.ListComp) and len(v.generators) == 1 and not v.generators[0].ifs \
                    and _is_locations_expr(v.generators[0].iter) and isinstance(v.generators[0].target, ast.Name) \
                    and isinstance(v.elt, ast.Attribute) and isinstance(v.elt.value, ast.Name) \
                    and v.elt.value.id == v.generators[0].target.id:
                if v.elt.attr not in LOC_ATTRS:
                    raise Untranslatable("station attribute %s" % v.elt.attr)
                elem[name] = v.elt.attr
                continue
            if _is_locations_expr(v):
                listvars.add(name)
                continue
            if _is_empty_list(v):
                continue                    # the accumulator(s)
        rest.append(s)
    if loop_list not in elem and loop_list not in listvars:
        raise Untranslatable("the station loop does not run over the first input's locations")
    return elem, listvars, rest


SUBSET_HEADER = """-- GENERATED by harness/translate.py from verif/data.py (Data.__init__, location subsetting) — do not edit; regenerated on every check.
import VerifModel.Base.XR
import VerifModel.Model.Data
set_option linter.unusedVariables false
open VerifModel
namespace VerifModel.Gen.Subset

"""


def gen_subset(report):
    T = _T()
    out = SUBSET_HEADER
    untranslated = []
    pieces = [
        ("latlonKeep", "(lat_range lon_range : Option (XR × XR)) (loc : Loc) : Bool", "false",
         "the test of the -latrange / -lonrange loop for one station"),
        ("latlonId", "(lat_range lon_range : Option (XR × XR)) (loc : Loc) : XR", "XR.nan",
         "what a kept station appends to the lat/lon list"),
        ("latlonSelect", "(locations : Option (List XR)) (latlon_locations : List XR) : List XR", "[]",
         "use_locations inside the lat/lon block: -l restricted to the stations in range, or all of those"),
        ("elevKeep", "(elev_range : Option (XR × XR)) (loc : Loc) : Bool", "false",
         "the test of the -elevrange loop for one station"),
        ("elevId", "(elev_range : Option (XR × XR)) (loc : Loc) : XR", "XR.nan",
         "what a kept station appends to the elevation list"),
        ("excludeX", "(use_locations locations_x : List XR) : List XR", "[]", "-lx: the ids that remain"),
    ]
    texts, errors = {}, {}
    try:
        cls = px.find_class(T.parse("verif/data.py"), "Data")
        init = px.find_func(cls.body, "__init__") if cls is not None else None
        if init is None:
            raise Untranslatable("Data.__init__ not found")
        params = [a.arg for a in init.args.args] + [a.arg for a in init.args.kwonlyargs]
        for p in ("lat_range", "lon_range", "elev_range", "locations", "locations_x"):
            if p not in params:
                raise Untranslatable("Data.__init__ has no parameter %s" % p)
        body = _strip_doc(init.body)

        def uses(node, name):
            return any(isinstance(n, ast.Name) and n.id == name for n in ast.walk(node))

        # ---- the lat/lon block
        try:
            blocks = [s for s in body if isinstance(s, ast.If) and uses(s.test, "lat_range") and uses(s.test, "lon_range")]
            if len(blocks) != 1:
                raise Untranslatable("no single `if lat_range … or lon_range …:` block")
            blk = blocks[0]
            t = blk.test
            ok = isinstance(t, ast.BoolOp) and isinstance(t.op, ast.Or) and len(t.values) == 2 and \
                sorted(v.left.id for v in t.values if isinstance(v, ast.Compare) and isinstance(v.left, ast.Name)) \
                == ["lat_range", "lon_range"] and all(_is_none_test(v, v.left.id, True) for v in t.values)
            if not ok:
                raise Untranslatable("lat/lon block is not entered by `lat_range is not None or lon_range is not None`")
            pre, loop, post, loop_list = _range_loop(_strip_doc(blk.body))
            elem, listvars, bounds = _classify_pre(pre, loop_list)
            assigns, test, appended, target = _loop_parts(loop)
            ext = _subset_ext(elem, listvars, loop.target.id)
            ctx = Ctx(vars={"lat_range": OPTPAIR, "lon_range": OPTPAIR}, ext=ext)
            texts["latlonKeep"] = px.tr_block(bounds + assigns + [ast.Return(value=test)], ctx, None, BOOL, False, 1)
            texts["latlonId"] = px.tr_block(bounds + assigns + [ast.Return(value=appended)], ctx, None, NUM, False, 1)
            # ---- after the loop, up to the emptiness check
            sel, use_name = [], None
            for s in post:
                if isinstance(s, ast.If) and any(px.is_error_call(b) for b in s.body):
                    tt = s.test
                    if isinstance(tt, ast.Compare) and isinstance(tt.left, ast.Call) and px.dotted(tt.left.func) == "len" \
                            and isinstance(tt.left.args[0], ast.Name) and isinstance(tt.ops[0], ast.Eq) \
                            and px.const_value(tt.comparators[0]) == 0:
                        use_name = tt.left.args[0].id
                    break
                sel.append(s)
            if use_name is None:
                raise Untranslatable("no `if len(<selection>) == 0: error(…)` after the lat/lon loop")
            ctx2 = Ctx(vars={"locations": OPTIDS, target: IDS}, ext=_subset_ext({}, set(), "_"))
            body2 = px.tr_block(sel + [ast.Return(value=ast.Name(id=use_name, ctx=ast.Load()))], ctx2, None, IDS, False, 1)
            texts["latlonSelect"] = ("  let %s := latlon_locations\n" % px.lname(target)
                                     if target != "latlon_locations" else "") + body2
        except (Untranslatable, AttributeError, IndexError) as e:
            for n in ("latlonKeep", "latlonId", "latlonSelect"):
                if n not in texts:
                    errors[n] = e
        # ---- the elevation block
        try:
            blocks = [s for s in body if isinstance(s, ast.If) and _is_none_test(s.test, "elev_range", True)]
            if len(blocks) != 1:
                raise Untranslatable("no single `if elev_range is not None:` block")
            pre, loop, post, loop_list = _range_loop(_strip_doc(blocks[0].body))
            elem, listvars, bounds = _classify_pre(pre, loop_list)
            assigns, test, appended, target = _loop_parts(loop)
            ctx = Ctx(vars={"elev_range": OPTPAIR}, ext=_subset_ext(elem, listvars, loop.target.id))
            texts["elevKeep"] = px.tr_block(bounds + assigns + [ast.Return(value=test)], ctx, None, BOOL, False, 1)
            texts["elevId"] = px.tr_block(bounds + assigns + [ast.Return(value=appended)], ctx, None, NUM, False, 1)
        except (Untranslatable, AttributeError, IndexError) as e:
            for n in ("elevKeep", "elevId"):
                if n not in texts:
                    errors[n] = e
        # ---- -lx
        try:
            blocks = [s for s in body if isinstance(s, ast.If) and _is_none_test(s.test, "locations_x", True)]
            if len(blocks) != 1 or blocks[0].orelse:
                raise Untranslatable("no single `if locations_x is not None:` block")
            stmts = _strip_doc(blocks[0].body)
            last = stmts[-1]
            if not (isinstance(last, ast.Assign) and isinstance(last.targets[0], ast.Name)):
                raise Untranslatable("-lx block does not end in an assignment of the selection")
            use_name = last.targets[0].id
            ctx3 = Ctx(vars={use_name: IDS, "locations_x": IDS}, ext=_subset_ext({}, set(), "_"))
            body3 = px.tr_block(stmts + [ast.Return(value=ast.Name(id=use_name, ctx=ast.Load()))], ctx3, None, IDS, False, 1)
            texts["excludeX"] = ("  let %s := use_locations\n" % px.lname(use_name) if use_name != "use_locations" else "") + body3
        except (Untranslatable, AttributeError, IndexError) as e:
            errors["excludeX"] = e
    except (Untranslatable, AttributeError, IndexError) as e:
        for n, _, _, _ in pieces:
            errors.setdefault(n, e)
    for name, sig, default, doc in pieces:
        if name in texts:
            out += "/-- %s -/\ndef %s %s :=\n%s\n\n" % (doc, name, sig, texts[name])
        else:
            e = errors.get(name, "not reached")
            untranslated.append(name)
            report["untranslated"].append("subset.%s: %s" % (name, e))
            out += "-- untranslated: %s\ndef %s %s :=\n  %s\n\n" % (e, name, sig, default)
    out += "def untranslated : List String := [%s]\n\nend VerifModel.Gen.Subset\n" % ", ".join('"%s"' % n for n in untranslated)
    report["subset"] = {"functions": len(pieces), "untranslated": untranslated}
    return T.write_if_changed(os.path.join(T.GEN, "Subset.lean"), out)


# ----------------------------------------------------------------------------------------
# The Brier-family bin loops (C08): BsRel / BsRes / BssRel / BssRes . compute_from_obs_fcst
#
#     bs = np.nan * np.zeros(len(fcst), 'float')
#     for i in range(0, len(self._edges) - 1):
#         I = np.where((fcst >= self._edges[i]) & (fcst < self._edges[i + 1]))[0]
#         if len(I) > 0:
#             obs_mean_I = np.mean(obs[I]);  bs[I] = (fcst[I] - obs_mean_I) ** 2
#
# is a FOLD over the bin numbers of a function array -> array: the loop carries one array, the index
# set I is kept as its boolean mask, `x[I]` is MA.take, `x[I] = v` is MA.put (MA.putS for a scalar v).
# `self._edges` is a parameter of the generated function (a list); its construction in __init__
# (np.linspace(0, 1, 11), last edge 1.001) is read as two constants.
# ----------------------------------------------------------------------------------------
BRIER = ["bsrel", "bsres", "bssrel", "bssres"]
MASK, NAT, BVEC = "mask", "nat", px.BVEC


class _PutRewrite(ast.NodeTransformer):
    """X[I] = E  ->  X = __put__(X, I, E)"""

    def visit_Assign(self, node):
        t = node.targets[0]
        if len(node.targets) == 1 and isinstance(t, ast.Subscript) and isinstance(t.value, ast.Name) \
                and isinstance(t.slice, ast.Name):
            return ast.Assign(targets=[ast.Name(id=t.value.id, ctx=ast.Store())],
                              value=ast.Call(func=ast.Name(id="__put__", ctx=ast.Load()),
                                             args=[ast.Name(id=t.value.id, ctx=ast.Load()),
                                                   ast.Name(id=t.slice.id, ctx=ast.Load()), node.value], keywords=[]))
        return node


def _brier_ext(node, ctx):
    if isinstance(node, ast.Subscript):
        if px.dotted(node.value) == "self._edges":
            idx = node.slice
            if isinstance(idx, ast.Name) and ctx.vars.get(idx.id) == NAT:
                return "(edges.getD %s XR.nan)" % px.lname(idx.id), NUM
            if isinstance(idx, ast.BinOp) and isinstance(idx.op, ast.Add) and isinstance(idx.left, ast.Name) \
                    and ctx.vars.get(idx.left.id) == NAT and px.const_value(idx.right) is not None \
                    and px.const_value(idx.right).denominator == 1 and px.const_value(idx.right) >= 0:
                return "(edges.getD (%s + %d) XR.nan)" % (px.lname(idx.left.id), px.const_value(idx.right)), NUM
            raise Untranslatable("index of self._edges")
        if isinstance(node.value, ast.Call) and px.dotted(node.value.func) in ("np.where", "numpy.where"):
            if len(node.value.args) != 1 or node.value.keywords or px.const_value(node.slice) != 0:
                raise Untranslatable("np.where(...) that is not np.where(<mask>)[0]")
            e, t = px.tr_expr(node.value.args[0], ctx)
            if t != BVEC:
                raise Untranslatable("np.where of %s" % t)
            return e, MASK
        if isinstance(node.value, ast.Name) and isinstance(node.slice, ast.Name) \
                and ctx.vars.get(node.value.id) == VEC and ctx.vars.get(node.slice.id) == MASK:
            return "(MA.take %s %s)" % (px.lname(node.slice.id), px.lname(node.value.id)), VEC
        return None
    if isinstance(node, ast.BinOp) and isinstance(node.op, (ast.BitAnd, ast.BitOr)):
        a, at = px.tr_expr(node.left, ctx)
        b, bt = px.tr_expr(node.right, ctx)
        if at == BVEC and bt == BVEC:
            return "(List.zipWith (fun x y => x %s y) %s %s)" % ("&&" if isinstance(node.op, ast.BitAnd) else "||", a, b), BVEC
        return None
    if isinstance(node, ast.Call):
        fn = px.dotted(node.func)
        if fn == "len" and len(node.args) == 1 and isinstance(node.args[0], ast.Name) \
                and ctx.vars.get(node.args[0].id) == MASK:
            return "(Vec.countTrue %s)" % px.lname(node.args[0].id), NUM
        if fn in ("np.zeros", "numpy.zeros") and 1 <= len(node.args) <= 2 and not node.keywords:
            n = node.args[0]
            if len(node.args) == 2 and not (isinstance(node.args[1], ast.Constant) and node.args[1].value == "float") \
                    and px.dotted(node.args[1]) != "float":
                raise Untranslatable("np.zeros dtype")
            if isinstance(n, ast.Call) and px.dotted(n.func) == "len" and len(n.args) == 1:
                e, t = px.tr_expr(n.args[0], ctx)
                if t == VEC:
                    return "(List.replicate (List.length %s) (XR.fin 0))" % e, VEC
            raise Untranslatable("np.zeros of something other than len(<vector>)")
        if fn == "__put__":
            x, xt = px.tr_expr(node.args[0], ctx)
            m, mt = px.tr_expr(node.args[1], ctx)
            v, vt = px.tr_expr(node.args[2], ctx)
            if xt != VEC or mt != MASK:
                raise Untranslatable("indexed assignment to %s[%s]" % (xt, mt))
            if vt == VEC:
                return "(MA.put %s %s %s)" % (x, m, v), VEC
            if vt == NUM:
                return "(MA.putS %s %s %s)" % (x, m, v), VEC
            raise Untranslatable("indexed assignment of %s" % vt)
        return None
    return None


def _assigned_names(stmts):
    out = []
    for s in stmts:
        for n in ast.walk(s):
            if isinstance(n, ast.Assign):
                for t in n.targets:
                    if isinstance(t, ast.Name) and t.id not in out:
                        out.append(t.id)
    return out


def _tr_with_fold(stmts, ctx, indent):
    """statement list with (at most) one `for i in range(0, len(self._edges) - 1):` loop -> Lean term"""
    k = [i for i, s in enumerate(stmts) if isinstance(s, ast.For)]
    if not k:
        return px.tr_block(stmts, ctx, None, NUM, False, indent)
    if len(k) > 1:
        raise Untranslatable("more than one loop")
    pre, loop, post = stmts[:k[0]], stmts[k[0]], stmts[k[0] + 1:]
    it = loop.iter
    want = [ast.dump(ast.parse(t).body[0].value) for t in ("range(0, len(self._edges) - 1)", "range(len(self._edges) - 1)")]
    if ast.dump(it) not in want or not isinstance(loop.target, ast.Name) or loop.orelse:
        raise Untranslatable("loop is not `for i in range(0, len(self._edges) - 1)`")
    if any(isinstance(n, (ast.Return, ast.Break, ast.Continue)) for s in loop.body for n in ast.walk(s)):
        raise Untranslatable("return / break / continue inside the bin loop")

    def cont(c, ind):
        carried = [n for n in _assigned_names(loop.body) if n in c.vars]
        if len(carried) != 1 or c.vars[carried[0]] != VEC:
            raise Untranslatable("the bin loop must update exactly one array (it updates %s)" % (carried,))
        v, i = carried[0], loop.target.id
        ci = c.child()
        ci.vars[i] = NAT
        body = px.tr_block(list(loop.body) + [ast.Return(value=ast.Name(id=v, ctx=ast.Load()))], ci, None, VEC, False, ind + 2)
        pad = "  " * ind
        text = pad + "let %s := List.foldl (fun (%s : Vec) (%s : Nat) =>\n%s\n%s  ) %s (List.range (edges.length - 1))\n" \
            % (px.lname(v), px.lname(v), px.lname(i), body, pad, px.lname(v))
        return text + px.tr_block(post, c.child(), None, NUM, False, ind)

    for s in pre:
        if not isinstance(s, (ast.Assign, ast.Expr)):
            raise Untranslatable("statement %s before the bin loop" % type(s).__name__)
    return px.tr_block(pre, ctx, cont, NUM, False, indent)


BRIER_HEADER = """-- GENERATED by harness/translate.py from verif/metric.py (BsRel / BsRes / BssRel / BssRes: the loops over probability bins) — do not edit; regenerated on every check.
import VerifModel.Base.XR
import VerifModel.Base.Tr
import VerifModel.Base.Vec
import VerifModel.Base.Masked
set_option linter.unusedVariables false
open VerifModel
namespace VerifModel.Gen.Brier

"""


def gen_brier(report):
    T = _T()
    out = BRIER_HEADER
    tree = T.parse("verif/metric.py")
    untranslated, names, init = [], [], {}
    sig = "(T : Tr) (edges : List XR) (obs fcst : Vec) : XR"
    for name in BRIER:
        cls = next((c for c in tree.body if isinstance(c, ast.ClassDef) and c.name.lower() == name), None)
        try:
            if cls is None:
                raise Untranslatable("class not found")
            fn = px.find_func(cls.body, "compute_from_obs_fcst")
            if fn is None or [a.arg for a in fn.args.args] != ["self", "obs", "fcst"]:
                raise Untranslatable("signature of compute_from_obs_fcst")
            cs = px.find_func(cls.body, "compute_single")
            want = ["[obsP, p] = get_p(data, input_index, axis, axis_index, interval)",
                    "return self.compute_from_obs_fcst(obsP, p)"]
            got = _strip_doc(cs.body) if cs is not None else []
            if [ast.dump(s) for s in got] != [ast.dump(ast.parse(w).body[0]) for w in want]:
                raise Untranslatable("compute_single is not get_p followed by compute_from_obs_fcst(obsP, p)")
            # __init__: self._edges = np.linspace(0, 1, num_edges); self._edges[-1] = <last>
            ini = px.find_func(cls.body, "__init__")
            ok = ini is not None and [a.arg for a in ini.args.args] == ["self", "num_edges"] and len(ini.args.defaults) == 1
            ib = _strip_doc(ini.body) if ok else []
            ok = ok and len(ib) == 2 and ast.dump(ib[0]) == ast.dump(ast.parse("self._edges = np.linspace(0, 1, num_edges)").body[0]) \
                and isinstance(ib[1], ast.Assign) and ast.dump(ib[1].targets[0]) == ast.dump(ast.parse("self._edges[-1] = 0").body[0].targets[0]) \
                and px.const_value(ib[1].value) is not None and px.const_value(ini.args.defaults[0]) is not None
            if not ok:
                raise Untranslatable("__init__ is not `self._edges = np.linspace(0, 1, num_edges); self._edges[-1] = <number>`")
            if any(isinstance(n, ast.Attribute) and n.attr == "_edges" and isinstance(n.ctx, ast.Store)
                   for f in cls.body if isinstance(f, ast.FunctionDef) and f.name != "__init__" for n in ast.walk(f)):
                raise Untranslatable("self._edges is assigned outside __init__")
            init[name] = (int(px.const_value(ini.args.defaults[0])), px.lean_num(ib[1].value.value))
            stmts = [_PutRewrite().visit(copy.deepcopy(s)) for s in _strip_doc(fn.body)]
            ctx = Ctx(vars={"obs": VEC, "fcst": VEC}, ext=_brier_ext)
            body = _tr_with_fold(stmts, ctx, 1)
            out += "def m_%s %s :=\n%s\n\n" % (name, sig, body)
        except (Untranslatable, AttributeError, IndexError) as e:
            untranslated.append(name)
            report["untranslated"].append("brier.%s: %s" % (name, e))
            out += "-- untranslated: %s\ndef m_%s %s := XR.nan\n\n" % (e, name, sig)
        names.append(name)
    out += "def names : List String := [%s]\n\n" % ", ".join('"%s"' % n for n in names)
    out += "def untranslated : List String := [%s]\n\n" % ", ".join('"%s"' % n for n in untranslated)
    out += "def eval (T : Tr) (name : String) (edges : List XR) (obs fcst : Vec) : Option XR :=\n  match name with\n"
    for n in names:
        out += '  | "%s" => some (m_%s T edges obs fcst)\n' % (n, n)
    out += "  | _ => none\n\n"
    out += "/-- `num_edges` default of `__init__` (the edges are np.linspace(0, 1, num_edges)) -/\ndef numEdges (name : String) : Option Nat :=\n  match name with\n"
    for n in names:
        if n in init:
            out += '  | "%s" => some %d\n' % (n, init[n][0])
    out += "  | _ => none\n\n/-- the value `__init__` stores in the last edge -/\ndef lastEdge (name : String) : Option XR :=\n  match name with\n"
    for n in names:
        if n in init:
            out += '  | "%s" => some %s\n' % (n, init[n][1])
    out += "  | _ => none\n\nend VerifModel.Gen.Brier\n"
    report["brier"] = {"functions": len(names), "untranslated": untranslated}
    return T.write_if_changed(os.path.join(T.GEN, "Brier.lean"), out)


# ----------------------------------------------------------------------------------------
# Header classification of the text reader (C09): Text._get_quantile_fields / _get_threshold_fields /
# _get_ens_fields / _get_other_fields and Input.get_regular_names.  Each `for att in fields:` loop
# is read for ONE header word (`att : Word` of Model/TextInput.lean: its characters, and the class of
# CPython float(att) / float(att[1:]) supplied by the harness's canonicaliser): does the loop append it?
#     att[0] == "q"                       startsWith 'q' att        (header words are non-empty)
#     att == "pit" / att != "pit"         comparison of the characters
#     verif.util.is_number(att[1:])       att.sfx.isNumber          (is_number itself is checked to be
#                                                                    `try: float(s) … except ValueError`)
#     att in self.get_regular_names()     membership in the list literal that function returns
#     len(att) > 1                        length of the character list
# ----------------------------------------------------------------------------------------
WORD = "word"
TEXTHDR = [("isQ", "_get_quantile_fields"), ("isP", "_get_threshold_fields"), ("isE", "_get_ens_fields"),
           ("isOther", "_get_other_fields")]


def _lean_chars(s):
    if not all(32 <= ord(c) < 127 and c not in '"\\' for c in s):
        raise Untranslatable("string literal %r" % s)
    return '"%s".toList' % s


def _texthdr_ext(att, regular):
    def is_att(n):
        return isinstance(n, ast.Name) and n.id == att

    def names_list(node, ctx):
        """a list of names: `self.get_regular_names()` or a literal list / tuple of strings"""
        if isinstance(node, ast.Call) and px.dotted(node.func) == "self.get_regular_names" and not node.args:
            if regular is None:
                raise Untranslatable("get_regular_names is not a literal list")
            return "regularNames"
        if isinstance(node, (ast.List, ast.Tuple)) and all(isinstance(e, ast.Constant) and isinstance(e.value, str)
                                                          for e in node.elts):
            return "[%s]" % ", ".join(_lean_chars(e.value) for e in node.elts)
        raise Untranslatable("membership in something other than a list of names")

    def ext(node, ctx):
        if isinstance(node, ast.Compare) and len(node.ops) == 1:
            op, left, right = node.ops[0], node.left, node.comparators[0]
            # att[0] == "q"
            if isinstance(op, (ast.Eq, ast.NotEq)) and isinstance(left, ast.Subscript) and is_att(left.value) \
                    and px.const_value(left.slice) == 0 and isinstance(right, ast.Constant) \
                    and isinstance(right.value, str) and len(right.value) == 1:
                c = right.value
                if not (32 < ord(c) < 127) or c in "'\\":
                    raise Untranslatable("character literal %r" % c)
                e = "(startsWith '%s' %s)" % (c, px.lname(att))
                return (e if isinstance(op, ast.Eq) else "(!%s)" % e), BOOL
            # att == "pit"
            if isinstance(op, (ast.Eq, ast.NotEq)) and is_att(left) and isinstance(right, ast.Constant) \
                    and isinstance(right.value, str):
                return "(%s.name %s %s)" % (px.lname(att), "==" if isinstance(op, ast.Eq) else "!=", _lean_chars(right.value)), BOOL
            # att in <names>
            if isinstance(op, (ast.In, ast.NotIn)) and is_att(left):
                e = "(%s.contains %s.name)" % (names_list(right, ctx), px.lname(att))
                return (e if isinstance(op, ast.In) else "(!%s)" % e), BOOL
            # len(att) > 1
            if isinstance(left, ast.Call) and px.dotted(left.func) == "len" and len(left.args) == 1 and is_att(left.args[0]):
                k = px.const_value(right)
                sym = {ast.Gt: ">", ast.GtE: "≥", ast.Lt: "<", ast.LtE: "≤", ast.Eq: "=", ast.NotEq: "≠"}.get(type(op))
                if k is None or k.denominator != 1 or k < 0 or sym is None:
                    raise Untranslatable("comparison of len(%s)" % att)
                return "(decide (%s.name.length %s %d))" % (px.lname(att), sym, int(k)), BOOL
            return None
        if isinstance(node, ast.Call):
            fn = px.dotted(node.func)
            if fn in ("verif.util.is_number", "is_number") and len(node.args) == 1 and not node.keywords:
                a = node.args[0]
                if is_att(a):
                    return "%s.val.isNumber" % px.lname(att), BOOL
                if isinstance(a, ast.Subscript) and is_att(a.value) and isinstance(a.slice, ast.Slice) \
                        and px.const_value(a.slice.lower) == 1 and a.slice.upper is None and a.slice.step is None:
                    return "%s.sfx.isNumber" % px.lname(att), BOOL
                raise Untranslatable("is_number of something other than att / att[1:]")
            if isinstance(node.func, ast.Attribute) and node.func.attr == "startswith" and is_att(node.func.value) \
                    and len(node.args) == 1 and isinstance(node.args[0], ast.Constant) \
                    and isinstance(node.args[0].value, str) and len(node.args[0].value) == 1:
                return "(startsWith '%s' %s)" % (node.args[0].value, px.lname(att)), BOOL
            return None
        if isinstance(node, ast.Constant) and isinstance(node.value, bool):
            return None
        return None
    return ext


class _LoopToBool(ast.NodeTransformer):
    """<acc>.append(att) -> return True;  continue -> return False"""

    def __init__(self, acc, att):
        self.acc, self.att = acc, att

    def visit_Expr(self, node):
        c = node.value
        if isinstance(c, ast.Call) and isinstance(c.func, ast.Attribute) and c.func.attr == "append" \
                and px.dotted(c.func.value) == self.acc and len(c.args) == 1 and isinstance(c.args[0], ast.Name) \
                and c.args[0].id == self.att:
            return ast.Return(value=ast.Constant(value=True))
        return node

    def visit_Continue(self, node):
        return ast.Return(value=ast.Constant(value=False))


def _check_is_number(T):
    fn = px.find_func(T.parse("verif/util.py").body, "is_number")
    ok = fn is not None and len(fn.args.args) == 1
    body = _strip_doc(fn.body) if ok else []
    ok = ok and len(body) == 1 and isinstance(body[0], ast.Try) and len(body[0].handlers) == 1 \
        and px.dotted(body[0].handlers[0].type) == "ValueError" and not body[0].orelse and not body[0].finalbody
    if ok:
        s = fn.args.args[0].arg
        tb = body[0].body
        ok = len(tb) == 2 and ast.dump(tb[0]) == ast.dump(ast.parse("float(%s)" % s).body[0]) \
            and ast.dump(tb[1]) == ast.dump(ast.parse("return True").body[0]) \
            and [ast.dump(x) for x in body[0].handlers[0].body] == [ast.dump(ast.parse("return False").body[0])]
    if not ok:
        raise Untranslatable("verif.util.is_number is not `try: float(s); return True / except ValueError: return False`")


TEXTHDR_HEADER = """-- GENERATED by harness/translate.py from verif/input.py (Text._get_*_fields, Input.get_regular_names) — do not edit; regenerated on every check.
import VerifModel.Model.TextInput
set_option linter.unusedVariables false
open VerifModel VerifModel.TextInput
namespace VerifModel.Gen.TextHeader

"""


def gen_texthdr(report):
    T = _T()
    out = TEXTHDR_HEADER
    untranslated = []
    tree = T.parse("verif/input.py")
    regular, common_error = None, None
    try:
        _check_is_number(T)
    except (Untranslatable, AttributeError, IndexError) as e:
        common_error = Untranslatable(str(e))
    try:
        base = px.find_class(tree, "Input")
        fn = px.find_func(base.body, "get_regular_names")
        body = _strip_doc(fn.body)
        if len(body) != 1 or not isinstance(body[0], ast.Return) or not isinstance(body[0].value, ast.List) \
                or not all(isinstance(e, ast.Constant) and isinstance(e.value, str) for e in body[0].value.elts):
            raise Untranslatable("get_regular_names does not return a literal list of names")
        text = px.find_class(tree, "Text")
        if px.find_func(text.body, "get_regular_names") is not None or "Input" not in T.base_names(text):
            raise Untranslatable("Text does not inherit Input.get_regular_names")
        regular = [e.value for e in body[0].value.elts]
        out += "/-- `Input.get_regular_names` -/\ndef regularNames : List (List Char) :=\n  [%s]\n\n" \
            % ", ".join(_lean_chars(n) for n in regular)
    except (Untranslatable, AttributeError, IndexError) as e:
        untranslated.append("regularNames")
        report["untranslated"].append("texthdr.regularNames: %s" % e)
        out += "-- untranslated: %s\ndef regularNames : List (List Char) := []\n\n" % e
    for lname, pyname in TEXTHDR:
        sig = "(att : Word) : Bool"
        try:
            if common_error is not None:
                raise common_error
            fn = px.find_func(px.find_class(tree, "Text").body, pyname)
            if fn is None:
                raise Untranslatable("Text.%s not found" % pyname)
            args = [a.arg for a in fn.args.args]
            if len(args) != 2 or args[0] != "self":
                raise Untranslatable("signature %s" % args)
            body = _strip_doc(fn.body)
            # acc = list();  for att in fields: …;  return acc
            ok = len(body) == 3 and isinstance(body[0], ast.Assign) and isinstance(body[0].targets[0], ast.Name) \
                and _is_empty_list(body[0].value) and isinstance(body[1], ast.For) and isinstance(body[2], ast.Return) \
                and px.dotted(body[2].value) == body[0].targets[0].id and isinstance(body[1].target, ast.Name) \
                and px.dotted(body[1].iter) == args[1] and not body[1].orelse
            if not ok:
                raise Untranslatable("not of the shape `acc = list(); for att in fields: …; return acc`")
            acc, att = body[0].targets[0].id, body[1].target.id
            stmts = [_LoopToBool(acc, att).visit(copy.deepcopy(s)) for s in body[1].body]
            for s in stmts:
                for n in ast.walk(s):
                    if isinstance(n, ast.Name) and n.id == acc:
                        raise Untranslatable("the accumulator is used other than by append(%s)" % att)
                    if isinstance(n, (ast.Break, ast.For, ast.While)):
                        raise Untranslatable("break / nested loop")
            ctx = Ctx(vars={att: WORD}, ext=_texthdr_ext(att, regular))
            text = px.tr_block(stmts, ctx, lambda c, ind: "  " * ind + "false", BOOL, False, 1)
            out += "/-- is the header word appended by `Text.%s` -/\ndef %s (%s : Word) : Bool :=\n%s\n\n" % (pyname, lname, px.lname(att), text)
        except (Untranslatable, AttributeError, IndexError) as e:
            untranslated.append(lname)
            report["untranslated"].append("texthdr.%s: %s" % (lname, e))
            out += "-- untranslated: %s\ndef %s %s := false\n\n" % (e, lname, sig)
    out += "def untranslated : List String := [%s]\n\nend VerifModel.Gen.TextHeader\n" % ", ".join('"%s"' % n for n in untranslated)
    report["texthdr"] = {"functions": 5, "untranslated": untranslated}
    return T.write_if_changed(os.path.join(T.GEN, "TextHeader.lean"), out)


# ----------------------------------------------------------------------------------------
# verif/aggregator.py (C15): the `__call__` of every aggregator class in its 1-d reading (axis=None), the list of
# class names `get` chooses from, the range test of Quantile.__init__.  Values computed from the array are
# `Option XR` (none = NumPy raises); the NumPy calls are the primitives of Model/AggPrim.lean.
# ----------------------------------------------------------------------------------------
ONUM, MASK = "onum", "mask"
AGG_HEADER = """-- GENERATED by harness/translate.py from verif/aggregator.py (the __call__ of every aggregator class, axis=None; class names; Quantile.__init__) — do not edit; regenerated on every check.
import VerifModel.Model.AggPrim
set_option linter.unusedVariables false
open VerifModel
namespace VerifModel.Gen.Agg

"""
AGG_RED = {"mean": "mean", "median": "median", "min": "min", "max": "max", "amin": "min", "amax": "max", "std": "std T",
           "var": "var", "sum": "sum", "nanmean": "nanmean", "nanmedian": "nanmedian", "nanmin": "nanmin",
           "nanmax": "nanmax", "nanstd": "nanstd T", "nanvar": "nanvar", "nansum": "nansum"}
AGG_LEVEL = {"percentile": "percentile", "quantile": "quantile", "nanpercentile": "nanpercentile"}
AGG_OPS = {ast.Add: "add", ast.Sub: "sub", ast.Mult: "mul", ast.Div: "div"}


class _AggTr(object):
    def __init__(self, T, axis, level_attrs, module_funcs, util_funcs):
        self.T, self.axis, self.level_attrs = T, axis, level_attrs
        self.module_funcs, self.util_funcs = module_funcs, util_funcs

    def with_axis(self, axis):
        return _AggTr(self.T, axis, self.level_attrs, self.module_funcs, self.util_funcs)

    # ---- helpers
    def is_axis(self, node):
        return (isinstance(node, ast.Name) and node.id == self.axis) or (isinstance(node, ast.Constant) and node.value is None)

    def axis_test(self, test):
        """truth value of a test on the axis argument under axis=None, or None"""
        if isinstance(test, ast.UnaryOp) and isinstance(test.op, ast.Not):
            v = self.axis_test(test.operand)
            return None if v is None else not v
        if isinstance(test, ast.Compare) and len(test.ops) == 1 and isinstance(test.left, ast.Name) \
                and test.left.id == self.axis and isinstance(test.comparators[0], ast.Constant) \
                and test.comparators[0].value is None:
            if isinstance(test.ops[0], (ast.Is, ast.Eq)):
                return True
            if isinstance(test.ops[0], (ast.IsNot, ast.NotEq)):
                return False
        return None

    def num(self, node, env):
        """an expression that does not depend on the array: literals and self.<level>"""
        ctx = Ctx(vars={k: NUM for k, (_, t) in env.items() if t == NUM},
                  self_attrs=dict((a, ("level", NUM)) for a in self.level_attrs))
        e, t = px.tr_expr(node, ctx)
        if t != NUM:
            raise Untranslatable("level of type %s" % t)
        return e

    def strip_axis(self, call):
        """positional arguments of a call whose only keyword may be axis=<the axis parameter>"""
        for kw in call.keywords:
            if kw.arg != "axis" or not self.is_axis(kw.value):
                raise Untranslatable("keyword %s in call to %s" % (kw.arg, px.dotted(call.func)))
        args = list(call.args)
        if len(args) >= 2 and isinstance(args[-1], ast.Name) and args[-1].id == self.axis:
            args = args[:-1]
        return args

    def index(self, base, k):
        cv = px.const_value(k)
        if cv is None or cv.denominator != 1:
            raise Untranslatable("index that is not an integer literal")
        return "(AggPrim.idx %s (%d))" % (base, cv.numerator), ONUM

    # ---- expressions
    def expr(self, node, env, depth=0):
        if isinstance(node, ast.Name):
            if node.id in env:
                return env[node.id]
            raise Untranslatable("unknown name %s" % node.id)
        if isinstance(node, ast.Constant) or (isinstance(node, ast.Attribute) and px.dotted(node) and
                                              (px.dotted(node).startswith("self.") or px.dotted(node).startswith("np."))):
            return self.num(node, env), NUM
        if isinstance(node, ast.UnaryOp):
            if isinstance(node.op, ast.Invert):
                e, t = self.expr(node.operand, env, depth)
                if t == MASK:
                    return "(AggPrim.bnot %s)" % e, MASK
                raise Untranslatable("~ on %s" % t)
            if isinstance(node.op, ast.USub):
                if px.const_value(node) is not None:
                    return self.num(node, env), NUM
                e, t = self.expr(node.operand, env, depth)
                if t == ONUM:
                    return "(AggPrim.neg %s)" % e, ONUM
                if t == VEC:
                    return "(Vec.neg %s)" % e, VEC
                if t == NUM:
                    return "(XR.neg %s)" % e, NUM
            raise Untranslatable("unary operator")
        if isinstance(node, ast.BinOp):
            opn = AGG_OPS.get(type(node.op))
            if opn is None:
                raise Untranslatable("operator %s" % type(node.op).__name__)
            a, at = self.expr(node.left, env, depth)
            b, bt = self.expr(node.right, env, depth)
            if at == NUM and bt == NUM:
                return self.num(node, env), NUM
            if at in (ONUM, NUM) and bt in (ONUM, NUM):
                a = a if at == ONUM else "(some %s)" % a
                b = b if bt == ONUM else "(some %s)" % b
                return "(AggPrim.%s %s %s)" % (opn, a, b), ONUM
            if at == VEC and bt == VEC:
                return "(Vec.%s %s %s)" % (opn, a, b), VEC
            if at == VEC and bt == NUM:
                return "(Vec.%sS %s %s)" % (opn, a, b), VEC
            raise Untranslatable("%s on %s, %s" % (opn, at, bt))
        if isinstance(node, ast.Compare) and len(node.ops) == 1 and isinstance(node.ops[0], (ast.Eq, ast.NotEq)):
            a, at = self.expr(node.left, env, depth)
            c = node.comparators[0]
            if at == MASK and isinstance(c, ast.Constant) and c.value in (0, 1, True, False) and not isinstance(c.value, float):
                flip = (not bool(c.value)) != isinstance(node.ops[0], ast.NotEq)
                return ("(AggPrim.bnot %s)" % a if flip else a), MASK
            raise Untranslatable("comparison on %s" % at)
        if isinstance(node, ast.Subscript):
            b, bt = self.expr(node.value, env, depth)
            if bt != VEC:
                raise Untranslatable("subscript of %s" % bt)
            return self.index(b, node.slice)
        if isinstance(node, ast.Call):
            return self.call(node, env, depth)
        raise Untranslatable(type(node).__name__)

    def call(self, node, env, depth):
        if isinstance(node.func, ast.Attribute) and node.func.attr in ("flatten", "ravel", "copy") \
                and not node.args and not node.keywords and px.dotted(node.func.value) not in ("np", "numpy"):
            b, bt = self.expr(node.func.value, env, depth)
            if bt == VEC:
                return b, VEC
            raise Untranslatable(".%s() of %s" % (node.func.attr, bt))
        fn = px.dotted(node.func)
        if fn is None:
            raise Untranslatable("call")
        args = self.strip_axis(node)
        short = fn.replace("numpy.", "np.")
        if short.startswith("np."):
            f = short[3:]
            vals = [self.expr(a, env, depth) for a in args[:1]]
            if not vals:
                raise Untranslatable("call %s without arguments" % fn)
            a, at = vals[0]
            if f in AGG_RED and len(args) == 1 and at == VEC:
                return "(AggPrim.%s %s)" % (AGG_RED[f], a), ONUM
            if f in ("sum", "count_nonzero") and len(args) == 1 and at == MASK:
                return "(AggPrim.count %s)" % a, ONUM
            if f == "isnan" and len(args) == 1 and at == VEC:
                return "(AggPrim.isnan %s)" % a, MASK
            if f == "logical_not" and len(args) == 1 and at == MASK:
                return "(AggPrim.bnot %s)" % a, MASK
            if f in ("abs", "absolute", "fabs") and len(args) == 1:
                if at == VEC:
                    return "(Vec.abs %s)" % a, VEC
                if at == ONUM:
                    return "(AggPrim.abs %s)" % a, ONUM
            if f == "sort" and len(args) == 1 and at == VEC:
                return "(Vec.sort %s)" % a, VEC
            if f in AGG_LEVEL and len(args) == 2 and at == VEC:
                return "(AggPrim.%s %s %s)" % (AGG_LEVEL[f], a, self.num(args[1], env)), ONUM
            if f == "take" and len(args) == 2 and at == VEC:
                return self.index(a, args[1])
            raise Untranslatable("call %s on %s" % (fn, at))
        if fn == "abs" and len(args) == 1:
            a, at = self.expr(args[0], env, depth)
            if at == VEC:
                return "(Vec.abs %s)" % a, VEC
            if at == ONUM:
                return "(AggPrim.abs %s)" % a, ONUM
        helper = None
        if fn in self.module_funcs:
            helper = self.module_funcs[fn]
        elif fn.startswith("verif.util.") or fn.startswith("util."):
            helper = self.util_funcs.get(fn.split(".")[-1])
        if helper is not None:
            if depth > 3:
                raise Untranslatable("helper nesting too deep at %s" % fn)
            params = [p.arg for p in helper.args.args]
            haxis = None
            if helper.args.defaults and len(helper.args.defaults) == 1 and isinstance(helper.args.defaults[0], ast.Constant) \
                    and helper.args.defaults[0].value is None:
                haxis, params = params[-1], params[:-1]
            elif helper.args.defaults:
                raise Untranslatable("helper %s: defaults" % fn)
            if len(params) != len(args) or helper.args.vararg or helper.args.kwarg:
                raise Untranslatable("helper %s: argument list" % fn)
            vals = [self.expr(a, env, depth) for a in args]
            inner = dict(zip(params, [(px.lname(p), t) for p, (_, t) in zip(params, vals)]))
            body = self.with_axis(haxis).block(_strip_doc(helper.body), inner, depth + 1, 2)
            lets = "".join("let %s := %s; " % (px.lname(p), e) for p, (e, _) in zip(params, vals))
            return "(%s(\n%s))" % (lets, body), ONUM
        raise Untranslatable("call %s" % fn)

    # ---- statements
    def block(self, stmts, env, depth=0, indent=1):
        pad = "  " * indent
        if not stmts:
            raise Untranslatable("control reaches end of function")
        s, tail = stmts[0], stmts[1:]
        if isinstance(s, ast.Pass):
            return self.block(tail, env, depth, indent)
        if isinstance(s, ast.Return) and s.value is not None:
            e, t = self.expr(s.value, env, depth)
            if t == NUM:
                e, t = "(some %s)" % e, ONUM
            if t != ONUM:
                raise Untranslatable("returns %s" % t)
            return pad + e
        if isinstance(s, ast.Assign) and len(s.targets) == 1 and isinstance(s.targets[0], ast.Name):
            name = s.targets[0].id
            if name == self.axis:
                raise Untranslatable("assignment to the axis argument")
            e, t = self.expr(s.value, env, depth)
            env2 = dict(env)
            env2[name] = (px.lname(name), t)
            return pad + "let %s := %s\n" % (px.lname(name), e) + self.block(tail, env2, depth, indent)
        if isinstance(s, ast.If):
            v = self.axis_test(s.test)
            if v is None:
                raise Untranslatable("condition that is not a test of the axis argument")
            return self.block((s.body if v else s.orelse) + tail, env, depth, indent)
        raise Untranslatable("statement %s" % type(s).__name__)


def _alpha_dump(fn_node, keep):
    """ast.dump of a function body with its local names renamed in order of appearance"""
    node = copy.deepcopy(fn_node)
    names = {}
    for a in node.args.args:
        names.setdefault(a.arg, "v%d" % len(names))
        a.arg = names[a.arg]
    for n in ast.walk(node):
        if isinstance(n, ast.Name) and n.id not in keep:
            names.setdefault(n.id, "v%d" % len(names))
            n.id = names[n.id]
    return ast.dump(ast.Module(body=_strip_doc(node.body), type_ignores=[]))


AGG_NAME_TEMPLATE = "def name(cls):\n    return cls.__name__.lower()\n"
AGG_GETALL_TEMPLATE = ("def get_all():\n    temp = inspect.getmembers(sys.modules[__name__], inspect.isclass)\n"
                       "    return [i[1] for i in temp if i[0] != \"Aggregator\"]\n")


def _same_as(fn_node, template, keep):
    t = ast.parse(template).body[0]
    return fn_node is not None and _alpha_dump(fn_node, keep) == _alpha_dump(t, keep)


def gen_agg(report):
    T = _T()
    out = AGG_HEADER
    untranslated = []
    sig = "(T : Tr) (level : XR) (array : Vec) : Option XR"
    classes = []

    def fail(item, e, stub):
        untranslated.append(item)
        report["untranslated"].append("agg.%s: %s" % (item, e))
        return "-- untranslated: %s\n%s\n\n" % (e, stub)

    try:
        tree = T.parse("verif/aggregator.py")
        util_tree = T.parse("verif/util.py")
        module_funcs = dict((n.name, n) for n in tree.body if isinstance(n, ast.FunctionDef))
        util_funcs = dict((n.name, n) for n in util_tree.body if isinstance(n, ast.FunctionDef))
        by_name = dict((n.name, n) for n in tree.body if isinstance(n, ast.ClassDef))
        classes = [n for n in tree.body if isinstance(n, ast.ClassDef) and n.name != "Aggregator"]
    except (SyntaxError, IOError, OSError) as e:
        out += fail("module", e, "")
        tree = None

    def resolve(cls, meth):
        """the method as the class or its bases within the module define it"""
        seen = 0
        while cls is not None and seen < 6:
            f = px.find_func(cls.body, meth)
            if f is not None:
                return f
            b = cls.bases[0] if len(cls.bases) == 1 and isinstance(cls.bases[0], ast.Name) else None
            cls = by_name.get(b.id) if b is not None else None
            seen += 1
        return None

    rows = []
    for cls in classes:
        lower = cls.name.lower()
        stub = "def c_%s %s :=\n  none" % (lower, sig)
        nargs = 0
        try:
            init = resolve(cls, "__init__")
            level_attrs = []
            if init is not None:
                params = [a.arg for a in init.args.args][1:]
                nargs = len(params) - len(init.args.defaults)
                for s in ast.walk(init):
                    if isinstance(s, ast.Assign) and len(s.targets) == 1 and px.dotted(s.targets[0]) \
                            and px.dotted(s.targets[0]).startswith("self."):
                        if isinstance(s.value, ast.Name) and s.value.id in params and len(params) == 1:
                            level_attrs.append(px.dotted(s.targets[0])[5:])
                        else:
                            raise Untranslatable("__init__ stores something that is not its one parameter")
            fn = resolve(cls, "__call__")
            if fn is None:
                raise Untranslatable("no __call__")
            args = [a.arg for a in fn.args.args]
            if len(args) != 3 or args[0] != "self" or fn.args.vararg or fn.args.kwarg or len(fn.args.defaults) != 1 \
                    or not (isinstance(fn.args.defaults[0], ast.Constant) and fn.args.defaults[0].value is None):
                raise Untranslatable("signature %s" % args)
            tr = _AggTr(T, args[2], level_attrs, module_funcs, util_funcs)
            text = tr.block(_strip_doc(fn.body), {args[1]: ("array", VEC)})
            out += "/-- `%s.__call__(array)` (axis=None) -/\ndef c_%s %s :=\n%s\n\n" % (cls.name, lower, sig, text)
            # the range test of __init__ (the statements `if <test>: verif.util.error(...)`)
            if level_attrs and init is not None:
                tests = [s for s in init.body if isinstance(s, ast.If)]
                if len(tests) != 1 or tests[0].orelse or len(tests[0].body) != 1 or not px.is_error_call(tests[0].body[0]):
                    raise Untranslatable("__init__ of %s is not one `if <test>: error`" % cls.name)
                ctx = Ctx(vars={}, self_attrs=dict((a, ("level", NUM)) for a in level_attrs))
                ctx.vars.update(dict((p, NUM) for p in params))
                e, t = px.tr_expr(tests[0].test, ctx)
                if t != BOOL:
                    raise Untranslatable("__init__ test of type %s" % t)
                out += "/-- `%s.__init__(%s)`: the test in front of `verif.util.error` -/\ndef initRejects_%s (level : XR) : Bool :=\n  let %s := level\n  %s\n\n" % (
                    cls.name, params[0], lower, px.lname(params[0]), e)
        except (Untranslatable, AttributeError, IndexError) as e:
            out += fail(lower, e, stub)
        rows.append((lower, nargs))

    # --- the class list `get` walks through: every class of the module but `Aggregator`, by `cls.__name__.lower()`
    try:
        if tree is not None:
            base = by_name.get("Aggregator")
            if not _same_as(px.find_func(base.body, "name") if base else None, AGG_NAME_TEMPLATE, {"cls"}) \
                    or any(px.find_func(c.body, "name") is not None for c in classes):
                raise Untranslatable("Aggregator.name is not cls.__name__.lower() for every class")
            if not _same_as(module_funcs.get("get_all"), AGG_GETALL_TEMPLATE, {"inspect", "sys", "__name__"}):
                raise Untranslatable("get_all is not `every class of the module but Aggregator`")
        out += "/-- `name()` of every class `get_all()` returns, with the number of constructor arguments without default -/\n"
        out += "def classNames : List (String × Nat) :=\n  [%s]\n\n" % ", ".join('("%s", %d)' % r for r in rows)
    except (Untranslatable, AttributeError) as e:
        out += fail("classNames", e, "def classNames : List (String × Nat) :=\n  []")

    out += "/-- the call of the class with this `name()` on a 1-d array; `none` = no such class -/\n"
    out += "def callByName (T : Tr) (name : String) (level : XR) (array : Vec) : Option (Option XR) :=\n"
    for lower, _ in rows:
        out += "  if name == \"%s\" then some (c_%s T level array) else\n" % (lower, lower)
    out += "  none\n\n"
    out += "def untranslated : List String := [%s]\n\nend VerifModel.Gen.Agg\n" % ", ".join('"%s"' % n for n in untranslated)
    report["agg"] = {"functions": len(rows) + 1, "untranslated": untranslated}
    return T.write_if_changed(os.path.join(T.GEN, "Agg.lean"), out)


# ----------------------------------------------------------------------------------------
# The -d / -tod time filter of data.Data.__init__ (C03, AUDIT4 row C03)
#
# `self.times = np.array([t for t in self.times if <expr(t)> in <list>])` in the `if dates is not None:` and
# `if tods is not None:` blocks.  <expr> is translated operator by operator into the primitives of
# lean/VerifModel/Model/DatePrim.lean (Python float `//`, `%`, `*`, `/` by an integer literal, `int()` = truncation
# toward zero); membership in a list of numbers is `memX` (IEEE equality), as everywhere in the model.
# ----------------------------------------------------------------------------------------
DATEFILTER_HEADER = """-- GENERATED by harness/translate.py from verif/data.py (Data.__init__, the -d / -tod filter) — do not edit; regenerated on every check.
import VerifModel.Base.XR
import VerifModel.Model.DatePrim
set_option linter.unusedVariables false
open VerifModel
namespace VerifModel.Gen.DateFilter

"""


def _datefilter_expr(node, var):
    ops = {ast.FloorDiv: "floordiv", ast.Mod: "pymod", ast.Mult: "mul", ast.Div: "div"}
    if isinstance(node, ast.Name) and node.id == var:
        return "t"
    if isinstance(node, ast.BinOp) and type(node.op) in ops:
        c = node.right.value if isinstance(node.right, ast.Constant) else None
        if not isinstance(c, int) or isinstance(c, bool) or c <= 0:
            raise Untranslatable("right operand of %s is not a positive integer literal" % type(node.op).__name__)
        return "(DatePrim.%s %s %d)" % (ops[type(node.op)], _datefilter_expr(node.left, var), c)
    if isinstance(node, ast.Call) and px.dotted(node.func) == "int" and len(node.args) == 1 and not node.keywords:
        return "(DatePrim.trunc %s)" % _datefilter_expr(node.args[0], var)
    raise Untranslatable("time expression %s" % ast.dump(node)[:80])


def _datefilter_block(body, param):
    """the translated key expression of the filter in `if <param> is not None:`"""
    blocks = [s for s in body if isinstance(s, ast.If) and _is_none_test(s.test, param, True)]
    if len(blocks) != 1 or blocks[0].orelse:
        raise Untranslatable("no single `if %s is not None:` block" % param)
    stmts = _strip_doc(blocks[0].body)
    listname = param
    for s in stmts[:-1]:
        # dates_times = [verif.util.date_to_unixtime(t) for t in dates]: the list the model receives already converted
        v = s.value if isinstance(s, ast.Assign) and len(s.targets) == 1 and isinstance(s.targets[0], ast.Name) else None
        ok = isinstance(v, ast.ListComp) and len(v.generators) == 1 and not v.generators[0].ifs \
            and isinstance(v.generators[0].iter, ast.Name) and v.generators[0].iter.id == param \
            and isinstance(v.elt, ast.Call) and px.dotted(v.elt.func) == "verif.util.date_to_unixtime" \
            and len(v.elt.args) == 1 and isinstance(v.elt.args[0], ast.Name) and v.elt.args[0].id == v.generators[0].target.id
        if not ok or listname != param:
            raise Untranslatable("statement before the filter in the %s block" % param)
        listname = s.targets[0].id
    last = stmts[-1] if stmts else None
    if not (isinstance(last, ast.Assign) and px.dotted(last.targets[0]) == "self.times"):
        raise Untranslatable("%s block does not end in an assignment of self.times" % param)
    v = last.value
    if isinstance(v, ast.Call) and px.dotted(v.func) in ("np.array", "numpy.array") and len(v.args) == 1 and not v.keywords:
        v = v.args[0]
    if not (isinstance(v, ast.ListComp) and len(v.generators) == 1):
        raise Untranslatable("self.times is not filtered by a list comprehension")
    g = v.generators[0]
    if not (isinstance(g.target, ast.Name) and px.dotted(g.iter) == "self.times" and len(g.ifs) == 1
            and isinstance(v.elt, ast.Name) and v.elt.id == g.target.id):
        raise Untranslatable("comprehension is not `[t for t in self.times if …]`")
    c = g.ifs[0]
    if not (isinstance(c, ast.Compare) and len(c.ops) == 1 and isinstance(c.ops[0], ast.In)
            and isinstance(c.comparators[0], ast.Name) and c.comparators[0].id == listname):
        raise Untranslatable("filter is not `<expr> in %s`" % listname)
    return _datefilter_expr(c.left, g.target.id)


def gen_datefilter(report):
    T = _T()
    out = DATEFILTER_HEADER
    untranslated = []
    pieces = [("dateKeep", "dates", "dates_times", "-d: a time is kept iff this holds (dates_times = the requested dates as unix day starts)"),
              ("todKeep", "tods", "tods", "-tod: a time is kept iff this holds (tods = the requested hours of day)")]
    for name, param, lst, doc in pieces:
        try:
            cls = px.find_class(T.parse("verif/data.py"), "Data")
            init = px.find_func(cls.body, "__init__") if cls is not None else None
            if init is None:
                raise Untranslatable("Data.__init__ not found")
            key = _datefilter_block(_strip_doc(init.body), param)
            out += "/-- %s -/\ndef %s (t : XR) (%s : List XR) : Bool :=\n  memX %s %s\n\n" % (doc, name, lst, key, lst)
        except (Untranslatable, AttributeError, IndexError) as e:
            untranslated.append(name)
            report["untranslated"].append("datefilter.%s: %s" % (name, e))
            out += "-- untranslated: %s\ndef %s (t : XR) (%s : List XR) : Bool :=\n  false\n\n" % (e, name, lst)
    out += "def untranslated : List String := [%s]\n\nend VerifModel.Gen.DateFilter\n" % ", ".join('"%s"' % n for n in untranslated)
    report["datefilter"] = {"functions": len(pieces), "untranslated": untranslated}
    return T.write_if_changed(os.path.join(T.GEN, "DateFilter.lean"), out)
