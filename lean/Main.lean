import VerifModel.Driver.Cmp
import VerifModel.Driver.Cont
import VerifModel.Driver.Det
import VerifModel.Driver.Data
import VerifModel.Driver.ClimExtra
import VerifModel.Driver.Clean
import VerifModel.Driver.Agg
import VerifModel.Driver.Scripts
import VerifModel.Driver.Axis
import VerifModel.Driver.Output
import VerifModel.Driver.Text
import VerifModel.Driver.Args
import VerifModel.Driver.Diagram
import VerifModel.Driver.Nc
import VerifModel.Driver.Fig
import VerifModel.Driver.Prob
import VerifModel.Driver.Dispatch
import VerifModel.Driver.DiagramViews
import VerifModel.Driver.DiagramFss
import VerifModel.Driver.Multi
import VerifModel.Driver.ListOutput
import VerifModel.Driver.ArgsData
import VerifModel.Driver.GenMore
import VerifModel.Driver.DataT
/-
  verifdrv — line-protocol driver: one operation per input line, one canonical
  reply line.  `ERR bad-op` for anything a handler does not recognise.
-/
open VerifModel

def handlers : List (List String → Option String) :=
  [Driver.Cmp.handle, Driver.Cont.handle, Driver.Det.handle, Driver.Data.handle, Driver.Clean.handle, Driver.Agg.handle, Driver.Scripts.handle, Driver.Axis.handle, Driver.Output.handle, Driver.Text.handle, Driver.Args.handle, Driver.Diagram.handle, Driver.Nc.handle, Driver.Fig.handle, Driver.Prob.handle, Driver.Dispatch.handle, Driver.DiagramViews.handle, Driver.Multi.handle, Driver.ListOutput.handle, Driver.ArgsData.handle, Driver.GenMore.handle, Driver.ClimExtra.handle, Driver.DiagramFss.handle, Driver.DataT.handle]

def step (line : String) : String :=
  let args := (line.trimAscii.toString.splitOn " ").filter (· ≠ "")
  match handlers.findSome? (fun h => h args) with
  | some out => out
  | none => "ERR bad-op"

partial def loop (h : IO.FS.Stream) (out : IO.FS.Stream) : IO Unit := do
  let line ← h.getLine
  if line.isEmpty then return ()
  out.putStrLn (step line)
  loop h out

def main : IO Unit := do
  let out ← IO.getStdout
  loop (← IO.getStdin) out
  out.flush
