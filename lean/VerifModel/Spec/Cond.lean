import VerifModel.Base.Vec
import VerifModel.Model.Interval
/-
  What the class descriptions of verif/metric.py say about the conditional scores (no reference to how
  they are computed):

    Conditional   "Computes the mean y conditioned on x. For a given range of x-values, what is the
                   average y-value?"
    XConditional  "Mean x when conditioned on x. Average x-value that is within a given range."  (the
                   class's default statistic is the median)
    Count         the number of values of a field that lie in the range

  A range without any case has no value: NaN.  Membership in the range is `Interval.within` (C06).
-/
namespace VerifModel.Spec.Cond
open VerifModel

/-- the cases (x, y) whose x lies in the range -/
def casesIn (I : Interval) (xs ys : Vec) : List (XR × XR) :=
  (List.zip xs ys).filter fun p => I.within p.1 = some true

/-- the x values that lie in the range -/
def valuesIn (I : Interval) (xs : Vec) : Vec := List.filter (fun x => I.within x = some true) xs

/-- average y over the cases whose x lies in the range -/
def condMean (I : Interval) (xs ys : Vec) : XR :=
  let c := casesIn I xs ys
  if c.isEmpty then .nan else Vec.mean (c.map (·.2))

/-- a statistic (median by default) of the x values that lie in the range -/
def xcond (stat : Vec → XR) (I : Interval) (xs : Vec) : XR :=
  let c := valuesIn I xs
  if c.isEmpty then .nan else stat c

/-- how many values lie in the range -/
def countIn (I : Interval) (xs : Vec) : XR :=
  let k := (valuesIn I xs).length
  if k = 0 then .nan else XR.ofNat k

end VerifModel.Spec.Cond
