import VerifModel.Spec.Diagram
/-
  Spec for C16, second part: the defining statistics of the deterministic ROC diagram, the "against" diagram, the
  change diagram, the ignorance-contribution diagram, the economic-value diagram and the Murphy diagram, on plain
  rational samples (the valid cases; `none` = undefined), with no reference to how verif computes.

  Sources.  verif's help texts: droc "the receiver operating characteristics curve for the deterministic forecast for
  a single threshold. Uses different forecast thresholds to create points", droc0 "use the same threshold for forecast
  and obs"; against "the forecasts for each pair of input files against each other. Colours indicate which input file
  had the best forecast (but only if the difference is more than 10% of the standard deviation of the observation)";
  change "Forecast skill (MAE) as a function of change in obs from previous forecast run"; igncontrib "how much each
  probability issued contributes to the total ignorance"; economicvalue "what fraction of costs/loses can be reduced by
  the forecast relative to using climatology"; murphy: https://arxiv.org/abs/2301.10803.
  Wilks, Statistical Methods in the Atmospheric Sciences: hit rate H = a/(a+c), false alarm rate F = b/(b+d) (ROC);
  value score VS = (E_clim − E_f)/(E_clim − E_perf) with E_clim = min(C/L, s), E_perf = s·C/L and, per unit loss,
  E_f = F(1−s)·C/L + H s·C/L + (1−H) s (Richardson 2000), s the base rate.  Roulston & Smith 2002: ignorance
  IGN = −(1/N) Σ log2 (probability given to what happened).  Ehm, Gneiting, Jordan & Krüger 2016: the elementary score
  of a probability forecast p for the binary outcome y at threshold θ is 2θ if y = 0 and p > θ, 2(1−θ) if y = 1 and
  p < θ, 2θ(1−θ) if p = θ, and 0 otherwise (normalised so that its integral over θ is the Brier score); the Murphy
  diagram shows its mean against θ.
-/
namespace VerifModel.Spec.Diagram
open VerifModel

/-- n equally spaced values from a to b, both included (n ≥ 2) -/
def equallySpaced (a b : Rat) (n : Nat) : List Rat :=
  (List.range n).map fun (i : Nat) => a + (i : Rat) * ((b - a) / ((n : Rat) - 1))

/-! ### deterministic ROC -/

/-- the 2×2 table (a, b, c, d) of the cases (observation, forecast): the event is forecast iff the forecast lies in
the -b event of the forecast threshold `ft`, observed iff the observation lies in the -b event of `t` -/
def detTable (b : BinType) (t ft : Rat) (cs : List (Rat × Rat)) : Nat × Nat × Nat × Nat :=
  (cs.countP fun c => decide (Spec.event b ft ft c.2) && decide (Spec.event b t t c.1),
   cs.countP fun c => decide (Spec.event b ft ft c.2) && !decide (Spec.event b t t c.1),
   cs.countP fun c => !decide (Spec.event b ft ft c.2) && decide (Spec.event b t t c.1),
   cs.countP fun c => !decide (Spec.event b ft ft c.2) && !decide (Spec.event b t t c.1))

/-- one point of the deterministic ROC: (false alarm rate, hit rate) at forecast threshold ft -/
def detRocPoint (b : BinType) (t ft : Rat) (cs : List (Rat × Rat)) : Option Rat × Option Rat :=
  let tb := detTable b t ft cs
  (Cont.fa tb.2.1 tb.2.2.2, Cont.hit tb.1 tb.2.2.1)

/-- the curve: (1,1), the points of the forecast thresholds in the order given, (0,0) -/
def detRoc (b : BinType) (t : Rat) (fts : List Rat) (cs : List (Rat × Rat)) : List (Option Rat × Option Rat) :=
  (some 1, some 1) :: fts.map (fun ft => detRocPoint b t ft cs) ++ [(some 0, some 0)]

/-! ### against -/

/-- cases (observation, forecast of the first input, forecast of the second input): those where the first input's
absolute error is smaller than the second's by more than `margin` ("x better"), and the converse ("y better") -/
def betterBy (margin : Rat) (cs : List (Rat × Rat × Rat)) : List (Rat × Rat × Rat) × List (Rat × Rat × Rat) :=
  (cs.filter fun c => decide (Stats.absq (c.1 - c.2.2) - Stats.absq (c.1 - c.2.1) > margin),
   cs.filter fun c => decide (Stats.absq (c.1 - c.2.1) - Stats.absq (c.1 - c.2.2) > margin))

/-- the colour layers: for k = 0, …, 4 the cases where one input is better by more than k·σ/10, σ the standard
deviation of the observations (drawn with opacity k/5: the first visible layer is "more than 10 % of σ") -/
def againstLayers (sigma : Rat) (cs : List (Rat × Rat × Rat)) : List (List (Rat × Rat × Rat)) :=
  (List.range 5).flatMap fun (k : Nat) => [(betterBy ((k : Rat) * sigma / 10) cs).1, (betterBy ((k : Rat) * sigma / 10) cs).2]

/-! ### change -/

/-- the cases of the change diagram.  `rows` = one row per forecast run (initialisation time), each cell the valid
(observation, forecast) pair of one (lead time, location) or nothing.  A case exists where the cell is valid in two
consecutive runs: (change of the observation from the previous run, absolute error of the current run). -/
def changePairs (rows : List (List (Option (Rat × Rat)))) : List (Rat × Rat) :=
  (List.zipWith (fun prev cur => (List.zip prev cur).filterMap fun pc =>
      match pc.1, pc.2 with
      | some p, some c => some (c.1 - p.1, Stats.absq (c.1 - c.2))
      | _, _ => none) rows rows.tail).flatten

/-- one bin: (mean change, mean absolute error) -/
def changeBin (b : List (Rat × Rat)) : Option Rat × Option Rat :=
  (Stats.mean (b.map (·.1)), Stats.mean (b.map (·.2)))

/-! ### ignorance contribution -/

/-- base-2 logarithm -/
def log2Q (T : Tr) (x : Rat) : Rat := T.logQ x / T.logQ 2

/-- the probability a forecast gave to what happened -/
def outcomeProb (c : Bool × Rat) : Rat := if c.1 then c.2 else 1 - c.2

/-- contribution of one probability bin to the ignorance score of `total` cases, scaled by the number of bins `nb` (so
that the mean over the bins is the ignorance score): −(nb/total) Σ_{i ∈ bin} log2 (probability given to the outcome).
Undefined for an empty bin. -/
def ignContribBin (T : Tr) (total nb : Nat) (b : List (Bool × Rat)) : Option Rat :=
  if b.isEmpty then none
  else some (-(Stats.sum (b.map fun c => log2Q T (outcomeProb c))) / (total : Rat) * (nb : Rat))

/-- per bin: (mean forecast probability, ignorance contribution, number of cases) -/
def ignContrib (T : Tr) (c : Conv) (edges : List Rat) (cs : List (Bool × Rat)) : List (Option Rat × Option Rat × Nat) :=
  let bs := bins c edges (·.2) cs
  let total := (bs.map List.length).foldr (· + ·) 0
  bs.map fun b => (Stats.mean (b.map (·.2)), ignContribBin T total bs.length b, b.length)

/-! ### economic value -/

def minQ (x y : Rat) : Rat := if y < x then y else x

/-- relative economic value at cost-loss ratio α for hit rate H, false alarm rate F and base rate s:
(E_clim − E_f)/(E_clim − E_perf) with E_clim = min(α, s), E_perf = sα, E_f = Fα(1−s) + Hsα + (1−H)s -/
def valueScore (α H F s : Rat) : Option Rat :=
  Cont.sdiv (minQ s α - (F * α * (1 - s) + H * s * α + (1 - H) * s)) (minQ s α - s * α)

/-- the economic value of the forecast "act iff p ≥ α" over the cases (event observed?, probability) -/
def economicValue (α : Rat) (cs : List (Bool × Rat)) : Option Rat :=
  let a := cs.countP fun c => decide (α ≤ c.2) && c.1
  let b := cs.countP fun c => decide (α ≤ c.2) && !c.1
  let c' := cs.countP fun c => !decide (α ≤ c.2) && c.1
  let d := cs.countP fun c => !decide (α ≤ c.2) && !c.1
  match Cont.hit a c', Cont.fa b d, Cont.baserate a b c' d with
  | some H, some F, some s => valueScore α H F s
  | _, _, _ => none

/-! ### Murphy diagram -/

/-- elementary score of the probability p for the outcome y at threshold θ -/
def elementaryScore (θ : Rat) (c : Bool × Rat) : Rat :=
  if θ < c.2 ∧ c.1 = false then 2 * θ
  else if c.2 < θ ∧ c.1 = true then 2 * (1 - θ)
  else if c.2 = θ then 2 * θ * (1 - θ)
  else 0

/-- the Murphy curve: mean elementary score per threshold -/
def murphy (θs : List Rat) (cs : List (Bool × Rat)) : List (Option Rat) :=
  θs.map fun θ => Stats.mean (cs.map (elementaryScore θ))

/-! ### time series, meteogram

verif's help texts: timeseries "Plot observations and forecasts as a time series (i.e. by concatinating all
leadtimes)", one forecast line per initialisation time; meteo "a meteogram, with deterministic forecast, all quantile
lines available (use -q to select a subset of quantiles), and observations … If multiple dates and locations are used,
then the average is used".  Values are `none` where missing. -/

/-- the mean of the values that are present (over the locations, or over the runs) -/
def presentMean (v : List (Option Rat)) : Option Rat := Stats.mean (v.filterMap id)

/-- valid time, in days since the epoch, of lead time l (hours) of the run initialised at unixtime t (seconds) -/
def validDay (t l : Rat) : Rat := (t + l * 3600) / 86400

/-- one forecast run as a series: at the valid time of each lead time, the mean over the locations.
`row` = lead times × locations -/
def runSeries (t : Rat) (leads : List Rat) (row : List (List (Option Rat))) : List Rat × List (Option Rat) :=
  (leads.map (validDay t), row.map presentMean)

/-- the (valid time, observation) pairs of all (run, lead time) cells, run by run.  `obs` = runs × lead times × locations -/
def obsPairs (times leads : List Rat) (obs : List (List (List (Option Rat)))) : List (Rat × Option Rat) :=
  (times.flatMap fun t => leads.map (validDay t)).zip (obs.flatMap fun row => row.map presentMean)

/-- the meteogram line: per lead time the mean over the locations of the mean over the runs.
`cells` = lead times × locations × runs -/
def meteoMean (cells : List (List (List (Option Rat)))) : List (Option Rat) :=
  cells.map fun row => presentMean (row.map presentMean)

end VerifModel.Spec.Diagram
