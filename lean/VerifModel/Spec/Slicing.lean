/-
  Spec: slicing a set of cases along a dimension, stated without reference to arrays,
  indices or `np.where`.

  Every case has a bucket (`key c`).  The slice labelled `u` consists of exactly the
  cases whose bucket is `u` (in their original order); the slices along the dimension
  are the slices of the distinct bucket values.  "Partition" means: putting all slices
  together gives back every case exactly once (a permutation of the pooled cases).
-/
namespace VerifModel.Spec.Slicing

variable {α : Type} {β : Type} [DecidableEq β]

/-- the cases whose bucket is `u` -/
def sliceOf (key : α → β) (cases : List α) (u : β) : List α :=
  cases.filter fun c => decide (key c = u)

/-- one slice per label -/
def slicesBy (key : α → β) (labels : List β) (cases : List α) : List (List α) :=
  labels.map (sliceOf key cases)

/-- the slices are a partition of the cases: together they contain every case exactly as often
as the pooled list does -/
def IsPartition (slices : List (List α)) (cases : List α) : Prop :=
  slices.flatten.Perm cases

/-- mean of a non-empty list of rationals (`none` for the empty list: no score) -/
def mean? (xs : List Rat) : Option Rat :=
  if xs = [] then none else some (xs.sum / xs.length)

end VerifModel.Spec.Slicing
