import VerifModel.Spec.Dataset
import VerifModel.Model.NcAssemble
/-
  Spec for C10: the documented NetCDF layout of a table (verif wiki "NetCDF files"; the
  sample files verif/tests/files/netcdf_valid*.nc):

    dimensions  time, leadtime, location [, threshold, quantile, ensemble_member]
    variables   time(time), leadtime(leadtime) [, location(location), lat(location),
                lon(location), altitude(location), obs/fcst/pit(time, leadtime, location),
                threshold(threshold), cdf(time, leadtime, location, threshold),
                quantile(quantile), x(time, leadtime, location, quantile),
                ensemble(time, leadtime, location, ensemble_member), any other field
                (time, leadtime, location)]
    attributes  long_name or standard_name, units, x0, x1   (all optional)

  A missing cell may be written in any of the encodings of `Enc`: left as the fill value /
  masked, NaN, -999, or any value above 1e30 (incl. +inf).  The writer chooses per cell — of the
  data variables and of the coordinate variables (time, leadtime, location, lat, lon, altitude,
  threshold, quantile) alike.
-/
namespace VerifModel.Spec
open VerifModel

/-- how a missing cell is stored -/
inductive Enc where
  | masked
  | nan
  | m999
  | pinf
  | big (q : Rat) (h : 1000000000000000019884624838656 < q)

def Enc.cell : Enc → NcCell
  | .masked => .masked
  | .nan => .val .nan
  | .m999 => .val (.fin (-999))
  | .pinf => .val .pinf
  | .big q _ => .val (.fin q)

def encCell (e : Enc) : Cell → NcCell
  | some q => .val (.fin q)
  | none => e.cell

/-- the writer's free choices -/
structure NcLayout where
  /-- encoding used if the k-th cell of the named variable is missing -/
  enc : String → Nat → Enc
  /-- the variable name goes to `long_name` (else to `standard_name`) -/
  useLongName : Bool := true

def encArr (L : NcLayout) (name : String) (a : CArr) : NcArr :=
  ⟨a.dims, a.data.mapIdx fun k c => encCell (L.enc name k) c⟩

/-- a coordinate variable: one dimension, entry k stored as a number or — when missing — in the
encoding the writer chose for cell k of that variable -/
def encVec (L : NcLayout) (name : String) (l : List Cell) : NcArr := encArr L name ⟨[l.length], l⟩

/-- the NetCDF file (as the reader sees it) that carries table `T` in the documented layout -/
def toNcVars (L : NcLayout) (T : DenseTable) : NcVars where
  dims := [("time", T.times.length), ("leadtime", T.leads.length), ("location", T.nloc)]
    ++ optDim "threshold" (T.prob.map fun p => p.1.length)
    ++ optDim "quantile" (T.quant.map fun p => p.1.length)
    ++ optDim "ensemble_member" (T.ens.map fun a => a.dims.getLastD 0)
  vars := [("time", encVec L "time" T.times), ("leadtime", encVec L "leadtime" T.leads)]
    ++ optVar "location" (T.ids.map (encVec L "location"))
    ++ optVar "lat" (T.lats.map (encVec L "lat"))
    ++ optVar "lon" (T.lons.map (encVec L "lon"))
    ++ optVar "altitude" (T.elevs.map (encVec L "altitude"))
    ++ optVar "obs" (T.obs.map (encArr L "obs"))
    ++ optVar "fcst" (T.fcst.map (encArr L "fcst"))
    ++ optVar "pit" (T.pit.map (encArr L "pit"))
    ++ optVar "threshold" (T.prob.map fun p => encVec L "threshold" p.1)
    ++ optVar "cdf" (T.prob.map fun p => encArr L "cdf" p.2)
    ++ optVar "quantile" (T.quant.map fun p => encVec L "quantile" p.1)
    ++ optVar "x" (T.quant.map fun p => encArr L "x" p.2)
    ++ optVar "ensemble" (T.ens.map (encArr L "ensemble"))
    ++ T.others.map fun p => (p.1, encArr L p.1 p.2)
  longName := if L.useLongName then T.name else none
  standardName := if L.useLongName then none else T.name
  units := T.units
  x0 := T.x0.map XR.fin
  x1 := T.x1.map XR.fin

end VerifModel.Spec
