import VerifModel.Spec.Diagram
/-
  Spec for the views of a standard metric (C16): what -type rank, impact, map, maprank and mapimpact are
  DEFINED to show, on plain rational scores (`none` = the input has no score there), with no reference to
  how verif computes.  Sources: the docstrings and comments of verif.output.Standard (`_plot_rank_core`:
  "Remove lines within missing data, otherwise the first file wins the line", the tick labels Lowest /
  Highest, Best / Worst and the series "None"; `_plot_impact_core`: "XX[i], YY[i], contrib[i]: the error
  impact contribution for cases where input 0 forecasted a value of XX[i] and input 1 forecasted a value
  of YY[i]", "the area of the dots should be proportional to the contribution", labels "<input> is
  worse"; `_map_core`: "Colorbar limits should be the same for all subplots", legend "min / similar /
  max", "<input> is higher"), and the property text of C16: one series per input in command-line order,
  coordinates of the drawn bars and points = the defining statistics of the common valid cases.
-/
namespace VerifModel.Spec.DiagramViews
open VerifModel

/-! ### rank -/

/-- input a comes before input b in the ranking of the scores s: lower score first, equal scores in
command-line order -/
def Before (s : List Rat) (a b : Nat) : Prop :=
  s.getD a 0 < s.getD b 0 ∨ (s.getD a 0 = s.getD b 0 ∧ a < b)

/-- r is the ranking of the inputs 0 … F-1 by their scores s: r[j] = the input at rank position j -/
def IsRanking (s : List Rat) (r : List Nat) : Prop :=
  r.Perm (List.range s.length) ∧ r.Pairwise (Before s)

/-- an entry of the x-axis is a draw when the first two inputs are closer than tol -/
def IsDraw (tol : Rat) : List Rat → Prop
  | a :: b :: _ => a - b < tol ∧ b - a < tol
  | _ => False

/-! ### impact -/

/-- the bin (lo, hi] of the -r edges -/
def inBinOC (lo hi x : Rat) : Prop := lo < x ∧ x ≤ hi

/-- contribution of one case (observation, forecast of input 0, forecast of input 1) -/
def caseImpact (c : Rat × Rat × Rat) : Rat := (c.2.1 - c.1) ^ 2 - (c.2.2 - c.1) ^ 2

/-! ### maps -/

/-- input f is the highest at a location: its score is the largest and exceeds the mean of the inputs by
more than tol -/
def IsHighest (tol : Rat) (s : List Rat) (f : Nat) : Prop :=
  (∀ v ∈ s, v ≤ s.getD f 0) ∧ s.getD f 0 > Stats.sum s / s.length + tol

def IsLowest (tol : Rat) (s : List Rat) (f : Nat) : Prop :=
  (∀ v ∈ s, s.getD f 0 ≤ v) ∧ s.getD f 0 < Stats.sum s / s.length - tol

end VerifModel.Spec.DiagramViews
