/-
  Spec for C19: what the documentation (`verif --help`, driver.show_description) offers.
  Written from the help text, not from the class tables: the 70 metric names and 28 diagram
  names listed under "Metrics", the 16 `-x` dimensions of the `-x` paragraph plus the three
  further dimensions the property names (obs, fcst, dayofmonth), the eight `-type` values,
  the eight `-b` bin types and the aggregation types of the `-agg` paragraph.
-/
namespace VerifModel.Spec.Dispatch

/-- "Deterministic", "Threshold" and "Probabilistic" metric sections of the help text -/
def metrics : List String :=
  ["a", "alphaindex", "b", "baserate", "bias", "biasfreq", "bs", "bsrel", "bsres", "bsunc", "bss", "bssrel",
   "bssres", "c", "cmae", "corr", "d", "derror", "diff", "dmb", "dscore", "edi", "eds", "ef", "ets", "fa", "far",
   "fcst", "fcstrate", "fcststddev", "hit", "hss", "ign0", "kendallcorr", "kge", "kss", "leps", "lor", "mae",
   "marginalratio", "mbias", "miss", "n", "nnsec", "nsec", "obs", "obsstddev", "or", "pc", "pit", "pithistdev",
   "pithistshape", "pithistslope", "quantile", "quantilecoverage", "quantilescore", "rankcorr", "ratio", "rmse",
   "rmsf", "sedi", "seds", "spherical", "spread", "spreadskillratio", "stderror", "threat", "threshold", "within",
   "yulesq"]

/-- "Special diagrams" section of the help text -/
def diagrams : List String :=
  ["against", "autocorr", "autocov", "bsdecomp", "change", "cond", "droc", "droc0", "discrimination",
   "economicvalue", "error", "freq", "fss", "igncontrib", "invreliability", "marginal", "meteo", "murphy",
   "obsfcst", "performance", "pithist", "qq", "reliability", "roc", "scatter", "spreadskill", "taylor",
   "timeseries"]

def names : List String := metrics ++ diagrams

/-- `-x dim`: the 16 dimensions of the help text, then obs, fcst, dayofmonth -/
def axes : List String :=
  ["time", "leadtime", "year", "month", "week", "day", "timeofday", "dayofyear", "monthofyear", "location",
   "elev", "lat", "lon", "threshold", "leadtimeday", "no", "obs", "fcst", "dayofmonth"]

/-- `-type type` -/
def types : List String := ["plot", "text", "csv", "map", "rank", "maprank", "impact", "mapimpact"]

/-- `-b type` -/
def binTypes : List String := ["below", "below=", "=within", "within", "within=", "=within=", "above", "above="]

/-- `-agg type` (every name the help text prints; "or a number between 0 and 1" is `Agg.number`) -/
def aggregators : List String :=
  ["abschange", "absmean", "change", "count", "iqr", "max", "mean", "meanabs", "median", "min", "range", "std",
   "sum", "variance"]

end VerifModel.Spec.Dispatch
