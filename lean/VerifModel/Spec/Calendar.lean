import VerifModel.Base.Calendar
/-
  Spec: the Gregorian calendar as every textbook states it, with no reference to
  how verif (or Python) computes dates.

  * leap year: divisible by 4, except centuries not divisible by 400;
  * "thirty days hath September, April, June and November", February 28 or 29;
  * the day after y-m-d (`nextDay`), hence the date `k` days after a given date
    (`addDays`, plain iteration);
  * 1970-01-01 (unix time 0) was a Thursday, weekdays cycle with period 7;
  * ordinal of (month, day) within a leap year (the bucket verif's `dayofyear`
    axis uses so that the same calendar day has the same bucket in every year).
-/
namespace VerifModel.Spec.Cal
open VerifModel.Calendar

def isLeap (y : Nat) : Bool := (y % 4 == 0 && y % 100 != 0) || y % 400 == 0

def daysInMonth (y m : Nat) : Nat :=
  if m == 2 then (if isLeap y then 29 else 28)
  else if m == 4 || m == 6 || m == 9 || m == 11 then 30
  else 31

def validDate (c : Date) : Bool :=
  decide (1 ≤ c.m) && decide (c.m ≤ 12) && decide (1 ≤ c.d) && decide (c.d ≤ daysInMonth c.y c.m)

/-- the day after `c` -/
def nextDay (c : Date) : Date :=
  if c.d < daysInMonth c.y c.m then ⟨c.y, c.m, c.d + 1⟩
  else if c.m < 12 then ⟨c.y, c.m + 1, 1⟩
  else ⟨c.y + 1, 1, 1⟩

/-- the date `k` days after `c` -/
def addDays (c : Date) : Nat → Date
  | 0 => c
  | k + 1 => nextDay (addDays c k)

/-- the civil date of the day that starts `86400 * k` seconds after 1970-01-01T00:00Z -/
def dateOfEpochDay (k : Nat) : Date := addDays ⟨1970, 1, 1⟩ k

/-- weekday (Monday = 0) of the day `k` days after 1970-01-01, a Thursday -/
def weekdayOfEpochDay (k : Nat) : Nat := (3 + k) % 7

/-- days of a leap year before month `m` -/
def leapDaysBefore (m : Nat) : Nat :=
  match m with
  | 1 => 0 | 2 => 31 | 3 => 60 | 4 => 91 | 5 => 121 | 6 => 152 | 7 => 182
  | 8 => 213 | 9 => 244 | 10 => 274 | 11 => 305 | 12 => 335 | _ => 0

/-- ordinal (1..366) that month `m`, day `d` has in a leap year -/
def leapOrdinal (m d : Nat) : Nat := leapDaysBefore m + d

end VerifModel.Spec.Cal
