import VerifModel.Base.XR
/-
  Spec of the helper scripts (C20): what the property statement and the scripts' own help texts
  say, with no reference to how the scripts compute.  A value is `Option Rat`: `none` = missing.

  Sources:
  * accumulate --help: "For each leadtime, sum up values in a specified number of leadtimes
    leading up to this time. I.e. for a file with hourly time steps, -w 24 creates 24 hour
    accumulations. For leadtime 36 this is the sum of leadtimes 13-36."  "-w … If omitted,
    accumulate the whole leadtime axis."  "-i Ignore missing values in the sum".
  * ens2prob.py docstring: "Assign a cumulative probability of 0 to the lowest member and 1 to the
    highest … a) round down to the nearest member"; "Compute PIT values, i.e. the CDF at the
    observed value"; property C20: "PIT values equal to the fraction of members below the
    observation (missing where the observation is missing)" — so the CDF at t is the fraction of
    (non-missing) members strictly below t.
  * expandverif --help: "Expands the observations in a verif file to match desired leadtimes and
    initialization times"; property C20: an observation is placed at every requested
    (initialisation time, lead time) whose valid time matches, and nowhere else.
-/
namespace VerifModel.Spec.Scripts
open VerifModel

def toXR : Option Rat → XR
  | some q => .fin q
  | none => .nan

def sumRat : List Rat → Rat
  | [] => 0
  | a :: as => a + sumRat as

/-- the non-missing values of a list -/
def present (l : List (Option Rat)) : List Rat := l.filterMap id

/-- the w steps leading up to (and including) step t:  x_{t-w+1}, …, x_t -/
def window (w t : Nat) (x : List (Option Rat)) : List (Option Rat) := (x.drop (t + 1 - w)).take w

/-- Accumulation over the trailing window of w steps at step t:
missing if the window is incomplete (fewer than w steps up to t); otherwise Σ_{k=t−w+1..t} x_k,
which is missing if a term is missing — unless missing values are ignored (`-i`), in which case
they are left out of the sum. -/
def accum (w : Nat) (ignore : Bool) (x : List (Option Rat)) (t : Nat) : Option Rat :=
  if t + 1 < w then none
  else if ignore then some (sumRat (present (window w t x)))
  else if (window w t x).all Option.isSome then some (sumRat (present (window w t x)))
  else none

/-- Without `-w`: the running total x_0 + … + x_t. -/
def cumulative (ignore : Bool) (x : List (Option Rat)) (t : Nat) : Option Rat :=
  accum (t + 1) ignore x t

/-- Cumulative probability at threshold t: the fraction of the non-missing members below t;
missing if there is no non-missing member. -/
def cdf (t : Rat) (ens : List (Option Rat)) : Option Rat :=
  if (present ens).length = 0 then none
  else some (((present ens).countP fun e => decide (e < t) : Nat) / ((present ens).length : Rat))

/-- PIT: the fraction of the M members that lie below the observation; missing where the
observation is missing (or there are no members). -/
def pit (obs : Option Rat) (ens : List (Option Rat)) : Option Rat :=
  match obs with
  | none => none
  | some o =>
    if ens.length = 0 then none
    else some (((present ens).countP fun e => decide (e < o) : Nat) / (ens.length : Rat))

/-- Quantile of a complete ensemble by "lowest member ↦ 0, highest ↦ 1, round down to the nearest
member": with the members in ascending order s_0 ≤ … ≤ s_{M−1} (M ≥ 2), level q ∈ [0,1] gives
s_⌊q·(M−1)⌋. -/
def quantileSorted (q : Rat) (sorted : List Rat) : Option Rat :=
  if sorted.length < 2 ∨ q < 0 ∨ 1 < q then none
  else sorted[(q * ((sorted.length : Rat) - 1)).floor.toNat]?

/-- Expansion: `stored` lists (valid time, observation) of every stored (time, lead time) pair in
file order.  The value placed at a requested pair with valid time `target` is the observation of
the first stored pair with that valid time; missing if there is none. -/
def expand (stored : List (Rat × XR)) (target : Rat) : XR :=
  match stored.find? fun p => decide (p.1 = target) with
  | some p => p.2
  | none => .nan

end VerifModel.Spec.Scripts
