import VerifModel.Base.XR
import VerifModel.Base.Tr
import VerifModel.Base.Vec
/-
  Spec for C05: textbook definitions of the deterministic scores on the valid
  (observation, forecast) pairs `os`, `fs` (two rational lists of equal,
  positive length).  Sources: Wilks ch. 8 (MAE, bias/ME, RMSE, correlation);
  Jolliffe & Stephenson ch. 5; Nash & Sutcliffe 1970 (NSE); Koh & Ng 2009
  (alpha index = variance of the error / (variance of forecast + variance of
  observation)); verif's own help text for the aggregator-parametrised forms
  ("agg" is whatever -agg selects, default mean).

  Undefined cases (zero denominator) are NaN, stated with explicit guards, never
  through `x / 0 = 0`.
-/
namespace VerifModel.Spec.Det
open VerifModel

def rabs (x : Rat) : Rat := if x < 0 then -x else x
def mean (xs : List Rat) : Rat := xs.sum / xs.length
abbrev fins (xs : List Rat) : Vec := Vec.ofRats xs
/-- population variance -/
def var (xs : List Rat) : Rat := mean (xs.map fun x => (x - mean xs) * (x - mean xs))
/-- errors o − f -/
def err (os fs : List Rat) : List Rat := List.zipWith (· - ·) os fs

def insertSorted (x : Rat) : List Rat → List Rat
  | [] => [x]
  | y :: ys => if y < x then y :: insertSorted x ys else x :: y :: ys
def sort (xs : List Rat) : List Rat := xs.foldr insertSorted []

section
variable (T : Tr) (agg : Vec → XR) (os fs : List Rat)

/-- mean absolute error (agg of |o − f|) -/
def mae : XR := agg (fins ((err os fs).map rabs))
/-- bias / mean error (agg of f − o) -/
def bias : XR := agg (fins (List.zipWith (· - ·) fs os))
/-- difference / ratio of aggregated statistics -/
def diff : XR := agg (fins fs) - agg (fins os)
def ratio : XR := if XR.eqb (agg (fins os)) (.fin 0) then .nan else agg (fins fs) / agg (fins os)
/-- exceedance fraction: fraction of pairs with o < f -/
def ef : XR := .fin (((List.zipWith (fun o f => decide (o < f)) os fs).filter id).length / (fs.length : Rat))
/-- standard error: root mean square of the bias-corrected error -/
def stderror : XR := T.sqrt (.fin (var (err os fs)))
def obsstddev : XR := T.sqrt (.fin (var os))
def fcststddev : XR := T.sqrt (.fin (var fs))
/-- root (agg) squared error -/
def rmse : XR := T.sqrt (agg (fins ((err os fs).map fun e => e ^ 2)))
/-- cube-root (agg) absolute cubic error -/
def cmae : XR := T.cbrt (agg (fins (List.zipWith (fun o f => rabs (o ^ 3 - f ^ 3)) os fs)))
/-- Nash–Sutcliffe efficiency 1 − Σ(f−o)² / Σ(o−ō)² -/
def nsec : XR :=
  let den := ((os.map fun o => (o - mean os) ^ 2).sum)
  if den = 0 then .nan else .fin (1 - ((List.zipWith (fun f o => (f - o) ^ 2) fs os).sum) / den)
/-- normalised NSE 1 / (2 − NSE) -/
def nnsec : XR :=
  let den := ((os.map fun o => (o - mean os) ^ 2).sum)
  if den = 0 then .nan
  else .fin (1 / (2 - (1 - ((List.zipWith (fun f o => (f - o) ^ 2) fs os).sum) / den)))
/-- alpha index (Koh & Ng 2009): Σ((f−f̄)−(o−ō))² / Σ((f−f̄)² + (o−ō)²) -/
def alphaindex : XR :=
  let den := (List.zipWith (fun f o => (f - mean fs) ^ 2 + (o - mean os) ^ 2) fs os).sum
  if den = 0 then .nan
  else .fin ((List.zipWith (fun f o => (f - o - mean fs + mean os) ^ 2) fs os).sum / den)
/-- degree of mass balance ō / f̄ (IEEE division: f̄ = 0 gives ±inf or NaN, never a finite number) -/
def dmb : XR := XR.fin (mean os) / XR.fin (mean fs)
/-- multiplicative bias f̄ / ō -/
def mbias : XR := if mean os = 0 then .nan else .fin (mean fs / mean os)
/-- distribution error: mean |o₍ᵢ₎ − f₍ᵢ₎| over the order statistics -/
def derror : XR := .fin (mean ((List.zipWith (· - ·) (sort os) (sort fs)).map rabs))
/-- root mean squared factor exp √agg (ln(f/o))² -/
def rmsf : XR :=
  T.exp (T.sqrt (agg (List.zipWith (fun f o => XR.npow (T.log (.fin (f / o))) 2) fs os)))
end

end VerifModel.Spec.Det
