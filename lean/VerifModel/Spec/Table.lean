import VerifModel.Model.TextInput
/-
  Spec for C09: what a text input file MEANS, written from the format description
  (verif wiki "Text files", quoted in the README): one header line naming the columns,
  one row per (time, lead time, location) case, `#` comment lines of which
  `# variable:`, `# units:`, `# x0:`, `# x1:` carry variable metadata.

    * `Table`  : a finite map Case ⇀ Row, location metadata per id (each of lat / lon / elevation
      may be unknown: `none`), header metadata.
    * `Layout` : everything a writer of the file is free to choose: which columns and in
      which order, date[+hour] or unixtime, leadtime or offset, location or id, altitude or
      elev, the spelling of the p/q/e/other header words, the order of the rows, where the
      comment lines go, which token stands for a missing value (in a data cell and in a lat / lon /
      altitude / elev cell of a location that does not know that coordinate), how each cell is spelled.
    * `render` : Table → Layout → the file (token level: the vocabulary `Tok`/`Word`/`Line`
      of the reader model is shared; nothing of the reader's logic is used here).

  The civil calendar (`TextInput.Cal`) is shared with the model: "the unixtime of 00 UTC of
  the day YYYYMMDD" is defined by the proleptic Gregorian day count (trusted base).

  Missing values.  A text file has no way to say "missing" other than a token that is not an
  ordinary number: a word that is not a number at all (NA, ".", …), `nan`, and the two numeric
  encodings the NetCDF format uses as well: -999 and anything above 1e30 (the usual fill values,
  e.g. 9.96921e+36; `inf` / `infinity` included).  Consequently -999, a number above 1e30 and
  +inf are NOT values a table can hold (`numOK`, `valOK`): such a value cannot be written to a
  text file and read back — every token that could spell it spells "missing".  -inf is a value.
-/
namespace VerifModel.Spec
open VerifModel TextInput

structure Case where
  time : Rat        -- seconds since 1970-01-01 00 UTC (initialisation time)
  lead : Rat        -- hours
  loc : Rat         -- location id
  deriving DecidableEq, Repr

inductive Field where
  | obs | fcst | pit
  | thr (v : Rat)            -- P(X ≤ v)
  | qtl (v : Rat)            -- v-quantile
  | ens (v : Rat)            -- ensemble member number v
  | other (name : List Char)
  deriving DecidableEq, Repr

/-- location metadata; `none` = not known: every row of that location carries a missing-value
token in that column (when the column is present) and the coordinate reads as missing (NaN), as the
same entry of a NetCDF file does; the default 0 is for a file WITHOUT that column -/
structure Station where
  lat : Option Rat
  lon : Option Rat
  elev : Option Rat
  deriving DecidableEq, Repr

abbrev Row := Field → XR          -- nan = missing

structure Table where
  rows : List (Case × Row)                   -- the finite map (keys distinct: `Table.WF`)
  station : Rat → Station                     -- location metadata of an id
  varName : Option (List (List Char)) := none -- words of the variable name
  varUnits : Option (List (List Char)) := none
  x0 : Option Rat := none
  x1 : Option Rat := none

def Table.row? (T : Table) (c : Case) : Option Row := (T.rows.find? (fun r => r.1 = c)).map (·.2)

/-- the value the table stores for field `f` at case `c`; missing when there is no such row -/
def Table.value (T : Table) (f : Field) (c : Case) : XR :=
  match T.row? c with
  | some r => r f
  | none => .nan

inductive Col where
  | unixtime | date | hour | leadtime | offset | location | id | lat | lon | altitude | elev
  | fld (f : Field) (w : Word)        -- a data column and the spelling of its header word
  deriving DecidableEq, Repr

inductive Cmt where
  | varName | units
  | x0 (extra : List Word) | x1 (extra : List Word)    -- words after the number are ignored
  | other (ws : List Word)
  deriving DecidableEq, Repr

structure Layout where
  cols : List Col
  order : List (Case × Row)               -- the rows of the table in file order
  dateOf : Case → Nat                     -- YYYYMMDD written in the date column of that row
  hourOf : Case → Rat                     -- hour column of that row
  miss : Case → Field → Tok               -- the missing-value token of that cell
  missMeta : Case → Col → Tok             -- the missing-value token of a lat / lon / altitude / elev cell
  spell : Case → Col → List Char × Tok    -- text of a data word (irrelevant to its value)
  blocks : List (List Cmt)                -- block i precedes the i-th non-comment line

def fixedWord (s : String) : Word := ⟨s.toList, .bad "", .bad ""⟩

def colWord : Col → Word
  | .unixtime => fixedWord "unixtime"
  | .date => fixedWord "date"
  | .hour => fixedWord "hour"
  | .leadtime => fixedWord "leadtime"
  | .offset => fixedWord "offset"
  | .location => fixedWord "location"
  | .id => fixedWord "id"
  | .lat => fixedWord "lat"
  | .lon => fixedWord "lon"
  | .altitude => fixedWord "altitude"
  | .elev => fixedWord "elev"
  | .fld _ w => w

def renderVal (v : XR) (m : Tok) : Tok :=
  match v with
  | .fin q => .num q
  | .pinf => .inf
  | .ninf => .ninf
  | .nan => m

/-- a metadata cell: the number, or a missing-value token when the coordinate is not known -/
def metaTok (o : Option Rat) (m : Tok) : Tok :=
  match o with
  | some q => .num q
  | none => m

/-- what a metadata coordinate reads as: its value, missing (NaN) when it is not known -/
def metaVal (o : Option Rat) : XR :=
  match o with
  | some q => .fin q
  | none => .nan

def cellTok (T : Table) (L : Layout) (r : Case × Row) : Col → Tok
  | .unixtime => .num r.1.time
  | .date => .num (L.dateOf r.1 : Nat)
  | .hour => .num (L.hourOf r.1)
  | .leadtime => .num r.1.lead
  | .offset => .num r.1.lead
  | .location => .num r.1.loc
  | .id => .num r.1.loc
  | .lat => metaTok (T.station r.1.loc).lat (L.missMeta r.1 .lat)
  | .lon => metaTok (T.station r.1.loc).lon (L.missMeta r.1 .lon)
  | .altitude => metaTok (T.station r.1.loc).elev (L.missMeta r.1 .altitude)
  | .elev => metaTok (T.station r.1.loc).elev (L.missMeta r.1 .elev)
  | .fld f _ => renderVal (r.2 f) (L.miss r.1 f)

def cellWord (T : Table) (L : Layout) (r : Case × Row) (c : Col) : Word :=
  ⟨(L.spell r.1 c).1, cellTok T L r c, (L.spell r.1 c).2⟩

def nameWord (n : List Char) : Word := ⟨n, .bad "", .bad ""⟩

def cmtLines (T : Table) : Cmt → List (List Word)
  | .varName => match T.varName with
      | some ws => [fixedWord "variable:" :: ws.map nameWord]
      | none => []
  | .units => match T.varUnits with
      | some ws => [fixedWord "units:" :: ws.map nameWord]
      | none => []
  | .x0 extra => match T.x0 with
      | some q => [fixedWord "x0:" :: ⟨[], .num q, .bad ""⟩ :: extra]
      | none => []
  | .x1 extra => match T.x1 with
      | some q => [fixedWord "x1:" :: ⟨[], .num q, .bad ""⟩ :: extra]
      | none => []
  | .other ws => [ws]

/-- comment blocks woven between the non-comment lines -/
def weave : List (List Line) → List Line → List Line
  | [], rs => rs
  | c :: cs, [] => c ++ cs.flatten
  | c :: cs, r :: rs => c ++ r :: weave cs rs

def headerLine (L : Layout) : List Word := L.cols.map colWord
def dataLine (T : Table) (L : Layout) (r : Case × Row) : List Word := L.cols.map (cellWord T L r)

def render (T : Table) (L : Layout) : List Line :=
  weave (L.blocks.map fun b => (b.flatMap (cmtLines T)).map Line.comment)
    (Line.row (headerLine L) :: L.order.map fun r => Line.row (dataLine T L r))

/-! ### Well-formedness -/

def metaKeys : List (List Char) := ["variable:".toList, "units:".toList, "x0:".toList, "x1:".toList]

/-- a header word that spells the data column `f` -/
def wordOK : Field → Word → Prop
  | .obs, w => w.name = "obs".toList
  | .fcst, w => w.name = "fcst".toList
  | .pit, w => w.name = "pit".toList ∧ w.sfx.isNumber = false      -- float("it") raises
  | .thr v, w => w.name.head? = some 'p' ∧ w.name ≠ "pit".toList ∧ 1 < w.name.length ∧ w.sfx = .num v
  | .qtl v, w => w.name.head? = some 'q' ∧ 1 < w.name.length ∧ w.sfx = .num v
  | .ens v, w => w.name.head? = some 'e' ∧ w.name ≠ "elev".toList ∧ 1 < w.name.length ∧ w.sfx = .num v
  | .other n, w => w.name = n ∧ n ∉ regularNames ∧ n ≠ "pit".toList ∧
      ((n.head? = some 'p' ∨ n.head? = some 'q' ∨ n.head? = some 'e') → w.sfx.isNumber = false)

def colOK : Col → Prop
  | .fld f w => wordOK f w
  | _ => True

/-- the name under which a column is found (offset is an alias of leadtime) -/
def colKey (c : Col) : List Char := normName (colWord c).name

/-- the largest number a text (or NetCDF) file can carry: the double `1e30`; anything above it is a
missing-value encoding -/
def maxNum : Rat := 1000000000000000019884624838656

/-- a number that can be written to a text file and read back: none of the missing-value
encodings (-999, above 1e30) -/
def numOK (q : Rat) : Prop := q ≠ -999 ∧ q ≤ maxNum

instance (q : Rat) : Decidable (numOK q) := by unfold numOK; infer_instance

/-- a data value a table can hold: missing, -inf, or a number that is not a missing-value encoding
(+inf is above 1e30: missing) -/
def valOK : XR → Prop
  | .fin q => numOK q
  | .pinf => False
  | .ninf => True
  | .nan => True

/-- a location coordinate (lat / lon / elevation) a table can hold -/
def metaOK : Option Rat → Prop
  | some q => numOK q
  | none => True

instance (o : Option Rat) : Decidable (metaOK o) := by cases o <;> (unfold metaOK; infer_instance)

/-- the tokens that stand for a missing value: a word that is not a number, `nan`, -999, a number
above 1e30, `inf` -/
def isMissTok : Tok → Prop
  | .bad _ => True
  | .nan => True
  | .inf => True
  | .ninf => False
  | .num q => q = -999 ∨ maxNum < q

instance (t : Tok) : Decidable (isMissTok t) := by cases t <;> (unfold isMissTok; infer_instance)

def cmtOK : Cmt → Prop
  | .other ws => ∃ w rest, ws = w :: rest ∧ w.name ∉ metaKeys
  | _ => True

/-- the instant of a row is what its time columns say -/
def timeOK (L : Layout) (c : Case) : Prop :=
  if Col.date ∈ L.cols then
    ∃ ut : Int, Cal.unixOfDate (L.dateOf c) = some ut ∧ 0 < L.dateOf c ∧
      (if Col.hour ∈ L.cols then (ut : Rat) + L.hourOf c * 3600 = c.time ∧ numOK (L.hourOf c)
       else (ut : Rat) = c.time)
  else if Col.unixtime ∈ L.cols then numOK c.time
  else c.time = 0

def leadOK (L : Layout) (c : Case) : Prop :=
  if Col.leadtime ∈ L.cols ∨ Col.offset ∈ L.cols then numOK c.lead else c.lead = 0

def hasIdCol (L : Layout) : Bool := decide (Col.location ∈ L.cols) || decide (Col.id ∈ L.cols)

/-- the location as the file shows it: id (when there is an id column) and the metadata columns
present; an absent metadata column reads 0, metadata written as a missing-value token reads NaN
(never the metadata of another location, never an invented number) -/
def locOf (T : Table) (L : Layout) (id : Rat) : Loc :=
  { id := if hasIdCol L then .fin id else .nan
    lat := if Col.lat ∈ L.cols then metaVal (T.station id).lat else .fin 0
    lon := if Col.lon ∈ L.cols then metaVal (T.station id).lon else .fin 0
    elev := if Col.altitude ∈ L.cols ∨ Col.elev ∈ L.cols then metaVal (T.station id).elev else .fin 0 }

structure WF (T : Table) (L : Layout) : Prop where
  /-- the table is a finite map: no two rows for the same case -/
  cases_nodup : (T.rows.map (·.1)).Nodup
  /-- the file contains exactly the rows of the table, in any order -/
  order_perm : L.order.Perm T.rows
  /-- distinct column names (leadtime/offset, being aliases, not both) -/
  keys_nodup : (L.cols.map colKey).Nodup
  cols_ok : ∀ c ∈ L.cols, colOK c
  /-- two data columns never denote the same field -/
  fields_inj : ∀ f w w', Col.fld f w ∈ L.cols → Col.fld f w' ∈ L.cols → w = w'
  /-- the header line is recognisable: obs, fcst, or a word starting with p or q -/
  data_word : ∃ c ∈ L.cols, isDataWord (colWord c) = true
  one_time : ¬ (Col.date ∈ L.cols ∧ Col.unixtime ∈ L.cols)
  hour_date : Col.hour ∈ L.cols → Col.date ∈ L.cols
  one_id : ¬ (Col.location ∈ L.cols ∧ Col.id ∈ L.cols)
  one_elev : ¬ (Col.altitude ∈ L.cols ∧ Col.elev ∈ L.cols)
  time_ok : ∀ r ∈ T.rows, timeOK L r.1
  lead_ok : ∀ r ∈ T.rows, leadOK L r.1
  /-- -999 and anything above 1e30 are the missing-value encodings and cannot be a coordinate or a
  metadata value (`numOK`; the same for the time / lead-time cells in `timeOK` / `leadOK`) -/
  id_ok : ∀ r ∈ T.rows, numOK r.1.loc
  meta_ok : ∀ r ∈ T.rows, metaOK (T.station r.1.loc).lat ∧
      metaOK (T.station r.1.loc).lon ∧ metaOK (T.station r.1.loc).elev
  /-- an unknown lat / lon / elevation is written with a missing-value token (any of them, possibly
  a different one on every row) -/
  missMeta_ok : ∀ c k, isMissTok (L.missMeta c k)
  /-- without an id column a location is identified by the metadata columns present -/
  loc_inj : hasIdCol L = false → ∀ r ∈ T.rows, ∀ r' ∈ T.rows,
      locOf T L r.1.loc = locOf T L r'.1.loc → r.1.loc = r'.1.loc
  /-- nor a data value: a data value is not -999, not above 1e30 and not +inf (`valOK`) — such a
  value cannot be written to a text file and read back, each of its spellings reads "missing" (as in
  a NetCDF file); missing cells are written with a missing token (any of them: `isMissTok`) -/
  val_ok : ∀ r ∈ T.rows, ∀ f, valOK (r.2 f)
  miss_ok : ∀ c f, isMissTok (L.miss c f)
  cmt_ok : ∀ b ∈ L.blocks, ∀ c ∈ b, cmtOK c
  /-- a metadata item the table has is written somewhere -/
  name_written : T.varName.isSome → Cmt.varName ∈ L.blocks.flatten
  units_written : T.varUnits.isSome → Cmt.units ∈ L.blocks.flatten
  x0_written : T.x0.isSome → ∃ e, Cmt.x0 e ∈ L.blocks.flatten
  x1_written : T.x1.isSome → ∃ e, Cmt.x1 e ∈ L.blocks.flatten

/-- the model-side key of a field -/
def fkey : Field → FKey
  | .obs => .obs
  | .fcst => .fcst
  | .pit => .pit
  | .thr v => .thr (.fin v)
  | .qtl v => .qtl (.fin v)
  | .ens v => .ens (.fin v)
  | .other n => .other n

end VerifModel.Spec
