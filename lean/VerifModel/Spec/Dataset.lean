import VerifModel.Base.XR
import VerifModel.Base.Arr
import VerifModel.Model.Data
/-
  Spec for C10 (and the target of C09): the DATASET a verification file denotes,
  independent of the file format.

    * `DenseTable` : "the numbers" a file carries — dimension values, optional location
      metadata, optional field groups, each cell a number or missing.  Both the text
      format and the NetCDF format can carry such a table.
    * `Dataset`    : what a reader hands to the rest of verif (the attributes of
      `verif.input.Input`: times, leadtimes, locations, thresholds, quantiles, obs, fcst,
      pit, ensemble, threshold_scores, quantile_scores, other fields, variable).
    * `datasetOf`  : the dataset a table denotes.  Written from the description of the
      `Input` attributes (input.py:33-67), the file-format description of the wiki and the
      defaults the format description gives for absent columns:
        - a missing cell is NaN, any other cell is its number — in the fields AND in the
          coordinates: an entry of the time / lead time / location id / lat / lon / altitude /
          threshold / quantile column that is missing is NaN in the dataset (`Data` then
          verifies no case at a NaN time, lead time or location id: data.py:674-675 "Remove
          nan values", theorem C10_missing_coordinate);
        - absent lat / lon / altitude read 0 ("Default values if columns not available",
          input.py:318-323); absent location ids are numbered 0,1,2,…;
        - units are wrapped in `$…$` for display unless they are `%` or unknown
          (input.py:262-270); no name / units ⇒ "Unknown variable" / "Unknown units".

  `Loc` (id, lat, lon, elev) is shared with the `Data` model.
-/
namespace VerifModel.Spec
open VerifModel

/-- variable metadata (`verif.variable.Variable`: name, units, lower / upper discrete mass) -/
structure VarMeta where
  name : String
  units : List Char
  x0 : Option XR
  x1 : Option XR
  deriving DecidableEq, Repr, Inhabited

/-- the attributes of a `verif.input.Input`, format independent.  `none` = field not available.
`others` are the genuinely other fields (not obs/fcst/pit/ensemble/cdf/x). -/
structure Dataset where
  times : List XR
  leads : List XR
  locs : List Loc
  thresholds : List XR
  quantiles : List XR
  obs : Option Arr
  fcst : Option Arr
  pit : Option Arr
  ensemble : Option Arr
  cdf : Option Arr            -- threshold_scores
  x : Option Arr              -- quantile_scores
  others : List (String × Arr)
  var : VarMeta
  deriving DecidableEq, Repr, Inhabited

/-- a table cell: a number, or missing -/
abbrev Cell := Option Rat

/-- an n-dimensional array of cells (shape + row-major data) -/
structure CArr where
  dims : List Nat
  data : List Cell
  deriving DecidableEq, Repr, Inhabited

/-- the numbers a verification file carries; every optional part may be absent, every entry — of a
field or of a coordinate column — may be missing (`none`) -/
structure DenseTable where
  times : List Cell
  leads : List Cell
  nloc : Nat
  ids : Option (List Cell) := none
  lats : Option (List Cell) := none
  lons : Option (List Cell) := none
  elevs : Option (List Cell) := none
  obs : Option CArr := none
  fcst : Option CArr := none
  pit : Option CArr := none
  /-- thresholds t and P(X ≤ t) -/
  prob : Option (List Cell × CArr) := none
  /-- quantile levels q and the q-quantiles -/
  quant : Option (List Cell × CArr) := none
  ens : Option CArr := none
  others : List (String × CArr) := []
  name : Option String := none
  /-- units as written by a human (no `$`) -/
  units : Option (List Char) := none
  x0 : Option Rat := none
  x1 : Option Rat := none
  deriving Repr, Inhabited

def cellXR : Cell → XR
  | none => .nan
  | some q => .fin q

def CArr.toArr (a : CArr) : Arr := ⟨a.dims, a.data.map cellXR⟩

/-- the i-th entry of optional per-location metadata; absent metadata reads `dflt i` -/
def metaCol (n : Nat) (o : Option (List Cell)) (dflt : Nat → Rat) : List XR :=
  match o with
  | some l => l.map cellXR
  | none => (List.range n).map fun i => XR.fin (dflt i)

/-- locations from four columns of equal length -/
def zipLocs : List XR → List XR → List XR → List XR → List Loc
  | i :: is, a :: as, o :: os, e :: es => ⟨i, a, o, e⟩ :: zipLocs is as os es
  | _, _, _, _ => []

/-- display form of the units -/
def displayUnits : Option (List Char) → List Char
  | none => "Unknown units".toList
  | some u => if u = [] then "Unknown units".toList
              else if u = ['%'] then ['%'] else '$' :: (u ++ ['$'])

def datasetOf (T : DenseTable) : Dataset where
  times := T.times.map cellXR
  leads := T.leads.map cellXR
  locs := zipLocs (metaCol T.nloc T.ids fun i => (i : Rat)) (metaCol T.nloc T.lats fun _ => 0)
            (metaCol T.nloc T.lons fun _ => 0) (metaCol T.nloc T.elevs fun _ => 0)
  thresholds := match T.prob with
    | some p => p.1.map cellXR
    | none => []
  quantiles := match T.quant with
    | some p => p.1.map cellXR
    | none => []
  obs := T.obs.map CArr.toArr
  fcst := T.fcst.map CArr.toArr
  pit := T.pit.map CArr.toArr
  ensemble := T.ens.map CArr.toArr
  cdf := T.prob.map fun p => p.2.toArr
  x := T.quant.map fun p => p.2.toArr
  others := T.others.map fun p => (p.1, p.2.toArr)
  var := { name := T.name.getD "Unknown variable", units := displayUnits T.units,
           x0 := T.x0.map XR.fin, x1 := T.x1.map XR.fin }

/-- a number that can be stored: -999 is the missing-value code of both formats and values above
1e30 are missing values in NetCDF (the double 1e30 is 1000000000000000019884624838656) -/
def okNum (q : Rat) : Prop := q ≠ -999 ∧ q ≤ 1000000000000000019884624838656

def CArr.ok (a : CArr) : Prop := ∀ q, some q ∈ a.data → okNum q

/-- a coordinate column: every entry that is present can be stored (entries may be missing) -/
def colOk (l : List Cell) : Prop := ∀ q, some q ∈ l → okNum q

/-- names a NetCDF reader treats specially; an "other field" has none of these names -/
def reservedNames : List String :=
  ["obs", "fcst", "id", "location", "lat", "lon", "elev", "altitude", "hour", "date", "unixtime",
   "leadtime", "offset", "threshold", "cdf", "quantile", "x", "time", "pit", "ensemble"]

/-- well-formed table: every number can be stored, location metadata has one entry per location,
other fields have proper names.  Nothing is required of the missing entries: any entry of any
coordinate column may be missing. -/
structure DenseTable.WF (T : DenseTable) : Prop where
  times_ok : colOk T.times
  leads_ok : colOk T.leads
  ids_ok : ∀ l, T.ids = some l → l.length = T.nloc ∧ colOk l
  lats_ok : ∀ l, T.lats = some l → l.length = T.nloc ∧ colOk l
  lons_ok : ∀ l, T.lons = some l → l.length = T.nloc ∧ colOk l
  elevs_ok : ∀ l, T.elevs = some l → l.length = T.nloc ∧ colOk l
  obs_ok : ∀ a, T.obs = some a → a.ok
  fcst_ok : ∀ a, T.fcst = some a → a.ok
  pit_ok : ∀ a, T.pit = some a → a.ok
  prob_ok : ∀ p, T.prob = some p → colOk p.1 ∧ p.2.ok
  quant_ok : ∀ p, T.quant = some p → colOk p.1 ∧ p.2.ok
  ens_ok : ∀ a, T.ens = some a → a.ok
  others_ok : ∀ p ∈ T.others, p.1 ∉ reservedNames ∧ p.2.ok
  others_nodup : (T.others.map (·.1)).Nodup

end VerifModel.Spec
