import VerifModel.Base.Vec
/-
  Spec for C16, "standard line plots": WHICH score is drawn WHERE, with no reference to how verif loops.

  verif's documentation: `-m <metric>` plots the metric "as a function of" the axis of `-x` (lead time by
  default; `-x threshold`: "as a function of threshold", the default of the contingency and Brier scores);
  `-r`: "Compute scores using these thresholds"; `-acc`: "Accumulated values along the x-axis"; `-x no`:
  "no aggregation" — one value per input file.  `-agg`: the aggregator replaces the mean inside the score.

  A score table `s i j` = the metric of the valid cases of slice j computed for threshold (interval) i;
  scores are numbers, NaN (undefined) or ±∞, hence `XR`.
-/
namespace VerifModel.Spec.DiagramStd
open VerifModel

/-- `-x threshold`: the point of threshold k is the score of threshold k on all cases (the one slice) -/
def thresholdPoint (s : Nat → Nat → XR) (k : Nat) : XR := s k 0

/-- a data axis: the point of slice j is the score of slice j — with n thresholds the mean over the thresholds
of the n scores of slice j -/
def axisPoint (n : Nat) (s : Nat → Nat → XR) (j : Nat) : XR := Vec.mean ((List.range n).map fun i => s i j)

/-- `-acc`: the running sum along the x-axis, an undefined score counting as 0 -/
def runningSum (v : List XR) (k : Nat) : XR :=
  Vec.sum ((v.take (k + 1)).map fun x => if x.isNan then .fin 0 else x)

/-- `-x no`: bar k (of unit spacing, width 4/5) stands for input k -/
def barLeft (k : Nat) : Rat := (k : Rat) + 1 / 5
def barWidth : Rat := 4 / 5

end VerifModel.Spec.DiagramStd
