/-
  Spec for the distance diagrams of C16 (-m fss, -m autocorr, -m autocov), written from the published definitions,
  on rational samples, independent of how verif computes.  Mathlib-free.

  * Fractions skill score, Roberts & Lean (2008, MWR 136, eq. 5-7): for the pairs (Po, Pf) of observed and forecast
    neighbourhood fractions   FSS = 1 - MSE / MSE_ref,   MSE = 1/N Σ (Pf - Po)²,   MSE_ref = 1/N (Σ Pf² + Σ Po²);
    undefined when MSE_ref = 0 (no event anywhere).
  * Brier skill score of the fractions against the sample climatology (the text of verif's class Fss: "From these
    fractions compute the Brier skill score"):   BSS = 1 - BS / (ō (1 - ō)),  BS = 1/N Σ (Pf - Po)²,  ō = 1/N Σ Po;
    undefined when ō(1-ō) = 0.
  * sample covariance of paired values (x_k, y_k), k = 1..n, n ≥ 2:  (Σ x_k y_k - (Σ x_k)(Σ y_k)/n) / (n - 1)
    (the computational form of the textbook definition, unbiased divisor); the auto-covariance of the error between two
    points is the covariance of the two error series over the cases present at both points.
  * a distance bin structure partitions the binned range: every pair with first edge ≤ distance ≤ last edge belongs to
    exactly one bin (Spec.Diagram.binCount, convention `hist`).
-/
namespace VerifModel.Spec.Fss

def sum (l : List Rat) : Rat := l.foldr (· + ·) 0

/-- Roberts & Lean (2008): 1 - Σ(Pf-Po)² / (ΣPf² + ΣPo²) over the pairs (Po, Pf); the 1/N cancel -/
def fssRL (ps : List (Rat × Rat)) : Option Rat :=
  let ref := sum (ps.map fun p => p.2 * p.2) + sum (ps.map fun p => p.1 * p.1)
  if ref = 0 then none else some (1 - sum (ps.map fun p => (p.2 - p.1) * (p.2 - p.1)) / ref)

/-- Brier skill score against the uncertainty of the base rate `o`:  1 - BS / (o (1 - o)) -/
def bss (bs o : Rat) : Option Rat :=
  if o * (1 - o) = 0 then none else some (1 - bs / (o * (1 - o)))

/-- sample covariance, divisor n - 1, computational form -/
def cov (P : List (Rat × Rat)) : Option Rat :=
  if P.length < 2 then none
  else some ((sum (P.map fun p => p.1 * p.2) - sum (P.map (·.1)) * sum (P.map (·.2)) / (P.length : Rat))
             / ((P.length : Rat) - 1))

end VerifModel.Spec.Fss
