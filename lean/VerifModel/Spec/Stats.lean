import VerifModel.Base.Tr
import VerifModel.Model.Aggregator
/-
  Spec for C15: the documented statistics, stated on plain rational samples
  (`List Rat` = the values given, none of them missing), and the trailing window.
  `none` = the statistic is undefined for that sample (empty sample).
  Nothing here refers to how verif/NumPy compute; `Agg` is used only as the list of names.

  Sources: driver help (`-agg`, `-T`, `-Tagg`, `-Tx`), the class docstrings of
  verif/aggregator.py (Meanabs "The mean of the absolute values", Absmean "Absolute value of the
  mean", Change "Difference between the last and the first element", AbsChange "Absolute value of
  difference between the last and the first element", Quantile "Returns a certain quantile"),
  and the standard definitions: population variance (1/n)·Σ(x−x̄)², median = middle order
  statistic or the mean of the two middle ones, sample quantile by linear interpolation of the
  order statistics at position (n−1)·p (Hyndman & Fan 1996, definition 7 — NumPy's documented
  default), interquartile range Q(3/4) − Q(1/4).
-/
namespace VerifModel.Spec.Stats
open VerifModel

def absq (x : Rat) : Rat := if x < 0 then -x else x

/-- Σ x -/
def sum : List Rat → Rat
  | [] => 0
  | x :: xs => x + sum xs

/-- x̄ = (Σ x) / n -/
def mean (v : List Rat) : Option Rat :=
  if v.length = 0 then none else some (sum v / (v.length : Rat))

/-- the sample arranged in ascending order: x₍₀₎ ≤ x₍₁₎ ≤ … ≤ x₍ₙ₋₁₎ -/
def ascending (v : List Rat) : List Rat := v.mergeSort (fun a b => decide (a ≤ b))

/-- k-th order statistic (0-based) -/
def orderStat (v : List Rat) (k : Nat) : Option Rat := (ascending v)[k]?

/-- smallest / largest value -/
def minimum : List Rat → Option Rat
  | [] => none
  | x :: xs =>
    match minimum xs with
    | none => some x
    | some m => some (if x ≤ m then x else m)

def maximum : List Rat → Option Rat
  | [] => none
  | x :: xs =>
    match maximum xs with
    | none => some x
    | some m => some (if m ≤ x then x else m)

/-- population variance (1/n)·Σ (x − x̄)² -/
def variance (v : List Rat) : Option Rat :=
  (mean v).bind fun m => mean (v.map fun x => (x - m) * (x - m))

/-- standard deviation = √variance -/
def std (T : Tr) (v : List Rat) : Option Rat := (variance v).map T.sqrtQ

/-- median: the middle order statistic (n odd) or the mean of the two middle ones (n even) -/
def median (v : List Rat) : Option Rat :=
  let n := v.length
  if n = 0 then none
  else if n % 2 = 1 then orderStat v ((n - 1) / 2)
  else
    match orderStat v (n / 2 - 1), orderStat v (n / 2) with
    | some a, some b => some ((a + b) / 2)
    | _, _ => none

/-- sample quantile of level p ∈ [0,1], linear interpolation between order statistics:
position (n−1)·p = k + γ with k integer, 0 ≤ γ < 1;  Q(p) = (1−γ)·x₍ₖ₎ + γ·x₍ₖ₊₁₎. -/
def quantile (v : List Rat) (p : Rat) : Option Rat :=
  let n := v.length
  if n = 0 ∨ p < 0 ∨ 1 < p then none
  else
    let pos : Rat := ((n : Rat) - 1) * p
    let k : Nat := pos.floor.toNat
    let γ : Rat := pos - (pos.floor : Rat)
    if γ = 0 then orderStat v k
    else
      match orderStat v k, orderStat v (k + 1) with
      | some a, some b => some ((1 - γ) * a + γ * b)
      | _, _ => none

/-- interquartile range -/
def iqr (v : List Rat) : Option Rat :=
  match quantile v (3 / 4), quantile v (1 / 4) with
  | some a, some b => some (a - b)
  | _, _ => none

/-- range = max − min -/
def range (v : List Rat) : Option Rat :=
  match maximum v, minimum v with
  | some a, some b => some (a - b)
  | _, _ => none

/-- number of non-missing values of a sample with missing entries -/
def countValid (v : List (Option Rat)) : Nat := (v.filter Option.isSome).length

def meanabs (v : List Rat) : Option Rat := mean (v.map absq)
def absmean (v : List Rat) : Option Rat := (mean v).map absq

/-- last − first -/
def change (v : List Rat) : Option Rat :=
  match v.head?, v.getLast? with
  | some a, some b => some (b - a)
  | _, _ => none

def abschange (v : List Rat) : Option Rat := (change v).map absq

/-- the documented statistic behind each `-agg` / `-Tagg` name -/
def eval (T : Tr) : Agg → List Rat → Option Rat
  | .mean, v => mean v
  | .median, v => median v
  | .min, v => minimum v
  | .max, v => maximum v
  | .std, v => std T v
  | .variance, v => variance v
  | .iqr, v => iqr v
  | .range, v => range v
  | .count, v => some (v.length : Rat)
  | .sum, v => some (sum v)
  | .meanabs, v => meanabs v
  | .absmean, v => absmean v
  | .change, v => change v
  | .abschange, v => abschange v
  | .quantile p, v => quantile v p

/-- the trailing window of `-T h` at coordinate `l`: the entries of the series whose
coordinate l' satisfies l − h < l' ≤ l, in series order -/
def window {α : Type} (coords : List Rat) (vals : List α) (h l : Rat) : List α :=
  ((coords.zip vals).filter fun p => decide (l - h < p.1 ∧ p.1 ≤ l)).map (·.2)

/-- the documented result of `-T h -Tagg stat`: every entry replaced by the statistic of its
trailing window -/
def preagg {α β : Type} (stat : List α → β) (coords : List Rat) (vals : List α) (h : Rat) : List β :=
  coords.map fun l => stat (window coords vals h l)

end VerifModel.Spec.Stats
