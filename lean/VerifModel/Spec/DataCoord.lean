import VerifModel.Model.Data
/-
  Spec for C01 / C02 / C03 (end to end): what a request to `Data` MEANS, in terms of COORDINATES.

  Written from the documentation (README "fair comparison" paragraph, the description of the
  subsetting options) and kept next to `oracle_dims` / `oracle_answer` of harness/datagen.py:

    * an input is a partial function  (time, lead time, location id) ↦ value  per field, obtained from
      its coordinate lists and arrays by LOOKUP of the coordinate value (first occurrence) — `valueAt`;
      there is no index arithmetic in this file except for "the k-th verified time / lead time /
      location" that a selection names;
    * `specDims`   : the verified times / lead times / location ids = ascending, duplicate-free
      values that every input (incl. the climatology) has and that are inside the user's subset;
    * `specCases`  : the coordinates that contribute to a request: every input and the climatology
      have a usable (non-missing, finite) value there for every field the request uses, the
      observation lies inside `-obsrange`, and the climatology-adjusted values are finite;
    * `specScores` : the requested fields' (adjusted) values at those coordinates, time-major.

  `Proofs/DataRefine.lean` proves that the index-based model (`Data.init`, `DataS.getScores`) computes
  exactly this.  Only value-level notions of the model file are reused (`memX` value membership with
  IEEE equality, `inRange`, `sortU` = ascending duplicate-free NaN-free list of the members, `dayStart`,
  `hourOfDay`, `isValid`) and its data types (`Input`, `Cfg`, `Req`, `Sel`).
-/
namespace VerifModel.Spec.DataCoord
open VerifModel

/-- a case: (time, lead time, location id) -/
abbrev Coord := XR × XR × XR

/-! ### an input as a function of coordinates -/

/-- the row stored for coordinate value `v` (first occurrence), if any -/
def lookupBy {α : Type} (v : XR) (keys : List XR) (rows : List α) : Option α :=
  ((keys.zip rows).find? fun p => XR.eqb v p.1).map (·.2)

/-- the value input `I` stores in its array `a` for the coordinates `c`; NaN when it has no such
time, lead time or location -/
def valueAt (I : Input) (a : Arr3) (c : Coord) : XR :=
  match lookupBy c.1 I.times a with
  | none => .nan
  | some plane =>
    match lookupBy c.2.1 I.leads plane with
    | none => .nan
    | some row => (lookupBy c.2.2 (I.locs.map (·.id)) row).getD .nan

/-- well-formedness: the array has the shape its input declares (times × lead times × locations) -/
def shapeOK (I : Input) (a : Arr3) : Bool :=
  a.length == I.times.length
  && a.all fun plane => plane.length == I.leads.length
      && plane.all fun row => row.length == I.locs.length

/-- every stored field of the input has the declared shape -/
def wfInput (I : Input) : Bool := I.fields.all fun f => shapeOK I f.2

def hasField (name : String) (I : Input) : Bool := (I.field? name).isSome

/-- whose data are used for field `name` of input `I`: its own, except that an input without
observations uses the observations of the first input that has them -/
def supplier (inputs : List Input) (name : String) (I : Input) : Input :=
  if name == "obs" && !hasField "obs" I then (inputs.find? (hasField "obs")).getD I else I

/-- the value of field `name` for input `I` at the coordinates `c` (NaN = missing) -/
def fieldValue (inputs : List Input) (name : String) (I : Input) (c : Coord) : XR :=
  let J := supplier inputs name I
  match J.field? name with
  | none => .nan
  | some a => valueAt J a c

/-! ### verified dimensions -/

structure Dims where
  times : List XR
  leads : List XR
  /-- location ids -/
  locs : List XR
  deriving DecidableEq, Repr, Inhabited

/-- set intersection / difference by value -/
def inter (a b : List XR) : List XR := a.filter fun v => memX v b
def diff (a b : List XR) : List XR := a.filter fun v => !memX v b

/-- ascending, duplicate-free list of the values that every column contains and that are in the
user's list (when one is given) -/
def commonSet (user : Option (List XR)) (cols : List (List XR)) : List XR :=
  sortU ((cols.headD []).filter fun v =>
    cols.all (fun c => memX v c) && (match user with | some u => memX v u | none => true))

/-- ids of the first input's locations that satisfy `p` -/
def idsWhere (first : Input) (p : Loc → Bool) : List XR := (first.locs.filter p).map (·.id)

/-- `-latrange` / `-lonrange` and `-l`: with a range, the first input's locations inside it (and in the
`-l` list); without a range the `-l` list is used as given; `none` = nothing inside the range (error exit) -/
def allowedByRange (first : Input) (cfg : Cfg) : Option (List XR) :=
  let ranged := cfg.latRange.isSome || cfg.lonRange.isSome
  let latR := cfg.latRange.getD (.ninf, .pinf)       -- only the side that was given restricts
  let lonR := cfg.lonRange.getD (.ninf, .pinf)
  let a0 := if ranged then idsWhere first (fun l => inRange latR l.lat && inRange lonR l.lon)
            else first.locs.map (·.id)
  let a1 := match cfg.locations with
    | some ls => if ranged then inter a0 ls else ls
    | none => a0
  if ranged && a1.isEmpty then none else some a1

/-- `-elevrange`; `none` = nothing inside the range (error exit) -/
def allowedByElev (first : Input) (cfg : Cfg) (a1 : List XR) : Option (List XR) :=
  match cfg.elevRange with
  | some r =>
    let a2 := inter a1 (idsWhere first fun l => inRange r l.elev)
    if a2.isEmpty then none else some a2
  | none => some a1

/-- `-lx` -/
def allowedByExclusion (cfg : Cfg) (a2 : List XR) : Option (List XR) :=
  match cfg.locationsX with
  | some xs => some (diff a2 xs)
  | none => some a2

/-- the location ids the user's options allow (`-l`, `-lx`, `-latrange`, `-lonrange`, `-elevrange`;
metadata are those of the first input); `none` = the documented error exits (nothing inside the
lat/lon range, nothing inside the elevation range) -/
def allowedLocs (first : Input) (cfg : Cfg) : Option (List XR) :=
  (allowedByRange first cfg).bind fun a1 => (allowedByElev first cfg a1).bind (allowedByExclusion cfg)

def inDates (cfg : Cfg) (t : XR) : Bool :=
  match cfg.dateStarts with
  | some ds => memX (dayStart t) ds
  | none => true

def inTods (cfg : Cfg) (t : XR) : Bool :=
  match cfg.tods with
  | some hs => memX (hourOfDay t) hs
  | none => true

/-- all inputs: the scored ones followed by the climatology -/
def allInputs (scored : List Input) (cfg : Cfg) : List Input := scored ++ cfg.clim.toList

/-- verified dimensions; `none` = error exit ("No valid times / leadtimes / locations selected", or
a location option that selects nothing) -/
def specDims (scored : List Input) (cfg : Cfg) : Option Dims :=
  let inputs := allInputs scored cfg
  match inputs.head? with
  | none => none
  | some first =>
    match allowedLocs first cfg with
    | none => none
    | some allowed =>
      let tv := commonSet cfg.times (inputs.map (·.times))
      let lv := commonSet cfg.leads (inputs.map (·.leads))
      let xv := commonSet (some allowed) (inputs.map fun I => I.locs.map (·.id))
      if tv.isEmpty || lv.isEmpty || xv.isEmpty then none
      else some { times := tv.filter (fun t => inDates cfg t && inTods cfg t), leads := lv, locs := xv }

/-! ### the cases of a selection -/

/-- all cases, time-major, then lead time, then location -/
def prod3 (T L X : List XR) : List Coord :=
  T.flatMap fun t => L.flatMap fun l => X.map fun x => (t, l, x)

/-- the cases a selection names: everything, the k-th verified time, a group of verified times,
a group of verified lead times, the k-th verified location; an index outside its axis names nothing -/
def selCases (d : Dims) : Sel → List Coord
  | .all => prod3 d.times d.leads d.locs
  | .none => prod3 d.times d.leads d.locs
  | .time i => prod3 (d.times[i]?).toList d.leads d.locs
  | .times idx => prod3 (idx.filterMap fun i => d.times[i]?) d.leads d.locs
  | .leads idx => prod3 d.times (idx.filterMap fun j => d.leads[j]?) d.locs
  | .loc i => prod3 d.times d.leads (d.locs[i]?).toList

/-! ### the answer -/

def checkField (inputs : List Input) (name : String) : Except String Unit :=
  if name == "obs" then
    (if inputs.any (hasField "obs") then .ok () else .error "No files have observations")
  else if inputs.all (hasField name) then .ok () else .error "does not contain"

def checkAll (chk : String → Except String Unit) : List String → Except String Unit
  | [] => .ok ()
  | n :: ns =>
    match chk n with
    | .error e => .error e
    | .ok _ => checkAll chk ns

/-- does the request involve the climatology? -/
def doClim (cfg : Cfg) (fields : List String) : Bool :=
  cfg.clim.isSome && (fields.contains "obs" || fields.contains "fcst")

/-- the fields a request effectively uses: the requested ones and, with a climatology, its forecast -/
def effFields (cfg : Cfg) (fields : List String) : List String :=
  if doClim cfg fields then "fcst" :: fields else fields

def climValue (inputs : List Input) (cfg : Cfg) (c : Coord) : XR :=
  match cfg.clim with
  | some C => fieldValue inputs "fcst" C c
  | none => .nan

/-- the value reported for field `name`: observation and forecast minus (over) the climatology -/
def adjusted (inputs : List Input) (cfg : Cfg) (fields : List String) (I : Input) (name : String)
    (c : Coord) : XR :=
  let v := fieldValue inputs name I c
  if doClim cfg fields && (name == "obs" || name == "fcst") then
    (if cfg.climDivide then v / climValue inputs cfg c else v - climValue inputs cfg c)
  else v

/-- `-obsrange` (inclusive) applies to observations only -/
def obsOK (cfg : Cfg) (name : String) (v : XR) : Bool :=
  match cfg.obsRange with
  | some (lo, hi) => if name == "obs" then !(XR.lt v lo || XR.gt v hi) else true
  | none => true

/-- does the case contribute?  Every input (and the climatology) has a usable value for every field
the request uses, the observation is inside `-obsrange`, the adjusted values are finite. -/
def caseValid (inputs : List Input) (cfg : Cfg) (fields : List String) (I : Input) (c : Coord) : Bool :=
  (effFields cfg fields).all (fun name => inputs.all fun J => isValid (fieldValue inputs name J c))
  && fields.all (fun name => obsOK cfg name (fieldValue inputs name I c))
  && fields.all (fun name => isValid (adjusted inputs cfg fields I name c))

/-- the coordinates contributing to request `r`, in ascending (time, lead time, location) order -/
def specCases (scored : List Input) (cfg : Cfg) (r : Req) : List Coord :=
  match specDims scored cfg, scored[r.input]? with
  | some d, some I => (selCases d r.sel).filter (caseValid (allInputs scored cfg) cfg r.fields I)
  | _, _ => []

/-- the documented answer of `get_scores(fields, input, axis, index)` -/
def specScores (scored : List Input) (cfg : Cfg) (r : Req) : Except String (List Vec) :=
  let inputs := allInputs scored cfg
  match specDims scored cfg with
  | none => .error "init"
  | some d =>
    match scored[r.input]? with
    | none => .error "input_index out of range"
    | some I =>
      match checkAll (checkField inputs) (effFields cfg r.fields) with
      | .error e => .error e
      | .ok _ =>
        let ok := caseValid inputs cfg r.fields I
        let cols := r.fields.map fun name =>
          match r.sel with
          | .all => (selCases d r.sel).map fun c => if ok c then adjusted inputs cfg r.fields I name c else .nan
          | _ => ((selCases d r.sel).filter ok).map (adjusted inputs cfg r.fields I name)
        .ok (if (cols.headD []).isEmpty then List.replicate r.fields.length [.nan] else cols)

/-! ### `-obs FIELD`, `-fcst FIELD`

"Use FIELD as the observation / forecast": the input `I'` is input `I` read that way when it has the same coordinates
and looking up "obs" in `I'` gives what `I` stores under the `-obs` name (nothing when that is a CDF / quantile column
or an ensemble member, which cannot be an observation), "fcst" what it stores under the `-fcst` name, and any other
name what `I` stores under that name. -/

structure ReadsAs (cfg : Cfg) (I I' : Input) : Prop where
  hT : I'.times = I.times
  hL : I'.leads = I.leads
  hX : I'.locs = I.locs
  hObs : I'.field? "obs" = if cfg.obsFieldOK then I.field? cfg.obsField else none
  hFcst : I'.field? "fcst" = I.field? cfg.fcstField
  hOther : ∀ name, name ≠ "obs" → name ≠ "fcst" → I'.field? name = I.field? name

/-- the documented answer under `-obs` / `-fcst`: the specification on the inputs read that way
(`Input.resolved` is such a reading: `resolved_readsAs` in Proofs/DataFields.lean) -/
def specScoresF (scored : List Input) (cfg : Cfg) (r : Req) : Except String (List Vec) :=
  specScores (scored.map (Input.resolved cfg)) cfg.resolved r

/-- the verified dimensions do not depend on which fields are read (coordinates only) -/
def specDimsF (scored : List Input) (cfg : Cfg) : Option Dims :=
  specDims (scored.map (Input.resolved cfg)) cfg.resolved

end VerifModel.Spec.DataCoord
