import VerifModel.Spec.Det
/-
  Spec for C05, part 2: the correlation-type scores and LEPS, as published.

  * Pearson product-moment correlation (Wilks, Statistical Methods in the Atmospheric Sciences,
    ch. 3): r = Σ(x−x̄)(y−ȳ) / (√Σ(x−x̄)² · √Σ(y−ȳ)²); undefined when a series is constant.
  * Average ("mid") ranks for ties: rank of x_i = #{j : x_j < x_i} + (#{j : x_j = x_i} + 1)/2
    (Kendall & Gibbons, Rank Correlation Methods, ch. 3).
  * Spearman rank correlation = Pearson correlation of the average ranks.
  * Kendall tau-b = (C − D) / √((n₀ − n₁)(n₀ − n₂)), C/D = number of concordant/discordant pairs,
    n₀ = n(n−1)/2 pairs, n₁ (n₂) = pairs tied in x (in y) (Kendall 1945).
  * Kling–Gupta efficiency (Gupta, Kling, Yilmaz, Martinez 2009, eq. 9):
    KGE = 1 − √((r−1)² + (σ_f/σ_o − 1)² + (μ_f/μ_o − 1)²).
  * LEPS, linear error in probability space (Ward & Folland 1991; the class description):
    mean |F_o(f_i) − F_o(o_i)| with F_o the empirical cumulative distribution function of the
    observations.

  Everything is on the valid pairs `xs`, `ys` (rational lists of equal length); the square root
  is `Tr.sqrt`.  Undefined cases are NaN behind explicit guards.
-/
namespace VerifModel.Spec.Rank
open VerifModel Spec.Det

/-! ### Pearson -/

/-- Σ (x − x̄)(y − ȳ) -/
def sxy (xs ys : List Rat) : Rat :=
  (List.zipWith (fun x y => (x - mean xs) * (y - mean ys)) xs ys).sum

/-- Σ (x − x̄)² -/
def sxx (xs : List Rat) : Rat := (xs.map fun x => (x - mean xs) ^ 2).sum

def pearson (T : Tr) (xs ys : List Rat) : XR :=
  if sxx xs = 0 ∨ sxx ys = 0 then .nan
  else .fin (sxy xs ys) / (T.sqrt (.fin (sxx xs)) * T.sqrt (.fin (sxx ys)))

/-! ### average ranks, Spearman -/

def countLt (xs : List Rat) (x : Rat) : Nat := (xs.filter fun y => y < x).length
def countEq (xs : List Rat) (x : Rat) : Nat := (xs.filter fun y => y = x).length

/-- average rank of the value `x` in the sample `xs` (1-based) -/
def avgRank (xs : List Rat) (x : Rat) : Rat := (countLt xs x : Rat) + ((countEq xs x : Rat) + 1) / 2

def avgRanks (xs : List Rat) : List Rat := xs.map (avgRank xs)

def spearman (T : Tr) (xs ys : List Rat) : XR := pearson T (avgRanks xs) (avgRanks ys)

/-! ### Kendall tau-b -/

/-- all unordered pairs {i, j}, i < j, of a sample -/
def pairs {α : Type} : List α → List (α × α)
  | [] => []
  | x :: xs => xs.map (fun y => (x, y)) ++ pairs xs

def concordant (p q : Rat × Rat) : Bool := (p.1 < q.1 && p.2 < q.2) || (q.1 < p.1 && q.2 < p.2)
def discordant (p q : Rat × Rat) : Bool := (p.1 < q.1 && q.2 < p.2) || (q.1 < p.1 && p.2 < q.2)

section
variable (xs ys : List Rat)
/-- number of pairs n₀ (= n(n−1)/2) -/
def n0 : Nat := (pairs (xs.zip ys)).length
def nConc : Nat := ((pairs (xs.zip ys)).filter fun pq => concordant pq.1 pq.2).length
def nDisc : Nat := ((pairs (xs.zip ys)).filter fun pq => discordant pq.1 pq.2).length
/-- pairs tied in x / in y -/
def n1 : Nat := ((pairs (xs.zip ys)).filter fun pq => pq.1.1 = pq.2.1).length
def n2 : Nat := ((pairs (xs.zip ys)).filter fun pq => pq.1.2 = pq.2.2).length
end

def tauB (T : Tr) (xs ys : List Rat) : XR :=
  if n1 xs ys = n0 xs ys ∨ n2 xs ys = n0 xs ys then .nan
  else .fin ((nConc xs ys : Rat) - (nDisc xs ys : Rat))
        / T.sqrt (.fin (((n0 xs ys : Rat) - (n1 xs ys : Rat)) * ((n0 xs ys : Rat) - (n2 xs ys : Rat))))

/-! ### Kling–Gupta efficiency -/

def kge (T : Tr) (os fs : List Rat) : XR :=
  if var os = 0 ∨ var fs = 0 then .nan
  else
    let r := pearson T os fs
    let a := T.sqrt (.fin (var fs)) / T.sqrt (.fin (var os))
    let b := XR.fin (mean fs) / XR.fin (mean os)       -- IEEE division: μ_o = 0 gives ±inf or NaN, never a number
    .fin 1 - T.sqrt (XR.npow (r - .fin 1) 2 + XR.npow (a - .fin 1) 2 + XR.npow (b - .fin 1) 2)

/-! ### LEPS -/

/-- empirical cumulative distribution function of the sample `os` -/
def ecdf (os : List Rat) (x : Rat) : Rat := ((os.filter fun o => o ≤ x).length : Rat) / (os.length : Rat)

def leps (os fs : List Rat) : XR :=
  .fin (mean (List.zipWith (fun o f => rabs (ecdf os f - ecdf os o)) os fs))

end VerifModel.Spec.Rank
