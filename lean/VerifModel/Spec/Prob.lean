import VerifModel.Base.XR
import VerifModel.Base.Tr
import VerifModel.Base.Vec
/-
  Spec for C08: textbook definitions of the probabilistic scores, stated on the valid cases
  (rational lists of equal, positive length; `os` = outcome indicators in {0,1} or observed values,
  `ps` = forecast probabilities).  Nothing here refers to how verif computes.

  Sources: Brier 1950 (MWR 78) for the Brier score; Murphy 1973 (J. Appl. Meteor. 12) for the
  partition BS = REL − RES + UNC over K probability bins; Wilks ch. 8 for the Brier skill score
  with the sample climatology as reference (BSS = 1 − BS/UNC = (RES − REL)/UNC); Koenker & Bassett
  1978 for the quantile ("pinball", "check") loss; Hyndman & Fan 1996 definition 9 for the sample
  quantile (`normal_unbiased`); Roulston & Smith 2002 for ignorance (−log₂ of the probability
  given to what happened); the spherical scoring rule (e.g. Gneiting & Raftery 2007, §3);
  Nipen & Stull 2011 (Tellus A 63) for the PIT-histogram deviation; the class descriptions in
  verif/metric.py for marginal ratio, spread, spread–skill ratio, PIT slope and shape.
  Undefined cases are `none` / NaN through explicit guards.
-/
namespace VerifModel.Spec.Prob
open VerifModel

def mean (xs : List Rat) : Rat := xs.sum / xs.length
def sdiv (x y : Rat) : Option Rat := if y = 0 then none else some (x / y)
def toXR : Option Rat → XR
  | none => .nan
  | some q => .fin q

/-! ### event probability, probabilities and quantiles from an ensemble -/

/-- P(lower < X ≤ upper) = F(upper) − F(lower), with F(+∞) = 1 and F(−∞) = 0
(`none` = that end of the interval is infinite) -/
def eventProb (cdfLower cdfUpper : Option Rat) : Rat :=
  (match cdfUpper with | some c => c | none => 1) - (match cdfLower with | some c => c | none => 0)

/-- the members that are present -/
def present (ms : List (Option Rat)) : List Rat := ms.filterMap id

/-- ensemble relative frequency of X ≤ t among the members that are present; undefined without any -/
def ensProb (ms : List (Option Rat)) (t : Rat) : Option Rat :=
  if (present ms).isEmpty then none
  else some (((present ms).filter (· ≤ t)).length / ((present ms).length : Rat))

def insertAsc (x : Rat) : List Rat → List Rat
  | [] => [x]
  | y :: ys => if x ≤ y then x :: y :: ys else y :: insertAsc x ys
def ascending (xs : List Rat) : List Rat := xs.foldr insertAsc []

/-- order statistic x₍ⱼ₎, 1-based, with x₍ⱼ₎ = x₍₁₎ for j < 1 and x₍ⱼ₎ = x₍ₙ₎ for j > n -/
def orderStat (s : List Rat) (j : Int) : Option Rat :=
  if j < 1 then s.head? else if j > s.length then s.getLast? else s[(j - 1).toNat]?

/-- Hyndman & Fan definition 9: Q(p) = x₍ⱼ₎ + γ (x₍ⱼ₊₁₎ − x₍ⱼ₎), m = p/4 + 3/8, j = ⌊np + m⌋,
γ = np + m − j -/
def quantile9 (xs : List Rat) (p : Rat) : Option Rat :=
  let s := ascending xs
  let g : Rat := (s.length : Rat) * p + (p / 4 + 3 / 8)
  let j : Int := g.floor
  match orderStat s j, orderStat s (j + 1) with
  | some a, some b => some (a + (g - (j : Rat)) * (b - a))
  | _, _ => none

/-! ### Brier score and Murphy's partition -/

/-- Brier 1950: mean squared difference between forecast probability and outcome indicator -/
def bs (os ps : List Rat) : Rat := mean (List.zipWith (fun o p => (p - o) ^ 2) os ps)

/-- the K = 10 equally wide probability bins [k/10, (k+1)/10); p = 1 belongs to the top bin -/
def inBin (k : Nat) (p : Rat) : Bool :=
  decide ((k : Rat) / 10 ≤ p) && (decide (p < ((k : Rat) + 1) / 10) || (k == 9 && decide (p = 1)))

/-- the (outcome, probability) pairs of bin k -/
def members (k : Nat) (os ps : List Rat) : List (Rat × Rat) :=
  (os.zip ps).filter fun c => inBin k c.2

/-- Σₖ nₖ·g(p̄ₖ, ōₖ) over the non-empty bins, divided by N -/
def binSum (g : Rat → Rat → Rat) (os ps : List Rat) : Rat :=
  ((List.range 10).map fun k =>
    let m := members k os ps
    if m.isEmpty then 0
    else (m.length : Rat) * g (mean (m.map (·.2))) (mean (m.map (·.1)))).sum / os.length

/-- reliability: (1/N) Σₖ nₖ (p̄ₖ − ōₖ)² -/
def rel (os ps : List Rat) : Rat := binSum (fun pk ok => (pk - ok) ^ 2) os ps
/-- resolution: (1/N) Σₖ nₖ (ōₖ − ō)² -/
def res (os ps : List Rat) : Rat := binSum (fun _ ok => (ok - mean os) ^ 2) os ps
/-- uncertainty: ō (1 − ō) -/
def unc (os : List Rat) : Rat := mean os * (1 - mean os)

/-- Brier skill score against the sample climatology: 1 − BS/UNC; undefined for UNC = 0 -/
def bss (os ps : List Rat) : Option Rat := (sdiv (bs os ps) (unc os)).map fun r => 1 - r
def bssrel (os ps : List Rat) : Option Rat := sdiv (rel os ps) (unc os)
def bssres (os ps : List Rat) : Option Rat := sdiv (res os ps) (unc os)

/-! ### scores of a binary probability forecast -/

/-- the probability the forecast gave to what happened -/
def pOutcome (o p : Rat) : Rat := if o = 1 then p else 1 - p

/-- binary ignorance −log₂ p(outcome), averaged (IEEE mean: probability 0 for what happened gives +∞) -/
def ignTerm (T : Tr) (o p : Rat) : XR :=
  let pe := pOutcome o p
  if pe < 0 then .nan else if pe = 0 then .pinf else .fin (-(T.logQ pe / T.logQ 2))
def ign0 (T : Tr) (os ps : List Rat) : XR := Vec.mean (List.zipWith (ignTerm T) os ps)

/-- spherical score p(outcome) / √(p² + (1−p)²), averaged (IEEE division: √ is a parameter) -/
def sphTerm (T : Tr) (o p : Rat) : XR := XR.fin (pOutcome o p) / T.sqrt (.fin (p ^ 2 + (1 - p) ^ 2))
def spherical (T : Tr) (os ps : List Rat) : XR := Vec.mean (List.zipWith (sphTerm T) os ps)

/-- marginal ratio: observed frequency of the event / mean forecast probability -/
def marginalRatio (os ps : List Rat) : Option Rat := sdiv (mean os) (mean ps)

/-! ### quantile forecasts -/

/-- pinball loss ρ_τ(o − q): τ·(o − q) when the observation is at or above the quantile,
(1 − τ)·(q − o) when it is below -/
def pinball (τ o q : Rat) : Rat := if o < q then (1 - τ) * (q - o) else τ * (o - q)
def quantileScore (τ : Rat) (os qs : List Rat) : Rat := mean (List.zipWith (pinball τ) os qs)

/-- fraction of cases whose observation lies in the interval between the two quantile forecasts
(`lo`/`hi` = none: that side is open-ended; `loEq`/`hiEq`: the end point belongs to the interval) -/
def covered (loEq hiEq : Bool) (o : Rat) (lo hi : Option Rat) : Bool :=
  (match lo with | none => true | some a => if loEq then decide (a ≤ o) else decide (a < o)) &&
  (match hi with | none => true | some b => if hiEq then decide (o ≤ b) else decide (o < b))
def coverage (loEq hiEq : Bool) (cases : List (Rat × Option Rat × Option Rat)) : Rat :=
  ((cases.filter fun c => covered loEq hiEq c.1 c.2.1 c.2.2).length : Rat) / cases.length

/-- spread: mean width of the interval between two quantile forecasts -/
def spread (q0s q1s : List Rat) : Rat := mean (List.zipWith (fun a b => b - a) q0s q1s)

/-- spread–skill ratio: spread in units of standard deviations (`numStd` = half the distance of
the two levels on the standard-normal scale) over the RMSE of the deterministic forecast;
IEEE division: a zero divisor gives ±inf or NaN, never a finite number -/
def spreadSkill (T : Tr) (numStd : XR) (q0s q1s os fs : List Rat) : XR :=
  XR.fin (spread q0s q1s) / numStd /
    T.sqrt (.fin (mean (List.zipWith (fun o f => (o - f) ^ 2) os fs)))

/-! ### PIT histogram statistics (B = 10 bins on [0, 1], the last one closed) -/

def pitIn (k : Nat) (v : Rat) : Bool :=
  decide ((k : Rat) / 10 ≤ v) && (decide (v < ((k : Rat) + 1) / 10) || (k == 9 && decide (v = 1)))
/-- number of PIT values in bin k -/
def pitCounts (pit : List Rat) : List Nat :=
  (List.range 10).map fun k => (pit.filter (pitIn k)).length
/-- histogram normalised to sum 1 (relative frequencies); undefined when nothing was counted -/
def normalise (cs : List Nat) : Option (List Rat) :=
  if cs.sum = 0 then none else some (List.map (fun (c : Nat) => (c : Rat) / ((cs.sum : Nat) : Rat)) cs)
def pitFreqs (pit : List Rat) : Option (List Rat) := normalise (pitCounts pit)

/-- deviation factor D/D₀ (Nipen & Stull 2011): D = √((1/B) Σ (fₖ − 1/B)²),
expected for a calibrated forecast D₀ = √((1 − 1/B)/(N·B)) -/
def pitHistDev (T : Tr) (pit : List Rat) : XR :=
  match pitFreqs pit with
  | none => .nan
  | some f =>
    T.sqrt (.fin ((1 / 10) * (f.map fun x => (x - 1 / 10) ^ 2).sum)) /
      T.sqrt (.fin ((1 - 1 / 10) / ((pit.length : Rat) * 10)))

/-- average slope of the histogram: total rise between the first and last bar over the distance
of their centres, (f₁₀ − f₁)/(9/10) -/
def pitHistSlope (pit : List Rat) : Option Rat :=
  match pitFreqs pit with
  | some [f1, _, _, _, _, _, _, _, _, f10] => some ((f10 - f1) / (9 / 10))
  | _ => none

/-- average second derivative: change of the bar-to-bar slope between the first and the last pair
of bars over the distance of their midpoints, ((f₁₀ − f₉) − (f₂ − f₁))/(1/10) / (8/10) -/
def pitHistShape (pit : List Rat) : Option Rat :=
  match pitFreqs pit with
  | some [f1, f2, _, _, _, _, _, _, f9, f10] => some (((f10 - f9) - (f2 - f1)) / (1 / 10) / (8 / 10))
  | _ => none

end VerifModel.Spec.Prob
