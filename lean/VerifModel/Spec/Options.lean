import VerifModel.Spec.CivilDate
/-
  Spec for C13 — what the help text (`driver.show_description()`) and the docstring of
  `util.parse_numbers` SAY, with no reference to how verif computes it.

  * vector syntax: "vectors can be entered using commas, or MATLAB syntax i.e 3:5 is 3,4,5
    and 3:2:7 is 3,5,7"; `parse_numbers` docstring: `3:5` number range, `3:2:12` range with
    step 2, `3,4:6,2:5:9,6` combinations.  The property adds: a:b and a:step:b include the
    end point, date ranges step by calendar days.
  * the option table: which flag selects which argument of `verif.data.Data(...)` (names from
    the `Data` docstring) or which attribute of the output object, and with which syntax.
-/
namespace VerifModel.Spec.Options

/-! ### vector syntax -/

/-- `x` lies between the start `a` and the end point `b` (inclusive) in the direction of the step -/
def Between (s b x : Rat) : Prop := (0 < s → x ≤ b) ∧ (s < 0 → b ≤ x)

/-- `l` is the documented meaning of `a:s:b`: the values a, a+s, a+2s, … in this order, exactly as
long as they lie between a and b inclusive. -/
def IsRange (a s b : Rat) (l : List Rat) : Prop :=
  ∃ n : Nat, l = (List.range n).map (fun (k : Nat) => a + (k : Rat) * s) ∧
    ∀ k : Nat, k < n ↔ Between s b (a + (k : Rat) * s)

/-! ### the documented option table

(flag, where, name, syntax).  where/name: `data` kw = keyword argument `kw` of `verif.data.Data`,
`out` attr = attribute of the output object, `metric` = the metric to run, `std` cls = selects the
output class `cls` for standard metrics, `list` what = prints that attribute of the dataset.
Syntax names are those of the translator's parser kinds. -/
def documented : List (String × String × String × String) := [
  -- Dimensions and subset
  ("-d", "data", "dates", "dates"),                 -- "A vector of dates in YYYYMMDD format"
  ("-elevrange", "data", "elev_range", "numbers"),  -- "locations within minelev,maxelev"
  ("-l", "data", "locations", "numbers"),           -- "Limit the verification to these location IDs"
  ("-lx", "data", "locations_x", "numbers"),        -- "Remove these locations"
  ("-latrange", "data", "lat_range", "numbers"),    -- "locations within minlat,maxlat"
  ("-lonrange", "data", "lon_range", "numbers"),    -- "locations within minlon,maxlon"
  ("-o", "data", "leadtimes", "numbers"),           -- "these leadtimes (in hours)"
  ("-obsrange", "data", "obs_range", "numbers"),    -- "this range of observation values"
  ("-t", "data", "times", "numbers"),               -- "A vector of unix timestamps"
  ("-tod", "data", "tods", "map:int:numbers"),      -- "A vector of hours of day"
  ("-r", "out", "thresholds", "array:numbers"),     -- "Compute scores using these thresholds"
  ("-q", "out", "quantiles", "array:numbers"),      -- "Compute scores using these quantiles"
  ("-q", "out", "quantiles", "check:unit_interval"),
  ("-x", "out", "axis", "axis"),                    -- "Plot this dimension on the x-axis"
  -- Data manipulation
  ("-acc", "out", "show_acc", "const:True"),        -- "Accumulated values along the x-axis"
  ("-agg", "out", "aggregator", "str"),             -- "Aggregation type" (resolved by name later)
  ("-b", "out", "bin_type", "str"),                 -- "One of 'below' …"
  ("-c", "data", "clim", "input"),                  -- "File containing climatology data. Subtract …"
  ("-c", "data", "clim_type", "const:subtract"),
  ("-C", "data", "clim", "input"),                  -- "… Divide all forecasts and obs by climatology"
  ("-C", "data", "clim_type", "const:divide"),
  ("-fcst", "data", "fcst_field", "field"),         -- "What variable should be used as the forecast?"
  ("-obs", "data", "obs_field", "field"),           -- "… as the observation?"
  ("-T", "data", "dim_agg_length", "int"),          -- "Time-aggregate … across this many hours"
  ("-Tagg", "data", "dim_agg_method", "aggregator"),-- "Time-aggregate with this function"
  ("-Tx", "data", "dim_agg_axis", "axis"),          -- "Time-aggregate across this axis"
  ("-leg", "data", "legend", "label"),              -- "Comma-separated list of legend titles"
  -- what is run
  ("-m", "metric", "", "str"),
  ("-hist", "std", "Hist", "const:True"),           -- "Plot values as histogram"
  ("-sort", "std", "Sort", "const:True"),           -- "Plot values sorted"
  ("--list-times", "list", "times", "const:True"),
  ("--list-dates", "list", "times:date", "const:True"),
  ("--list-locations", "list", "locations", "const:True"),
  ("--list-quantiles", "list", "quantiles", "const:True"),
  ("--list-thresholds", "list", "thresholds", "const:True")]

/-- validations the property lists: (Data keyword, check) -/
def documentedChecks : List (String × String) := [
  ("lat_range", "len2"), ("lon_range", "len2"), ("elev_range", "len2"),
  ("obs_range", "len2"), ("dim_agg_length", "positive")]

/-- the axis names of the help text of `-x` -/
def documentedAxes : List String :=
  ["time", "leadtime", "year", "month", "week", "day", "timeofday", "dayofyear", "monthofyear",
   "location", "elev", "lat", "lon", "threshold", "leadtimeday", "no"]

/-- the aggregator names of the help text of `-agg` (`get_aggregation_string` lists every
aggregator class but `quantile`) -/
def documentedAggregators : List String :=
  ["mean", "median", "min", "max", "std", "variance", "iqr", "range", "count", "sum", "meanabs",
   "absmean", "change", "abschange"]

/-! ### default thresholds and quantiles

The tool says what it does when `-r` is absent and the score needs thresholds on the observed /
forecast values: "Missing '-r <thresholds>'. Automatically setting thresholds: …" followed by 20 values.
Documented reading: 20 evenly spaced values from the smallest to the largest observed / forecast value.
For scores of stored probabilities (Brier score, …) the thresholds are those the files store
probabilities for; for quantile scores ("Use -q to set quantiles") the quantiles the files store. -/

/-- `lo` is the smallest of `vals` -/
def IsMin (vals : List Rat) (lo : Rat) : Prop := lo ∈ vals ∧ ∀ v ∈ vals, lo ≤ v

/-- `hi` is the largest of `vals` -/
def IsMax (vals : List Rat) (hi : Rat) : Prop := hi ∈ vals ∧ ∀ v ∈ vals, v ≤ hi

/-- `l` is the automatic threshold list for the observed / forecast values `vals`: 20 entries, the first
is the smallest value, the last is the largest value, neighbours are the same distance apart -/
def IsAutoThresholds (vals l : List Rat) : Prop :=
  ∃ lo hi step : Rat, IsMin vals lo ∧ IsMax vals hi ∧ l.length = 20 ∧ l[0]? = some lo ∧ l[19]? = some hi ∧
    ∀ k : Nat, k < 19 → ∃ x y : Rat, l[k]? = some x ∧ l[k + 1]? = some y ∧ y - x = step

/-- the number of quantiles a score accepts ("spread between two quantiles": exactly 2; quantile
coverage: one quantile or an interval, 1 or 2): (score, fewest, most) -/
def documentedQuantileCounts : List (String × Nat × Nat) :=
  [("quantilecoverage", 1, 2), ("spread", 2, 2), ("spreadskillratio", 2, 2)]

/-! ### listings

`--list-times`, `--list-dates`, `--list-locations`, `--list-thresholds`, `--list-quantiles`: "What
times / dates / locations / thresholds / quantiles are available in the files?" — one row per verified
value, in ascending order; a location row is `id lat lon elev` under the header line
`    id     lat     lon    elev` (lat / lon with two decimals, elev with one). -/

/-- the precision of the columns of a location row: (column, decimals) -/
def locationColumns : List (String × Nat) := [("id", 0), ("lat", 2), ("lon", 2), ("elev", 1)]

end VerifModel.Spec.Options
