/-
  Spec for C17: the DOCUMENTED table of plot appearance options, written from
  `verif --help` ("Plotting options", driver.show_description) and the property
  statement.  Each appearance flag controls exactly one property of the produced
  figure.  No reference to how verif routes the value.

      -title text        Custom title to chart top
      -titlefs size      Font size for title.
      -xlabel / -ylabel    Custom x/y-axis label          -clabel  Custom colorbar label
      -labfs size        Font size for axis labels
      -xlim / -ylim        Force x/y-axis limits to the two values lower,upper
      -clim              Force colorbar limits (only with -type map)
      -xticks / -yticks    A vector of values to put ticks on the x/y-axis
      -x/yticklabels     A comma-separated list of labels for the x/y-axis ticks
      -xrot / -yrot        Rotation angle for x/y-axis labels
      -xlog / -ylog        Use a logarithmic x/y-axis
      -leg titles        Comma-separated list of legend titles. Use '_' to represent space.
      -legfs size        Font size for legend. Set to 0 to hide legend.
      -legloc loc        Where should the legend be placed? … Use underscore when using two words.
      -lc -ls -lw -ma -ms  Comma-separated lists of line colours / styles / widths / markers / marker
                         sizes; "repeated if there are more lines than" entries
      -tickfs size       Font size for axis ticks       -afs size  Set font size of annotations
      -gc -gs -gw        Colour / line style / line width for grid lines     -nogrid  Turn the grid off
      -sp                Show a line indicating the perfect score
      -aspect ratio      Force the aspect ratio of the plot
      -fs size           Set figure size width,height (in inches)
      -dpi value         Resolution of image in dots per inch
      -left -right -top -bottom   boundary location for saved figure [range 0-1]
      -nomargin          Remove margins (whitespace) in the plot
      -a                 Annotate graph by labeling each data point
      -af fields         Show these fields in the annotation (score,key,lat,lon,elev,location)
      -f file            Save image to this filename (format = file extension)
-/
namespace VerifModel.Spec.Appearance

/-- the observable properties of a produced figure that the appearance options control -/
inductive Field
  | titleText | titleSize | xLabel | yLabel | cLabel | labelSize
  | xLim | yLim | cLim | xTicks | yTicks | xTickLabels | yTickLabels
  | xTickRotation | yTickRotation | xLog | yLog
  | legendEntries | legendSize | legendLoc
  | seriesColor | seriesStyle | seriesWidth | seriesMarker | seriesMarkerSize
  | tickSize | annotationSize
  | gridColor | gridStyle | gridWidth | gridOff
  | perfectLine | aspect | figSize | dpi
  | marginLeft | marginRight | marginTop | marginBottom | marginsRemoved
  | annotate | annotationFields | fileName
  deriving DecidableEq, Repr

def Field.all : List Field :=
  [.titleText, .titleSize, .xLabel, .yLabel, .cLabel, .labelSize, .xLim, .yLim, .cLim, .xTicks, .yTicks,
   .xTickLabels, .yTickLabels, .xTickRotation, .yTickRotation, .xLog, .yLog, .legendEntries, .legendSize,
   .legendLoc, .seriesColor, .seriesStyle, .seriesWidth, .seriesMarker, .seriesMarkerSize, .tickSize,
   .annotationSize, .gridColor, .gridStyle, .gridWidth, .gridOff, .perfectLine, .aspect, .figSize, .dpi,
   .marginLeft, .marginRight, .marginTop, .marginBottom, .marginsRemoved, .annotate, .annotationFields,
   .fileName]

/-- name of the field in the canonical FigProps line -/
def Field.name : Field → String
  | .titleText => "title" | .titleSize => "titlefs" | .xLabel => "xlabel" | .yLabel => "ylabel"
  | .cLabel => "clabel" | .labelSize => "labfs" | .xLim => "xlim" | .yLim => "ylim" | .cLim => "clim"
  | .xTicks => "xticks" | .yTicks => "yticks" | .xTickLabels => "xticklabels" | .yTickLabels => "yticklabels"
  | .xTickRotation => "xrot" | .yTickRotation => "yrot" | .xLog => "xlog" | .yLog => "ylog"
  | .legendEntries => "leg" | .legendSize => "legfs" | .legendLoc => "legloc"
  | .seriesColor => "lc" | .seriesStyle => "ls" | .seriesWidth => "lw" | .seriesMarker => "ma"
  | .seriesMarkerSize => "ms" | .tickSize => "tickfs" | .annotationSize => "afs"
  | .gridColor => "gc" | .gridStyle => "gs" | .gridWidth => "gw" | .gridOff => "nogrid"
  | .perfectLine => "sp" | .aspect => "aspect" | .figSize => "fs" | .dpi => "dpi"
  | .marginLeft => "left" | .marginRight => "right" | .marginTop => "top" | .marginBottom => "bottom"
  | .marginsRemoved => "nomargin" | .annotate => "a" | .annotationFields => "af" | .fileName => "fmt"

/-- documented type of an option's value -/
inductive ValueKind
  | text            -- free text
  | textUnderscore  -- free text, '_' stands for a blank
  | number          -- one real number (fractions allowed)
  | integer         -- one integer
  | numbers         -- comma separated real numbers
  | sizes           -- comma separated sizes (real numbers)
  | pair            -- width,height: two real numbers
  | words           -- comma separated words
  | wordsUnderscore -- comma separated words, '_' stands for a blank
  | colors          -- comma separated colours: names, [r,g,b], grey levels
  | color           -- one colour in any of these forms
  | flag            -- no value
  deriving DecidableEq, Repr

structure Entry where
  flag : String
  field : Field
  kind : ValueKind
  deriving DecidableEq, Repr

/-- THE documented table: appearance flag ↦ figure property it controls, and the type of its value -/
def table : List Entry :=
  [⟨"-title", .titleText, .textUnderscore⟩,
   ⟨"-titlefs", .titleSize, .number⟩,
   ⟨"-xlabel", .xLabel, .text⟩,
   ⟨"-ylabel", .yLabel, .text⟩,
   ⟨"-clabel", .cLabel, .text⟩,
   ⟨"-labfs", .labelSize, .number⟩,
   ⟨"-xlim", .xLim, .numbers⟩,
   ⟨"-ylim", .yLim, .numbers⟩,
   ⟨"-clim", .cLim, .numbers⟩,
   ⟨"-xticks", .xTicks, .numbers⟩,
   ⟨"-yticks", .yTicks, .numbers⟩,
   ⟨"-xticklabels", .xTickLabels, .words⟩,
   ⟨"-yticklabels", .yTickLabels, .words⟩,
   ⟨"-xrot", .xTickRotation, .number⟩,
   ⟨"-yrot", .yTickRotation, .number⟩,
   ⟨"-xlog", .xLog, .flag⟩,
   ⟨"-ylog", .yLog, .flag⟩,
   ⟨"-leg", .legendEntries, .wordsUnderscore⟩,
   ⟨"-legfs", .legendSize, .number⟩,
   ⟨"-legloc", .legendLoc, .textUnderscore⟩,
   ⟨"-lc", .seriesColor, .colors⟩,
   ⟨"-ls", .seriesStyle, .words⟩,
   ⟨"-lw", .seriesWidth, .numbers⟩,
   ⟨"-ma", .seriesMarker, .words⟩,
   ⟨"-ms", .seriesMarkerSize, .sizes⟩,
   ⟨"-tickfs", .tickSize, .number⟩,
   ⟨"-afs", .annotationSize, .number⟩,
   ⟨"-gc", .gridColor, .color⟩,
   ⟨"-gs", .gridStyle, .text⟩,
   ⟨"-gw", .gridWidth, .number⟩,
   ⟨"-nogrid", .gridOff, .flag⟩,
   ⟨"-sp", .perfectLine, .flag⟩,
   ⟨"-aspect", .aspect, .number⟩,
   ⟨"-fs", .figSize, .pair⟩,
   ⟨"-dpi", .dpi, .integer⟩,
   ⟨"-left", .marginLeft, .number⟩,
   ⟨"-right", .marginRight, .number⟩,
   ⟨"-top", .marginTop, .number⟩,
   ⟨"-bottom", .marginBottom, .number⟩,
   ⟨"-nomargin", .marginsRemoved, .flag⟩,
   ⟨"-a", .annotate, .flag⟩,
   ⟨"-af", .annotationFields, .words⟩,
   ⟨"-f", .fileName, .text⟩]

def flags : List String := table.map (·.flag)

/-- '_' stands for a blank (documented for -leg and -legloc; the same convention is applied to -title) -/
def underscoreToSpace (s : String) : String := s.map fun c => if c = '_' then ' ' else c

def usesUnderscore (flag : String) : Bool :=
  table.any fun e => (e.kind == .textUnderscore || e.kind == .wordsUnderscore) && e.flag == flag

/-- the value the documented figure property takes when `flag` is given `v` (`1` for a flag without value) -/
def value (flag v : String) : String :=
  if usesUnderscore flag then underscoreToSpace v else v

/-- Documented dependencies `(o, o')`: the property controlled by `o` can only be observed when `o'`
    allows it (grid styling needs a grid, legend placement/text needs a visible legend, annotation
    contents need annotations, the resolution needs an image file, tick labels label the given ticks,
    the four boundary locations are void once the margins are removed).  Everything else must be
    independent. -/
def dependsOn : List (String × String) :=
  [("-gc", "-nogrid"), ("-gs", "-nogrid"), ("-gw", "-nogrid"),
   ("-leg", "-legfs"), ("-legloc", "-legfs"),
   ("-af", "-a"), ("-afs", "-a"),
   ("-dpi", "-f"),
   ("-xticklabels", "-xticks"), ("-yticklabels", "-yticks"),
   ("-left", "-nomargin"), ("-right", "-nomargin"), ("-top", "-nomargin"), ("-bottom", "-nomargin")]

/-! ### Plot kinds

The figures of the check: every documented diagram (`verif --help`, "Special diagrams", and the
`-hist` / `-sort` variants), the standard plot of a metric on a lead-time, a location and a date
axis, and the plot types `map`, `rank`, `impact`, `maprank` of a standard metric.  What follows is
read off the descriptions of the diagrams, not off the plotting code:

  * "one line per input": the diagram shows one curve (or one set of points / bars) for each input
    file, so the per-input style lists `-lc -ls -lw -ma -ms` ("repeated if there are more lines
    than …") have something to apply to.  The PIT histogram (one grey histogram per input), the
    against diagram (pairs of inputs, colours mean "which input is better"), the meteogram (one
    input; observation red, forecast green, quantiles black), the maps and the impact diagram
    (red / blue = which input is worse) do not.
  * a point diagram (scatter, Taylor, performance, error decomposition, Brier decomposition,
    auto-correlation; the standard plot on a location axis) has no connecting line, so a line style
    has nothing to show there; bars (discrimination diagram, rank plot) take colour (and the
    discrimination diagram an outline width), not markers or line styles.
  * diagrams made of several panels of equal rank (PIT histograms, against diagram, maps, the two
    stacked panels of the ignorance-contribution diagram): axis options apply to every panel.
  * a legend names the inputs wherever inputs are distinguished by a legend; the PIT histogram and
    the against diagram name them in titles / axis labels, the map in titles: no legend.  The
    meteogram's legend names its own lines (observation, forecast, quantiles), not the input.
  * the x-axis of `-x time`, of the time series and of the meteogram shows dates.
  * a perfect score exists (and `-sp` can show it) for a metric with a perfect score (the standard
    plot, the change diagram: MAE 0), for the forecast-against-observation diagrams (the diagonal:
    Q-Q, scatter, conditional, reliability), for the ROC diagrams (through hit rate 1 at false-alarm
    rate 0) and for the spread-skill diagram. -/

/-- a figure of the check: name used in the op lines and the command-line arguments that produce it -/
structure Kind where
  name : String
  /-- `-m` -/
  metric : String
  /-- `-hist` / `-sort` (a field plotted as histogram / sorted), `` otherwise -/
  variant : String := ""
  /-- `-type`, `` = plot -/
  ptype : String := ""
  /-- `-x`, `` = the diagram's own axis -/
  xaxis : String := ""
  deriving DecidableEq, Repr

def kinds : List Kind :=
  [⟨"mae", "mae", "", "", "leadtime"⟩, ⟨"loc", "mae", "", "", "location"⟩, ⟨"time", "mae", "", "", "time"⟩,
   ⟨"map", "mae", "", "map", ""⟩, ⟨"rank", "mae", "", "rank", ""⟩, ⟨"impact", "mae", "", "impact", ""⟩,
   ⟨"maprank", "mae", "", "maprank", ""⟩,
   ⟨"hist", "fcst", "-hist", "", ""⟩, ⟨"sort", "fcst", "-sort", "", ""⟩,
   ⟨"against", "against", "", "", ""⟩, ⟨"autocorr", "autocorr", "", "", ""⟩, ⟨"autocov", "autocov", "", "", ""⟩,
   ⟨"bsdecomp", "bsdecomp", "", "", ""⟩, ⟨"change", "change", "", "", ""⟩, ⟨"cond", "cond", "", "", ""⟩,
   ⟨"droc", "droc", "", "", ""⟩, ⟨"droc0", "droc0", "", "", ""⟩, ⟨"discrimination", "discrimination", "", "", ""⟩,
   ⟨"economicvalue", "economicvalue", "", "", ""⟩, ⟨"error", "error", "", "", ""⟩, ⟨"freq", "freq", "", "", ""⟩,
   ⟨"fss", "fss", "", "", ""⟩, ⟨"igncontrib", "igncontrib", "", "", ""⟩,
   ⟨"invreliability", "invreliability", "", "", ""⟩, ⟨"marginal", "marginal", "", "", ""⟩,
   ⟨"meteo", "meteo", "", "", ""⟩, ⟨"murphy", "murphy", "", "", ""⟩, ⟨"obsfcst", "obsfcst", "", "", ""⟩,
   ⟨"performance", "performance", "", "", ""⟩, ⟨"pithist", "pithist", "", "", ""⟩, ⟨"qq", "qq", "", "", ""⟩,
   ⟨"reliability", "reliability", "", "", ""⟩, ⟨"roc", "roc", "", "", ""⟩, ⟨"scatter", "scatter", "", "", ""⟩,
   ⟨"spreadskill", "spreadskill", "", "", ""⟩, ⟨"taylor", "taylor", "", "", ""⟩,
   ⟨"timeseries", "timeseries", "", "", ""⟩]

def kindOf (plot : String) : Option Kind := kinds.find? fun k => k.name == plot

/-- one line per input, joined by a line -/
def lineKinds : List String :=
  ["mae", "time", "reliability", "qq", "cond", "freq", "marginal", "invreliability", "roc", "droc", "droc0",
   "spreadskill", "murphy", "economicvalue", "igncontrib", "fss", "timeseries", "change", "obsfcst", "hist", "sort"]

/-- one set of points per input, not joined -/
def pointKinds : List String :=
  ["loc", "scatter", "performance", "taylor", "error", "bsdecomp", "autocorr", "autocov"]

/-- one set of bars per input (discrimination diagram) / per rank (rank plot) -/
def barKinds : List String := ["discrimination", "rank"]

/-- several panels of equal rank -/
def panelKinds : List String := ["pithist", "against", "map", "igncontrib"]

/-- no legend at all -/
def noLegendKinds : List String := ["pithist", "against", "map"]

/-- a legend that does not name the inputs -/
def ownLegendKinds : List String := ["meteo"]

/-- the x-axis shows dates: `-xlim` / `-xticks` are dates (YYYYMMDD, verif's notation for dates everywhere) -/
def dateAxisKinds : List String := ["time", "timeseries", "meteo"]

/-- `-sp` has a perfect score to show -/
def perfectKinds : List String :=
  ["mae", "loc", "time", "change", "qq", "scatter", "cond", "reliability", "roc", "droc", "droc0", "spreadskill"]

def dateAxis (plot : String) : Bool := dateAxisKinds.contains plot

/-- Documented / structural applicability of a property to a plot kind: colour bar options "only … in
    combination with -type map"; annotations "not supported by all metrics" (checked on the standard plot
    and the map); the rest as described above. -/
def applicable (plot : String) (f : Field) : Bool :=
  match f with
  | .cLabel | .cLim => plot == "map"
  | .annotate | .annotationFields | .annotationSize => plot == "mae" || plot == "loc" || plot == "map"
  | .seriesColor => lineKinds.contains plot || pointKinds.contains plot || barKinds.contains plot
  | .seriesWidth => lineKinds.contains plot || plot == "loc" || plot == "discrimination"
  | .seriesMarker | .seriesMarkerSize => lineKinds.contains plot || pointKinds.contains plot
  | .seriesStyle => lineKinds.contains plot
  | .legendEntries => !(noLegendKinds.contains plot || ownLegendKinds.contains plot)
  | .legendSize | .legendLoc => !(noLegendKinds.contains plot)
  | .perfectLine => perfectKinds.contains plot
  | _ => true

end VerifModel.Spec.Appearance
