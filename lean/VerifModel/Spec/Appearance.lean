/-
  Spec for C17: the DOCUMENTED table of plot appearance options, written from
  `verif --help` ("Plotting options", driver.show_description) and the property
  statement.  Each appearance flag controls exactly one property of the produced
  figure.  No reference to how verif routes the value.

      -title text        Custom title to chart top
      -titlefs size      Font size for title.
      -xlabel / -ylabel    Custom x/y-axis label          -clabel  Custom colorbar label
      -labfs size        Font size for axis labels
      -xlim / -ylim        Force x/y-axis limits to the two values lower,upper
      -clim              Force colorbar limits (only with -type map)
      -xticks / -yticks    A vector of values to put ticks on the x/y-axis
      -x/yticklabels     A comma-separated list of labels for the x/y-axis ticks
      -xrot / -yrot        Rotation angle for x/y-axis labels
      -xlog / -ylog        Use a logarithmic x/y-axis
      -leg titles        Comma-separated list of legend titles. Use '_' to represent space.
      -legfs size        Font size for legend. Set to 0 to hide legend.
      -legloc loc        Where should the legend be placed? … Use underscore when using two words.
      -lc -ls -lw -ma -ms  Comma-separated lists of line colours / styles / widths / markers / marker
                         sizes; "repeated if there are more lines than" entries
      -tickfs size       Font size for axis ticks       -afs size  Set font size of annotations
      -gc -gs -gw        Colour / line style / line width for grid lines     -nogrid  Turn the grid off
      -sp                Show a line indicating the perfect score
      -aspect ratio      Force the aspect ratio of the plot
      -fs size           Set figure size width,height (in inches)
      -dpi value         Resolution of image in dots per inch
      -left -right -top -bottom   boundary location for saved figure [range 0-1]
      -nomargin          Remove margins (whitespace) in the plot
      -a                 Annotate graph by labeling each data point
      -af fields         Show these fields in the annotation (score,key,lat,lon,elev,location)
      -f file            Save image to this filename (format = file extension)
-/
namespace VerifModel.Spec.Appearance

/-- the observable properties of a produced figure that the appearance options control -/
inductive Field
  | titleText | titleSize | xLabel | yLabel | cLabel | labelSize
  | xLim | yLim | cLim | xTicks | yTicks | xTickLabels | yTickLabels
  | xTickRotation | yTickRotation | xLog | yLog
  | legendEntries | legendSize | legendLoc
  | seriesColor | seriesStyle | seriesWidth | seriesMarker | seriesMarkerSize
  | tickSize | annotationSize
  | gridColor | gridStyle | gridWidth | gridOff
  | perfectLine | aspect | figSize | dpi
  | marginLeft | marginRight | marginTop | marginBottom | marginsRemoved
  | annotate | annotationFields | fileName
  deriving DecidableEq, Repr

def Field.all : List Field :=
  [.titleText, .titleSize, .xLabel, .yLabel, .cLabel, .labelSize, .xLim, .yLim, .cLim, .xTicks, .yTicks,
   .xTickLabels, .yTickLabels, .xTickRotation, .yTickRotation, .xLog, .yLog, .legendEntries, .legendSize,
   .legendLoc, .seriesColor, .seriesStyle, .seriesWidth, .seriesMarker, .seriesMarkerSize, .tickSize,
   .annotationSize, .gridColor, .gridStyle, .gridWidth, .gridOff, .perfectLine, .aspect, .figSize, .dpi,
   .marginLeft, .marginRight, .marginTop, .marginBottom, .marginsRemoved, .annotate, .annotationFields,
   .fileName]

/-- name of the field in the canonical FigProps line -/
def Field.name : Field → String
  | .titleText => "title" | .titleSize => "titlefs" | .xLabel => "xlabel" | .yLabel => "ylabel"
  | .cLabel => "clabel" | .labelSize => "labfs" | .xLim => "xlim" | .yLim => "ylim" | .cLim => "clim"
  | .xTicks => "xticks" | .yTicks => "yticks" | .xTickLabels => "xticklabels" | .yTickLabels => "yticklabels"
  | .xTickRotation => "xrot" | .yTickRotation => "yrot" | .xLog => "xlog" | .yLog => "ylog"
  | .legendEntries => "leg" | .legendSize => "legfs" | .legendLoc => "legloc"
  | .seriesColor => "lc" | .seriesStyle => "ls" | .seriesWidth => "lw" | .seriesMarker => "ma"
  | .seriesMarkerSize => "ms" | .tickSize => "tickfs" | .annotationSize => "afs"
  | .gridColor => "gc" | .gridStyle => "gs" | .gridWidth => "gw" | .gridOff => "nogrid"
  | .perfectLine => "sp" | .aspect => "aspect" | .figSize => "fs" | .dpi => "dpi"
  | .marginLeft => "left" | .marginRight => "right" | .marginTop => "top" | .marginBottom => "bottom"
  | .marginsRemoved => "nomargin" | .annotate => "a" | .annotationFields => "af" | .fileName => "fmt"

/-- documented type of an option's value -/
inductive ValueKind
  | text            -- free text
  | textUnderscore  -- free text, '_' stands for a blank
  | number          -- one real number (fractions allowed)
  | integer         -- one integer
  | numbers         -- comma separated real numbers
  | sizes           -- comma separated sizes (real numbers)
  | pair            -- width,height: two real numbers
  | words           -- comma separated words
  | wordsUnderscore -- comma separated words, '_' stands for a blank
  | colors          -- comma separated colours: names, [r,g,b], grey levels
  | color           -- one colour in any of these forms
  | flag            -- no value
  deriving DecidableEq, Repr

structure Entry where
  flag : String
  field : Field
  kind : ValueKind
  deriving DecidableEq, Repr

/-- THE documented table: appearance flag ↦ figure property it controls, and the type of its value -/
def table : List Entry :=
  [⟨"-title", .titleText, .textUnderscore⟩,
   ⟨"-titlefs", .titleSize, .number⟩,
   ⟨"-xlabel", .xLabel, .text⟩,
   ⟨"-ylabel", .yLabel, .text⟩,
   ⟨"-clabel", .cLabel, .text⟩,
   ⟨"-labfs", .labelSize, .number⟩,
   ⟨"-xlim", .xLim, .numbers⟩,
   ⟨"-ylim", .yLim, .numbers⟩,
   ⟨"-clim", .cLim, .numbers⟩,
   ⟨"-xticks", .xTicks, .numbers⟩,
   ⟨"-yticks", .yTicks, .numbers⟩,
   ⟨"-xticklabels", .xTickLabels, .words⟩,
   ⟨"-yticklabels", .yTickLabels, .words⟩,
   ⟨"-xrot", .xTickRotation, .number⟩,
   ⟨"-yrot", .yTickRotation, .number⟩,
   ⟨"-xlog", .xLog, .flag⟩,
   ⟨"-ylog", .yLog, .flag⟩,
   ⟨"-leg", .legendEntries, .wordsUnderscore⟩,
   ⟨"-legfs", .legendSize, .number⟩,
   ⟨"-legloc", .legendLoc, .textUnderscore⟩,
   ⟨"-lc", .seriesColor, .colors⟩,
   ⟨"-ls", .seriesStyle, .words⟩,
   ⟨"-lw", .seriesWidth, .numbers⟩,
   ⟨"-ma", .seriesMarker, .words⟩,
   ⟨"-ms", .seriesMarkerSize, .sizes⟩,
   ⟨"-tickfs", .tickSize, .number⟩,
   ⟨"-afs", .annotationSize, .number⟩,
   ⟨"-gc", .gridColor, .color⟩,
   ⟨"-gs", .gridStyle, .text⟩,
   ⟨"-gw", .gridWidth, .number⟩,
   ⟨"-nogrid", .gridOff, .flag⟩,
   ⟨"-sp", .perfectLine, .flag⟩,
   ⟨"-aspect", .aspect, .number⟩,
   ⟨"-fs", .figSize, .pair⟩,
   ⟨"-dpi", .dpi, .integer⟩,
   ⟨"-left", .marginLeft, .number⟩,
   ⟨"-right", .marginRight, .number⟩,
   ⟨"-top", .marginTop, .number⟩,
   ⟨"-bottom", .marginBottom, .number⟩,
   ⟨"-nomargin", .marginsRemoved, .flag⟩,
   ⟨"-a", .annotate, .flag⟩,
   ⟨"-af", .annotationFields, .words⟩,
   ⟨"-f", .fileName, .text⟩]

def flags : List String := table.map (·.flag)

/-- '_' stands for a blank (documented for -leg and -legloc; the same convention is applied to -title) -/
def underscoreToSpace (s : String) : String := s.map fun c => if c = '_' then ' ' else c

def usesUnderscore (flag : String) : Bool :=
  table.any fun e => (e.kind == .textUnderscore || e.kind == .wordsUnderscore) && e.flag == flag

/-- the value the documented figure property takes when `flag` is given `v` (`1` for a flag without value) -/
def value (flag v : String) : String :=
  if usesUnderscore flag then underscoreToSpace v else v

/-- Documented dependencies `(o, o')`: the property controlled by `o` can only be observed when `o'`
    allows it (grid styling needs a grid, legend placement/text needs a visible legend, annotation
    contents need annotations, the resolution needs an image file, tick labels label the given ticks,
    the four boundary locations are void once the margins are removed).  Everything else must be
    independent. -/
def dependsOn : List (String × String) :=
  [("-gc", "-nogrid"), ("-gs", "-nogrid"), ("-gw", "-nogrid"),
   ("-leg", "-legfs"), ("-legloc", "-legfs"),
   ("-af", "-a"), ("-afs", "-a"),
   ("-dpi", "-f"),
   ("-xticklabels", "-xticks"), ("-yticklabels", "-yticks"),
   ("-left", "-nomargin"), ("-right", "-nomargin"), ("-top", "-nomargin"), ("-bottom", "-nomargin")]

/-- Plot kinds of the check and the documented / structural applicability of a property:
    colour bar options "only … in combination with -type map"; annotations "not supported by all
    metrics" (checked on the standard plot and the map); per-input line styles and a legend exist
    only where the plot draws one line per input (standard plot, reliability diagram); a perfect-score
    line only where a metric with a perfect score is plotted (standard plot). -/
def applicable (plot : String) (f : Field) : Bool :=
  let standard := plot == "mae" || plot == "loc"
  match f with
  | .cLabel | .cLim => plot == "map"
  | .annotate | .annotationFields | .annotationSize => standard || plot == "map"
  | .seriesColor | .seriesWidth | .seriesMarker | .seriesMarkerSize => standard || plot == "reliability"
  | .seriesStyle => plot == "mae" || plot == "reliability"
  | .legendEntries | .legendSize | .legendLoc => standard || plot == "reliability"
  | .perfectLine => standard
  | _ => true

end VerifModel.Spec.Appearance
