import VerifModel.Model.CalendarLite
/-
  Spec: the textbook successor of a civil (proleptic Gregorian) date.  Separate from
  Spec/Options.lean so that the 1900–2100 kernel check (Proofs/Lemmas/CalChunk) is rebuilt only
  when this definition changes.  (`Date` is just the record of year, month, day.)
-/
namespace VerifModel.Spec.Options

open VerifModel.ParseNumbers.CalendarLite in
/-- the day after `t` in the proleptic Gregorian calendar -/
def nextDay (t : Date) : Date :=
  let leap := (t.y % 4 = 0 ∧ t.y % 100 ≠ 0) ∨ t.y % 400 = 0
  let len := if t.m = 2 then (if leap then 29 else 28)
             else if t.m = 4 ∨ t.m = 6 ∨ t.m = 9 ∨ t.m = 11 then 30 else 31
  if t.d < len then ⟨t.y, t.m, t.d + 1⟩
  else if t.m < 12 then ⟨t.y, t.m + 1, 1⟩
  else ⟨t.y + 1, 1, 1⟩

open VerifModel.ParseNumbers.CalendarLite in
/-- `k` calendar days after `t` -/
def addDays : Nat → Date → Date
  | 0, t => t
  | k + 1, t => addDays k (nextDay t)

end VerifModel.Spec.Options
