/-
  Spec: "lead-time day is the whole number of 24 h periods" of a lead time, stated
  without reference to Python's `int()`.

  A lead time of `l` hours contains `⌊|l| / 24⌋` whole periods of 24 h.  They are counted
  forwards from the initialisation time for `l ≥ 0` and backwards (negative) for `l < 0`
  (an analysis or a forecast verified before its initialisation time): the whole number of
  periods is the integer part of `l / 24`.  Under this reading -0.5 h has 0 whole periods
  (like +0.5 h) and -24.5 h has -1.
-/
namespace VerifModel.Spec.LeadTime

/-- the whole number of 24 h periods in a lead time of `l` hours, with the sign of `l` -/
def wholeDays (l : Rat) : Int :=
  if 0 ≤ l then (l / 24).floor else -((-l) / 24).floor

end VerifModel.Spec.LeadTime
