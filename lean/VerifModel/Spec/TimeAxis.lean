import VerifModel.Spec.Calendar
/-
  Spec for C17, date axes: where a date lies on the x-axis of a figure whose x-axis shows dates
  (`-x time`, the time series, the meteogram).

  The points of such a figure are drawn at the matplotlib date number of their time, which is the
  time in days since 1970-01-01T00:00 UTC (matplotlib ≥ 3.3, `date.epoch` left at its default): the
  forecast initialised at unix time `t` sits at `t / 86400`.  "-xlim lower,upper: Force x-axis limits
  to the two values" therefore means, for two dates given in verif's date notation YYYYMMDD (the
  notation of `-d`), that the axis starts and ends at the midnights of those two calendar dates:
  at their distance in days from 1970-01-01.  That distance is stated here with the textbook
  calendar only (`Spec.Cal.addDays`: repeat "the day after"), with no reference to how verif,
  Python or matplotlib count days.
-/
namespace VerifModel.Spec.TimeAxis
open VerifModel.Calendar VerifModel.Spec.Cal

/-- 1970-01-01, where the date axis has its zero -/
def axisOrigin : Date := ⟨1970, 1, 1⟩

/-- `n` is the position of the midnight that begins the calendar date `c` on a date axis:
    `c` is `n` days after 1970-01-01 (`n ≥ 0`), or 1970-01-01 is `-n` days after `c` (`n < 0`). -/
def IsAxisDay (c : Date) (n : Int) : Prop :=
  (0 ≤ n ∧ addDays axisOrigin n.toNat = c) ∨ (n < 0 ∧ addDays c (-n).toNat = axisOrigin)

/-- pointwise: the i-th number is the axis position of the i-th date (and the lists have the same length) -/
def AllAxisDays : List Date → List Int → Prop
  | [], [] => True
  | c :: cs, n :: ns => IsAxisDay c n ∧ AllAxisDays cs ns
  | _, _ => False

/-- the calendar range of the statement (the range on which the calendar arithmetic is verified) -/
def inRange (c : Date) : Prop := validDate c = true ∧ 1900 ≤ c.y ∧ c.y ≤ 2100

end VerifModel.Spec.TimeAxis
