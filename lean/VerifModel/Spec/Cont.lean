import VerifModel.Base.XR
import VerifModel.Base.Tr
/-
  Spec for C06: the textbook definitions of the 25 categorical scores as
  functions of the 2x2 contingency table

        a = hits, b = false alarms, c = misses, d = correct rejections, n = a+b+c+d.

  Sources: Wilks, Statistical Methods in the Atmospheric Sciences, ch. 8;
  Jolliffe & Stephenson, Forecast Verification, ch. 3; Stephenson et al. 2008
  (EDS); Hogan et al. 2009 (SEDS); Ferro & Stephenson 2011 (EDI, SEDI);
  Mason & Weigel 2009 (discrimination score).

  Every definition is evaluated in `Option Rat`: a quotient with a zero
  denominator and the logarithm of a non-positive number are *undefined*
  (`none`), never a number — so a theorem `generated code = Spec` says both
  "the formula is the textbook one" and "the guards are complete: undefined
  cases give NaN, never ±inf and never an arbitrary number".
-/
namespace VerifModel.Spec.Cont
open VerifModel

/-- partial division -/
def sdiv (x y : Rat) : Option Rat := if y = 0 then none else some (x / y)

/-- partial logarithm (natural; only its being a function on positives matters) -/
def slog (T : Tr) (x : Rat) : Option Rat := if 0 < x then some (T.logQ x) else none

def toXR : Option Rat → XR
  | none => .nan
  | some q => .fin q

section
variable (T : Tr) (a b c d : Nat)

def N : Rat := (a : Rat) + b + c + d

/-- fraction of cases that are hits / false alarms / misses / correct rejections -/
def fa_ : Option Rat := sdiv a (N a b c d)
def fb_ : Option Rat := sdiv b (N a b c d)
def fc_ : Option Rat := sdiv c (N a b c d)
def fd_ : Option Rat := sdiv d (N a b c d)

/-- number of cases -/
def n : Option Rat := some (N a b c d)

/-- hit rate H = a/(a+c), false alarm rate F = b/(b+d) -/
def H : Option Rat := sdiv a ((a : Rat) + c)
def F : Option Rat := sdiv b ((b : Rat) + d)

def hit : Option Rat := H a c
def miss : Option Rat := sdiv c ((a : Rat) + c)
def fa : Option Rat := F b d
/-- false alarm ratio b/(a+b) -/
def far : Option Rat := sdiv b ((a : Rat) + b)
/-- threat score (CSI) a/(a+b+c) -/
def threat : Option Rat := sdiv a ((a : Rat) + b + c)
/-- equitable threat score (Gilbert skill score) -/
def ets : Option Rat := do
  let ar ← sdiv (((a : Rat) + b) * (a + c)) (N a b c d)
  sdiv (a - ar) ((a : Rat) + b + c - ar)
/-- proportion correct -/
def pc : Option Rat := sdiv ((a : Rat) + d) (N a b c d)
def baserate : Option Rat := sdiv ((a : Rat) + c) (N a b c d)
def fcstrate : Option Rat := sdiv ((a : Rat) + b) (N a b c d)
/-- frequency bias (a+b)/(a+c) -/
def biasfreq : Option Rat := sdiv ((a : Rat) + b) ((a : Rat) + c)
/-- Heidke skill score -/
def hss : Option Rat :=
  sdiv (2 * ((a : Rat) * d - b * c)) (((a : Rat) + c) * (c + d) + (a + b) * (b + d))
/-- Hanssen-Kuipers / Peirce skill score H − F = (ad − bc)/((a+c)(b+d)) -/
def kss : Option Rat := sdiv ((a : Rat) * d - b * c) (((a : Rat) + c) * (b + d))
/-- odds ratio ad/(bc) and its logarithm -/
def or_ : Option Rat := sdiv ((a : Rat) * d) ((b : Rat) * c)
def lor : Option Rat := do slog T (← or_ a b c d)
/-- Yule's Q (odds ratio skill score) -/
def yulesq : Option Rat := sdiv ((a : Rat) * d - b * c) ((a : Rat) * d + b * c)
/-- discrimination score (2AFC for a binary forecast, Mason & Weigel 2009) -/
def dscore : Option Rat :=
  sdiv ((a : Rat) * d + (1 / 2) * (a * b + c * d)) (((a : Rat) + c) * (b + d))
/-- extremal dependence index (ln F − ln H)/(ln F + ln H) -/
def edi : Option Rat := do
  let lF ← slog T (← F b d)
  let lH ← slog T (← H a c)
  sdiv (lF - lH) (lF + lH)
/-- symmetric extremal dependence index -/
def sedi : Option Rat := do
  let f ← F b d
  let h ← H a c
  let lF ← slog T f
  let lH ← slog T h
  let l1F ← slog T (1 - f)
  let l1H ← slog T (1 - h)
  sdiv (lF - lH - l1F + l1H) (lF + lH + l1F + l1H)
/-- extreme dependency score, with p = (a+c)/n the base rate -/
def eds : Option Rat := do
  let h ← H a c
  let p ← sdiv ((a : Rat) + c) (N a b c d)
  let lp ← slog T p
  let lH ← slog T h
  sdiv (lp - lH) (lp + lH)
/-- symmetric extreme dependency score, with q = (a+b)/n the forecast rate -/
def seds : Option Rat := do
  let h ← H a c
  let p ← sdiv ((a : Rat) + c) (N a b c d)
  let q ← sdiv ((a : Rat) + b) (N a b c d)
  let lq ← slog T q
  let lH ← slog T h
  let lp ← slog T p
  sdiv (lq - lH) (lp + lH)

end

/-- name → textbook definition (names are verif's `-m` names) -/
def eval (T : Tr) (name : String) (a b c d : Nat) : Option (Option Rat) :=
  match name with
  | "a" => some (fa_ a b c d) | "b" => some (fb_ a b c d) | "c" => some (fc_ a b c d)
  | "d" => some (fd_ a b c d) | "n" => some (n a b c d)
  | "hit" => some (hit a c) | "miss" => some (miss a c) | "fa" => some (fa b d)
  | "far" => some (far a b) | "threat" => some (threat a b c) | "ets" => some (ets a b c d)
  | "pc" => some (pc a b c d) | "baserate" => some (baserate a b c d)
  | "fcstrate" => some (fcstrate a b c d) | "biasfreq" => some (biasfreq a b c)
  | "hss" => some (hss a b c d) | "kss" => some (kss a b c d) | "or" => some (or_ a b c d)
  | "lor" => some (lor T a b c d) | "yulesq" => some (yulesq a b c d)
  | "dscore" => some (dscore a b c d) | "edi" => some (edi T a b c d)
  | "sedi" => some (sedi T a b c d) | "eds" => some (eds T a b c d)
  | "seds" => some (seds T a b c d)
  | _ => none

/-- documented perfect scores (metric.py class attributes / textbook) -/
def perfect (name : String) : Option Rat :=
  match name with
  | "hit" | "threat" | "ets" | "pc" | "hss" | "kss" | "yulesq" | "dscore" | "edi" | "sedi"
  | "eds" | "seds" | "biasfreq" => some 1
  | "miss" | "fa" | "far" => some 0
  | _ => none

end VerifModel.Spec.Cont
