import VerifModel.Spec.Scripts
/-
  accumulate "along lead time or time": the trailing window is taken along the COORDINATE of the axis
  ("For each leadtime, sum up values in a specified number of leadtimes leading up to this time", help text
  of scripts/accumulate.py), whatever order the file stores the axis entries in.
-/
namespace VerifModel.Spec.Scripts

/-- how many axis entries lie before coordinate `c` -/
def rankOf (coords : List Rat) (c : Rat) : Nat := coords.countP fun d => decide (d < c)

def insertBy (p : Rat × Option Rat) : List (Rat × Option Rat) → List (Rat × Option Rat)
  | [] => [p]
  | q :: qs => if p.1 < q.1 then p :: q :: qs else q :: insertBy p qs

/-- the (coordinate, value) pairs by ascending coordinate -/
def sortByCoord (ps : List (Rat × Option Rat)) : List (Rat × Option Rat) := ps.foldr insertBy []

/-- the series listed by ascending coordinate -/
def seriesByCoord (coords : List Rat) (x : List (Option Rat)) : List (Option Rat) :=
  (sortByCoord (coords.zip x)).map (·.2)

/-- documented accumulation at the STORED position `i` of a series whose entries have the (distinct)
coordinates `coords`: step `rank(coords[i])` of the series listed by ascending coordinate -/
def accumCoord (w : Nat) (ignore : Bool) (coords : List Rat) (x : List (Option Rat)) (i : Nat) : Option Rat :=
  match coords[i]? with
  | none => none
  | some c => accum w ignore (seriesByCoord coords x) (rankOf coords c)

/-- without `-w`: the running total over all entries up to (and including) this coordinate -/
def cumulativeCoord (ignore : Bool) (coords : List Rat) (x : List (Option Rat)) (i : Nat) : Option Rat :=
  match coords[i]? with
  | none => none
  | some c => cumulative ignore (seriesByCoord coords x) (rankOf coords c)

end VerifModel.Spec.Scripts
