import VerifModel.Base.Tr
import VerifModel.Spec.Stats
import VerifModel.Spec.Cont
import VerifModel.Spec.Events
/-
  Spec for C16: the statistic each diagram is DEFINED to show, stated on plain rational samples
  (the valid cases; `none` = undefined), with no reference to how verif computes.

  Sources: Wilks, Statistical Methods in the Atmospheric Sciences (reliability diagram: per
  probability bin the mean forecast probability, the relative frequency of the event and the
  number of cases; ROC: (false alarm rate, hit rate) per probability level, joined to (0,0) and
  (1,1); discrimination diagram: conditional distributions of the forecast given the event and
  the non-event; Q-Q plot: order statistics against order statistics; PIT / rank histogram:
  fraction of cases per bin); Taylor 2001 (standard deviation as radius, correlation as cosine of
  the angle); Roebber 2009 (success ratio 1 − FAR against POD); Murphy 1973 (Brier score
  decomposition); verif's help texts for obsfcst, cond, freq, hist, sort, marginal, spreadskill,
  error (RMSE² = ME² + CRMSE², ME = mean(forecast − observation) = verif's own `bias`).

  Bins.  A binned diagram with edges e_0 < e_1 < … < e_n covers the range [e_0, e_n]; every value
  of the range belongs to exactly one bin.  Which side an interior edge goes to is the diagram's
  convention (`Conv`).
-/
namespace VerifModel.Spec.Diagram
open VerifModel

inductive Conv where
  | ho      -- lo ≤ x < hi
  | oc      -- lo < x ≤ hi
  | hist    -- lo ≤ x < hi, and the last bin also contains its upper edge (np.histogram)
  | ocf     -- lo < x ≤ hi, and the first bin also contains its lower edge
  deriving DecidableEq, Repr

def edgePairs : List Rat → List (Rat × Rat)
  | a :: b :: rest => (a, b) :: edgePairs (b :: rest)
  | _ => []

/-- pairs with a flag on the last one -/
def edgePairsL : List Rat → List (Rat × Rat × Bool)
  | a :: b :: [] => [(a, b, true)]
  | a :: b :: c :: rest => (a, b, false) :: edgePairsL (b :: c :: rest)
  | _ => []

/-- pairs with a flag on the first one (for `Conv.ocf`) -/
def edgePairsF : List Rat → List (Rat × Rat × Bool)
  | a :: b :: rest => (a, b, true) :: (edgePairsL (b :: rest)).map fun e => (e.1, e.2.1, false)
  | _ => []

def inBin (c : Conv) (e : Rat × Rat × Bool) (x : Rat) : Bool :=
  match c with
  | .ho => decide (e.1 ≤ x ∧ x < e.2.1)
  | .oc => decide (e.1 < x ∧ x ≤ e.2.1)
  | .hist => decide (e.1 ≤ x ∧ (x < e.2.1 ∨ (e.2.2 = true ∧ x = e.2.1)))
  | .ocf => decide ((e.1 < x ∨ (e.2.2 = true ∧ x = e.1)) ∧ x ≤ e.2.1)

/-- number of bins of the convention that contain x -/
def binCount (c : Conv) (edges : List Rat) (x : Rat) : Nat :=
  ((edgePairsL edges).filter fun e => inBin c e x).length

/-- the members of each bin -/
def bins {α : Type} (c : Conv) (edges : List Rat) (key : α → Rat) (cs : List α) : List (List α) :=
  (edgePairsL edges).map fun e => cs.filter fun a => inBin c e (key a)

/-- the same with the flag on the first pair (bins of `Conv.ocf`) -/
def binCountF (c : Conv) (edges : List Rat) (x : Rat) : Nat :=
  ((edgePairsF edges).filter fun e => inBin c e x).length

def binsF {α : Type} (c : Conv) (edges : List Rat) (key : α → Rat) (cs : List α) : List (List α) :=
  (edgePairsF edges).map fun e => cs.filter fun a => inBin c e (key a)

def StrictInc : List Rat → Prop
  | a :: b :: rest => a < b ∧ StrictInc (b :: rest)
  | _ => True

def lastOf : Rat → List Rat → Rat
  | a, [] => a
  | _, b :: rest => lastOf b rest

/-- relative frequency of `true` -/
def freq (l : List Bool) : Option Rat := Stats.mean (l.map fun b => if b then 1 else 0)

/-! ### the defining statistics -/

/-- Q-Q plot: the order statistics of the observations against those of the forecasts -/
def qq (obs fcst : List Rat) : List Rat × List Rat := (Stats.ascending obs, Stats.ascending fcst)

/-- sorted values against their percentile rank 100·i/(n−1) -/
def sorted (v : List Rat) : List Rat × List Rat :=
  (Stats.ascending v, if v.length = 1 then [0] else (List.range v.length).map fun (i : Nat) => 100 * (i : Rat) / ((v.length : Rat) - 1))

/-- reliability diagram, one bin: (mean forecast probability, relative frequency of the event, count).
Cases are (event observed?, forecast probability). -/
def reliabilityBin (b : List (Bool × Rat)) : Option Rat × Option Rat × Nat :=
  (Stats.mean (b.map (·.2)), freq (b.map (·.1)), b.length)

def reliability (c : Conv) (edges : List Rat) (cs : List (Bool × Rat)) : List (Option Rat × Option Rat × Nat) :=
  (bins c edges (·.2) cs).map reliabilityBin

/-- discrimination diagram: percentage of the cases of one class whose probability is in each bin -/
def discrimination (c : Conv) (edges : List Rat) (cs : List (Bool × Rat)) (cls : Bool) : List (Option Rat) :=
  let sel := (cs.filter fun a => a.1 == cls).map (·.2)
  (edgePairsL edges).map fun e => (freq (sel.map fun p => inBin c e p)).map (· * 100)

/-- ROC point of probability level lv: (false alarm rate b/(b+d), hit rate a/(a+c)) of the
forecast "event iff p ≥ lv"; defined when events and non-events both occur -/
def rocPoint (lv : Rat) (cs : List (Bool × Rat)) : Option (Rat × Rat) :=
  let a := cs.countP fun c => decide (lv ≤ c.2) && c.1
  let b := cs.countP fun c => decide (lv ≤ c.2) && !c.1
  let c' := cs.countP fun c => !decide (lv ≤ c.2) && c.1
  let d := cs.countP fun c => !decide (lv ≤ c.2) && !c.1
  if 0 < a + c' ∧ 0 < b + d then some ((b : Rat) / ((b : Rat) + d), (a : Rat) / ((a : Rat) + c')) else none

/-- ROC curve: (1,1), the points of the levels, (0,0) -/
def roc (levels : List Rat) (cs : List (Bool × Rat)) : List (Option (Rat × Rat)) :=
  some (1, 1) :: levels.map (fun lv => rocPoint lv cs) ++ [some (0, 0)]

/-- PIT / rank histogram: percentage of the binned cases per bin -/
def histPercent (c : Conv) (edges : List Rat) (v : List Rat) : List (Option Rat) :=
  let n := (bins c edges id v).map List.length
  n.map fun (k : Nat) => Cont.sdiv ((k : Rat) * 100) ((n.foldr (· + ·) 0 : Nat) : Rat)

/-- histogram of a -b event family: percentage of the values that lie in some event, per event -/
def eventPercent (b : BinType) (ts : List (Rat × Rat)) (v : List Rat) : List (Option Rat) :=
  let n := ts.map fun t => (v.filter fun x => decide (Spec.event b t.1 t.2 x)).length
  n.map fun (k : Nat) => Cont.sdiv ((k : Rat) * 100) ((n.foldr (· + ·) 0 : Nat) : Rat)

/-- frequency of a -b event -/
def eventFreq (b : BinType) (ts : List (Rat × Rat)) (v : List Rat) : List (Option Rat) :=
  ts.map fun t => freq (v.map fun x => decide (Spec.event b t.1 t.2 x))

/-- conditional diagram: per event of the conditioning variable x, (median of x, mean of y) over the
cases whose x lies in the event -/
def cond (b : BinType) (ts : List (Rat × Rat)) (xy : List (Rat × Rat)) : List (Option Rat × Option Rat) :=
  ts.map fun t =>
    let sel := xy.filter fun p => decide (Spec.event b t.1 t.2 p.1)
    (Stats.median (sel.map (·.1)), Stats.mean (sel.map (·.2)))

/-- marginal distribution: (mean forecast probability of the event, relative frequency of the event) -/
def marginal (cs : List (Bool × Rat)) : Option Rat × Option Rat :=
  (Stats.mean (cs.map (·.2)), freq (cs.map (·.1)))

/-- Pearson's r = Σ(x−x̄)(y−ȳ) / (√Σ(x−x̄)² · √Σ(y−ȳ)²) -/
def pearson (T : Tr) (x y : List Rat) : Option Rat := do
  let mx ← Stats.mean x
  let my ← Stats.mean y
  let sxy := Stats.sum (List.zipWith (fun a b => (a - mx) * (b - my)) x y)
  let sxx := Stats.sum (x.map fun a => (a - mx) * (a - mx))
  let syy := Stats.sum (y.map fun b => (b - my) * (b - my))
  Cont.sdiv sxy (T.sqrtQ sxx * T.sqrtQ syy)

/-- Taylor diagram: the point with radius σ_f and angle arccos ρ, i.e. (σ_f ρ, σ_f √(1−ρ²)) -/
def taylor (T : Tr) (obs fcst : List Rat) : Option (Rat × Rat) := do
  let r ← pearson T obs fcst
  let s ← Stats.std T fcst
  some (s * r, s * T.sqrtQ (1 - r * r))

/-- performance diagram: (success ratio 1 − FAR, probability of detection) of a 2×2 table -/
def performance (a b c : Nat) : Option Rat × Option Rat :=
  ((Cont.far a b).map (1 - ·), Cont.hit a c)

/-- error decomposition RMSE² = ME² + CRMSE²: (CRMSE, ME) with ME = mean(forecast − observation) -/
def errorDecomp (T : Tr) (obs fcst : List Rat) : Option (Rat × Rat) := do
  let me ← Stats.mean (List.zipWith (fun o f => f - o) obs fcst)
  let mse ← Stats.mean (List.zipWith (fun o f => (o - f) * (o - f)) obs fcst)
  let rmse := T.sqrtQ mse
  some (T.sqrtQ (rmse * rmse - me * me), me)

/-- spread-skill, one bin: (mean spread, RMSE) over the cases (spread, squared error) of the bin -/
def spreadskillBin (T : Tr) (b : List (Rat × Rat)) : Option Rat × Option Rat :=
  (Stats.mean (b.map (·.1)), (Stats.mean (b.map (·.2))).map T.sqrtQ)

/-- Brier score decomposition with within-bin probabilities (Murphy 1973; Stephenson et al. 2008):
REL = (1/N) Σ_k Σ_{i∈k} (p_i − ō_k)²,  RES = (1/N) Σ_k n_k (ō_k − ō)² -/
def bsTerms (c : Conv) (edges : List Rat) (cs : List (Bool × Rat)) : Option Rat × Option Rat :=
  let bs := bins c edges (·.2) cs
  let ob := fun (l : List (Bool × Rat)) => (freq (l.map (·.1))).getD 0
  (Stats.mean (bs.flatMap fun b => b.map fun a => (a.2 - ob b) * (a.2 - ob b)),
   Stats.mean (bs.flatMap fun b => b.map fun _ => (ob b - ob cs) * (ob b - ob cs)))

/-! ### the shaded band between two envelopes

Two curves given at common abscissae x_0, x_1, … (`none` = the value is missing there).  The band between
them is the polygon that runs along the lower curve from left to right and back along the upper curve from
right to left; a curve passes through exactly the points at which it is defined (abscissa and ordinate both
present), whatever the other curve does there.  (verif: `-m obsfcst -q lo,hi`, `-m meteo`, the reliability
confidence band; docstring of `verif.util.fill`: "Fill an area along x, between y_lower and y_upper".) -/

/-- the points a curve is defined at, in the order of the abscissae -/
def envelope (xs ys : List (Option Rat)) : List (Rat × Rat) :=
  (xs.zip ys).filterMap fun p =>
    match p.1, p.2 with
    | some x, some y => some (x, y)
    | _, _ => none

/-- the band polygon: the lower envelope forward, then the upper envelope backward -/
def band (xs lower upper : List (Option Rat)) : List (Rat × Rat) :=
  envelope xs lower ++ (envelope xs upper).reverse

end VerifModel.Spec.Diagram
