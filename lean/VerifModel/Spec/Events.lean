import VerifModel.Base.XR
import VerifModel.Model.Interval
/-
  Spec for C07: the documented events (driver help text, `-b`):
     below: x < t     below=: x <= t     above: x > t     above=: x >= t
     within: t < x < u   =within: t <= x < u   within=: t < x <= u   =within=: t <= x <= u
  stated on rationals, no reference to how verif computes them.
-/
namespace VerifModel.Spec

def event : BinType → Rat → Rat → Rat → Prop
  | .below, t, _, x => x < t
  | .belowEq, t, _, x => x ≤ t
  | .above, t, _, x => x > t
  | .aboveEq, t, _, x => x ≥ t
  | .within, t, u, x => t < x ∧ x < u
  | .eqWithin, t, u, x => t ≤ x ∧ x < u
  | .withinEq, t, u, x => t < x ∧ x ≤ u
  | .eqWithinEq, t, u, x => t ≤ x ∧ x ≤ u

instance : (b : BinType) → (t u x : Rat) → Decidable (event b t u x)
  | .below, t, _, x => inferInstanceAs (Decidable (x < t))
  | .belowEq, t, _, x => inferInstanceAs (Decidable (x ≤ t))
  | .above, t, _, x => inferInstanceAs (Decidable (x > t))
  | .aboveEq, t, _, x => inferInstanceAs (Decidable (x ≥ t))
  | .within, t, u, x => inferInstanceAs (Decidable (t < x ∧ x < u))
  | .eqWithin, t, u, x => inferInstanceAs (Decidable (t ≤ x ∧ x < u))
  | .withinEq, t, u, x => inferInstanceAs (Decidable (t < x ∧ x ≤ u))
  | .eqWithinEq, t, u, x => inferInstanceAs (Decidable (t ≤ x ∧ x ≤ u))

end VerifModel.Spec
