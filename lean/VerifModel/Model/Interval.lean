import VerifModel.Base.XR
/-
  Model of verif/interval.py (Interval.within), util.apply_threshold,
  util.apply_threshold_prob and util.get_intervals.  Hand-written mirror of
  the code; `Gen/Cmp.lean` is the machine translation of the same functions and
  `Proofs/GenEq/Cmp.lean` proves the two equal.
-/
namespace VerifModel

inductive BinType where
  | below | belowEq | above | aboveEq | within | eqWithin | withinEq | eqWithinEq
  deriving DecidableEq, Repr, Inhabited

namespace BinType
def all : List BinType := [below, belowEq, above, aboveEq, within, eqWithin, withinEq, eqWithinEq]

def name : BinType → String
  | below => "below" | belowEq => "below=" | above => "above" | aboveEq => "above="
  | within => "within" | eqWithin => "=within" | withinEq => "within=" | eqWithinEq => "=within="

def ofName? (s : String) : Option BinType := all.find? (fun b => b.name == s)

def isWithin : BinType → Bool
  | within | eqWithin | withinEq | eqWithinEq => true
  | _ => false
end BinType

structure Interval where
  lower : XR
  upper : XR
  lowerEq : Bool
  upperEq : Bool
  deriving DecidableEq, Repr, Inhabited

namespace Interval

/-- `Interval.within` on a non-NaN value (both the scalar and the array branch
compute this expression). -/
def withinVal (I : Interval) (x : XR) : Bool :=
  let isAbove := XR.gt x I.lower || (I.lowerEq && XR.eqb x I.lower)
  let isBelow := XR.lt x I.upper || (I.upperEq && XR.eqb x I.upper)
  isAbove && isBelow

/-- `Interval.within`: `none` = masked (array branch) / `nan` (scalar branch). -/
def within (I : Interval) (x : XR) : Option Bool :=
  if x.isNan then none else some (I.withinVal x)

/-- `Interval.center` -/
def center (I : Interval) : XR :=
  if XR.eqb I.lower .ninf && XR.eqb I.upper .pinf then .fin 0
  else if XR.eqb I.lower .ninf then I.upper
  else if XR.eqb I.upper .pinf then I.lower
  else (I.lower + I.upper) / .fin 2

end Interval

def boolToXR (b : Bool) : XR := if b then .fin 1 else .fin 0

/-- `util.apply_threshold`, one element.  `none` = the `error(...)` exit. -/
def applyThreshold (b : BinType) (t : XR) (u : Option XR) (x : XR) : Option XR :=
  match b with
  | .below => some (if x.isNan then x else boolToXR (XR.lt x t))
  | .belowEq => some (if x.isNan then x else boolToXR (XR.le x t))
  | .above => some (if x.isNan then x else boolToXR (XR.gt x t))
  | .aboveEq => some (if x.isNan then x else boolToXR (XR.ge x t))
  | .within => u.map fun u => if x.isNan then x else boolToXR (XR.gt x t && XR.lt x u)
  | .withinEq => u.map fun u => if x.isNan then x else boolToXR (XR.gt x t && XR.le x u)
  | .eqWithin => u.map fun u => if x.isNan then x else boolToXR (XR.ge x t && XR.lt x u)
  | .eqWithinEq => u.map fun u => if x.isNan then x else boolToXR (XR.ge x t && XR.le x u)

/-- `util.apply_threshold_prob`, one element -/
def applyThresholdProb (b : BinType) (p : XR) (pu : Option XR) : Option XR :=
  match b with
  | .below | .belowEq => some p
  | .above | .aboveEq => some (.fin 1 - p)
  -- (since 94ea3f0 all four within types take this branch; before, `re.compile("within").match`
  -- was anchored at the start of the string and "=within" / "=within=" returned p unchanged)
  | .within | .withinEq | .eqWithin | .eqWithinEq => pu.map fun pu => pu - p

/-- the interval `get_intervals` builds from one (lower, upper) threshold pair -/
def intervalOf (b : BinType) (t u : XR) : Interval :=
  match b with
  | .below => ⟨.ninf, t, false, false⟩
  | .belowEq => ⟨.ninf, t, false, true⟩
  | .above => ⟨t, .pinf, false, false⟩
  | .aboveEq => ⟨t, .pinf, true, false⟩
  | .within => ⟨t, u, false, false⟩
  | .eqWithin => ⟨t, u, true, false⟩
  | .withinEq => ⟨t, u, false, true⟩
  | .eqWithinEq => ⟨t, u, true, true⟩

/-- consecutive pairs of a list -/
def pairs : List XR → List (XR × XR)
  | a :: b :: rest => (a, b) :: pairs (b :: rest)
  | _ => []

/-- `util.get_intervals` (thresholds = None gives the single closed real line) -/
def getIntervals (b : BinType) (ts : Option (List XR)) : List Interval :=
  match ts with
  | none => [⟨.ninf, .pinf, true, true⟩]
  | some ts =>
    if b.isWithin then (pairs ts).map fun (t, u) => intervalOf b t u
    else ts.map fun t => intervalOf b t t

end VerifModel
