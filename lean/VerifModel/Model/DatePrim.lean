import VerifModel.Base.XR
import VerifModel.Model.Data
/-
  Primitives of the generated file Gen/DateFilter.lean (harness/translate_more.py gen_datefilter): Python's
  arithmetic on a float `t` and a positive integer literal `d`, and `int()`.  Exact rationals stand for the
  doubles (times are whole or half seconds far below 2^53, where these operations are exact).  A non-finite
  time passes through (Python's `int(nan)` raises; Data never holds such a time: they are removed by
  `_get_times`).
-/
namespace VerifModel.DatePrim
open VerifModel

/-- `t // d`: floor of the quotient (not truncation) -/
def floordiv (t : XR) (d : Int) : XR := match t with
  | .fin q => .fin (((q / d).floor : Int) : Rat)
  | x => x
/-- `t % d`: the remainder has the sign of the divisor -/
def pymod (t : XR) (d : Int) : XR := match t with
  | .fin q => .fin (q - (((q / d).floor : Int) : Rat) * d)
  | x => x
/-- `int(x)`: truncation toward zero -/
def trunc (t : XR) : XR := match t with
  | .fin q => .fin (((if 0 ≤ q then q.floor else -((-q).floor)) : Int) : Rat)
  | x => x
def mul (t : XR) (d : Int) : XR := match t with
  | .fin q => .fin (q * d)
  | x => x
/-- `t / d`: true division -/
def div (t : XR) (d : Int) : XR := match t with
  | .fin q => .fin (q / d)
  | x => x

end VerifModel.DatePrim
