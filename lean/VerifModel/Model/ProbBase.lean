import VerifModel.Base.XR
import VerifModel.Base.Tr
/-
  Primitives shared by the generated (Gen/Prob.lean) and the hand-written (Model/Prob.lean)
  model of the probabilistic scores.
-/
namespace VerifModel

/-- `np.log2` through the logarithm parameter of `Tr`: log₂ x = log x / log 2.
(IEEE specials as for `Tr.log`: log2 0 = -inf for log 2 > 0, log2 of a negative number = nan.) -/
def Tr.log2 (T : Tr) (x : XR) : XR := T.log x / T.log (XR.fin 2)

end VerifModel
