import VerifModel.Model.DetMetrics
/-
  Model of the deterministic metrics whose code calls SciPy (RankCorr, KendallCorr) or loops
  (Leps), metric.py:614-726.

  SciPy is a trusted primitive: `scipy.stats.spearmanr` and `scipy.stats.kendalltau` are
  modelled by the quantities their source computes (read in scipy/stats/_stats_py.py), not by
  their sorting algorithms:
  * rankdata(method='average'): `0.5 * (count[dense] + count[dense - 1] + 1)`, i.e. half of
    (number of values ≤ x) + (number of values < x) + 1;
  * spearmanr: `np.corrcoef` of the two rank vectors (`corrCore`, clipped to [-1, 1]);
  * kendalltau: `tot = n(n-1)/2`, `xtie`, `ytie`, `ntie` (pairs tied in x, in y, in both), `dis`
    (discordant pairs); NaN if `xtie == tot or ytie == tot`;
    `con_minus_dis = tot - xtie - ytie + ntie - 2*dis`;
    `tau = con_minus_dis / sqrt(tot - xtie) / sqrt(tot - ytie)` (modelled with one root of the
    product), clipped to [-1, 1].
  The correspondence streams metric.det / metric.small / metric.sequence tie them to the code.

  Leps mirrors the code line by line, including its defect (`np.argsort` where a rank is meant).
-/
namespace VerifModel

/-- `np.minimum(1., max(-1., r))` / np.corrcoef's `np.clip(c, -1, 1)` -/
def clipUnit (r : XR) : XR :=
  if XR.lt (.fin 1) r then .fin 1 else if XR.lt r (.fin (-1)) then .fin (-1) else r

/-- scipy.stats.rankdata, method 'average' -/
def rankdata (v : Vec) : Vec :=
  List.map (fun x => XR.fin ((((v.filter fun y => XR.le y x).length
      + (v.filter fun y => XR.lt y x).length + 1 : Nat) : Rat) / 2)) v

def rankcorr (T : Tr) (obs fcst : Vec) : XR :=
  if obs.length ≤ 1 then .nan
  else corrCore T (rankdata obs) (rankdata fcst)

/-- all pairs (i, j), i < j -/
def pairsOf {α : Type} : List α → List (α × α)
  | [] => []
  | x :: xs => xs.map (fun y => (x, y)) ++ pairsOf xs

def kendallCore (T : Tr) (x y : Vec) : XR :=
  let ps := pairsOf (x.zip y)
  let tot := ps.length
  let xtie := (ps.filter fun p => XR.eqb p.1.1 p.2.1).length
  let ytie := (ps.filter fun p => XR.eqb p.1.2 p.2.2).length
  let ntie := (ps.filter fun p => XR.eqb p.1.1 p.2.1 && XR.eqb p.1.2 p.2.2).length
  let dis := (ps.filter fun p => (XR.lt p.1.1 p.2.1 && XR.lt p.2.2 p.1.2)
                                  || (XR.lt p.2.1 p.1.1 && XR.lt p.1.2 p.2.2)).length
  if xtie = tot ∨ ytie = tot then .nan
  else
    let conMinusDis : Int := (tot : Int) - xtie - ytie + ntie - 2 * dis
    clipUnit (XR.fin (conMinusDis : Rat)
      / T.sqrt (.fin ((((tot : Int) - xtie : Int) : Rat) * (((tot : Int) - ytie : Int) : Rat))))

def kendallcorr (T : Tr) (obs fcst : Vec) : XR :=
  if obs.length ≤ 1 then .nan
  else if XR.eqb (Vec.var fcst) (.fin 0) then .nan
  else kendallCore T obs fcst

/-! ### Leps -/

/-- insertion of (value, index) into a list ascending in the value; used from the last element
to the first, an equal value is placed before the ones already there: a stable argsort.
(`np.argsort`'s default kind is NOT stable: with tied observations the order of the tied indices,
hence verif's LEPS, depends on NumPy's sort implementation; the model takes the stable order.) -/
def argsortIns (p : XR × Nat) : List (XR × Nat) → List (XR × Nat)
  | [] => [p]
  | q :: qs => if XR.lt q.1 p.1 then q :: argsortIns p qs else p :: q :: qs

def withIdx (v : Vec) (k : Nat) : List (XR × Nat) :=
  match v with
  | [] => []
  | x :: xs => (x, k) :: withIdx xs (k + 1)

/-- `np.argsort(obs)` -/
def argsort (v : Vec) : List Nat := ((withIdx v 0).foldr argsortIns []).map (·.2)

/-- `I = np.where(f < sortobs)[0]`: `I[0]` if there is one -/
def firstGreater (f : XR) : Vec → Nat → Option Nat
  | [], _ => none
  | s :: ss, k => if XR.lt f s then some k else firstGreater f ss (k + 1)

/-- one pass of the loop: `qfcst[i] = float(I[0]) / N` if `len(I) > 0` else 1 -/
def lepsQfcst (N : XR) (sortobs : Vec) (f : XR) : XR :=
  match firstGreater f sortobs 0 with
  | some k => XR.ofNat k / N
  | none => .fin 1

/-- Leps._compute_from_obs_fcst with a given argsort result `iobs` -/
def lepsWith (iobs : List Nat) (obs fcst : Vec) : XR :=
  let N := Vec.len obs
  let qobs : Vec := iobs.map fun i => XR.ofNat i / N
  let sortobs := Vec.sort obs
  let qfcst : Vec := fcst.map (lepsQfcst N sortobs)
  Vec.mean (Vec.abs (Vec.sub qfcst qobs))

def leps (obs fcst : Vec) : XR := lepsWith (argsort obs) obs fcst

end VerifModel
