import VerifModel.Model.OutputTable
import VerifModel.Model.Dispatch
/-
  OutputDescs — which list of numbers ends up in the leading ("Threshold") column of a text / csv
  table of a standard metric on `-x threshold`.

  The writers print `descs = {"Threshold": self.thresholds}` (output.py:266-274, 329-337; modelled by
  `OutputTable.selectDescs`) and loop over `range(len(x))`, `x` being the centres of
  `verif.util.get_intervals(self.bin_type, self.thresholds)` (output.py:828-833): one row per interval,
  the leading field of row i is `self.thresholds[i]`.

  What `self.thresholds` IS is decided by the driver (driver.py:511-572, 651-652): `-r`, or the
  thresholds stored in the files, or — for an output / metric whose `require_threshold_type` is
  "quantile" — the QUANTILE LEVELS (`-q`, or the quantiles stored in the files): "using thresholds to
  hold the quantiles" (`thresholds = quantiles`, driver.py:572).  The SOURCE is the one
  `Model/Dispatch.lean` computes (`effAxis`, `thresholdSource`, `quantileSource`, reused here); this
  file evaluates the source on the values.

  The 20-value default of the deterministic metrics (`np.linspace(min, max, 20)`) depends on the data
  and is not evaluated here (`Col.dataDependent`); C13 models it.
-/
namespace VerifModel.OutputDescs
open VerifModel Dispatch

/-- the documented bin types that pair consecutive thresholds (`re.compile(".*within.*").match`) -/
def withinTypes : List String := ["within", "=within", "within=", "=within="]

/-- the other documented bin types: one interval per threshold -/
def singleTypes : List String := ["below", "below=", "above", "above="]

/-- `len(verif.util.get_intervals(bin_type, thresholds))` for `n` thresholds; `none`: "Unrecognized bintype" -/
def numIntervals (binType : String) (n : Nat) : Option Nat :=
  if withinTypes.contains binType then some (n - 1)
  else if singleTypes.contains binType then some n
  else none

/-- the values behind a threshold source -/
inductive Col where
  | values (v : List Rat)
  | absent            -- `pl.thresholds` stays `None`
  | dataDependent     -- the 20 default thresholds between the smallest and largest obs / fcst
  deriving DecidableEq, Repr

/-- the numbers the driver can draw on: `-r`, `-q`, `data.thresholds`, `data.quantiles` -/
structure Given where
  r : Option (List Rat)
  q : Option (List Rat)
  storedT : List Rat
  storedQ : List Rat
  deriving Repr

def Given.nQ (g : Given) : Nat := match g.q with | some l => l.length | none => 0

/-- evaluate a source -/
def colOf (g : Given) : ThrSrc → Col
  | .none => .absent
  | .given => (match g.r with | some v => .values v | none => .absent)
  | .detDefault => .dataDependent
  | .dataThresholds => .values g.storedT
  | .qGiven => (match g.q with | some v => .values v | none => .absent)
  | .qData => .values g.storedQ

inductive Stop where
  | why (w : Why)
  | noThresholds       -- "No thresholds available" (driver.py:547)
  deriving DecidableEq, Repr

/-- driver.py:560-567 applied to the quantiles actually used (the stored ones when `-q` is absent) -/
def countOk (nd : NameD) (n : Nat) : Except Stop Unit :=
  if (match nd.minQ with | some k => decide (n < k) | none => false) then .error (.why .tooFewQuantiles)
  else if (match nd.maxQ with | some k => decide (k < n) | none => false) then .error (.why .tooManyQuantiles)
  else .ok ()

/-- **`pl.thresholds` at the time the table is written** (driver.py:495-572, 651): `axis` is `-x`
classified as in `Dispatch.axisD`, `g.r` / `g.q` the parsed `-r` / `-q` -/
def plThresholds (nd : NameD) (td : TypeD) (axis : Option (String × AxisKind)) (g : Given) :
    Except Stop (Option (String × AxisKind) × Col) :=
  match effAxis nd axis g.r.isSome with
  | (ax, hasR') =>
    match thresholdSource nd td hasR' with
    | .error w => .error (.why w)
    | .ok s0 =>
      -- "No thresholds available": only checked right after the automatic choice
      if (s0 == .dataThresholds) && g.storedT.isEmpty then .error .noThresholds
      else
        match quantileSource nd g.nQ s0 with
        | .error w => .error (.why w)
        | .ok src =>
          match src with
          | .qData => (countOk nd g.storedQ.length).map fun _ => (ax, colOf g src)
          | _ => .ok (ax, colOf g src)

/-- the leading column of the table on `-x threshold`: header name and one value per interval -/
def thresholdColumn (nd : NameD) (td : TypeD) (axis : Option (String × AxisKind)) (binType : Option String)
    (g : Given) : Except Stop (Option (OutputTable.Str × List Rat)) :=
  match plThresholds nd td axis g with
  | .error e => .error e
  | .ok (ax, col) =>
    if (finalAxis nd ax).2 != .threshold then .ok none          -- another axis: Data.get_axis_descriptions
    else
      match col with
      | .values v =>
        match numIntervals ((effBinType nd binType).getD "above") v.length with
        | some k => .ok (some ("Threshold".toList, v.take k))
        | none => .ok none
      | _ => .ok none

end VerifModel.OutputDescs
