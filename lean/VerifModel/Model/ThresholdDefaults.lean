import VerifModel.Base.XR
import VerifModel.Model.ArgLoop
import VerifModel.Model.Dispatch
/-
  ThresholdDefaults — what `verif.driver.run` assigns to `pl.thresholds` / `pl.quantiles` when `-r` / `-q`
  are absent (driver.py:511-572), as a function of the command line AND of the dataset:

      if thresholds is None:
          ttype = …                                   -- `Dispatch.thresholdSource`
          if ttype == "deterministic":
              smin = inf; smax = -inf
              if Obs()  in data.get_fields(): obs  = data.get_scores(Obs(), 0);  smin = min(np.nanmin(obs), smin);  smax = max(np.nanmax(obs), smax)
              if Fcst() in data.get_fields(): fcst = data.get_scores(Fcst(), 0); smin = min(np.nanmin(fcst), smin); smax = max(np.nanmax(fcst), smax)
              thresholds = np.linspace(smin, smax, 20)
          elif ttype == "threshold": thresholds = data.thresholds
          if len(thresholds) == 0: error("No thresholds available")
      if <the output or the metric requires quantiles>:       -- `Dispatch.needsQuantiles`
          if quantiles is None: quantiles = data.quantiles
          if m is not None: len(quantiles) < m.min_num_thresholds → error;  > m.max_num_thresholds → error
          thresholds = quantiles

  WHERE the values come from (the "source") is `Model/Dispatch.lean` (C19's mirror: `nameD`, `effAxis`,
  `thresholdSource`, `quantileSource`), reused unchanged; this file evaluates the source on a summary of
  the dataset.  Python's `min(a, b)` is `b if b < a else a` (= `XR.min`), so a NaN minimum (an all-missing
  field) is kept when it comes first and dropped when it comes second — mirrored, not endorsed.
  `np.linspace(a, b, 20)`: `a + k·(b − a)/19` for k = 0 … 18, then `b`; exact rationals here.
-/
namespace VerifModel.ThresholdDefaults
open VerifModel ArgLoop Dispatch Gen

/-- what the driver reads from the dataset -/
structure Summary where
  /-- `data.get_scores(verif.field.Obs(), 0)` (flattened) -/
  obs : List XR
  fcst : List XR
  /-- `data.thresholds`, `data.quantiles` -/
  thresholds : List XR
  quantiles : List XR
  /-- `verif.field.Obs() in data.get_fields()`, same for `Fcst()` -/
  hasObs : Bool
  hasFcst : Bool
  deriving Repr

def notNan (x : XR) : Bool := !x.isNan

/-- `np.nanmin` (NaN when every element is NaN) -/
def nanmin (v : List XR) : XR :=
  match v.filter notNan with
  | [] => .nan
  | x :: xs => xs.foldl XR.min x

def nanmax (v : List XR) : XR :=
  match v.filter notNan with
  | [] => .nan
  | x :: xs => xs.foldl XR.max x

def smin (d : Summary) : XR :=
  let s := if d.hasObs then XR.min (nanmin d.obs) .pinf else .pinf
  if d.hasFcst then XR.min (nanmin d.fcst) s else s

def smax (d : Summary) : XR :=
  let s := if d.hasObs then XR.max (nanmax d.obs) .ninf else .ninf
  if d.hasFcst then XR.max (nanmax d.fcst) s else s

/-- `np.linspace(a, b, n + 1)` for `n ≥ 1` -/
def linspace (a b : XR) (n : Nat) : List XR :=
  let step := (b - a) / XR.ofNat n
  (List.range n).map (fun k => a + XR.ofNat k * step) ++ [b]

/-- number of default thresholds minus one (`num_default_thresholds = 20`) -/
def nDefault : Nat := 19

def defaultThresholds (d : Summary) : List XR := linspace (smin d) (smax d) nDefault

inductive Outcome
  /-- `verif.util.error` (message, exit status 1) -/
  | error
  /-- the values of `thresholds` and `quantiles` when the attributes are assigned (`none` = stays `None`) -/
  | vals (thresholds quantiles : Option (List XR))
  deriving Repr

/-- the threshold list a source denotes (`none`: "No thresholds available") -/
def evalThr (src : ThrSrc) (r : Option (List XR)) (d : Summary) : Option (Option (List XR)) :=
  match src with
  | .given => some r
  | .detDefault => some (some (defaultThresholds d))
  | .dataThresholds => if d.thresholds.isEmpty then none else some (some d.thresholds)
  | _ => some none

/-- the count test on the quantiles taken from the files -/
def countOk (nd : NameD) (n : Nat) : Bool :=
  (match nd.minQ with | some k => decide (k ≤ n) | none => true) &&
  (match nd.maxQ with | some k => decide (n ≤ k) | none => true)

/-- driver.py:496-572 -/
def defaults (nd : NameD) (td : TypeD) (axis : Option (String × AxisKind)) (r q : Option (List XR))
    (d : Summary) : Outcome :=
  match thresholdSource nd td (effAxis nd axis r.isSome).2 with
  | .error _ => .error
  | .ok s0 =>
    match evalThr s0 r d with
    | none => .error
    | some thr =>
      match quantileSource nd ((q.map List.length).getD 0) s0 with
      | .error _ => .error
      | .ok .qGiven => .vals q q
      | .ok .qData => if countOk nd d.quantiles.length then .vals (some d.quantiles) (some d.quantiles) else .error
      | .ok _ => .vals thr q

/-! ### from the parsed command line -/

def valNums : Val → Option (List XR)
  | .nums l => some (l.map XR.fin)
  | _ => none

/-- the local variable copied to `pl.<attr>` -/
def attrLocal (T : Tables) (attr : String) : String :=
  match T.plAttrs.find? (fun r => r.1 == attr) with
  | some r => r.2.1
  | none => ""

/-- the class attributes behind `-m <name>` (and `-hist` / `-sort`, which replace `Standard` by `Hist` / `Sort`
while the metric object `m` stays) -/
def nameDOf (T : Tables) (c : Cfg) (m : String) : Option NameD :=
  match Dispatch.lookup m ClassTable.driverChain with
  | some _ => nameD m
  | none =>
    let cls := stdOutputOf T c
    if cls == "Standard" then nameD m
    else match findOutput cls with
      | none => none
      | some pl =>
        match getMetric m with
        | some mr => some (NameD.ofResolved ⟨pl, some mr⟩)
        | none => (findMetricCls "FromField").map fun mr => NameD.ofResolved ⟨pl, some mr⟩

def outcomeOf (T : Tables) (c : Cfg) (d : Summary) : Outcome :=
  let m := match c.get T T.metricVar with | .str s => s | _ => ""
  let ty := match c.get T (localOf T "-type") with | .str s => s | _ => "plot"
  let ax := match c.get T (attrLocal T "axis") with | .obj _ n => some n | _ => none
  match nameDOf T c m with
  | none => .error
  | some nd =>
    defaults nd (typeD ty) (axisD ax) (valNums (c.get T (attrLocal T "thresholds")))
      (valNums (c.get T (attrLocal T "quantiles"))) d

def showVals : Option (List XR) → String
  | none => "-"
  | some l => if l.isEmpty then "[]" else ",".intercalate (l.map toString)

/-- `showOut` with the values the driver ends up assigning -/
def showOutD (T : Tables) (c : Cfg) (thr qua : Option (List XR)) : String :=
  ";".intercalate (outAttrs.map fun a =>
    if a == "thresholds" then a ++ "=" ++ showVals thr
    else if a == "quantiles" then a ++ "=" ++ showVals qua
    else
      match T.plAttrs.find? (fun r => r.1 == a) with
      | Option.none => a ++ "=?"
      | some r =>
        let v := c.get T r.2.1
        let shown :=
          if r.2.2 == "aggregator" then
            match v with
            | .str s => (match getAggregator T s with | .ok o => o.show | .error _ => "?")
            | _ => "-"
          else if v.truthy || (match v with | .nums _ => true | _ => false) then v.show else "-"
        a ++ "=" ++ shown)

/-- `ArgLoop.render` for a run on a dataset with summary `d` -/
def renderD (T : Tables) (fs : FileSys) (toks : List String) (d : Summary) : String :=
  match parseArgs T fs toks with
  | .ok c =>
    match finish T fs c with
    | .ok (.run out entry) =>
      match outcomeOf T c d with
      | .error => "ERR"
      | .vals thr qua =>
        "run files=" ++ ",".intercalate c.files ++ ";" ++ showData T c ++ " out=" ++ out ++ ";entry=" ++ entry
          ++ ";" ++ showOutD T c thr qua
    | _ => render T fs toks
  | _ => render T fs toks

end VerifModel.ThresholdDefaults
