import VerifModel.Model.ArgLoop
/-
  InputClass — which files `verif.input.get_input` + `verif.data.Data` accept, by CLASS of file content
  (the classes the harness creates in its temporary directory, stream cli.badfile), and config files given
  line by line.

  Accepted: a text file in the documented format, whatever its name (`good`; `text-named-nc`: the same
  text under a name ending in `.nc` — `get_input` first asks netCDF4, which refuses, and then reads it as
  text; `comment-bare`: valid text preceded by a comment line consisting of `#` only, an empty comment).  Rejected (error message, exit status 1) — at `get_input` or, for files that `Text()` reads without
  finding a single row, at `Data()` ("No valid times selected"):

    missing            no such file
    empty              zero bytes
    garbage            bytes that are not UTF-8 text
    no-data-column     a header line without obs / fcst / p<t> / q<x> column
    header-only        a valid header line and no rows
    short-row          a row with fewer columns than the header
    nc-garbage         a name ending in .nc holding printable garbage
    nc-binary          a name ending in .nc holding bytes that are neither NetCDF nor UTF-8
    nc-nodims          a real NetCDF file without the dimensions time / leadtime / location
    directory          a directory
    comment-x0         valid text preceded by `# x0: abc` (a comment keyword with a non-numeric value)
    comment-x1         valid text preceded by `# x1:` (a comment keyword without a value)

  The property demands the error message for every one of these.  (Before the repairs fix_garbage,
  fix_barehash, fix_x0 the code raised an unhandled exception for `garbage`, `nc-binary`
  (UnicodeDecodeError), `comment-x0` / `comment-x1` (ValueError / IndexError) and for the accepted class
  `comment-bare` (IndexError).)
-/
namespace VerifModel.InputClass
open VerifModel ArgLoop

def accepted (cls : String) : Bool := cls == "good" || cls == "text-named-nc" || cls == "comment-bare"

/-- the classes the harness knows -/
def classes : List String :=
  ["good", "text-named-nc", "missing", "empty", "garbage", "no-data-column", "header-only", "short-row",
   "nc-garbage", "nc-binary", "nc-nodims", "directory", "comment-bare", "comment-x0", "comment-x1"]

/-- the file system as the driver sees it: the always-valid inputs plus the classified files that are
accepted -/
def withClasses (fs : FileSys) (files : List (String × String)) : FileSys :=
  { fs with inputs := fs.inputs ++ (files.filter fun p => accepted p.2).map (·.1) }

/-- `for line in fid: extra += line.split()`: a config file given as its lines, each line as the list of
its whitespace-separated tokens (blank lines are empty lists) -/
def configTokens (lines : List (List String)) : List String := lines.flatten

def ofLines (inputs : List String) (cfgs : List (String × List (List String))) : FileSys :=
  ⟨inputs, cfgs.map fun p => (p.1, configTokens p.2)⟩

/-- split a token list at the line-break marker -/
def splitLines (mark : String) : List String → List (List String)
  | [] => [[]]
  | t :: ts =>
    if t = mark then [] :: splitLines mark ts
    else match splitLines mark ts with
      | [] => [[t]]
      | l :: ls => (t :: l) :: ls

end VerifModel.InputClass
