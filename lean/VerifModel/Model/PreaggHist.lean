import VerifModel.Model.PreaggData
import VerifModel.Model.Prob
import VerifModel.Model.DataState
/-
  The LOADER of `Data._get_score` when `-T` is on (`dim_agg_length` set), for request HISTORIES (C18) and for
  the ensemble-derived fields (C15).

  data.py 474-475 / 512-514 / 536-543 / 573: every array that `_get_score` reads from an input goes through
  `self.preaggregate(temp, input)` first — a NEW array (the input's own array is returned only when -T is off) —
  and a CDF column `p@<t>` / a quantile column `q@<q>` is, with -T on, ALWAYS derived from the pre-aggregated
  ensemble members (a stored column is ignored; no members: error exit "does not contain"):

        temp = preaggregate(input.ensemble, input)                       # member by member, cell by cell
        p@t : nanmean(temp <= t) over the members                        (Preagg.probLE)
        q@q : np.quantile(temp, q, axis=3, method="normal_unbiased")     (Prob.ensQuantile, repair 3ab2f86)

  The model is an INPUT TRANSFORMATION (`tInput`): the input whose 3-D fields are their pre-aggregates on the
  input's own grid (`PreaggData.preaggInput`), whose stored CDF / quantile columns are dropped and replaced by the
  columns derived from the pre-aggregated members.  Everything behind the loader — cut to the common indices,
  borrowed observations, missing in one input ⇒ missing in all, -obsrange in place, both caches — is the ordinary
  `DataS` / `DState` machinery run on the transformed inputs (`initT`).  So the -T loader is "`loadAll` of another
  dataset", and every theorem that holds for all `D : DataS` holds for it (Proofs/C18T.lean).

  Eager vs lazy: the code pre-aggregates a field when it is first requested, the model transforms all fields up
  front.  They differ only if an aggregator RAISES on a field that is never requested (`none` below); for h > 0 a
  window contains its own position and the aggregators of verif raise on no non-empty window.
-/
namespace VerifModel.PreaggHist
open VerifModel

/-- how a column is derived from the (pre-aggregated) members of one cell -/
inductive Derive where
  | cdf (thr : XR)            -- `p@<thr>`
  | quantile (q : Rat)        -- `q@<q>`
  deriving Repr

/-- the derived value of one cell; `members` is non-empty where this is used (`tInput` adds derived columns only to
inputs that have members), so the `none` of `ensQuantile` (empty ensemble) does not arise -/
def Derive.cell (d : Derive) (members : Vec) : XR :=
  match d with
  | .cdf thr => Preagg.probLE members thr
  | .quantile q =>
    match Prob.ensQuantile q members with
    | some v => v
    | none => .nan

def isMember (name : String) : Bool := name.startsWith "e@"
def isColumn (name : String) : Bool := name.startsWith "p@" || name.startsWith "q@"

/-- the member arrays of an input, in stored order -/
def members (I : Input) : List Arr3 := (I.fields.filter fun p => isMember p.1).map (·.2)

/-- a 3-D array computed cell by cell from the member arrays (shape of the first member) -/
def deriveArr (g : Vec → XR) (ms : List Arr3) : Arr3 :=
  match ms with
  | [] => []
  | m0 :: _ =>
    (List.range m0.length).map fun t =>
      (List.range (m0.getD t []).length).map fun l =>
        (List.range ((m0.getD t []).getD l []).length).map fun x => g (ms.map fun m => m.get t l x)

/-- the input as `_get_score` reads it with -T on.  `derived`: the CDF / quantile columns that are requested
(name, derivation).  `none` = an aggregator / the `assert` raises. -/
def tInput (f : Vec → Option XR) (scale h : XR) (k : Nat) (derived : List (String × Derive)) (I : Input) :
    Option Input :=
  let kept := I.fields.filter fun p => !isColumn p.1        -- stored columns are not read with -T on
  match PreaggData.preaggInput f scale h k (kept.map (·.1)) { I with fields := kept } with
  | none => none
  | some I1 =>
    let ms := members I1
    let extra := if ms.isEmpty then [] else derived.map fun d => (d.1, deriveArr d.2.cell ms)
    some { I1 with fields := I1.fields ++ extra }

/-- `Data(inputs, dim_agg_length = h, dim_agg_method = f, dim_agg_axis = …, clim = …)` as a `DataS`: the ordinary
initialisation on the transformed inputs (coordinates are untouched by `tInput`, so the dimensions are those of the
original inputs) -/
def initT (f : Vec → Option XR) (scale h : XR) (k : Nat) (derived : List (String × Derive))
    (scored : List Input) (cfg : Cfg) : Option (Except String DataS) :=
  match scored.mapM (tInput f scale h k derived), cfg.clim.mapM (tInput f scale h k derived) with
  | some scored', some clim' => some (Data.initF scored' { cfg with clim := clim' })
  | _, _ => none

/-- one field of one cell under -T, stated directly (C15): the derivation applied to the window aggregates of the
members' series through that cell -/
def ensCell (f : Vec → Option XR) (scale h : XR) (coords : List XR) (k : Nat) (d : Derive)
    (ms : List Arr3) (t l x : Nat) : Option XR :=
  (ms.mapM fun m => PreaggData.cell f scale h coords k m t l x).map d.cell

end VerifModel.PreaggHist
