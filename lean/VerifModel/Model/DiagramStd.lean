import VerifModel.Model.Diagram
import VerifModel.Model.Prob
import VerifModel.Model.OutputTable
/-
  Model of `verif.output.Standard._get_x_y` / `_plot_core` (C16, "standard line plots") beyond the four
  deterministic scores on a data axis, and of the `-agg` / `-acc` / `-x no` paths of ObsFcst, QQ, Scatter.

  Standard(metric):
    intervals   = util.get_intervals(bin_type, thresholds)            (one unbounded interval without -r)
    -x threshold:  x = interval centres,  yy[i] = metric.compute(data, f, Threshold, intervals[i])[0]
                   (the Threshold axis has ONE slice: every case)
    other axes:    x = axis values,       yy = (Σ_i metric.compute(data, f, axis, intervals[i])) / len(intervals)
    -acc:          y = cumsum(nan_to_num(y)) down every column
    -x no:         ONE bar container, F bars centred at 1 … F (width 0.8), heights y[0, :]
    otherwise:     one line per input, in input order

  A CELL is the score of one (interval, slice): what `metric.compute_single` returns on the vectors that
  `Data.get_scores` hands it for that slice.  Cells by metric family:
    deterministic (ObsFcstBased: mae, bias, rmse … with the aggregator of -agg; corr)   columns obs, fcst
    contingency   (Contingency: ets, hit, far, …: `contScore`, C06's model)             columns obs, fcst
    threshold probabilities (bs, bss, bsrel, …: get_p then the kernel, C08's model)     columns obs, cdf(lower), cdf(upper)
-/
namespace VerifModel.DiagramStd
open VerifModel VerifModel.Diagram

/-- the call `aggregator(array)` as a number (the arrays handed over are never empty: get_scores returns
`[nan]` for a slice without valid case, ObsFcstBased guards the empty array) -/
def aggFn (T : Tr) (a : Agg) (v : Vec) : XR := (Agg.apply T a v).getD .nan

/-- kernels of the threshold-probability metrics on (obsP, p) -/
def probKernel (T : Tr) : String → Option (Vec → Vec → XR)
  | "bs" => some (Prob.bs T)
  | "bss" => some (Prob.bss T)
  | "bsunc" => some (Prob.bsunc T)
  | "bsrel" => some Prob.bsrel
  | "bsres" => some Prob.bsres
  | "bssrel" => some Prob.bssrel
  | "bssres" => some Prob.bssres
  | "ign0" => some (Prob.ign0 T)
  | "spherical" => some (Prob.spherical T)
  | "marginalratio" => some Prob.marginalRatio
  | _ => none

/-- `metric.get_p` on the fetched columns: the event indicator of the observation and `p1 − p0`
(`p0 = 0` for an interval unbounded below, `p1 = 1` for one unbounded above) -/
def getPCols (I : Interval) (obs c0 c1 : Vec) : Vec × Vec :=
  (obs.map (Prob.obsP I),
   obs.zipIdx.map fun o => Prob.eventProb I (c0.getD o.2 .nan) (c1.getD o.2 .nan))

/-- the columns of one slice as get_scores returns them: (obs, second field, third field) -/
abbrev Cols := Vec × Vec × Vec

/-- one cell: `metric.compute_single(data, f, axis, axis_index, interval)`; `none` = not a modelled metric -/
def cell (T : Tr) (m : String) (a : Agg) (I : Interval) (c : Cols) : Option XR :=
  if m == "corr" then some (computeFromObsFcst (corr T) c.1 c.2.1)
  else match detScore T m (aggFn T a) c.1 c.2.1 with
    | some v => some v
    | none =>
      match contScore T m I I c.1 c.2.1 with
      | some v => some v
      | none => (probKernel T m).map fun k => let op := getPCols I c.1 c.2.1 c.2.2; k op.1 op.2

/-- which x-axis the plot has -/
inductive XKind where
  | threshold      -- -x threshold: one point per interval
  | no             -- -x no: the bar graph
  | data           -- a data axis: one point per slice
  deriving DecidableEq, Repr

/-- the scores of one input: `cells[i][j]` = the columns of interval i in slice j.
`-x threshold`: `yy[i] = compute(...)[0]` — the score of interval i, no averaging.
Other axes: `yy = zeros(nx); for i: yy = yy + compute(..., intervals[i]); yy / len(intervals)`. -/
def column (T : Tr) (m : String) (a : Agg) (xk : XKind) (nx : Nat) (ivs : List Interval)
    (cells : List (List Cols)) : Option Vec :=
  match xk with
  | .threshold => (ivs.zip cells).mapM fun (ic : Interval × List Cols) => cell T m a ic.1 (ic.2.headD ([], [], []))
  | _ => ((ivs.zip cells).mapM fun (ic : Interval × List Cols) => ic.2.mapM (cell T m a ic.1)).map (OutputTable.thresholdAvg nx)

/-- `-acc` on one column of y: `np.cumsum(np.nan_to_num(y, posinf=inf, neginf=-inf), axis=0)[:, f]`
(C12's model `OutputTable.acc` on the one-column table) -/
def accCol (v : Vec) : Vec := (OutputTable.acc (v.map fun x => [x])).map fun r => r.headD .nan

def accIf (acc : Bool) (v : Vec) : Vec := if acc then accCol v else v

/-- the bar graph of `-x no`: `mpl.bar(np.linspace(1 - w/2, n - w/2, n), heights)` with w = 0.8 and the
default `align='center'`: bar k spans [k + 1/5, k + 1] — read back as (left edge, height, width) -/
def barSeries (heights : Vec) : Series :=
  { ax := 0, kind := "bar", label := "_",
    xs := (List.range heights.length).map fun (k : Nat) => XR.fin ((k : Rat) + 1 / 5),
    ys := heights, ws := some (heights.map fun _ => XR.fin (4 / 5)) }

/-- the figure of Standard: `cols[f]` = the (accumulated) scores of input f -/
def standardFigure (xk : XKind) (xs : Vec) (cols : List Vec) : List Series :=
  match xk with
  | .no => [barSeries (cols.map fun c => c.headD .nan)]
  | _ => perInput (fun k c => [{ ax := 0, kind := "line", label := inName k, xs := xs, ys := c }]) cols

/-- x of `-x threshold`: the interval centres -/
def centres (ivs : List Interval) : Vec := ivs.map Interval.center

/-- Standard, all together: per input the cells, then `-acc`, then the artists -/
def standard (T : Tr) (m : String) (a : Agg) (acc : Bool) (xk : XKind) (ax : Vec) (ivs : List Interval)
    (ins : List (List (List Cols))) : Option (List Series) :=
  let xs := match xk with
    | .threshold => centres ivs
    | .no => [.fin 0]
    | .data => ax
  (ins.mapM fun cells => column T m a xk xs.length ivs cells).map fun cols =>
    standardFigure xk xs (cols.map (accIf acc))

/-! ### `-agg`, `-acc`, `-x no` in ObsFcst; `-agg` in QQ / Scatter with -x -/

/-- per-slice aggregate (`FromField.compute`: `aggregator(values)` per slice) -/
def sliceAgg (T : Tr) (a : Agg) (sl : List Vec) : Vec := sl.map (aggFn T a)

/-- ObsFcst with an aggregator and `-acc`: the columns of y are the observation line of input 0, the forecast
line of every input and the quantile lines; `-acc` accumulates every column; the bands are filled between the
(accumulated) quantile lines.  `-x no`: one bar per column, in the order obs, forecasts (input order),
quantile lines (level by level, input by input). -/
def obsfcstFigure (T : Tr) (a : Agg) (acc : Bool) (bar : Bool) (ax : Vec) (obs0 : List Vec)
    (ins : List (List Vec × List (String × List Vec))) : List Series :=
  let ln := fun (sl : List Vec) => accIf acc (sliceAgg T a sl)
  if bar then
    let nq := (ins.map fun i => i.2.length).foldl max 0
    [barSeries ((ln obs0 ++ (ins.flatMap fun i => ln i.1) ++
      (List.range nq).flatMap fun q => ins.flatMap fun i => ((i.2[q]?).map fun s => ln s.2).getD []))]
  else
    { ax := 0, kind := "line", label := "Observed", xs := ax, ys := ln obs0 } ::
    perInput (fun k (i : List Vec × List (String × List Vec)) =>
      { ax := 0, kind := "line", label := inName k, xs := ax, ys := ln i.1 } ::
        (i.2.map fun q => { ax := 0, kind := "line", label := inName k ++ "_" ++ q.1, xs := ax, ys := ln q.2 }) ++
        (List.range (i.2.length / 2)).flatMap fun j =>
          fillSeries ax (ln ((i.2[j]?).map (·.2) |>.getD [])) (ln ((i.2[i.2.length - 1 - j]?).map (·.2) |>.getD []))) ins

end VerifModel.DiagramStd
