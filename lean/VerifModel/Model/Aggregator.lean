import VerifModel.Base.Vec
import VerifModel.Base.Arr
/-
  Model of verif/aggregator.py: the 15 aggregators, the name lookup `get`, and
  the application of an aggregator along one axis of an n-d array.

  What the classes call (read from the source):
    Mean      np.mean            NaN propagates, [] -> nan
    Median    np.median          NaN propagates, [] -> nan
    Min/Max   np.min / np.max    NaN propagates, [] -> ValueError
    Std       np.std             (ddof 0) NaN propagates, [] -> nan
    Variance  np.var             (ddof 0) NaN propagates, [] -> nan
    Iqr       np.percentile(75) - np.percentile(25)      NaN propagates, [] -> IndexError
    Range     np.max - np.min    (util.nprange)          NaN propagates, [] -> ValueError
    Count     np.sum(np.isnan(x) == 0)  (util.numvalid)  the only NaN-aware one
    Sum       np.sum             NaN propagates, [] -> 0
    Meanabs   np.mean(np.abs(x))
    Absmean   np.abs(np.mean(x))
    Quantile  np.percentile(x, q*100)   default method 'linear', NaN propagates, [] -> IndexError
    Change    x[-1] - x[0]       (np.take along the axis) interior NaNs are not looked at, [] -> IndexError
    AbsChange |x[-1] - x[0]|
  None of them except Count uses a nan-aware NumPy function.
  `none` = the call raises (NumPy's ValueError / IndexError on an empty reduction).
  The domain of the model is finite-or-NaN data (verif turns ±inf into missing before scoring);
  np.percentile's behaviour on ±inf is not modelled.
-/
namespace VerifModel

inductive Agg where
  | mean | median | min | max | std | variance | iqr | range | count | sum
  | meanabs | absmean | change | abschange
  | quantile (q : Rat)
  deriving DecidableEq, Repr, Inhabited

namespace Agg

def hasNan (v : Vec) : Bool := List.any v XR.isNan

/-- ⌊r⌋ as a natural number (for r ≥ 0; 0 for negative r) -/
def floorNat (r : Rat) : Nat := (r.num / (r.den : Int)).toNat

/-- `np.percentile(v, 100·q)` with NumPy's default method ("linear", Hyndman & Fan type 7):
sorted values s, virtual index pos = (n-1)·q, lo = ⌊pos⌋, hi = min(lo+1, n-1),
result = s[lo] + (s[hi] - s[lo])·(pos - lo).  A NaN anywhere gives NaN; an empty array raises. -/
def percentile (v : Vec) (q : Rat) : Option XR :=
  if List.isEmpty v then none
  else if hasNan v then some .nan
  else
    let s := Vec.sort v
    let n := s.length
    let pos : Rat := ((n - 1 : Nat) : Rat) * q
    let lo := floorNat pos
    let hi := if lo + 1 < n then lo + 1 else n - 1
    let g : Rat := pos - (lo : Rat)
    match s[lo]?, s[hi]? with
    | some a, some b => some (a + (b - a) * XR.fin g)
    | _, _ => none          -- unreachable for 0 ≤ q ≤ 1 (np.percentile raises ValueError otherwise)

/-- `np.median`: mean of the one or two middle order statistics -/
def medianOf (v : Vec) : XR :=
  if List.isEmpty v then .nan
  else if hasNan v then .nan
  else
    let s := Vec.sort v
    let n := s.length
    if n % 2 = 1 then
      match s[n / 2]? with
      | some a => a
      | none => .nan
    else
      match s[n / 2 - 1]?, s[n / 2]? with
      | some a, some b => (a + b) / XR.fin 2
      | _, _ => .nan

/-- `util.numvalid`: number of entries that are not NaN -/
def countOf (v : Vec) : XR := XR.ofNat (List.filter (fun x => !x.isNan) v).length

/-- `array.flatten()[-1] - array.flatten()[0]` -/
def changeOf (v : Vec) : Option XR :=
  match List.head? v, List.getLast? v with
  | some a, some b => some (b - a)
  | _, _ => none

/-- The call `aggregator(array)` on a 1-D array.  `none` = NumPy raises. -/
def apply (T : Tr) : Agg → Vec → Option XR
  | .mean, v => some (Vec.mean v)
  | .median, v => some (medianOf v)
  | .min, v => if List.isEmpty v then none else some (Vec.minimum v)
  | .max, v => if List.isEmpty v then none else some (Vec.maximum v)
  | .std, v => some (Vec.std T v)
  | .variance, v => some (Vec.var v)
  | .iqr, v =>
      match percentile v (3 / 4), percentile v (1 / 4) with
      | some a, some b => some (a - b)
      | _, _ => none
  | .range, v => if List.isEmpty v then none else some (Vec.maximum v - Vec.minimum v)
  | .count, v => some (countOf v)
  | .sum, v => some (Vec.sum v)
  | .meanabs, v => some (Vec.mean (Vec.abs v))
  | .absmean, v => some (XR.abs (Vec.mean v))
  | .change, v => changeOf v
  | .abschange, v => (changeOf v).map XR.abs
  | .quantile q, v => percentile v q

/-- class name → aggregator (`cls.__name__.lower()`) -/
def names : List (String × Agg) :=
  [("mean", .mean), ("median", .median), ("min", .min), ("max", .max), ("std", .std),
   ("variance", .variance), ("iqr", .iqr), ("range", .range), ("count", .count), ("sum", .sum),
   ("meanabs", .meanabs), ("absmean", .absmean), ("change", .change), ("abschange", .abschange)]

def digitsVal (cs : List Char) : Nat := cs.foldl (fun n c => 10 * n + (c.toNat - '0'.toNat)) 0

/-- plain decimal literals `[+-]digits[.digits]` (also `.5`, `1.`) as exact rationals.  Python's
`float()` accepts more spellings (exponents, `inf`, `nan`, blanks, underscores); those are not
modelled and not generated. -/
def parseDecimal? (s : String) : Option Rat :=
  let cs := s.toList
  let (neg, body) := match cs with
    | '-' :: r => (true, r)
    | '+' :: r => (false, r)
    | r => (false, r)
  let ip := body.takeWhile Char.isDigit
  let rest := body.dropWhile Char.isDigit
  let mk (ip fp : List Char) : Option Rat :=
    if ip.isEmpty && fp.isEmpty then none
    else
      let q : Rat := (digitsVal ip : Rat) + (digitsVal fp : Rat) / ((10 ^ fp.length : Nat) : Rat)
      some (if neg then -q else q)
  match rest with
  | [] => mk ip []
  | '.' :: fp => if fp.all Char.isDigit then mk ip fp else none
  | _ => none

/-- `verif.aggregator.get(name)`: a class name, else a number = quantile level in [0, 1];
`none` = `verif.util.error` ("No aggregator by the name", "Quantile must be between 0 and 1"). -/
def get (name : String) : Option Agg :=
  match names.lookup name with
  | some a => some a
  | none =>
    match parseDecimal? name with
    | some q => if q < 0 ∨ q > 1 then none else some (.quantile q)
    | none => none

/-- does `aggregator(empty array)` raise? (read off `apply`) -/
def raisesOnEmpty (T : Tr) (a : Agg) : Bool := (apply T a []).isNone

end Agg

namespace Arr

/-- the 1-D fiber along the axis at outer position `o` and inner position `i` of a row-major
array viewed as outer × n × inner -/
def fiberAt (data : List XR) (n inner o i : Nat) : Vec :=
  (List.range n).map fun j => (data[(o * n + j) * inner + i]?).getD .nan

/-- all fibers, in the row-major order of the result (outer major, inner minor) -/
def fibers (data : List XR) (outer n inner : Nat) : List Vec :=
  (List.range outer).flatMap fun o => (List.range inner).map fun i => fiberAt data n inner o i

/-- `f(array, axis=k)` for a reduction `f` that NumPy applies fiber by fiber.  `none` = raises
(axis out of range; or a zero-length axis and `f` raises on an empty array — NumPy raises then even
if the result would have no cells). -/
def aggAxis (f : Vec → Option XR) (k : Nat) (arr : Arr) : Option Arr :=
  match arr.dims[k]? with
  | none => none
  | some n =>
    let outer := prod (arr.dims.take k)
    let inner := prod (arr.dims.drop (k + 1))
    if n = 0 ∧ (f []).isNone then none
    else ((fibers arr.data outer n inner).mapM f).map fun d => ⟨arr.dims.eraseIdx k, d⟩

end Arr
namespace Agg

/-- NumPy's axis numbering: dimension `axis` counted from the front, or from the back when negative
(−rank ≤ axis < rank); anything else is an `AxisError` -/
def normAxis (rank : Nat) (axis : Int) : Option Nat :=
  if 0 ≤ axis ∧ axis < (rank : Int) then some axis.toNat
  else if axis < 0 ∧ -(rank : Int) ≤ axis then some (axis + (rank : Int)).toNat
  else none

/-- the call `aggregator(array, axis=axis)` as the classes of aggregator.py implement it: every class
hands `axis` to NumPy — a reduction (`np.mean(array, axis=axis)`, …) or, for `Change` / `AbsChange`
since their repair, `np.take(array, -1, axis=axis) - np.take(array, 0, axis=axis)` — so any
−rank ≤ axis < rank names a dimension and anything else raises AxisError.  (Before the repair
`Change` / `AbsChange` spelled the slicing out for `axis == 0 … 4` and raised NotImplementedError for
negative axes and axes ≥ 5.)  `none` = the call raises (also: empty axis and the statistic raises on
an empty sample). -/
def callAxis (T : Tr) (a : Agg) (axis : Int) (arr : Arr) : Option Arr :=
  (normAxis arr.dims.length axis).bind fun k => Arr.aggAxis (apply T a) k arr

end Agg
end VerifModel
