import VerifModel.Base.XR
import VerifModel.Base.Tr
import VerifModel.Base.Vec
import VerifModel.Gen.Det
import VerifModel.Model.Corrcoef
/-
  Model of metric.ObsFcstBased.compute_from_obs_fcst: drop every pair with a
  missing member, NaN when nothing is left, otherwise the metric's formula
  (`Gen.Det.*`, machine-translated).  Hand-written models of the metrics whose
  code calls NumPy/SciPy library routines (corr, kge) follow.
-/
namespace VerifModel

/-- the pairs that survive `I = np.where((isnan(obs) | isnan(fcst)) == 0)` -/
def validObsFcst (obs fcst : Vec) : List (XR × XR) :=
  (obs.zip fcst).filter fun p => !(p.1.isNan || p.2.isNan)

def computeFromObsFcst (f : Vec → Vec → XR) (obs fcst : Vec) : XR :=
  let vp := validObsFcst obs fcst
  if vp.isEmpty then .nan else f (vp.map (·.1)) (vp.map (·.2))

/-- `compute_from_obs_fcst` of a translated metric -/
def detScore (T : Tr) (name : String) (agg : Vec → XR) (obs fcst : Vec) : Option XR :=
  (Gen.Det.eval T name agg [] []).map fun _ =>
    computeFromObsFcst (fun o f => (Gen.Det.eval T name agg o f).getD .nan) obs fcst

-- `corrCore` (np.corrcoef(obs, fcst)[1, 0]) lives in Model/Corrcoef.lean: it is a primitive of the generated Gen/Det.lean

def corr (T : Tr) (obs fcst : Vec) : XR :=
  if obs.length ≤ 1 then .nan
  else if XR.eqb (Vec.var fcst) (.fin 0) then .nan
  else corrCore T obs fcst

def kge (T : Tr) (obs fcst : Vec) : XR :=
  let so := Vec.std T obs
  let sf := Vec.std T fcst
  if XR.eqb so (.fin 0) || XR.eqb sf (.fin 0) then .nan
  else
    let c := corrCore T obs fcst - .fin 1
    let m := Vec.mean fcst / Vec.mean obs - .fin 1
    let s := sf / so - .fin 1
    .fin 1 - T.sqrt (XR.npow c 2 + XR.npow m 2 + XR.npow s 2)

end VerifModel
