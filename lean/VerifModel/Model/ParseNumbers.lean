import VerifModel.Model.CalendarLite
/-
  Model of `verif.util.parse_numbers(numbers, is_date)` and `verif.util.get_date`
  on exact decimal strings (`Rat`, no rounding).

  What the code does, in order:
    * any character outside `-0123456789.:,`            → error message, exit 1
    * split at `,`; each part split at `:`; then per part, left to right:
        - an empty field                                 → error message, exit 1
        - one field:  `to_float(w)`                      (not a float → error message, exit 1)
        - two/three fields: `to_float(start)`, `to_float(step)` (default 1), step == 0 → exit 1,
          `to_float(end)`; then
            numbers: `np.round(np.arange(start, end + sign(step)·0.0001, step), 7)`
            dates  : step not a whole number → error message, exit 1;
                     step > 0: `d = min(start, end'); while d <= max(start, end'): d = get_date(d, step)`
                     step < 0: `d = start; while d >= end': d = get_date(d, step)`
                     (a ValueError or OverflowError of `get_date` → error message, exit 1)
        - more than three fields                         → error message, exit 1
    * dates: every value is truncated with `int()`.

  `np.arange(a, e, s)` has `⌈(e − a)/s⌉` elements `a + k·s`; the model keeps that
  ceiling (on exact rationals) and the `0.0001` fudge, so the theorem `C13_range`
  really is a statement about the fudge being harmless.

  Results: `Except Err`: `Err.exit` = `verif.util.error` (message + exit status 1),
  `Err.raise ty` = an unhandled Python exception of type `ty` (traceback).
-/
namespace VerifModel.ParseNumbers
open CalendarLite

inductive Err where
  | exit
  | raise (ty : String)
  deriving DecidableEq, Repr, Inhabited

abbrev Res := Except Err

def Res.show (f : α → String) : Res α → String
  | .ok a => f a
  | .error .exit => "ERR"
  | .error (.raise ty) => "EXC:" ++ ty

/-- characters accepted by the first check of `parse_numbers` -/
def allowed (c : Char) : Bool :=
  c == '-' || c.isDigit || c == '.' || c == ':' || c == ','

def digitsVal (cs : List Char) : Option Nat :=
  cs.foldl (fun acc c => acc.bind fun n => if c.isDigit then some (n * 10 + (c.toNat - 48)) else none)
    (some 0)

/-- unsigned decimal: digits, optional `.`, digits; at least one digit -/
def parseUnsigned (cs : List Char) : Option Rat :=
  let ip := cs.takeWhile (· != '.')
  match cs.dropWhile (· != '.') with
  | [] => if ip.isEmpty then none else (digitsVal ip).map fun n => (n : Rat)
  | _ :: fp =>
    if ip.isEmpty && fp.isEmpty then none
    else do
      let i ← digitsVal ip
      let f ← digitsVal fp
      some ((i : Rat) + (f : Rat) / ((10 ^ fp.length : Nat) : Rat))

/-- Python `float(w)` restricted to the character set `-0123456789.` -/
def parseFloat? (w : String) : Option Rat :=
  match w.toList with
  | '-' :: cs => (parseUnsigned cs).map fun q => -q
  | cs => parseUnsigned cs

/-- Python `int(x)` on a float: truncation towards zero -/
def trunc (q : Rat) : Int := if q ≥ 0 then q.floor else q.ceil

/-- `np.round(x, 7)` on an exact value: round half to even at the 7th decimal -/
def roundHalfEven (q : Rat) : Int :=
  let f := q.floor
  let r := q - (f : Rat)
  if r < 1 / 2 then f else if r > 1 / 2 then f + 1 else if f % 2 = 0 then f else f + 1

def round7 (q : Rat) : Rat := (roundHalfEven (q * 10000000) : Rat) / 10000000

/-- the `0.0001` the code adds to the end point so that `arange` includes it -/
def fudge : Rat := 1 / 10000

def stepSign (s : Rat) : Rat := if s > 0 then 1 else -1

/-- length of `np.arange(start, stop, step)` -/
def arangeCount (start stop step : Rat) : Nat := ((stop - start) / step).ceil.toNat

/-- `list(np.round(np.arange(start, end + sign·0.0001, step), 7))`, `step ≠ 0` -/
def rangeNums (a s b : Rat) : List Rat :=
  (List.range (arangeCount a (b + stepSign s * fudge) s)).map fun (k : Nat) => round7 (a + (k : Rat) * s)

/-- day number of the first calendar date whose `YYYYMMDD` number is ≥ `n` (the dual of
`lastDayLE`; `n` itself need not be a date).  Nothing precedes 0001-01-01 (`minDay`). -/
def firstDayGE (n : Nat) : Nat :=
  let t := ofYmd n
  if t.y == 0 then minDay
  else if t.m == 0 then days ⟨t.y, 1, 1⟩
  else if t.m > 12 then days ⟨t.y + 1, 1, 1⟩
  else if t.d == 0 then days ⟨t.y, t.m, 1⟩
  else if t.d > daysInMonth t.y t.m then
    (if t.m == 12 then days ⟨t.y + 1, 1, 1⟩ else days ⟨t.y, t.m + 1, 1⟩)
  else days ⟨t.y, t.m, t.d⟩

/-- the date loop of `parse_numbers(…, is_date=True)` for one `start[:step]:end` part.

    * a step that is not a whole number of days                → error message, exit 1
    * step > 0: from `min(start, end')` up to `max(start, end')` (a reversed range is read ascending)
    * step < 0: from `start` down to `end'` (empty when `start < end'`)
    * the date the loop starts from is not a calendar date (`get_date` → `datetime(y, m, d)` raises
      ValueError, which the loop turns into the message)        → error message, exit 1
    * `get_date` is called once more after the last value that is kept; leaving 0001-01-01 … 9999-12-31
      there (datetime raises OverflowError, which the loop turns into the message since repo commit
      "a date range that steps outside the years 1 to 9999"; before, it was an unhandled exception)
                                                                → error message, exit 1
    * a first date whose year does not even fit a C int makes `datetime(y, m, d)` raise OverflowError
      instead of ValueError: the same message, covered by `!d0.valid`. -/
def rangeDates (a s b : Rat) : Res (List Rat) :=
  let stop := b + stepSign s * fudge
  if (s.floor : Rat) ≠ s then .error .exit
  else if s > 0 then
    let lo := min a stop
    let hi := max a stop
    let k := s.floor.toNat
    if lo.floor < 0 then .error .exit
    else
      let d0 := ofYmd lo.floor.toNat
      if !d0.valid then .error .exit
      else
        let n0 := days d0
        let cnt := (lastDayLE hi.floor.toNat - 1 - n0) / k + 1
        if n0 + cnt * k > maxDay then .error .exit
        else .ok ((lo.floor : Rat) ::
          (List.range (cnt - 1)).map fun i => (((civil (n0 + (i + 1) * k)).ymd : Nat) : Rat))
  else
    if a < stop then .ok []
    else if a.floor < 0 then .error .exit
    else
      let d0 := ofYmd a.floor.toNat
      if !d0.valid then .error .exit
      else
        let k := (-s).floor.toNat
        let n0 := days d0
        let extra := (n0 - firstDayGE stop.ceil.toNat) / k
        if n0 < minDay + (extra + 1) * k then .error .exit
        else .ok ((a.floor : Rat) ::
          (List.range extra).map fun i => (((civil (n0 - (i + 1) * k)).ymd : Nat) : Rat))

/-- one colon-separated field after lexing -/
inductive Fld where
  | empty            -- ""
  | bad              -- not accepted by `float()`
  | num (q : Rat)
  deriving DecidableEq, Repr, Inhabited

def lexField (w : String) : Fld :=
  if w == "" then .empty else match parseFloat? w with
    | none => .bad
    | some q => .num q

/-- `to_float(word)`: `float()` with the ValueError turned into the error message (repo commit
aace4b0; before that commit a non-float field raised) -/
def Fld.get : Fld → Res Rat
  | .num q => .ok q
  | _ => .error .exit

def rangeVals (isDate : Bool) (a s b : Rat) : Res (List Rat) :=
  if isDate then rangeDates a s b else .ok (rangeNums a s b)

/-- one comma-separated part -/
def evalFields (isDate : Bool) (fs : List Fld) : Res (List Rat) :=
  if fs.any (· == .empty) then .error .exit
  else match fs with
    | [w] => do let v ← w.get; pure [v]
    | [a, b] => do
        let a ← a.get
        let b ← b.get
        rangeVals isDate a 1 b
    | [a, s, b] => do
        let a ← a.get
        let s ← s.get
        if s = 0 then .error .exit
        else do
          let b ← b.get
          rangeVals isDate a s b
    | _ => .error .exit

def evalParts (isDate : Bool) : List (List Fld) → Res (List Rat)
  | [] => .ok []
  | p :: ps => do
      let v ← evalFields isDate p
      let vs ← evalParts isDate ps
      pure (v ++ vs)

def lex (s : String) : List (List Fld) :=
  (s.splitOn ",").map fun p => (p.splitOn ":").map lexField

/-- `verif.util.parse_numbers` -/
def parseNumbers (s : String) (isDate : Bool) : Res (List Rat) :=
  if s.toList.any (fun c => !allowed c) then .error .exit
  else do
    let vs ← evalParts isDate (lex s)
    pure (if isDate then vs.map (fun q => ((trunc q : Int) : Rat)) else vs)

end VerifModel.ParseNumbers
