import VerifModel.Model.Scripts
/-
  C20 — what the helper scripts do with everything ELSE a verif file can hold.

  A verif NetCDF file may carry, next to obs and fcst: `pit`, an `ensemble`, stored probabilities
  (`threshold` + `cdf`), stored quantiles (`quantile` + `x`), any number of other 3-D score fields, and
  the global attributes `x0` / `x1` (discrete masses of the variable).  Each script opens the input
  with `verif.input.get_input`, creates a NEW output file and writes a fixed list of variables
  (read from the output sections of scripts/accumulate.py, window.py, ens2prob.py, expandverif.py):

      accumulate, window   time leadtime location lat lon altitude + obs / fcst (those present)
      ens2prob             the same + obs / fcst copied, threshold + cdf (with -r), quantile + x (with -q),
                           pit (with -p)  — all three COMPUTED from the ensemble
      expandverif          time leadtime location lat lon altitude, obs (re-indexed), fcst (created, never
                           written), threshold + cdf (with -t) and quantile + x (with -q): created, never written
      all four             long_name / standard_name, units, and (since the repair) x0, x1

  so the ensemble, a stored pit, stored cdf / x and every other field are NOT carried over by any of them
  (recorded as known findings field-dropped / variable-never-written).  `Extras` is that rest of the
  file, `carry` what survives.
-/
namespace VerifModel.Scripts
open VerifModel

/-- a 4-D variable with its coordinate (thresholds / quantile levels; empty for the ensemble) -/
structure Var4 where
  coord : Vec
  data : Vec
  deriving DecidableEq, Repr

/-- what a verif file holds besides name, units, coordinates, obs and fcst -/
structure Extras where
  ens : Option Vec := none
  pit : Option Vec := none
  cdf : Option Var4 := none
  x : Option Var4 := none
  other : List (String × Vec) := []
  x0 : Option XR := none
  x1 : Option XR := none
  deriving DecidableEq, Repr

inductive Script
  | accumulate | window | ens2prob | expandverif
  deriving DecidableEq, Repr

/-- what every script copies from the rest of the input: the two attributes, nothing else -/
def carry (_s : Script) (e : Extras) : Extras := { x0 := e.x0, x1 := e.x1 }

/-- expandverif's `-t` / `-q`: variables of the requested sizes are created and left unwritten
(every cell is the fill value = missing) -/
def expandStubs (cells : Nat) (t q : Vec) : Option Var4 × Option Var4 :=
  (if t.isEmpty then none else some ⟨t, List.replicate (cells * t.length) .nan⟩,
   if q.isEmpty then none else some ⟨q, List.replicate (cells * q.length) .nan⟩)

end VerifModel.Scripts
