import VerifModel.Base.Decimal
import VerifModel.Model.Axis
/-
  ListOutput — model of what `verif.driver.run` prints for the listing options (driver.py:359-391):

      if list_thresholds:  print("Thresholds:", end=' '); for t in data.thresholds: print("%g" % t, end=' '); print("")
      if list_quantiles:   print("Quantiles:", end=' ');  for q in data.quantiles:  print("%g" % q, end=' '); print("")
      if list_locations:   print("    id     lat     lon    elev")
                           for l in data.locations: print("%6d %7.2f %7.2f %7.1f" % (l.id, l.lat, l.lon, l.elev))
                           print("")
      if list_times:       for t in data.times: print("%d" % t)
                           print("")
      if list_dates:       for t in data.times:
                               date = unixtime_to_date(t); diff = t % 86400
                               hour = diff / 3600; minute = (diff % 3600)/60; second = diff % 60
                               print("%d %02d:%02d:%02d" % (date, hour, minute, second))
                           print("")

  in this fixed order whatever the order of the flags.  The model is about the FORMATTING: the input is
  the verified dimension values of the `Data` object (exact: every double is a rational, `data.times` is
  an integer array), the output is the emitted character sequence.

  Python's `%` operator on exact values:
    `%d`   of an int: decimal digits with a leading `-`; of a float: the value truncated toward zero
           (`hour = diff / 3600` is a float; `location.id` is a float read from the file);
    `%02d` pads with zeros to at least two digits;
    `%6d`, `%7.2f`, `%7.1f` pad with blanks on the left to at least the width (never truncate);
    `%.{k}f` rounds the EXACT binary value half-to-even to k decimals (CPython: `PyOS_double_to_string`,
           correctly rounded); a negative value that rounds to zero keeps its sign (`-0.00`);
    `%g`   = `Decimal.fmtGChars 6`.
  Negative zero is not modelled (`XR`/`Rat` have a single zero).  Strings are `List Char`.
-/
namespace VerifModel.ListOutput
open VerifModel Decimal Calendar Axis

abbrev Str := List Char

/-- `"%d" % z` for an integer -/
def intChars (z : Int) : Str := if z < 0 then '-' :: natChars z.natAbs else natChars z.natAbs

/-- Python `int(x)` of a float (what `%d` does to a float): truncation toward zero -/
def truncZ (q : Rat) : Int := q.num.tdiv (q.den : Int)

/-- `"%{w}s"`: blanks on the left up to width `w` -/
def padLeft (w : Nat) (s : Str) : Str := List.replicate (w - s.length) ' ' ++ s

/-- `"%0{w}d" % n` for a natural number -/
def pad0 (w n : Nat) : Str := List.replicate (w - (natChars n).length) '0' ++ natChars n

/-- the `k` decimals of `r / 10^k`, most significant first -/
def fracDigits (k r : Nat) : Str := (padRev k r).reverse.map digitChar

/-- `|q|·10^k` rounded to the nearest integer, ties to even -/
def scaled (k : Nat) (q : Rat) : Nat := roundHalfEven (q.num.natAbs * 10 ^ k) q.den

/-- `"%.{k}f" % x` on the exact value of `x` -/
def fixedF (k : Nat) (q : Rat) : Str :=
  let r := scaled k q
  (if q < 0 then ['-'] else []) ++ (natChars (r / 10 ^ k) ++ (if k = 0 then [] else '.' :: fracDigits k (r % 10 ^ k)))

/-- one verified location: `location.id`, `.lat`, `.lon`, `.elev` (floats) -/
structure Loc where
  id : Rat
  lat : Rat
  lon : Rat
  elev : Rat
  deriving DecidableEq, Repr

/-- `"    id     lat     lon    elev"` -/
def locHeader : Str :=
  [' ', ' ', ' ', ' ', 'i', 'd', ' ', ' ', ' ', ' ', ' ', 'l', 'a', 't', ' ', ' ', ' ', ' ', ' ', 'l', 'o', 'n',
   ' ', ' ', ' ', ' ', 'e', 'l', 'e', 'v']

/-- `"%6d %7.2f %7.2f %7.1f" % (id, lat, lon, elev)` -/
def locLine (l : Loc) : Str :=
  padLeft 6 (intChars (truncZ l.id)) ++ ' ' :: (padLeft 7 (fixedF 2 l.lat) ++ ' ' :: (padLeft 7 (fixedF 2 l.lon) ++
    ' ' :: padLeft 7 (fixedF 1 l.elev)))

/-- `"%d" % time` -/
def timeLine (t : Int) : Str := intChars t

/-- `"%02d:%02d:%02d" % (diff / 3600, (diff % 3600)/60, diff % 60)` for `diff = time % 86400`
(the two quotients are floats that `%02d` truncates; they are non-negative) -/
def hmsChars (t : Int) : Str :=
  let s := secOfDay t
  pad0 2 (s / 3600) ++ ':' :: (pad0 2 (s % 3600 / 60) ++ ':' :: pad0 2 (s % 60))

/-- `"%d %02d:%02d:%02d" % (unixtime_to_date(time), hour, minute, second)` -/
def dateLine (t : Int) : Str := natChars (civil t).toYmd ++ ' ' :: hmsChars t

/-- what a sequence of `print(line)` calls emits -/
def unlines (ls : List Str) : Str := ls.flatMap (· ++ ['\n'])

/-- `print(name, end=' ')`, `print("%g" % v, end=' ')` for every value, `print("")` -/
def valuesLine (name : Str) (v : List XR) : Str :=
  name ++ ' ' :: (v.flatMap (fun x => fmtGChars 6 x ++ [' ']) ++ ['\n'])

def thresholdsName : Str := ['T', 'h', 'r', 'e', 's', 'h', 'o', 'l', 'd', 's', ':']
def quantilesName : Str := ['Q', 'u', 'a', 'n', 't', 'i', 'l', 'e', 's', ':']

def listThresholds (v : List XR) : Str := valuesLine thresholdsName v
def listQuantiles (v : List XR) : Str := valuesLine quantilesName v

/-- header, one row per location, an empty line -/
def listLocations (ls : List Loc) : Str := unlines (locHeader :: (ls.map locLine ++ [[]]))

/-- one row per time, an empty line -/
def listTimes (ts : List Int) : Str := unlines (ts.map timeLine ++ [[]])
def listDates (ts : List Int) : Str := unlines (ts.map dateLine ++ [[]])

/-- which `--list-*` flags are on the command line -/
structure Flags where
  thresholds : Bool
  quantiles : Bool
  locations : Bool
  times : Bool
  dates : Bool
  deriving DecidableEq, Repr

/-- the whole standard output of a listing run: the five blocks in the order of driver.py, each only if
its flag is given -/
def listing (f : Flags) (thr qua : List XR) (locs : List Loc) (times : List Int) : Str :=
  (if f.thresholds then listThresholds thr else []) ++
  ((if f.quantiles then listQuantiles qua else []) ++
  ((if f.locations then listLocations locs else []) ++
  ((if f.times then listTimes times else []) ++
  (if f.dates then listDates times else []))))

end VerifModel.ListOutput
