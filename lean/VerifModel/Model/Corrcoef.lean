import VerifModel.Base.XR
import VerifModel.Base.Tr
import VerifModel.Base.Vec
/-
  The NumPy library call `np.corrcoef(x, y)[1, 0]` as a primitive of the translated deterministic
  formulas (harness/pyexpr.py maps the call to `corrCore`; Gen/Det.lean imports this file).
  NumPy itself is a trusted primitive; that `corrCore` is Pearson's r limited to [-1, 1] is proved in
  Proofs/C05Rank.lean (`corrCore_pearson`, `C05_corr_def`), and the stream metric.det compares it with
  the real call on every run.
-/
namespace VerifModel

/-- Pearson correlation as `np.corrcoef(obs, fcst)[1, 0]` computes it
(cov / sqrt(var_o) / sqrt(var_f), clipped to [-1, 1]), with Corr's guards -/
def corrCore (T : Tr) (obs fcst : Vec) : XR :=
  let mo := Vec.mean obs
  let mf := Vec.mean fcst
  let cov := Vec.sum (Vec.mul (Vec.subS obs mo) (Vec.subS fcst mf))
  let vo := Vec.sum (Vec.npow (Vec.subS obs mo) 2)
  let vf := Vec.sum (Vec.npow (Vec.subS fcst mf) 2)
  let r := cov / T.sqrt vo / T.sqrt vf
  if XR.lt (.fin 1) r then .fin 1 else if XR.lt r (.fin (-1)) then .fin (-1) else r

end VerifModel
