import VerifModel.Model.Contingency
/-
  `Contingency.compute_from_obs_fcst(obs, fcst, interval, f_interval=None)` with its optional forecast
  interval (metric.py:1519-1521, 1541-1560): `if f_interval is None: f_interval = interval`.
  Callers inside verif that pass one: output.py:2900-2901 (Roc: `get_intervals(bin_type, f_thresholds)`),
  output.py:3219-3220 (Performance: `_get_f_intervals`, forecast thresholds at percentiles of the forecasts).
-/
namespace VerifModel

/-- the interval that defines the forecasts' event -/
def fcstInterval (I : Interval) : Option Interval → Interval
  | none => I
  | some J => J

/-- `_compute_abcd(obs, fcst, interval, f_interval)` -/
def abcdF (I : Interval) (fi : Option Interval) (obs fcst : Vec) : Option Table :=
  abcd I (fcstInterval I fi) obs fcst

/-- `compute_from_obs_fcst(obs, fcst, interval, f_interval)` -/
def contScoreF (T : Tr) (name : String) (I : Interval) (fi : Option Interval) (obs fcst : Vec) : Option XR :=
  contScore T name I (fcstInterval I fi) obs fcst

end VerifModel
