import VerifModel.Base.XR
import VerifModel.Gen.Clean
/-
  Model of the two missing-value cleaners: util.clean (NetCDF variables) and
  Text._clean (text tokens).
-/
namespace VerifModel

/-- one element of a NetCDF variable as netCDF4 hands it over -/
inductive NcCell where
  | masked                 -- fill value / masked
  | val (v : XR)
  deriving Repr, DecidableEq

/-- `util.clean`, one element: masked ↦ -999, NaN ↦ -999, then (-999 or > 1e30) ↦ NaN.
The Python literal `1e30` is the double 1000000000000000019884624838656. -/
def clean (c : NcCell) : XR :=
  let q : XR := match c with
    | .masked => .fin (-999)
    | .val v => if v.isNan then .fin (-999) else v
  if XR.eqb q (.fin (-999)) || XR.gt q (.fin 1000000000000000019884624838656) then .nan else q

/-- a text token after Python's `float()`: a number (possibly nan / ±inf) or a ValueError -/
inductive Tok where
  | num (v : XR)
  | bad
  deriving Repr, DecidableEq

/-- `Text._clean` (since f945b9c: the same encodings as `util.clean`, a value above 1e30 is missing; a nan token
is NaN either way — the code's extra `or np.isnan(fvalue)` only makes it the np.nan singleton: `textClean_eq`) -/
def textClean : Tok → XR
  | .bad => .nan
  | .num v => if XR.eqb v (.fin (-999)) || XR.gt v (.fin 1000000000000000019884624838656) then .nan else v

end VerifModel
