import VerifModel.Model.Data
/-
  The stateful side of verif/data.py: the per-input field cache
  (`_get_score_cache`, arrays shared by reference, masked in place by
  -obsrange) and the request cache (`_get_scores_cache`).

  Heap model: `store` is a list of arrays, a reference is an index.  Inputs
  without observations share the reference of the input they borrow from,
  exactly as the code shares the array object.  Returned answers are values:
  after the repair of data.py (copy before masking) `get_scores` never hands
  out a reference into the cache — `flatten()`, fancy indexing, arithmetic and
  `.copy()` all allocate — which the correspondence stream checks by re-reading
  earlier answers.
-/
namespace VerifModel

abbrev Ref := Nat

structure DState where
  store : List Arr3
  cache : String → Nat → Option Ref
  answers : Req → Option (List Vec)

def DState.init : DState := { store := [], cache := fun _ _ => none, answers := fun _ => none }

/-- `_get_score(field, i)`: on a miss, load the field for every input (cut, borrow, propagate),
allocate the arrays and record the references; return the reference for input `i`. -/
def DataS.getRef (D : DataS) (s : DState) (name : String) (i : Nat) : Except String (DState × Ref) :=
  match s.cache name i with
  | some r => .ok (s, r)
  | none => do
    let arrs ← D.loadAll name
    let parrs := propagate arrs
    let base := s.store.length
    let s' : DState := { s with
      store := s.store ++ parrs
      cache := fun f j => if f == name && j < D.inputs.length then some (base + D.ownerOf name j)
                          else s.cache f j }
    .ok (s', base + D.ownerOf name i)

/-- fetch the array for one requested field, applying -obsrange IN PLACE to the cached array -/
def DataS.getArr (D : DataS) (s : DState) (name : String) (i : Nat) : Except String (DState × Arr3) := do
  let (s1, r) ← D.getRef s name i
  let a := s1.store.getD r []
  let a' := maskObsRange D.cfg.obsRange name a
  .ok ({ s1 with store := s1.store.set r a' }, a')

/-- the requested columns, threading the state -/
def DataS.colsS (D : DataS) (r : Req) (clim : Option Vec) :
    DState → List String → Except String (DState × List Vec)
  | s, [] => .ok (s, [])
  | s, name :: rest => do
    let (s1, a) ← D.getArr s name r.input
    let col := climAdjust D.cfg.climDivide name (applySel a r.sel) clim
    let (s2, cols) ← D.colsS r clim s1 rest
    .ok (s2, col :: cols)

/-- the climatology's forecast for the slice, through the cache -/
def DataS.climS (D : DataS) (s : DState) (r : Req) : Except String (DState × Option Vec) :=
  if D.doClim r then
    match D.getRef s "fcst" (D.inputs.length - 1) with
    | .error e => .error e
    | .ok (s1, ref) => .ok (s1, some (applySel (s1.store.getD ref []) r.sel))
  else .ok (s, none)

/-- `get_scores` with both caches -/
def DataS.step (D : DataS) (s : DState) (r : Req) : Except String (DState × List Vec) :=
  match s.answers r with
  | some ans => .ok (s, ans)
  | none =>
    if r.input ≥ D.nScored then .error "input_index out of range"
    else
      match D.climS s r with
      | .error e => .error e
      | .ok (s1, clim) =>
        match D.colsS r clim s1 r.fields with
        | .error e => .error e
        | .ok (s2, cols) =>
          let ans := finish r.sel r.fields.length cols
          .ok ({ s2 with answers := fun k => if k = r then some ans else s2.answers k }, ans)

/-- run a request history; stops at the first error (the command-line tool terminates there) -/
def DataS.run (D : DataS) : DState → List Req → Except String (DState × List (List Vec))
  | s, [] => .ok (s, [])
  | s, r :: rest => do
    let (s1, a) ← D.step s r
    let (s2, as) ← D.run s1 rest
    .ok (s2, a :: as)

end VerifModel
