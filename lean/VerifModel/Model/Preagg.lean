import VerifModel.Model.Aggregator
import VerifModel.Model.Prob
/-
  Model of the `-T` pre-aggregation of verif/data.py:

      def preaggregate_leadtime(array, leadtimes, aggregator, length):
          assert len(leadtimes) == array.shape[1]
          new_array = np.nan * np.zeros(array.shape, np.float32)
          for t in range(array.shape[1]):
              start = leadtimes[t] - length
              I = np.where((leadtimes > start) & (leadtimes <= leadtimes[t]))[0]
              new_array[:, t, :] = aggregator(array[:, I, :], axis=1)
          return new_array

  `preaggregate_time` is the same along axis 0 with `start = times[t] - length * 3600`
  (times are unix seconds, the length is in hours).  `Data.preaggregate` applies one of the two
  to every array it loads (observations, forecasts, every other field, the ensemble) when
  `dim_agg_length` (-T) is set.

  Mirrored literally: the window of position t is the set of positions j whose coordinate
  satisfies x_t − h·scale < x_j ≤ x_t, in series order, whatever the order of the coordinates.
  (Before the repair it was the index range [first index whose coordinate is > x_t − h·scale, t],
  which is that set only on ascending coordinates; `firstAbove` / `slice` below describe that range
  and are kept for the statement "on ascending coordinates the window is a contiguous range".)
  The result is stored as float32 (rounding: not modelled, compared with a float32 tolerance).
  For h ≤ 0 (rejected by the driver: "-T <value> must be greater than 0") the window is empty and
  the aggregator sees an empty slice (`f []`); outside the property and not part of the check.
-/
namespace VerifModel.Preagg
open VerifModel

/-- first index whose coordinate is above `start` (on ascending coordinates the window starts there) -/
def firstAbove (coords : List XR) (start : XR) : Option Nat :=
  List.findIdx? (fun c => XR.gt c start) coords

/-- the index range `first … t` of a series -/
def slice {α : Type} (vals : List α) (first t : Nat) : List α := List.drop first (List.take (t + 1) vals)

/-- `array[I]` for `I = np.where((coords > start) & (coords <= ct))[0]`: the entries whose coordinate
lies in (start, ct], in series order -/
def selectWindow {α : Type} (coords : List XR) (vals : List α) (start ct : XR) : List α :=
  ((coords.zip vals).filter fun p => XR.gt p.1 start && XR.le p.1 ct).map (·.2)

/-- one cell of the new array: position `t` of one series -/
def preaggAt (f : Vec → Option XR) (scale h : XR) (coords : List XR) (vals : Vec) (t : Nat) :
    Option XR :=
  match coords[t]? with
  | none => none
  | some ct => f (selectWindow coords vals (ct - h * scale) ct)

/-- a whole series (1-D) -/
def preagg1 (f : Vec → Option XR) (scale h : XR) (coords : List XR) (vals : Vec) : Option Vec :=
  if coords.length ≠ List.length vals then none      -- the `assert`
  else (List.range (List.length vals)).mapM (preaggAt f scale h coords vals)

/-- an n-d array along axis `k` (the code uses k = 0 for time, k = 1 for lead time; arrays are
(time, leadtime, location) or (time, leadtime, location, member)) -/
def preaggArr (f : Vec → Option XR) (scale h : XR) (coords : List XR) (k : Nat) (arr : Arr) :
    Option Arr :=
  match arr.dims[k]? with
  | none => none
  | some n =>
    if coords.length ≠ n then none
    else
      let outer := Arr.prod (arr.dims.take k)
      let inner := Arr.prod (arr.dims.drop (k + 1))
      let cells : List (Option XR) :=
        (List.range outer).flatMap fun o => (List.range n).flatMap fun t => (List.range inner).map fun i =>
          preaggAt f scale h coords (Arr.fiberAt arr.data n inner o i) t
      (cells.mapM id).map fun d => ⟨arr.dims, d⟩

/-- the two entry points -/
def preaggLead (f : Vec → Option XR) (h : XR) (leadtimes : List XR) (arr : Arr) : Option Arr :=
  preaggArr f (.fin 1) h leadtimes 1 arr

def preaggTime (f : Vec → Option XR) (h : XR) (times : List XR) (arr : Arr) : Option Arr :=
  preaggArr f (.fin 3600) h times 0 arr

/-! ### which loaded arrays `Data._get_score` pre-aggregates (data.py 470-575) -/

inductive FieldKind where
  | obs | fcst | pit | other | member      -- `temp = self.preaggregate(temp, input)`
  | thresholdFromEnsemble                  -- `temp = self.preaggregate(input.ensemble, input)` then P(member ≤ t)
  | quantileFromEnsemble                   -- `temp = self.preaggregate(input.ensemble, input)`;
                                           -- `temp = np.quantile(input.ensemble, …)`  (temp is overwritten)
  deriving DecidableEq, Repr

/-- is the array the score is computed from the pre-aggregated one? -/
def FieldKind.usesPreaggregated : FieldKind → Bool
  | _ => true      -- (the quantile-from-ensemble path ignored it until the repair of data.py:543)

/-! ### the slice of `Data._get_score` that C15 needs (one input, no climatology) -/

/-- remove adjacent duplicates of a sorted list (`np.unique` after `np.sort`) -/
def dedup : List XR → List XR
  | a :: b :: rest => if XR.eqb a b then dedup (b :: rest) else a :: dedup (b :: rest)
  | l => l

/-- `Data._get_common_indices` for a single input: the sorted distinct coordinate values
(intersected with the user's subset when given), each mapped to the first position holding it -/
def commonIdx (coords : List XR) (sel : Option (List XR)) : List Nat :=
  let avail := dedup (Vec.sort coords)
  let avail := match sel with
    | none => avail
    | some s => avail.filter fun v => s.any (XR.eqb v)
  avail.filterMap fun v => List.findIdx? (fun c => XR.eqb c v) coords

/-- `array[..., idx, ...]` along axis k -/
def takeAxis (arr : Arr) (k : Nat) (idx : List Nat) : Option Arr :=
  match arr.dims[k]? with
  | none => none
  | some n =>
    let outer := Arr.prod (arr.dims.take k)
    let inner := Arr.prod (arr.dims.drop (k + 1))
    let d := (List.range outer).flatMap fun o => idx.flatMap fun j => (List.range inner).map fun i =>
      (arr.data[(o * n + j) * inner + i]?).getD .nan
    some ⟨arr.dims.set k idx.length, d⟩

/-- fraction of the non-missing members that are ≤ thr (`np.nanmean(temp <= thr)`); NaN if none -/
def probLE (members : Vec) (thr : XR) : XR :=
  let valid := List.filter (fun x => !x.isNan) members
  Vec.countTrue (List.map (fun x => XR.le x thr) valid) / Vec.len valid

inductive FieldSel where
  | obs | fcst | member (m : Nat) | threshold (x : XR) | quantile (q : Rat)

def FieldSel.kind : FieldSel → FieldKind
  | .obs => .obs | .fcst => .fcst | .member _ => .member
  | .threshold _ => .thresholdFromEnsemble | .quantile _ => .quantileFromEnsemble

/-- chunks of length m -/
def chunks (m : Nat) (data : List XR) (count : Nat) : List Vec :=
  (List.range count).map fun c => List.take m (List.drop (c * m) data)

/-- `Data.get_scores(field, 0, axis.All())` for a single input with `dim_agg_*` set: load the
field's array, pre-aggregate it over the input's FULL series, derive the field, then cut to the
selected times / lead times.  The quantile field: since the repair of data.py:543 (3ab2f86) it is
`np.quantile(pre-aggregated members, q, method="normal_unbiased")` = C08's estimator `Prob.ensQuantile`
applied cell by cell to the pre-aggregated members (inner `none` = no members: the code exits with
"does not contain").  The outer `none` (UNMODELLED) is no longer produced.
Several inputs, PIT, other-score fields: Model/PreaggData.lean. -/
def dataScore (f : Vec → Option XR) (scale : XR) (k : Nat) (h : XR) (times leads : List XR)
    (obs fcst ens : Arr) (field : FieldSel) (selT selL : Option (List XR)) : Option (Option Arr) :=
  let coords := if k = 0 then times else leads
  let cut (a : Arr) : Option Arr :=
    (takeAxis a 0 (commonIdx times selT)).bind fun a => takeAxis a 1 (commonIdx leads selL)
  let cells := Arr.prod (obs.dims)
  let m := (ens.dims[3]?).getD 0
  match field with
  | .quantile q =>
      some ((preaggArr f scale h coords k ens).bind fun a =>
        ((chunks m a.data cells).mapM fun c => Prob.ensQuantile q c).bind fun d => cut ⟨obs.dims, d⟩)
  | .obs => some ((preaggArr f scale h coords k obs).bind cut)
  | .fcst => some ((preaggArr f scale h coords k fcst).bind cut)
  | .member j =>
      let mem : Arr := ⟨obs.dims, (chunks m ens.data cells).map fun c => (c[j]?).getD .nan⟩
      some ((preaggArr f scale h coords k mem).bind cut)
  | .threshold x =>
      some ((preaggArr f scale h coords k ens).bind fun a =>
        cut ⟨obs.dims, (chunks m a.data cells).map fun c => probLE c x⟩)

end VerifModel.Preagg
