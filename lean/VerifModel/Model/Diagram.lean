import VerifModel.Base.Vec
import VerifModel.Model.Interval
import VerifModel.Model.Aggregator
import VerifModel.Model.Contingency
import VerifModel.Model.DetMetrics
/-
  Model of verif/output.py (C16): for each modelled diagram, the SERIES IT DRAWS as a pure
  function of the valid cases that `Data.get_scores` hands to the diagram.  Hand-written mirror of
  the code's computation, including its bin-edge conventions, minimum-count rules, the end points
  added to the ROC curve and the sorting.  Decoration (diagonals, rings, labels) is not modelled; the
  shaded band of util.fill is (`fillPolygon`: the polygon's vertices), and ObsFcst's quantile bands with it.

  Bin conventions found in the code:
    memHist e_i ≤ x < e_{i+1}, the last bin also contains its upper edge (np.histogram's bins)
                                   PitHist, Reliability, InvReliability, Discrimination, IgnContrib,
                                   Scatter (conditional quantiles), util.bin
    memHO   e_i ≤ x < e_{i+1}      BsRel/BsRes (last edge 1.001, above every probability)
    memOCF  e_{i-1} < x ≤ e_i, the first bin also contains its lower edge     SpreadSkill, Change
    Interval.within of the -b bin type (default `within=`)           Hist, Freq, Cond
-/
namespace VerifModel.Diagram
open VerifModel

structure Series where
  ax : Nat            -- index of the axes in the figure
  kind : String       -- "line" | "bar"
  label : String
  xs : Vec
  ys : Vec
  ws : Option Vec := none      -- bar widths
  deriving Repr, DecidableEq

/-- legend name of input k (the harness names its inputs in0, in1, …) -/
def inName (k : Nat) : String := s!"in{k}"

/-- one group of series per scored input, in input order -/
def perInput {α : Type} (draw : Nat → α → List Series) (ins : List α) : List Series :=
  (ins.zipIdx).flatMap fun p => draw p.2 p.1

/-! ### bins -/

def memHO (lo hi x : XR) : Bool := XR.ge x lo && XR.lt x hi

/-- the cases of each bin, for a membership test on consecutive edge pairs -/
def binsBy {α : Type} (mem : XR → XR → XR → Bool) (edges : List XR) (key : α → XR) (cs : List α) :
    List (List α) :=
  (pairs edges).map fun e => cs.filter fun c => mem e.1 e.2 (key c)

/-- np.histogram's bins: consecutive pairs, the last one flagged (closed on the right) -/
def histPairs : List XR → List (XR × XR × Bool)
  | a :: b :: [] => [(a, b, true)]
  | a :: b :: c :: rest => (a, b, false) :: histPairs (b :: c :: rest)
  | _ => []

def memHist (e : XR × XR × Bool) (x : XR) : Bool :=
  XR.ge x e.1 && (if e.2.2 then XR.le x e.2.1 else XR.lt x e.2.1)

def histCounts (edges : List XR) (xs : Vec) : List Nat :=
  (histPairs edges).map fun e => (xs.filter (memHist e)).length

def natSum (l : List Nat) : Nat := l.foldr (· + ·) 0

/-- the cases of each bin for half-open bins whose last one is closed on the right -/
def binsLast {α : Type} (edges : List XR) (key : α → XR) (cs : List α) : List (List α) :=
  (histPairs edges).map fun e => cs.filter fun c => memHist e (key c)

/-- consecutive pairs, the first one flagged (closed on the left) -/
def firstPairs : List XR → List (XR × XR × Bool)
  | a :: b :: rest => (a, b, true) :: (histPairs (b :: rest)).map fun e => (e.1, e.2.1, false)
  | _ => []

def memOCF (e : XR × XR × Bool) (x : XR) : Bool :=
  (if e.2.2 then XR.ge x e.1 else XR.gt x e.1) && XR.le x e.2.1

/-- the cases of each bin for bins (lo, hi] whose first one is closed on the left -/
def binsFirst {α : Type} (edges : List XR) (key : α → XR) (cs : List α) : List (List α) :=
  (firstPairs edges).map fun e => cs.filter fun c => memOCF e (key c)

/-- default probability bin edges of the Reliability diagram, and 0, 0.1, …, 1 (Discrimination, ROC levels, PitHist) -/
def reliabilityDefaultEdges : List XR :=
  ([0, 1/20, 3/20, 1/4, 7/20, 9/20, 11/20, 13/20, 3/4, 17/20, 19/20, 1] : List Rat).map XR.fin
def tenths : List XR := (List.range 11).map fun (k : Nat) => XR.fin ((k : Rat) / 10)

/-! ### small statistics -/

/-- np.sort on data that may contain NaN: NaNs go last -/
def sortN (v : Vec) : Vec := Vec.sort (v.filter fun x => !x.isNan) ++ v.filter XR.isNan

def meanOr0 (v : Vec) : XR := if v.isEmpty then .fin 0 else Vec.mean v
def meanOrNan (v : Vec) : XR := if v.isEmpty then .nan else Vec.mean v

/-- np.linspace(0, 100, n) -/
def linspace100 (n : Nat) : Vec :=
  if n = 1 then [.fin 0] else (List.range n).map fun (i : Nat) => XR.fin ((100 : Rat) * (i : Rat) / ((n : Rat) - 1))

def obs01 (b : BinType) (t : XR) (o : XR) : XR := (applyThreshold b t none o).getD .nan
def pEvent (b : BinType) (p : XR) : XR := (applyThresholdProb b p none).getD .nan

/-! ### the diagrams -/

/-- QQ: sorted observations against sorted forecasts -/
def qqSeries (obs fcst : Vec) : Vec × Vec := (sortN obs, sortN fcst)

/-- Sort: sorted values against np.linspace(0, 100, n) -/
def sortSeries (v : Vec) : Vec × Vec := (Vec.sort v, linspace100 v.length)

/-- per-slice mean (ObsFcst, QQ/Scatter with -x) -/
def sliceMeans (sl : List Vec) : Vec := sl.map Vec.mean

/-! ### util.fill: the shaded band between two envelopes -/

/-- `not (np.isnan(x[i]) or np.isnan(y[i]))` -/
def fillKeep (x y : XR) : Bool := !(x.isNan || y.isNan)

/-- the first loop of util.fill: `for i in range(0, len(x))`, appending the non-missing (x, y_lower) points -/
def fillFwd : Vec → Vec → List (XR × XR)
  | x :: xs, y :: ys => if fillKeep x y then (x, y) :: fillFwd xs ys else fillFwd xs ys
  | _, _ => []

/-- the second loop of util.fill: `for i in range(len(x) - 1, -1, -1)`, appending the non-missing
(x, y_upper) points; written as a walk from the front that pushes onto what comes later -/
def fillBwd : Vec → Vec → List (XR × XR) → List (XR × XR)
  | x :: xs, y :: ys, acc => fillBwd xs ys (if fillKeep x y then (x, y) :: acc else acc)
  | _, _, acc => acc

/-- util.fill(x, y_lower, y_upper, …): the vertices (X[k], Y[k]) handed to `mpl.fill` (nothing is drawn
when the list is empty).  Each envelope is filtered on its OWN missing values. -/
def fillPolygon (xs lower upper : Vec) : List (XR × XR) :=
  fillFwd xs lower ++ fillBwd xs upper []

/-- the band as an artist: nothing when there is no vertex -/
def fillSeries (xs lower upper : Vec) : List Series :=
  let p := fillPolygon xs lower upper
  if p.isEmpty then [] else [{ ax := 0, kind := "poly", label := "_", xs := p.map (·.1), ys := p.map (·.2) }]

/-- ObsFcst with -q: band i lies between the i-th and the i-th last quantile line (`len(q) // 2` bands) -/
def obsfcstBands (ax : Vec) (qs : List (String × List Vec)) : List Series :=
  (List.range (qs.length / 2)).flatMap fun i =>
    fillSeries ax (sliceMeans ((qs[i]?).map (·.2) |>.getD [])) (sliceMeans ((qs[qs.length - 1 - i]?).map (·.2) |>.getD []))

/-- ObsFcst: the observation line of input 0, then per input its forecast line, its quantile lines and the
bands between them -/
def obsfcstSeries (ax : Vec) (obs0 : List Vec) (ins : List (List Vec × List (String × List Vec))) : List Series :=
  { ax := 0, kind := "line", label := "Observed", xs := ax, ys := sliceMeans obs0 } ::
  perInput (fun k (i : List Vec × List (String × List Vec)) =>
    { ax := 0, kind := "line", label := inName k, xs := ax, ys := sliceMeans i.1 } ::
      (i.2.map fun q => { ax := 0, kind := "line", label := inName k ++ "_" ++ q.1, xs := ax, ys := sliceMeans q.2 }) ++
      obsfcstBands ax i.2) ins

/-- Hist: percentage of the binned values per interval of the -b bin type -/
def histCountsIv (ivs : List Interval) (v : Vec) : List Nat :=
  ivs.map fun I => (v.filter I.withinVal).length

def histSeries (ivs : List Interval) (v : Vec) : Vec :=
  let c := histCountsIv ivs v
  c.map fun n => XR.ofNat n * .fin 100 / XR.ofNat (natSum c)

/-- Freq: fraction of the values inside each interval -/
def freqSeries (ivs : List Interval) (v : Vec) : Vec :=
  ivs.map fun I => Vec.mean (v.map fun x => boolToXR (I.withinVal x))

/-- Cond: (median of the conditioning values, mean of the other variable) per interval -/
def condSeries (ivs : List Interval) (x y : Vec) : Vec × Vec :=
  let sel := fun (I : Interval) => (x.zip y).filter fun p => I.withinVal p.1
  (ivs.map fun I => if (sel I).isEmpty then .nan else Agg.medianOf ((sel I).map (·.1)),
   ivs.map fun I => meanOrNan ((sel I).map (·.2)))

/-- Marginal: mean event probability (and, for the observation line, event frequency) per threshold -/
def marginalPoint (b : BinType) (t : XR) (obs p : Vec) : XR × XR :=
  (Vec.mean (p.map (pEvent b)), Vec.mean (obs.map (obs01 b t)))

/-- Reliability / InvReliability: per bin (mean forecast value or 0, observed frequency if the
bin holds at least `minCount` cases, count).  Cases are (observed 0/1, forecast value). -/
def reliabilitySeries (minCount : Nat) (edges : List XR) (cs : List (XR × XR)) : List (XR × XR × Nat) :=
  (binsLast edges (·.2) cs).map fun b =>
    (meanOr0 (b.map (·.2)),
     if 0 < b.length ∧ minCount ≤ b.length then Vec.mean (b.map (·.1)) else .nan,
     b.length)

def relCases (b : BinType) (t : XR) (obs p : Vec) : List (XR × XR) :=
  (obs.zip p).map fun c => (obs01 b t c.1, pEvent b c.2)

def invrelCases (obs q : Vec) : List (XR × XR) :=
  (obs.zip q).map fun c => (boolToXR (XR.le c.1 c.2), c.2)

/-- one curve of InvReliability: the points of one quantile level and one input.  Only the curves of the first
level carry the input's legend name. -/
def invrelCurve (edges : List XR) (t k : Nat) (c : Vec × Vec) : Series :=
  let r := reliabilitySeries 2 edges (invrelCases c.1 c.2)
  { ax := 0, kind := "line", label := if t = 0 then inName k else "_", xs := r.map (·.1), ys := r.map (·.2.1) }

/-- InvReliability with one or several quantile levels (-q a,b,…): for every level, in -q order, one curve per
input in input order.  `levels[t][k]` = the valid (obs, quantile value) vectors of level t and input k.  Every curve
is a function of ITS cases only: the per-bin arrays start afresh (x = 0, y = NaN) for every level, so a bin that is
empty (or holds a single case) at one level has no point there, whatever another level holds in that bin. -/
def invreliabilityFigure (edges : List XR) (levels : List (List (Vec × Vec))) : List Series :=
  (levels.zipIdx.map fun lt => perInput (fun k c => [invrelCurve edges lt.2 k c]) lt.1).flatten

/-- Discrimination: percentage of the cases of one class (observed 0 or 1) per probability bin -/
def discriminationSeries (edges : List XR) (cs : List (XR × XR)) (cls : XR) : Vec :=
  let sel := (cs.filter fun c => XR.eqb c.1 cls).map (·.2)
  (histPairs edges).map fun e => Vec.mean (sel.map fun p => boolToXR (memHist e p)) * .fin 100

/-- bar layout of Discrimination: left edges of the (not observed, observed) bars and the bar width -/
def discriminationLayout (edges : List XR) (f F : Nat) : Vec × Vec × XR :=
  let nb := edges.length - 1
  let width : XR := .fin 1 / XR.ofNat nb
  let barw : XR := width * .fin (4 / 5) / XR.ofNat F / .fin 2
  let cc := (edges.take nb).map fun e => e + XR.ofNat (f + 1) / XR.ofNat (F + 1) * width
  (cc.map fun c => c - barw / .fin 2, cc.map fun c => c - barw - barw / .fin 2, barw)

/-- ROC: (false alarm rate, hit rate) for the event "p ≥ level", NaN unless both classes occur -/
def rocPoint (I : Interval) (lv : XR) (cs : List (XR × XR)) : XR × XR :=
  let J : Interval := intervalOf .aboveEq lv lv
  let a := cs.countP fun c => J.withinVal c.2 && I.withinVal c.1
  let b := cs.countP fun c => J.withinVal c.2 && !I.withinVal c.1
  let c := cs.countP fun c => !J.withinVal c.2 && I.withinVal c.1
  let d := cs.countP fun c => !J.withinVal c.2 && !I.withinVal c.1
  if 0 < a + c ∧ 0 < b + d then (XR.ofNat b / XR.ofNat (b + d), XR.ofNat a / XR.ofNat (a + c)) else (.nan, .nan)

/-- ROC curve with the end points (1,1) and (0,0) -/
def rocSeries (I : Interval) (levels : List XR) (cs : List (XR × XR)) : Vec × Vec :=
  let pts := levels.map fun lv => rocPoint I lv cs
  (.fin 1 :: pts.map (·.1) ++ [.fin 0], .fin 1 :: pts.map (·.2) ++ [.fin 0])

/-- Performance diagram: (1 − FAR, POD) of the deterministic forecast -/
def performancePoint (T : Tr) (I : Interval) (obs fcst : Vec) : XR × XR :=
  (.fin 1 - (contScore T "far" I I obs fcst).getD .nan, (contScore T "hit" I I obs fcst).getD .nan)

/-- Taylor diagram: (σ_f ρ, σ_f √(1−ρ²)) = polar (σ_f, arccos ρ); `norm` divides σ_f by σ_o -/
def taylorPoint (T : Tr) (norm : Bool) (obs fcst : Vec) : XR × XR :=
  let r := corrCore T obs fcst
  let sf := T.sqrt (Vec.var fcst)
  let so := T.sqrt (Vec.var obs)
  let s := if norm then sf / so else sf
  (s * r, s * T.sqrt (.fin 1 - r * r))

/-- Error decomposition: (√(RMSE² − ME²), ME) with ME = mean(fcst − obs), verif's bias -/
def errorSeries (T : Tr) (obs fcst : Vec) : XR × XR :=
  let e := Vec.sub fcst obs
  let serr := Vec.mean e
  let rmse := T.sqrt (Vec.mean (Vec.mul e e))
  (T.sqrt (rmse * rmse - serr * serr), serr)

/-- PIT histogram: left edges, heights (percent of the binned values) and widths of the bars as drawn
(`mpl.bar(edges[:-1], y, width=np.diff(edges), align='edge')`) -/
def pithistBars (edges : List XR) (pit : Vec) : Vec × Vec × Vec :=
  let c := histCounts edges pit
  ((pairs edges).map (·.1),
   c.map fun n => XR.ofNat n / XR.ofNat (natSum c) * .fin 100,
   (pairs edges).map fun e => e.2 - e.1)

/-- Spread-skill: per bin (t_{i-1}, t_i] (the first one [t_0, t_1]) the mean spread and the RMSE; the first
point is NaN -/
def spreadskillSeries (T : Tr) (ths : List XR) (cs : List (XR × XR)) : Vec × Vec :=   -- (spread, squared error)
  let bins := binsFirst ths (·.1) cs
  (.nan :: bins.map fun b => meanOrNan (b.map (·.1)),
   .nan :: bins.map fun b => if b.isEmpty then .nan else T.sqrt (Vec.mean (b.map (·.2))))

def ssCases (obs fcst lo hi : Vec) : List (XR × XR) :=
  ((obs.zip fcst).zip (lo.zip hi)).map fun c => (c.2.2 - c.2.1, (c.1.1 - c.1.2) * (c.1.1 - c.1.2))

/-- edges of BsRel / BsRes: 0, 0.1, …, 0.9, 1.001 -/
def bsEdges : List XR := ((List.range 10).map fun (k : Nat) => XR.fin ((k : Rat) / 10)) ++ [.fin (1001 / 1000)]

/-- BsDecomp: (reliability, resolution) terms: per-case values (p − ō_k)² and (ō_k − ō)² averaged
over the cases that fall in a bin -/
def bsdecompPoint (cs : List (XR × XR)) : XR × XR :=       -- (observed 0/1, p)
  let bins := binsBy memHO bsEdges (·.2) cs
  let ombar := Vec.mean (cs.map (·.1))
  let rel := bins.flatMap fun b => b.map fun c => (c.2 - Vec.mean (b.map (·.1))) * (c.2 - Vec.mean (b.map (·.1)))
  let res := bins.flatMap fun b => b.map fun _ => (Vec.mean (b.map (·.1)) - ombar) * (Vec.mean (b.map (·.1)) - ombar)
  (Vec.mean rel, Vec.mean res)

def bsCases (b : BinType) (t : XR) (obs p : Vec) : List (XR × XR) :=
  (obs.zip p).map fun c => (boolToXR ((intervalOf b t t).withinVal c.1), pEvent b c.2)

/-- Standard line plot: the metric of each slice -/
def standardMetric (T : Tr) (m : String) (obs fcst : Vec) : XR :=
  if m == "corr" then computeFromObsFcst (corr T) obs fcst
  else (detScore T m Vec.mean obs fcst).getD .nan

def standardSeries (T : Tr) (m : String) (sl : List (Vec × Vec)) : Vec :=
  sl.map fun s => standardMetric T m s.1 s.2

/-- Scatter, conditional quantiles of the observation given the forecast bin -/
def scatterLevels : List Rat := [1/100, 1/10, 1/5, 3/10, 2/5, 1/2, 3/5, 7/10, 4/5, 9/10, 99/100]

def scatterQuantiles (edges : List XR) (obs fcst : Vec) : List Vec :=
  let bins := binsLast edges (·.2) (obs.zip fcst)
  scatterLevels.map fun q => bins.map fun b =>
    if b.isEmpty then .nan else (Agg.percentile (b.map (·.1)) q).getD .nan

def mids (edges : List XR) : Vec := (pairs edges).map fun e => (e.2 + e.1) / .fin 2

/-- util.bin(x, y, edges) with np.nanmean, and the number of members per bin -/
def utilBin (edges : List XR) (x y : Vec) : Vec × Vec × List Nat :=
  let bins := binsLast edges (·.1) (x.zip y)
  (bins.map fun b => if b.isEmpty then .nan else Vec.nanmean (b.map (·.1)),
   bins.map fun b => if b.isEmpty then .nan else Vec.nanmean (b.map (·.2)),
   bins.map List.length)

end VerifModel.Diagram
