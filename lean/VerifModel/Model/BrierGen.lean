import VerifModel.Model.Prob
import VerifModel.Gen.Brier
/-
  The Brier-family scores with the bin loops machine-translated from /repo (Gen/Brier.lean) and the
  bin edges of the hand-written model (Model/Prob.lean `edgeQ`: k/10 for k < 10, the double 1.001 for
  the last edge — what `__init__` builds; the `edges` op compares them with the real objects on every run).
  `GenEq.Brier.*_eq`: these are `bsrel`, `bsres`, `bssrel`, `bssres` of Model/Prob.lean.
-/
namespace VerifModel.Prob
open VerifModel

/-- `self._edges` as a list -/
def edgesList : List XR := (List.range (numBins + 1)).map fun i => XR.fin (edgeQ i)

/-- the machine-translated kernel `name` on the model's edges -/
def brierGen (T : Tr) (name : String) (o p : Vec) : Option XR := Gen.Brier.eval T name edgesList o p

end VerifModel.Prob
