import VerifModel.Model.Preagg
import VerifModel.Model.Data
/-
  `-T` with SEVERAL inputs: `Data._get_score` (data.py 442-600) with `dim_agg_length` set.

  What the code does, per requested field and per input `i` (observations: per input that STORES them;
  an input without observations afterwards shares the cached array of the first input that has them):

        temp = input.obs | input.fcst | input.pit | input.ensemble[:, :, :, m] | input.other_score(name)
        temp = self.preaggregate(temp, input)         # windows on THAT input's times / leadtimes
        temp = temp[Itimes, :, :][:, Ileadtimes, :][:, :, Ilocations]      # that input's common indices
        self._get_score_cache[i][field] = temp

  i.e. the stored array of input `i` is replaced by its pre-aggregate ON INPUT i's OWN GRID, over the
  input's FULL series, and only then cut to the times / lead times / locations common to all inputs
  (and to the user's subset).  Everything after that (borrowing of observations, missing in one input
  ⇒ missing in all, validity mask, slicing) is the ordinary `Data` of Model/Data.lean.

  The model therefore is: replace the requested fields of every input (and of the climatology) by
  their pre-aggregates (`preaggInput`), then run the ordinary model on the replaced inputs
  (`getScoresT`).  Borrowed observations come out as the code has them: pre-aggregated on the
  LENDING input's grid, because it is the lender's array that is replaced.

  Laziness: the code pre-aggregates only the arrays a request loads; the model replaces only the
  fields the request uses (`names`).  `none` = NumPy raises inside the call (the `assert` on the
  coordinate length, or the aggregator on an empty window — impossible for h > 0 and coordinates
  that are numbers, because a window then contains its own position).
  Ensemble members are 3-D fields here ("ens<m>" = `input.ensemble[:, :, :, m]`).
  float32 storage of the new array: not modelled (compared with a float32 tolerance).
-/
namespace VerifModel.PreaggData
open VerifModel

/-- the stored series through cell (t, l, x) along axis k (0 = time, otherwise lead time), `n` entries -/
def series (k n : Nat) (a : Arr3) (t l x : Nat) : Vec :=
  if k = 0 then (List.range n).map fun j => a.get j l x
  else (List.range n).map fun j => a.get t j x

/-- `array.shape[k]` for k = 0, 1 -/
def axisLen (k : Nat) (a : Arr3) : Nat := if k = 0 then a.length else (a.headD []).length

/-- one cell of `preaggregate_time` (k = 0) / `preaggregate_leadtime` (k = 1) on a 3-D array -/
def cell (f : Vec → Option XR) (scale h : XR) (coords : List XR) (k : Nat) (a : Arr3) (t l x : Nat) :
    Option XR :=
  Preagg.preaggAt f scale h coords (series k coords.length a t l x) (if k = 0 then t else l)

/-- the whole new array (same shape); `none` = the `assert` fails or the aggregator raises -/
def preagg3 (f : Vec → Option XR) (scale h : XR) (coords : List XR) (k : Nat) (a : Arr3) : Option Arr3 :=
  if coords.length ≠ axisLen k a then none
  else
    (List.range a.length).mapM fun t =>
      (List.range (a.getD t []).length).mapM fun l =>
        (List.range ((a.getD t []).getD l []).length).mapM fun x => cell f scale h coords k a t l x

/-- the coordinates `Data.preaggregate` hands over: `input.times` or `input.leadtimes` -/
def coordsOf (k : Nat) (I : Input) : List XR := if k = 0 then I.times else I.leads

/-- an input whose fields `names` are replaced by their pre-aggregates on the input's own grid -/
def preaggInput (f : Vec → Option XR) (scale h : XR) (k : Nat) (names : List String) (I : Input) :
    Option Input :=
  (I.fields.mapM fun p =>
      if names.contains p.1 then (preagg3 f scale h (coordsOf k I) k p.2).map fun r => (p.1, r)
      else some p).map fun fs => { I with fields := fs }

/-- the fields a request makes `Data` load (with a climatology a request for obs or fcst also loads
the climatology's forecast — and the forecast of every input, since `_get_score` fills all caches) -/
def loaded (cfg : Cfg) (fields : List String) : List String :=
  if cfg.clim.isSome && (fields.contains "obs" || fields.contains "fcst") then "fcst" :: fields else fields

/-- `Data(inputs, dim_agg_length = h, dim_agg_method = f, dim_agg_axis = time | leadtime, …).get_scores(r)`
on a fresh object.  `none` = unhandled exception from NumPy. -/
def getScoresT (f : Vec → Option XR) (scale h : XR) (k : Nat) (scored : List Input) (cfg : Cfg) (r : Req) :
    Option (Except String (List Vec)) :=
  match Data.init scored cfg with          -- the dimensions are settled before any array is looked at
  | .error e => some (.error e)
  | .ok _ =>
    let names := loaded cfg r.fields
    match scored.mapM (preaggInput f scale h k names), cfg.clim.mapM (preaggInput f scale h k names) with
    | some scored', some clim' =>
      (match Data.init scored' { cfg with clim := clim' } with
       | .error e => some (.error e)
       | .ok D => some (D.getScores r))
    | _, _ => none

end VerifModel.PreaggData
