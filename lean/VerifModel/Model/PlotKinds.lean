import VerifModel.Gen.PlotWiring
import VerifModel.Spec.Appearance
import VerifModel.Base.Calendar
/-
  Model for C17, plot kinds: what the plotting code of the output class behind a plot kind does with
  the appearance machinery of class `Output`, COMPOSED FROM THE REGENERATED TABLES of
  Gen/PlotWiring.lean (driver.run's choice of the output class and of the entry method; output.py's
  classes: which `_…_core` method runs, where the dictionary of `_get_plot_options` goes, which
  `_adjust_axes` / `_legend` the class ends up with, `skip_log`, the default axis; axis.py's
  `is_time_like`), and the model of `util.date_to_datenum`.
-/
namespace VerifModel.PlotKinds
open VerifModel.Spec.Appearance (Field Kind)
open VerifModel.Gen.PlotWiring
open VerifModel.Calendar

def lookup (t : List (String × String)) (k : String) : Option String := (t.find? fun r => r.1 == k).map (·.2)

/-- driver.run: `if metric == "<special>": pl = verif.output.<C>()` … `else:` Sort / Hist / Standard -/
def classOf (k : Kind) : Option String :=
  match lookup metricClass k.metric with
  | some c => some c
  | none => if k.variant != "" then lookup metricClass k.variant else lookup metricClass ""

/-- driver.run: `-type` ↦ entry method of the output object -/
def entryOf (k : Kind) : Option String := lookup typeEntry k.ptype

/-- the `self.<method>` calls of the entry method, in source order -/
def stepsOf (entry : String) : List String := (entrySteps.filter fun r => r.1 == entry).map (·.2)

/-- the `_…_core` method the entry method calls first -/
def coreOf (k : Kind) : Option String := (entryOf k).bind fun e => (stepsOf e).head?

/-- class that defines the method a class ends up with (`Output` unless a subclass overrides it) -/
def ownerOf (cls method : String) : String :=
  match owner.find? fun r => r.1 == cls && r.2.1 == method with
  | some r => r.2.2
  | none => "Output"

/-- (callee, slot) pairs through which the plot options of `_get_plot_options` reach the figure -/
def usesOf (k : Kind) : List (String × String) :=
  match classOf k, coreOf k with
  | some c, some m => (optionUses.filter fun r => r.1 == ownerOf c m && r.2.1 == m).map fun r => (r.2.2.1, r.2.2.2)
  | _, _ => []

/-- how the axes are adjusted: `gca` | `all` (`none` if the entry method does not call `_adjust_axes`) -/
def adjustOf (k : Kind) : Option String :=
  match classOf k, entryOf k with
  | some c, some e => if (stepsOf e).contains "_adjust_axes" then lookup adjustForm (ownerOf c "_adjust_axes") else none
  | _, _ => none

/-- the legends of the figure: form of `_legend` if the entry calls it, and the legends the core method draws
    itself with their guard -/
def legendsOf (k : Kind) : List String :=
  match classOf k, entryOf k, coreOf k with
  | some c, some e, some m =>
    (if (stepsOf e).contains "_legend" then (lookup legendForm (ownerOf c "_legend")).toList else []) ++
    (ownLegends.filter fun r => r.1 == ownerOf c m && r.2.1 == m).map fun r => r.2.2.1 ++ ":" ++ r.2.2.2
  | _, _, _ => []

/-- `self.skip_log = True` in the class's `__init__`: `_adjust_axis` then leaves the axis scales alone -/
def skipLog (k : Kind) : Bool :=
  match classOf k with
  | some c => initConst.contains (c, "skip_log", "True")
  | none => false

/-- the axis object of the output: `-x` if given, otherwise the class's `default_axis` -/
def axisOf (k : Kind) : Option String :=
  if k.xaxis != "" then some k.xaxis else (classOf k).bind fun c => lookup defaultAxis c

/-- `self.axis.is_time_like` -/
def timeLike (k : Kind) : Bool :=
  match axisOf k with
  | some a => lookup axisTimeLike a == some "true"
  | none => false

/-- HAND-WRITTEN (not regenerated; tied by stream fig.core on the live figure): `Meteo._plot_core` puts the hour
    labels on the MINOR ticks of the x-axis and hides the label of every major (date) tick
    (`label.set_visible(0)`, the `else` branch taken by every label when the input has several dates and by the
    last one otherwise).  `Output._adjust_axis` styles / relabels `ax.get_xticklabels()` = the major labels only. -/
def majorLabelsHidden (plot : String) : Bool := plot == "meteo"

/-- MERGE SWITCH for the proposed patch `fix_meteo_xrot.diff` (Meteo._plot_core rotates its hour labels by
    `self.xrot`, next to the font size it already sets there): `true` = model of the repaired code (then
    `-xrot` is shown on the meteogram), `false` = model of /repo as it is (known finding meteo-xrot).
    Keep equal to `METEO_XROT_REPAIRED` of harness/props/c17.py. -/
def meteoXrotRepaired : Bool := true

/-- the (plot kind, property) pairs that the code does not show although documented -/
def hidden (plot : String) (f : Field) : Bool :=
  ((f == .xLog || f == .yLog) && (match Spec.Appearance.kindOf plot with | some k => skipLog k | none => false)) ||
  (majorLabelsHidden plot && (f == .xTickLabels || (f == .xTickRotation && !meteoXrotRepaired)))

/-- does `_adjust_axis` set the property on this plot kind?  The deviations from the documented table: the log
    scales on a class that sets `skip_log`; the labels / rotation of the x ticks where the diagram hides the
    labels of the major ticks. -/
def shown (plot : String) (f : Field) : Bool :=
  Spec.Appearance.applicable plot f && !hidden plot f

/-- `_adjust_axis`: `if self.axis.is_time_like: xlim = [verif.util.date_to_datenum(lim) for lim in xlim]` -/
def convertsDates (plot : String) : Bool :=
  match Spec.Appearance.kindOf plot with
  | some k => timeLike k
  | none => false

/-! ### util.date_to_datenum -/

def isLeap (y : Nat) : Bool := (y % 4 == 0 && y % 100 != 0) || y % 400 == 0

/-- what `datetime.datetime(y, m, d, 0)` accepts (MINYEAR 1, MAXYEAR 9999); otherwise ValueError -/
def datetimeOk (y m d : Nat) : Bool :=
  1 ≤ y && y ≤ 9999 && 1 ≤ m && m ≤ 12 && 1 ≤ d &&
  d ≤ (if m == 2 then (if isLeap y then 29 else 28) else if m == 4 || m == 6 || m == 9 || m == 11 then 30 else 31)

/-- `date_to_datenum(date)`: `year = int(date / 10000)`, `month = int(date / 100 % 100)`, `day = int(date % 100)`,
    `matplotlib.dates.date2num(datetime.datetime(year, month, day, 0))` = days since 1970-01-01 (matplotlib's
    default epoch); `none` = datetime raises ValueError -/
def dateToDatenum (date : Nat) : Option Int :=
  let y := date / 10000
  let m := date / 100 % 100
  let d := date % 100
  if datetimeOk y m d then some ((daysFromCivil y m d : Int) - (epoch : Int)) else none

/-- the list comprehension over the user's values -/
def datesToDatenums (dates : List Nat) : Option (List Int) := dates.mapM dateToDatenum

end VerifModel.PlotKinds
