import VerifModel.Model.Data
import VerifModel.Gen.Subset
/-
  `useLocations` of Model/Data.lean (data.py:102-152) re-assembled from the pieces that are
  machine-translated from /repo on every run (Gen/Subset.lean): the range tests with their default
  bounds, the id a kept station contributes, the -l selection inside the lat/lon block and the -lx
  exclusion.  The glue — which block runs, `verif.util.intersect`, the two error exits — is as in
  the hand-written model.  `GenEq.Subset.useLocationsGen_eq` proves the two equal; the driver op
  `gensubset` runs this version against the real `Data.__init__`.
-/
namespace VerifModel

def useLocationsGen (first : Input) (cfg : Cfg) : Except String (List XR) := do
  let ids := first.locs.map (·.id)
  let u1 ← (if cfg.latRange.isSome || cfg.lonRange.isSome then
      let ll := (first.locs.filter (Gen.Subset.latlonKeep cfg.latRange cfg.lonRange)).map
        (Gen.Subset.latlonId cfg.latRange cfg.lonRange)
      let u := Gen.Subset.latlonSelect cfg.locations ll
      if u.isEmpty then .error "No available locations within lat/lon range" else .ok u
    else match cfg.locations with
      | some ls => .ok ls
      | none => .ok ids)
  let u2 ← (match cfg.elevRange with
    | some r =>
      let el := (first.locs.filter (Gen.Subset.elevKeep (some r))).map (Gen.Subset.elevId (some r))
      let u := u1.filter fun l => memX l el
      if u.isEmpty then .error "No available locations within elevation range" else .ok u
    | none => .ok u1)
  match cfg.locationsX with
  | some xs => .ok (Gen.Subset.excludeX u2 xs)
  | none => .ok u2

end VerifModel
