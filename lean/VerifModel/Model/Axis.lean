import VerifModel.Base.Calendar
/-
  Model of verif/axis.py (bucket functions of the `-x` dimensions), of the date
  conversions in verif/util.py and of the slicing in `Data._apply_axis` /
  `Data.get_axis_values` / `Data.get_scores` (data.py).  Hand-written mirror of what
  the code DOES; tied to /repo by the correspondence streams of C11
  (`axis.bucket` exhaustive over every day 1900-2100, `axis.slices` on random
  datasets).

  Unix times are `Int` (seconds since 1970-01-01T00:00Z, negative before), dates are
  `YYYYMMDD` naturals, plotting date-numbers are rationals (days since 1970-01-01,
  matplotlib's default epoch).  All calendar arithmetic goes through the `Nat` day
  count of `Base/Calendar.lean`.
-/
namespace VerifModel.Axis
open VerifModel.Calendar

/-! ### `datetime.utcfromtimestamp` / `calendar.timegm` -/

/-- day number (from 0000-03-01) of the UTC day containing unix time `t` (`/` on `Int` with a
positive divisor is floor division) -/
def dayIndex (t : Int) : Nat := (t / 86400 + (epoch : Int)).toNat

/-- second of the UTC day, 0 … 86399 -/
def secOfDay (t : Int) : Nat := (t % 86400).toNat

/-- `datetime.datetime.utcfromtimestamp(t)`: the date part -/
def civil (t : Int) : Date := civilFromDays (dayIndex t)

/-- `calendar.timegm(datetime(y, m, d, 0, 0, 0).timetuple())` for day number `z` -/
def unixOfDays (z : Nat) : Int := 86400 * ((z : Int) - (epoch : Int))

/-! ### axis.py: `compute_from_times` (one element) -/

/-- `Year`: `d.replace(month=1, day=1, hour=0, minute=0, second=0)` → `timegm` -/
def yearStart (t : Int) : Int := unixOfDays (daysFromCivil (civil t).y 1 1)

/-- `Month`: `d.replace(day=1, hour=0, minute=0, second=0)` → `timegm` -/
def monthStart (t : Int) : Int := unixOfDays (daysFromCivil (civil t).y (civil t).m 1)

/-- `Day`: `d.replace(hour=0, minute=0, second=0)` → `timegm` -/
def dayStart (t : Int) : Int := unixOfDays (daysOf (civil t))

/-- `Week`: midnight of the date minus `d.weekday()` days (Monday = 0) → `timegm` -/
def weekStart (t : Int) : Int :=
  unixOfDays (daysOf (civil t) - weekday (daysOf (civil t)))

/-- `Timeofday`: `(times % 86400) / 3600` (hours, real valued) -/
def timeOfDay (t : Int) : Rat := ((t % 86400 : Int) : Rat) / 3600

/-- `Dayofyear`: `d.replace(year=2000)`, then days since 2000-01-01 plus one — the ordinal the same
month/day has in the leap year 2000 (NOT the ordinal within the date's own year) -/
def dayOfYear (t : Int) : Nat :=
  daysFromCivil 2000 (civil t).m (civil t).d - daysFromCivil 2000 1 1 + 1

/-- `Dayofmonth` -/
def dayOfMonth (t : Int) : Nat := (civil t).d

/-- `Monthofyear` -/
def monthOfYear (t : Int) : Nat := (civil t).m

/-- Python `int(x)` on a real number: truncation towards zero -/
def truncate (q : Rat) : Int := if 0 ≤ q then q.floor else q.ceil

/-- `Leadtimeday.compute_from_leadtimes`: `int(d / 24)` -/
def leadtimeDay (l : Rat) : Int := truncate (l / 24)

/-! ### util.py date conversions -/

/-- `date_to_unixtime(YYYYMMDD)` -/
def dateToUnixtime (date : Nat) : Int := unixOfDays (daysOf (Date.ofYmd date))

/-- `unixtime_to_date(t)` -/
def unixtimeToDate (t : Int) : Nat := (civil t).toYmd

/-- `date_to_datenum(YYYYMMDD)`: matplotlib date number of midnight = days since 1970-01-01 -/
def dateToDatenum (date : Nat) : Int := (daysOf (Date.ofYmd date) : Int) - (epoch : Int)

/-- `unixtime_to_datenum(t)` -/
def unixtimeToDatenum (t : Int) : Rat := (t : Rat) / 86400

/-- `datenum_to_date(n)`: the date of the day containing date-number `n` (matplotlib rounds to the
microsecond first; the model is exact and therefore only claimed for `n` not within a microsecond
below a whole number) -/
def datenumToDate (n : Rat) : Nat := (civilFromDays (n.floor + (epoch : Int)).toNat).toYmd

/-- `get_date(date, diff)`: `datetime(y, m, d) + timedelta(diff)` as `YYYYMMDD` -/
def getDate (date : Nat) (diff : Int) : Nat :=
  (civilFromDays ((daysOf (Date.ofYmd date) : Int) + diff).toNat).toYmd

/-! ### the axes -/

inductive Kind where
  | time | leadtime | leadtimeday | location | lat | lon | elev | no
  | year | month | week | timeofday | dayofyear | day | dayofmonth | monthofyear
  | obs | fcst | threshold
  deriving DecidableEq, Repr, Inhabited

namespace Kind
def all : List Kind :=
  [time, leadtime, leadtimeday, location, lat, lon, elev, no, year, month, week, timeofday,
   dayofyear, day, dayofmonth, monthofyear, obs, fcst, threshold]

/-- the lower-cased class name, as accepted by `verif.axis.get` -/
def name : Kind → String
  | time => "time" | leadtime => "leadtime" | leadtimeday => "leadtimeday"
  | location => "location" | lat => "lat" | lon => "lon" | elev => "elev" | no => "no"
  | year => "year" | month => "month" | week => "week" | timeofday => "timeofday"
  | dayofyear => "dayofyear" | day => "day" | dayofmonth => "dayofmonth"
  | monthofyear => "monthofyear" | obs => "obs" | fcst => "fcst" | threshold => "threshold"

def ofName? (s : String) : Option Kind := all.find? (fun k => k.name == s)

/-- axes with a `compute_from_times` method (`verif.axis.get_time_axes`) and their bucket
function; bucket values are reported as rationals -/
def timeBucket? : Kind → Option (Int → Rat)
  | year => some fun t => (yearStart t : Rat)
  | month => some fun t => (monthStart t : Rat)
  | week => some fun t => (weekStart t : Rat)
  | day => some fun t => (dayStart t : Rat)
  | timeofday => some timeOfDay
  | dayofyear => some fun t => (dayOfYear t : Rat)
  | dayofmonth => some fun t => (dayOfMonth t : Rat)
  | monthofyear => some fun t => (monthOfYear t : Rat)
  | _ => none

/-- axes with a `compute_from_leadtimes` method (`verif.axis.get_leadtime_axes`) -/
def leadBucket? : Kind → Option (Rat → Rat)
  | leadtime => some id
  | leadtimeday => some fun l => (leadtimeDay l : Rat)
  | _ => none

def isLocationLike : Kind → Bool
  | location | lat | lon | elev => true
  | _ => false
end Kind

structure Loc where
  id : Rat
  lat : Rat
  lon : Rat
  elev : Rat
  deriving DecidableEq, Repr, Inhabited

/-- which branch of the `if`-chains in `Data.get_axis_values` / `Data._apply_axis` an axis takes -/
inductive Shape where
  /-- `axis == Time()` -/
  | byTime
  /-- `axis in get_time_axes()` with its `compute_from_times` -/
  | timeBucket (f : Int → Rat)
  /-- `axis in get_leadtime_axes()` with its `compute_from_leadtimes` -/
  | leadBucket (g : Rat → Rat)
  /-- `axis.is_location_like`, labelled by this attribute of the location -/
  | byLocation (field : Loc → Rat)
  /-- `axis in [No(), Threshold(), Obs(), Fcst()]`: everything pooled -/
  | pooledAll

def Kind.shape (k : Kind) : Shape :=
  match k with
  | .time => .byTime
  | .location => .byLocation (·.id)
  | .lat => .byLocation (·.lat)
  | .lon => .byLocation (·.lon)
  | .elev => .byLocation (·.elev)
  | _ =>
    match k.timeBucket? with
    | some f => .timeBucket f
    | none =>
      match k.leadBucket? with
      | some g => .leadBucket g
      | none => .pooledAll

/-! ### `np.unique`: sorted, duplicates removed -/

def insertU (x : Rat) : List Rat → List Rat
  | [] => [x]
  | y :: ys => if x < y then x :: y :: ys else if x = y then y :: ys else y :: insertU x ys

def unique (l : List Rat) : List Rat := l.foldr insertU []

/-! ### slicing: `Data.get_axis_values`, `Data._apply_axis`, `Data.get_scores` -/

/-- the verified dimensions of a dataset (`data.times`, `data.leadtimes`, `data.locations`) -/
structure Dims where
  times : List Int
  leadtimes : List Rat
  locs : List Loc
  deriving Repr, Inhabited

/-- a case = (time index, lead-time index, location index) into the verified dimensions -/
abbrev Case := Nat × Nat × Nat

/-- `array[I, :, :].flatten()` etc.: the cases selected by index lists, row-major order -/
def cases3 (I J K : List Nat) : List Case :=
  I.flatMap fun i => J.flatMap fun j => K.map fun k => (i, j, k)

/-- `np.where(axis_values == u)` -/
def whereEq (vals : List Rat) (u : Rat) : List Nat :=
  (List.range vals.length).filter fun i => vals[i]? == some u

def Dims.allCases (D : Dims) : List Case :=
  cases3 (List.range D.times.length) (List.range D.leadtimes.length) (List.range D.locs.length)

/-- `Data.get_axis_values(axis)` -/
def axisValues (k : Kind) (D : Dims) : List Rat :=
  match k.shape with
  | .byTime => D.times.map fun (t : Int) => (t : Rat)
  | .timeBucket f => unique (D.times.map f)
  | .leadBucket g => unique (D.leadtimes.map g)
  | .byLocation field => D.locs.map field
  | .pooledAll => [0]

/-- `Data._apply_axis(array, axis, a)`: which cases slice `a` is made of, in output order
(before the removal of invalid cases) -/
def sliceRaw (k : Kind) (D : Dims) (a : Nat) : List Case :=
  let rT := List.range D.times.length
  let rL := List.range D.leadtimes.length
  let rS := List.range D.locs.length
  match k.shape with
  | .byTime => if a < D.times.length then cases3 [a] rL rS else []
  | .timeBucket f =>
    let vals := D.times.map f
    match (unique vals)[a]? with
    | some u => cases3 (whereEq vals u) rL rS
    | none => []
  | .leadBucket g =>
    let vals := D.leadtimes.map g
    match (unique vals)[a]? with
    | some u => cases3 rT (whereEq vals u) rS
    | none => []
  | .byLocation _ => if a < D.locs.length then cases3 rT rL [a] else []
  | .pooledAll => cases3 rT rL rS

/-- `Data.get_scores(fields, input, axis, a)`: the valid cases of slice `a` -/
def slice (k : Kind) (D : Dims) (valid : Case → Bool) (a : Nat) : List Case :=
  (sliceRaw k D a).filter valid

/-- all slices along an axis, `a = 0 … get_axis_size(axis) - 1` -/
def slices (k : Kind) (D : Dims) (valid : Case → Bool) : List (List Case) :=
  (List.range (axisValues k D).length).map (slice k D valid)

/-- the pooled valid cases (`-x no`) -/
def pooled (D : Dims) (valid : Case → Bool) : List Case := D.allCases.filter valid

/-! ### user subsets of the initialisation times: `-t`, `-d`, `-tod` (`Data.__init__`, data.py:160-199)

`times=` is merged into `_get_common_indices` (intersection with the inputs' times); `dates=` and
`tods=` then filter `self.times`; `_timesI` and the axis-value caches (`axis_cache`,
`axis_cache_unique`) are rebuilt from the surviving times.  So the dataset that is sliced is the
dataset whose time dimension is `times.filter keep`. -/

structure TimeSubset where
  /-- `times=` (`-t`): unix times -/
  times : Option (List Int) := none
  /-- `dates=` (`-d`): YYYYMMDD -/
  dates : Option (List Nat) := none
  /-- `tods=` (`-tod`): hours of the day (the driver casts them to int) -/
  tods : Option (List Int) := none
  deriving Repr, Inhabited

/-- `int(t // 86400)*86400 in [date_to_unixtime(d) for d in dates]` (`//` is floor division, as is
`/` on `Int` with a positive divisor) -/
def keepDate (ds : List Nat) (t : Int) : Bool :=
  (ds.map dateToUnixtime).contains (t / 86400 * 86400)

/-- `int(t % 86400)/3600 in tods` (a real-valued comparison: only `h:00:00` equals hour `h`) -/
def keepTod (hs : List Int) (t : Int) : Bool :=
  (hs.map fun (h : Int) => (h : Rat)).contains (timeOfDay t)

/-- does initialisation time `t` survive the user's subset? -/
def TimeSubset.keep (s : TimeSubset) (t : Int) : Bool :=
  (match s.times with | none => true | some ts => ts.contains t) &&
  (match s.dates with | none => true | some ds => keepDate ds t) &&
  (match s.tods with | none => true | some hs => keepTod hs t)

/-- the verified dimensions after the subset: `self.times = [t for t in self.times if keep t]` -/
def Dims.restrict (D : Dims) (keep : Int → Bool) : Dims :=
  ⟨D.times.filter keep, D.leadtimes, D.locs⟩

/-- positions (in the unrestricted time dimension) of the surviving times — the recomputed
`_timesI` -/
def keptIdx (keep : Int → Bool) (times : List Int) : List Nat :=
  (List.range times.length).filter fun i => (times[i]?).any keep

/-- a case written by its coordinates: (initialisation time, lead-time index, location index).
Subsetting renumbers the time indices, the initialisation time itself identifies the case. -/
abbrev TCase := Option Int × Nat × Nat

def Dims.tcase (D : Dims) (c : Case) : TCase := (D.times[c.1]?, c.2.1, c.2.2)

end VerifModel.Axis
