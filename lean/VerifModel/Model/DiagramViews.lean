import VerifModel.Base.Vec
import VerifModel.Model.Interval
import VerifModel.Model.Diagram
/-
  Model of the VIEWS of a standard metric in verif/output.py (C16): what `Standard._plot_rank_core`
  (-type rank), `_plot_impact_core` (-type impact), `_map_core` (-type map / maprank) and
  `_plot_mapimpact_core` (-type mapimpact) hand to matplotlib, as a pure function of

    * the score matrix y (one row per x-axis entry / location, one column per input) that
      `Standard._get_x_y` returns — computed by `Diagram.standardSeries` from the slices of valid cases
      that Data.get_scores returns —,
    * the flattened (obs, fcst) vectors of the two inputs (impact), and
    * the coordinates of the locations (maps).

  Mirrors the code, including its quirks:
    rank     np.argsort per row (stable for the row lengths covered here: ties go to the earlier input),
             rows with a missing score are set to -2, the fully valid rows with |y0 - y1| < nanstd(y)/50 are set
             to -1 (a "draw", drawn as the series None; only the FIRST TWO inputs are compared); the columns are
             reversed for positively oriented scores; heights are counts / number of fully valid rows
    impact   the cell of bin centres (cx, cy) holds the cases with cx - w < x <= cx + w and
             cy - w < y <= cy + w where w is HALF THE WIDTH OF THE FIRST BIN (for every bin); the
             contribution is the sum of (x-obs)^2 - (y-obs)^2 whatever the metric is
    maps     one marker per location whose score is not NaN, at (lon, lat)
-/
namespace VerifModel.DiagramViews
open VerifModel VerifModel.Diagram

/-- an artist as read back from the figure: `cols` are the further per-marker columns
(bar: widths, bottoms; pts: sizes, colour values, colour limits) -/
structure VSeries where
  ax : Nat
  kind : String       -- "bar" | "pts"
  label : String
  xs : Vec
  ys : Vec
  cols : List Vec := []
  deriving Repr, DecidableEq

/-- the score matrix: rows = x-axis entries, columns = inputs -/
abbrev Scores := List (List XR)

/-- columns (one per input) -> rows -/
def transpose (cols : List Vec) : Scores :=
  match cols with
  | [] => []
  | c :: _ => (List.range c.length).map fun i => cols.map fun col => (col[i]?).getD .nan

/-! ### -type rank -/

/-- argsort's key: (score, input index); ascending, equal scores in input order (stable) -/
def keyLt (a b : XR × Nat) : Bool := XR.lt a.1 b.1 || (!(XR.lt b.1 a.1) && decide (a.2 < b.2))

def insertKey (p : XR × Nat) : List (XR × Nat) → List (XR × Nat)
  | [] => [p]
  | q :: qs => if keyLt q p then q :: insertKey p qs else p :: q :: qs

def sortKeys (l : List (XR × Nat)) : List (XR × Nat) := l.foldr insertKey []

/-- `np.argsort(row)`: the input indices in ascending order of their scores -/
def argsortRow (row : List XR) : List Nat := (sortKeys row.zipIdx).map (·.2)

/-- a row of R after the code's replacements -/
inductive RankRow where
  | ranks (r : List Nat)      -- r[j] = the input that holds rank position j
  | draw                      -- -1
  | missing                   -- -2
  deriving Repr, DecidableEq

def rowInvalid (row : List XR) : Bool := row.any XR.isNan

/-- `np.abs(y[:, 0] - y[:, 1]) < minDiff` -/
def rowEven (minDiff : XR) : List XR → Bool
  | a :: b :: _ => XR.lt (XR.abs (a - b)) minDiff
  | _ => false

/-- R[invalid] = -2; flip; R[Ieven] = -1 where Ieven = close and not invalid -/
def rankRow (flip : Bool) (minDiff : XR) (row : List XR) : RankRow :=
  if rowInvalid row then .missing
  else if rowEven minDiff row then .draw
  else .ranks (if flip then (argsortRow row).reverse else argsortRow row)

/-- `verif.util.nanstd(y)`: population standard deviation of the scores that are not NaN -/
def nanstd (T : Tr) (y : Scores) : XR := T.sqrt (Vec.var (y.flatten.filter fun v => !v.isNan))

def minDiff (T : Tr) (y : Scores) : XR := nanstd T y / .fin 50

def numValid (y : Scores) : Nat := y.countP fun row => !rowInvalid row

/-- `np.nansum(R[:, j] == i)` -/
def rankCount (rs : List RankRow) (i j : Nat) : Nat :=
  rs.countP fun r => match r with
    | .ranks l => l[j]? == some i
    | _ => false

def drawCount (rs : List RankRow) : Nat :=
  rs.countP fun r => match r with
    | .draw => true
    | _ => false

/-- yy[i, j] * num_valid for i < F, and the row of draws for i = F -/
def rankTable (F : Nat) (rs : List RankRow) : List (List Nat) :=
  ((List.range F).map fun i => (List.range F).map fun j => rankCount rs i j) ++
  [(List.range F).map fun _ => drawCount rs]

def natSumL (l : List Nat) : Nat := l.foldr (· + ·) 0

/-- the bars: container i (label: input i, the last one `None`) has one bar per rank position j at
x = j + 0.08 (centre; the left edge j + 0.08 - 0.4 is what is read back), width 0.8, height yy[i, j], bottom = sum of yy[i', j] over i' < i -/
def rankBars (F nv : Nat) (table : List (List Nat)) : List VSeries :=
  table.zipIdx.map fun ti =>
    let frac := fun (n : Nat) => XR.ofNat n / XR.ofNat nv
    { ax := 0, kind := "bar", label := if ti.2 < F then inName ti.2 else "None",
      xs := (List.range F).map fun (j : Nat) => XR.fin ((j : Rat) + 2 / 25 - 2 / 5),
      ys := ti.1.map frac,
      cols := [(List.range F).map fun _ => XR.fin (4 / 5),
               (List.range F).map fun j => XR.ofNat (natSumL ((table.take ti.2).map fun r => (r[j]?).getD 0)) / XR.ofNat nv] }

/-- -type rank on the score matrix; `none` = verif.util.error (fewer than two inputs, no valid row) -/
def rankFigure (T : Tr) (flip : Bool) (F : Nat) (y : Scores) : Option (List VSeries) :=
  if F < 2 then none
  else if numValid y = 0 then none
  else
    let rs := y.map (rankRow flip (minDiff T y))
    some (rankBars F (numValid y) (rankTable F rs))

/-! ### -type impact -/

/-- `(x > c - w) & (x <= c + w)` -/
def impactMem (w c x : XR) : Bool := XR.gt x (c - w) && XR.le x (c + w)

/-- `np.nansum` of a vector -/
def nansum (v : Vec) : XR := Vec.sum (v.filter fun x => !x.isNan)

structure ICase where
  obs : XR
  x : XR
  y : XR

/-- error_x - error_y of a case: |x - obs|^2 - |y - obs|^2 -/
def impactDiff (c : ICase) : XR :=
  XR.abs (c.x - c.obs) * XR.abs (c.x - c.obs) - XR.abs (c.y - c.obs) * XR.abs (c.y - c.obs)

def impactCases (obs x y : Vec) : List ICase :=
  (((obs.zip x).zip y).map fun t => ({ obs := t.1.1, x := t.1.2, y := t.2 } : ICase)).filter fun c =>
    !(c.x.isNan) && !(c.y.isNan) && !(c.obs.isNan)

def halfWidth (edges : List XR) : XR :=
  match edges with
  | a :: b :: _ => (b - a) / .fin 2
  | _ => .nan

/-- contribution of the cell (cx, cy) -/
def impactCell (w cx cy : XR) (cs : List ICase) : XR :=
  nansum ((cs.filter fun c => impactMem w cx c.x && impactMem w cy c.y).map impactDiff)

/-- all cells, in the order of `np.repeat(centres, n)` x `np.tile(centres, n)`: (cx, cy, contribution) -/
def impactCells (edges : List XR) (cs : List ICase) : List (XR × XR × XR) :=
  let cen := mids edges
  cen.flatMap fun cx => cen.map fun cy => (cx, cy, impactCell (halfWidth edges) cx cy cs)

/-- largest |v| of the values that are not NaN (`np.nanmax(abs(v))`; nan when there is none) -/
def nanmaxAbs (v : Vec) : XR :=
  match (v.filter fun x => !x.isNan).map XR.abs with
  | [] => .nan
  | a :: rest => rest.foldl XR.max a

def ptsOf (label : String) (sel : List (XR × XR × XR)) (scale : XR) : VSeries :=
  { ax := 0, kind := "pts", label := label, xs := sel.map (·.1), ys := sel.map (·.2.1),
    cols := [sel.map fun c => XR.abs c.2.2 * scale] }

/-- the circles: red group (input 0 is worse: contribution > 0), then blue group (< 0); marker area
|contribution| * 400 / largest |contribution|.  Nothing when every contribution is 0. -/
def impactCircles (cells : List (XR × XR × XR)) : List VSeries :=
  let big := nanmaxAbs (cells.map (·.2.2))
  if XR.gt (big * big) (.fin 0) then
    let scale := XR.fin 400 / big
    [ptsOf (inName 0 ++ "_is_worse") (cells.filter fun c => XR.gt c.2.2 (.fin 0)) scale,
     ptsOf (inName 1 ++ "_is_worse") (cells.filter fun c => XR.lt c.2.2 (.fin 0)) scale]
  else []

/-- marginal contribution of the bin with centre c of one forecast -/
def impactMarginal (w c : XR) (key : ICase → XR) (cs : List ICase) : XR :=
  nansum ((cs.filter fun k => impactMem w c (key k)).map impactDiff)

/-- the four bar containers along the axes: x-axis red (contribution of the bin of input 0 > 0) and blue,
y-axis red and blue.  Read back per bar: (bin position, bar length).  x-axis bars: left edge c - w,
height |contribution| * scale; y-axis bars: bottom c - w/2, width |contribution| * scale, where
scale = (largest centre - smallest centre) / largest |marginal contribution| / 10. -/
def impactBars (edges : List XR) (cs : List ICase) : List VSeries :=
  let cen := mids edges
  let w := halfWidth edges
  let mx := cen.map fun c => (c, impactMarginal w c (·.x) cs)
  let my := cen.map fun c => (c, impactMarginal w c (·.y) cs)
  let largest := XR.max (nanmaxAbs (mx.map (·.2))) (nanmaxAbs (my.map (·.2)))
  let scale := (Vec.maximum cen - Vec.minimum cen) / largest / .fin 10
  let bar := fun (lab : String) (sel : List (XR × XR)) (off : XR) =>
    ({ ax := 0, kind := "bar", label := lab, xs := sel.map fun p => p.1 - off,
       ys := sel.map fun p => XR.abs p.2 * scale } : VSeries)
  [bar "x+" (mx.filter fun p => XR.gt p.2 (.fin 0)) w, bar "x-" (mx.filter fun p => XR.lt p.2 (.fin 0)) w,
   bar "y+" (my.filter fun p => XR.gt p.2 (.fin 0)) (w / .fin 2), bar "y-" (my.filter fun p => XR.lt p.2 (.fin 0)) (w / .fin 2)]

/-- -type impact; `none` = verif.util.error (not two inputs, fewer than two edges) -/
def impactFigure (F : Nat) (edges : List XR) (obs x y : Vec) : Option (List VSeries) :=
  if F ≠ 2 then none
  else if edges.length < 2 then none
  else
    let cs := impactCases obs x y
    some (impactCircles (impactCells edges cs) ++ impactBars edges cs)

/-! ### -type map, maprank, mapimpact -/

structure Loc where
  lat : XR
  lon : XR
  deriving Repr, DecidableEq

/-- smallest / largest score that is not NaN (`nanpercentile(y, 0)`, `nanpercentile(y, 100)`) -/
def nanmin (v : Vec) : XR := Vec.minimum (v.filter fun x => !x.isNan)
def nanmax (v : Vec) : XR := Vec.maximum (v.filter fun x => !x.isNan)

/-- colour limits of the figure; not modelled (empty) when all scores are equal: matplotlib widens a scale
of zero length -/
def mapClim (all : Vec) : Vec := if XR.eqb (nanmin all) (nanmax all) then [] else [nanmin all, nanmax all]

/-- the markers of input f: the locations whose score is not NaN, in location order: (lon, lat, score) -/
def mapMarkers (locs : List Loc) (scores : Vec) : List (Loc × XR) :=
  (locs.zip scores).filter fun p => !p.2.isNan

/-- -type map: one subplot (axes 2k: every subplot is followed by its colour bar) per input, one scatter with a
marker per location with a score, colour value = the score, colour limits = (smallest, largest) score of
the whole figure, marker area ms^2 = 64 -/
def mapFigure (locs : List Loc) (cols : List Vec) : List VSeries :=
  let all := cols.flatten
  perInputV cols fun k sc =>
    let m := mapMarkers locs sc
    [{ ax := 2 * k, kind := "pts", label := "_", xs := m.map (·.1.lon), ys := m.map (·.1.lat),
       cols := [[.fin 64], m.map (·.2), mapClim all] }]
where
  perInputV (cols : List Vec) (draw : Nat → Vec → List VSeries) : List VSeries :=
    cols.zipIdx.flatMap fun p => draw p.2 p.1

/-- np.amax / np.amin / np.mean of a row: NaN as soon as one score is NaN -/
def rowMax (row : Vec) : XR := Vec.maximum row
def rowMin (row : Vec) : XR := Vec.minimum row

/-- `(y[:, f] == np.amax(y, 1)) & (y[:, f] > np.mean(y, 1) + minDiff)` -/
def isMaxAt (md : XR) (row : Vec) (f : Nat) : Bool :=
  let v := (row[f]?).getD .nan
  XR.eqb v (rowMax row) && XR.gt v (Vec.mean row + md)

def isMinAt (md : XR) (row : Vec) (f : Nat) : Bool :=
  let v := (row[f]?).getD .nan
  XR.eqb v (rowMin row) && XR.lt v (Vec.mean row - md)

/-- -type maprank: per input (only input 0 when there are two inputs) three scatters on axes k: the
locations with a score (white), those where the input is the lowest (blue) and the highest (red) by more than
minDiff from the mean of the inputs -/
def maprankFigure (T : Tr) (locs : List Loc) (cols : List Vec) : List VSeries :=
  let y := transpose cols
  let md := minDiff T y
  let F := if cols.length = 2 then 1 else cols.length
  (List.range F).flatMap fun k =>
    let sc := (cols[k]?).getD []
    let rows := locs.zip (y.zip sc)
    let grp := fun (lab : String) (sel : List (Loc × (Vec × XR))) =>
      ({ ax := k, kind := "pts", label := lab, xs := sel.map (·.1.lon), ys := sel.map (·.1.lat), cols := [[.fin 64]] } : VSeries)
    [grp "w" (rows.filter fun p => !p.2.2.isNan),
     grp "b" (rows.filter fun p => isMinAt md p.2.1 k),
     grp "r" (rows.filter fun p => isMaxAt md p.2.1 k)]

/-- -type mapimpact: contribution of a location = score of input 0 - score of input 1 (sign flipped for
positively oriented scores); the locations with a finite contribution > 0 form the red group, < 0 the blue one;
marker area |contribution| * 400 / largest |contribution| -/
def mapimpactFigure (flip : Bool) (worse : String) (F : Nat) (locs : List Loc) (s0 s1 : Vec) : Option (List VSeries) :=
  if F ≠ 2 then none
  else
    let c := ((locs.zip (Vec.sub s0 s1)).filter fun p => p.2.isFinite).map fun p => (p.1, if flip then -p.2 else p.2)
    if c.isEmpty then none
    else
      let big := nanmaxAbs (c.map (·.2))
      let scale := XR.fin 400 / big
      let grp := fun (lab : String) (sel : List (Loc × XR)) =>
        ({ ax := 0, kind := "pts", label := lab, xs := sel.map (·.1.lon), ys := sel.map (·.1.lat),
           cols := [sel.map fun p => XR.abs p.2 * scale] } : VSeries)
      some [grp (inName 0 ++ "_is_" ++ worse) (c.filter fun p => XR.gt p.2 (.fin 0)),
            grp (inName 1 ++ "_is_" ++ worse) (c.filter fun p => XR.lt p.2 (.fin 0))]

end VerifModel.DiagramViews
