import VerifModel.Base.Vec
import VerifModel.Base.Tr
import VerifModel.Model.Aggregator
import VerifModel.Model.Diagram
/-
  Model of verif/output.py, classes Fss and Auto (-m fss, -m autocorr, -m autocov) — C16, the distance diagrams.
  Hand-written mirror of what the code computes (commit c94a168), as total functions.

  Trusted input: the great-circle DISTANCE between two locations (verif.location.Location.get_distance, arccos form,
  transcendental) is an input of the model (a matrix of rationals), it is not modelled.  The |difference| distances of the
  other axes (lat, lon, elev, leadtime, time/3600) are computed by the model.

  Fss._get_x_y
    exactly one threshold, bin type without "within", axis leadtime (temporal) or location-like (spatial), else error.
    events: apply_threshold on obs and fcst of the cases valid in every input (`Cell`).
    spatial:  per scale s in 2,4,…,1024 km; per location l: I = {j : dist[l][j] < 1000 s}; used when |I| > 3;
              per (time, leadtime) cell the fractions Po, Pf of events among the valid members of I (nanmean over I; a cell
              without valid member has no fractions); bs_l = mean (Pf-Po)², o_l = mean Po over the cells that have
              fractions; a neighbourhood without any such cell does not count (the repair c94a168);
              BS = mean bs_l, o = mean o_l, unc = o(1-o); score = (unc - BS)/unc when a neighbourhood counts and unc > 0,
              else NaN.
    temporal: scales = sorted distinct |lt_i - lt_j|; scale 0: NaN; windows (i, j) with lt_j - lt_i = s; fractions per
              (time, location, window) over lead times i..j; BS, o over ALL of them; same score.
  Auto._plot_core
    pair (i, j) of slices of the axis with 0 <= dist <= 1e9: the error series obs - fcst of the two slices on the cells
    where both are valid; fewer than 2 cells: NaN; cov = np.cov (divisor n-1); corr = np.corrcoef
    (cov / sqrt var_x / sqrt var_y, clipped to [-1, 1]; 0/0 = NaN for a constant series).
    cloud = all N*N ordered pairs (i outer); unless -simple one line per quantile level: verif.util.bin of the cloud with
    util.nanpercentile (bins [e_i, e_i+1), the last closed; x = mean distance of the bin's pairs), and the zero point
    (0, np.median of the pairs at distance 0).
-/
namespace VerifModel.DiagramFss
open VerifModel VerifModel.Diagram

/-! ## rational helpers -/

def sumQ (l : List Rat) : Rat := l.foldr (· + ·) 0
def meanQ (l : List Rat) : Rat := sumQ l / (l.length : Rat)
def b2q (b : Bool) : Rat := if b then 1 else 0

/-! ## Fss -/

/-- one case: `none` = missing in some input, `some (o, f)` = (observed event, forecast event) -/
abbrev Cell := Option (Bool × Bool)

inductive BT where
  | above | aboveEq | below | belowEq
  deriving DecidableEq, Repr

def BT.parse (s : String) : Option BT :=
  if s == "above" then some .above else if s == "above=" then some .aboveEq
  else if s == "below" then some .below else if s == "below=" then some .belowEq else none

/-- util.apply_threshold on one finite value -/
def event (b : BT) (t v : Rat) : Bool :=
  match b with
  | .above => decide (t < v)
  | .aboveEq => decide (t ≤ v)
  | .below => decide (v < t)
  | .belowEq => decide (v ≤ t)

def mkCell (b : BT) (t : Rat) (valid : Bool) (o f : XR) : Cell :=
  match valid, o, f with
  | true, .fin o, .fin f => some (event b t o, event b t f)
  | _, _, _ => none

/-- the valid members of the index set `I` in one row -/
def pick (I : List Nat) (row : List Cell) : List (Bool × Bool) := I.filterMap fun j => (row[j]?).join

/-- fractions (Po, Pf) of events among the valid members; none when there is no valid member (np.nanmean of all NaN) -/
def fracs (m : List (Bool × Bool)) : Option (Rat × Rat) :=
  if m.isEmpty then none else some (meanQ (m.map fun c => b2q c.1), meanQ (m.map fun c => b2q c.2))

/-- the fraction pairs of one neighbourhood: one per row that has a valid member -/
def nbFracs (rows : List (List Cell)) (I : List Nat) : List (Rat × Rat) := rows.filterMap fun r => fracs (pick I r)

/-- mean squared difference of the fractions -/
def mse (ps : List (Rat × Rat)) : Rat := meanQ (ps.map fun p => (p.2 - p.1) * (p.2 - p.1))
def meanObs (ps : List (Rat × Rat)) : Rat := meanQ (ps.map (·.1))

/-- the last step of the code: the Brier skill score against unc = o (1 - o), NaN (none) unless unc > 0 -/
def skill (bs o : Rat) : Option Rat :=
  if 0 < o * (1 - o) then some ((o * (1 - o) - bs) / (o * (1 - o))) else none

def neighbourhood (drow : List Rat) (scale : Rat) : List Nat :=
  ((List.range drow.length).zip drow).filterMap fun p => if p.2 < scale * 1000 then some p.1 else none

/-- (bs_l, o_l) of the neighbourhoods that count at this scale -/
def spatialParts (minNum : Nat) (dist : List (List Rat)) (rows : List (List Cell)) (scale : Rat) : List (Rat × Rat) :=
  dist.filterMap fun drow =>
    let I := neighbourhood drow scale
    if minNum < I.length then
      let ps := nbFracs rows I
      if ps.isEmpty then none else some (mse ps, meanObs ps)
    else none

/-- (score, unc) -/
def spatialScore (minNum : Nat) (dist : List (List Rat)) (rows : List (List Cell)) (scale : Rat) : Option Rat :=
  let parts := spatialParts minNum dist rows scale
  if parts.isEmpty then none else skill (meanQ (parts.map (·.1))) (meanQ (parts.map (·.2)))

def spatialUnc (minNum : Nat) (dist : List (List Rat)) (rows : List (List Cell)) (scale : Rat) : Rat :=
  let o := meanQ ((spatialParts minNum dist rows scale).map (·.2))
  o * (1 - o)

/-- np.where(lx - ly == scale) of the meshgrid of the lead times: (i, j), row-major, with lt_j - lt_i = scale -/
def windows (leads : List Rat) (scale : Rat) : List (Nat × Nat) :=
  let il := (List.range leads.length).zip leads
  il.flatMap fun a => il.filterMap fun b => if b.2 - a.2 = scale then some (a.1, b.1) else none

def windowIdx (w : Nat × Nat) : List Nat := (List.range (w.2 + 1)).drop w.1

/-- rows here: one per (time, location), the list over the lead times -/
def temporalFracs (leads : List Rat) (rows : List (List Cell)) (scale : Rat) : List (Rat × Rat) :=
  (windows leads scale).flatMap fun w => nbFracs rows (windowIdx w)

def temporalScore (leads : List Rat) (rows : List (List Cell)) (scale : Rat) : Option Rat :=
  if scale = 0 then none
  else
    let ps := temporalFracs leads rows scale
    if ps.isEmpty then none else skill (mse ps) (meanObs ps)

def temporalUnc (leads : List Rat) (rows : List (List Cell)) (scale : Rat) : Rat :=
  let o := meanObs (temporalFracs leads rows scale)
  o * (1 - o)

def insertU (x : Rat) : List Rat → List Rat
  | [] => [x]
  | y :: ys => if x < y then x :: y :: ys else if x = y then y :: ys else y :: insertU x ys

/-- np.sort(np.unique(|lt_i - lt_j|)) -/
def temporalScales (leads : List Rat) : List Rat :=
  (leads.flatMap fun a => leads.map fun b => if a - b < 0 then b - a else a - b).foldr insertU []

def spatialScales : List Rat := [2, 4, 8, 16, 32, 64, 128, 256, 512, 1024]

inductive FssMode where
  | temporal | spatial
  deriving DecidableEq, Repr

/-- the checks at the head of Fss._get_x_y; none = verif.util.error -/
def fssMode (nThresholds : Nat) (binType axis : String) : Option FssMode :=
  if nThresholds ≠ 1 then none
  else if (binType.splitOn "within").length > 1 then none
  else if axis == "leadtime" then some .temporal
  else if axis == "location" || axis == "lat" || axis == "lon" || axis == "elev" || axis == "locationid" then some .spatial
  else none

/-! ## Auto -/

/-- the cells where both series have a value -/
def common (a b : List (Option Rat)) : List (Rat × Rat) :=
  (a.zip b).filterMap fun p =>
    match p.1, p.2 with
    | some x, some y => some (x, y)
    | _, _ => none

/-- np.cov(x, y)[0, 1]: Σ (x - mx)(y - my) / (n - 1) -/
def covQ (P : List (Rat × Rat)) : Rat :=
  let mx := meanQ (P.map (·.1))
  let my := meanQ (P.map (·.2))
  sumQ (P.map fun p => (p.1 - mx) * (p.2 - my)) / ((P.length : Rat) - 1)

def pairCov (a b : List (Option Rat)) : XR :=
  let P := common a b
  if P.length < 2 then .nan else .fin (covQ P)

def clip1 (x : XR) : XR := XR.min (XR.max x (.fin (-1))) (.fin 1)

/-- np.corrcoef(x, y)[0, 1] -/
def pairCorr (T : Tr) (a b : List (Option Rat)) : XR :=
  let P := common a b
  if P.length < 2 then .nan
  else
    let cxx := covQ (P.map fun p => (p.1, p.1))
    let cyy := covQ (P.map fun p => (p.2, p.2))
    clip1 ((XR.fin (covQ P) / T.sqrt (.fin cxx)) / T.sqrt (.fin cyy))

def pairStat (T : Tr) (corr : Bool) (a b : List (Option Rat)) : XR :=
  if corr then pairCorr T a b else pairCov a b

def maxDist : XR := .fin 1000000000

/-- the N*N statistics, i outer, j inner; NaN outside 0 <= dist <= 1e9 -/
def statMatrix (T : Tr) (corr : Bool) (dist : List (List XR)) (S : List (List (Option Rat))) : Vec :=
  (dist.zip S).flatMap fun r => (r.1.zip S).map fun c =>
    if XR.ge c.1 (.fin 0) && XR.le c.1 maxDist then pairStat T corr r.2 c.2 else .nan

def absDiffMatrix (v : Vec) (divisor : XR) : List (List XR) :=
  v.map fun a => List.map (fun b => XR.abs (a - b) / divisor) v

/-- util.nanpercentile(y, 100 q) -/
def nanPercentile (ys : Vec) (q : Rat) : XR :=
  let v := ys.filter fun y => !y.isNan
  if v.isEmpty then .nan else (Agg.percentile v q).getD .nan

def defaultLevels : List Rat := [1/100, 1/10, 1/5, 3/10, 2/5, 1/2, 3/5, 7/10, 4/5, 9/10, 99/100]

structure Ser where
  kind : String
  label : String
  xs : Vec
  ys : Vec

/-- verif.util.bin(x, y, edges, nanpercentile(q)) -/
def quantileLine (edges : List XR) (x y : Vec) (q : Rat) : Vec × Vec :=
  let bins := binsLast edges (·.1) (x.zip y)
  (bins.map fun b => if b.isEmpty then .nan else Vec.nanmean (b.map (·.1)),
   bins.map fun b => if b.isEmpty then .nan else nanPercentile (b.map (·.2)) q)

def zeroPoint (x y : Vec) : XR :=
  Agg.medianOf ((x.zip y).filterMap fun p => if XR.eqb p.1 (.fin 0) then some p.2 else none)

/-- the lines Auto._plot_core draws for one input -/
def autoLines (T : Tr) (corr simple : Bool) (dist : List (List XR)) (S : List (List (Option Rat)))
    (edges : List XR) (qs : List Rat) (label : String) : List Ser :=
  let x : Vec := dist.flatten
  let y := statMatrix T corr dist S
  let cloud : Ser := ⟨"line", label, x, y⟩
  if simple then [cloud]
  else
    cloud :: (qs.map fun q => let r := quantileLine edges x y q; (⟨"line", "_", r.1, r.2⟩ : Ser))
      ++ [⟨"line", "_", [.fin 0], [zeroPoint x y]⟩]

inductive AutoAxis where
  | loc | lead | time
  deriving DecidableEq, Repr

/-- which dimension the pairs run over; none = verif.util.error -/
def autoAxis (axis : String) : Option AutoAxis :=
  if axis == "location" || axis == "lat" || axis == "lon" || axis == "elev" then some .loc
  else if axis == "leadtime" then some .lead
  else if axis == "time" then some .time
  else none

/-- the error series of slice i: E is the (T, L, X) array flattened in C order -/
def sliceSeries (ax : AutoAxis) (nT nL nX : Nat) (E : List (Option Rat)) (i : Nat) : List (Option Rat) :=
  match ax with
  | .loc => (List.range nT).flatMap fun t => (List.range nL).map fun l => (E[(t * nL + l) * nX + i]?).join
  | .lead => (List.range nT).flatMap fun t => (List.range nX).map fun x => (E[(t * nL + i) * nX + x]?).join
  | .time => (List.range nL).flatMap fun l => (List.range nX).map fun x => (E[(i * nL + l) * nX + x]?).join

end VerifModel.DiagramFss
