import VerifModel.Model.ParseNumbers
/-
  Model of the argument handling of `verif.driver.run(argv)` (driver.py:106-572).

  The model is an *interpreter* of the option tables that `harness/translate.py`
  regenerates from driver.py on every run (`Gen/OptionTable.lean`): which flags
  exist, which take a value, which local variable each branch assigns and with
  which parser, which locals are passed to `verif.data.Data(...)` under which
  keyword, which are copied to which attribute of the output object.  Hand-written
  here: the control structure of the loop (what is a file, what is a flag, when a
  value is consumed, `--config` pre-pass), the parsers themselves, the validations
  after the loop and the order of the early returns.

  Everything is parametric in `Tables`, so the order/config theorems hold for any
  table; `C13_wiring` is the statement that the regenerated table contains the
  documented one.
-/
namespace VerifModel.ArgLoop
open ParseNumbers

/-- the generated tables (see Gen/OptionTable.lean for the meaning of each) -/
structure Tables where
  table : List (String × String × String)
  arity0 : List String
  defaults : List (String × String)
  post : List (String × String)
  dataKw : List (String × String)
  plAttrs : List (String × String × String)
  outputs : List (String × String)
  stdOutputs : List (String × String)
  entries : List (String × String × String)
  lists : List (String × String)
  axes : List (String × String)
  aggregators : List (String × String)
  fields : List (String × String)
  mapTypes : List String
  plotTypes : List String
  filesVar : String
  metricVar : String
  versionVar : String
  configPrepass : String

/-- what the file system answers: which names `verif.input.get_input` accepts and which
config files can be read (with their whitespace-separated tokens) -/
structure FileSys where
  inputs : List String
  configs : List (String × List String)

/-- value of a local variable of `driver.run` -/
inductive Val where
  | none
  | bool (b : Bool)
  | str (s : String)
  | strs (l : List String)
  | nums (l : List Rat)
  | int (i : Int)
  | num (q : Rat)
  | obj (cls : String) (name : String)     -- axis / aggregator / field / input object
  | raw (kind : String) (s : String)       -- parser not interpreted by the model
  deriving DecidableEq, Repr, Inhabited

structure Cfg where
  files : List String
  env : String → Option Val

def Cfg.empty : Cfg := ⟨[], fun _ => Option.none⟩
def Cfg.addFile (c : Cfg) (f : String) : Cfg := { c with files := c.files ++ [f] }
def Cfg.set (c : Cfg) (k : String) (v : Val) : Cfg :=
  { c with env := fun k' => if k' = k then some v else c.env k' }
def Cfg.setAll (c : Cfg) (s : List (String × Val)) : Cfg := s.foldl (fun c kv => c.set kv.1 kv.2) c

/-! ### parsers -/

/-- Python `int(s)` for a string: optional sign, at least one digit -/
def parseInt? (s : String) : Option Int :=
  match s.toList with
  | '-' :: cs => if cs.isEmpty then Option.none else (digitsVal cs).map fun n => -(n : Int)
  | '+' :: cs => if cs.isEmpty then Option.none else (digitsVal cs).map fun n => (n : Int)
  | cs => if cs.isEmpty then Option.none else (digitsVal cs).map fun n => (n : Int)

def constVal (s : String) : Val :=
  if s == "None" then .none else if s == "True" then .bool true else if s == "False" then .bool false
  else match parseInt? s with
    | some i => .int i
    | Option.none => .str s

/-- `verif.axis.get(name)` -/
def getAxis (T : Tables) (name : String) : Res Val :=
  match T.axes.lookup name with
  | some "0" => .ok (.obj "axis" name)
  | some _ => .error (.raise "TypeError")
  | Option.none => .error .exit

/-- `verif.aggregator.get(name)` (a number is a quantile aggregator) -/
def getAggregator (T : Tables) (name : String) : Res Val :=
  match T.aggregators.lookup name with
  | some "0" => .ok (.obj "aggregator" name)
  | some _ => .error (.raise "TypeError")
  | Option.none =>
    match parseFloat? name with
    | some q => if q < 0 ∨ q > 1 then .error .exit else .ok (.obj "aggregator" ("quantile:" ++ toString q))
    | Option.none => .error .exit

/-- `threshold:<x>` / `quantile:<x>` prefix of a field name -/
def fieldArg? (pre : String) (name : String) : Option String :=
  let p := pre.toList
  let n := name.toList
  if n.take p.length == p then some (String.ofList (n.drop p.length)) else Option.none

/-- `verif.field.get(name)` -/
def getField (T : Tables) (name : String) : Res Val :=
  let thr := (fieldArg? "threshold:" name).orElse fun _ => fieldArg? "Threshold:" name
  let qua := (fieldArg? "quantile:" name).orElse fun _ => fieldArg? "Quantile:" name
  match thr, qua with
  | some x, _ => match parseFloat? x with
      | some q => .ok (.obj "field" ("threshold:" ++ toString q))
      | Option.none => .error (.raise "ValueError")
  | Option.none, some x => match parseFloat? x with
      | some q => .ok (.obj "field" ("quantile:" ++ toString q))
      | Option.none => .error (.raise "ValueError")
  | Option.none, Option.none =>
    match T.fields.lookup name with
    | some "0" => .ok (.obj "field" name)
    | some _ => .error (.raise "TypeError")
    | Option.none => .ok (.obj "field" ("other:" ++ name))

def replaceAll (s a b : String) : String := b.intercalate (s.splitOn a)

/-- value assigned by a branch whose right-hand side has parser kind `kind` -/
def parseKind (T : Tables) (fs : FileSys) (kind : String) (arg : String) : Res Val :=
  match kind with
  | "str" => .ok (.str arg)
  | "numbers" => (parseNumbers arg false).map .nums
  | "array:numbers" => (parseNumbers arg false).map .nums
  | "dates" => (parseNumbers arg true).map .nums
  | "map:int:numbers" => (parseNumbers arg false).map fun l => .nums (l.map fun q => ((trunc q : Int) : Rat))
  | "ints" => (parseNumbers arg false).map fun l => .nums (l.map fun q => ((trunc q : Int) : Rat))
  | "label" => .ok (.str (replaceAll arg "\\n" "\n"))
  | "split:label" => .ok (.strs ((replaceAll arg "\\n" "\n").splitOn ","))
  | "split:str" => .ok (.strs (arg.splitOn ","))
  | "underscore:str" => .ok (.str (replaceAll arg "_" " "))
  | "int" => match parseInt? arg with                      -- verif.util.parse_int: message + exit 1
      | some i => .ok (.int i)
      | Option.none => .error .exit
  | "float" => match parseFloat? arg with                  -- verif.util.parse_float
      | some q => .ok (.num q)
      | Option.none => .error .exit
  | "axis" => getAxis T arg
  | "aggregator" => getAggregator T arg
  | "field" => getField T arg
  | "input" => if fs.inputs.contains arg then .ok (.obj "input" arg) else .error .exit
  | "const:True" => .ok (.bool true)
  | "const:False" => .ok (.bool false)
  | "const:None" => .ok .none
  | "const:subtract" => .ok (.str "subtract")
  | "const:divide" => .ok (.str "divide")
  | k => .ok (.raw k arg)

/-- value of `loc` among the assignments already made by the same branch -/
def lastOf (loc : String) (acc : List (String × Val)) : Option Val := acc.reverse.lookup loc

/-- one statement of an option branch: an assignment, or one of the recognised checks -/
def stepRow (T : Tables) (fs : FileSys) (arg : String) (acc : List (String × Val))
    (row : String × String × String) : Res (List (String × Val)) :=
  match row.2.2 with
  | "pass" => .ok acc
  | "check:unit_interval" =>
    match lastOf row.2.1 acc with
    | some (.nums l) =>
      if l.isEmpty then .error (.raise "ValueError")        -- np.min of an empty array
      else if l.any (fun q => q < 0 || q > 1) then .error .exit else .ok acc
    | _ => .ok acc
  | "check:in:verif.output.allowedMapTypes" =>
    match lastOf row.2.1 acc with
    | some (.str s) => if T.mapTypes.contains s then .ok acc else .error .exit
    | _ => .ok acc
  | kind => (parseKind T fs kind arg).map fun v => acc ++ [(row.2.1, v)]

def rowsOf (T : Tables) (flag : String) : List (String × String × String) :=
  T.table.filter fun r => r.1 == flag

def runRows (T : Tables) (fs : FileSys) (arg : String) :
    List (String × String × String) → List (String × Val) → Res (List (String × Val))
  | [], acc => .ok acc
  | r :: rs, acc => do
      let acc' ← stepRow T fs arg acc r
      runRows T fs arg rs acc'

/-- the assignments made by the branch of `flag` with value `arg` -/
def itemSets (T : Tables) (fs : FileSys) (flag arg : String) : Res (List (String × Val)) :=
  runRows T fs arg (rowsOf T flag) []

def hasFlag (T : Tables) (flag : String) : Bool := T.table.any fun r => r.1 == flag

/-- `arg[0] == '-'` -/
def isOpt (t : String) : Bool := t.toList.head? == some '-'

/-! ### the argument loop -/

def applyFlag (T : Tables) (fs : FileSys) (flag arg : String) (c : Cfg) : Res Cfg :=
  (itemSets T fs flag arg).map fun s => c.setAll s

/-- `while i < len(argv)` of driver.run, on the tokens after `argv[0]` -/
def loop (T : Tables) (fs : FileSys) : List String → Cfg → Res Cfg
  | [], c => .ok c
  | t :: rest, c =>
    if t = "" then .error (.raise "IndexError")             -- arg[0] of an empty string
    else if isOpt t = false then loop T fs rest (c.addFile t)
    else if t ∈ T.arity0 then
      match applyFlag T fs t "" c with
      | .error e => .error e
      | .ok c' => loop T fs rest c'
    else
      match rest with
      | [] => .error .exit                                  -- Missing value after …
      | v :: rest' =>
        if hasFlag T t = false then .error .exit            -- Flag … not recognized
        else
          match applyFlag T fs t v c with
          | .error e => .error e
          | .ok c' => loop T fs rest' c'

/-- the `--config` pre-pass: tokens of every named file, in order of appearance -/
def configExtra (fs : FileSys) : List String → Res (List String)
  | [] => .ok []
  | t :: rest =>
    if t = "--config" then
      match rest with
      | [] => .error .exit                                  -- Missing filename after --config
      | f :: rest' =>
        match fs.configs.lookup f with
        | Option.none => .error .exit                       -- Could not read …
        | some toks =>
          match configExtra fs rest' with
          | .error e => .error e
          | .ok e => .ok (toks ++ e)
    else configExtra fs rest

/-- all tokens the argument loop sees (`argv = argv + extra`), without `argv[0]` -/
def expand (T : Tables) (fs : FileSys) (toks : List String) : Res (List String) :=
  if T.configPrepass = "append" then (configExtra fs toks).map fun e => toks ++ e
  else .ok toks

/-- pre-pass + loop; `toks` = `argv[1:]` -/
def parseArgs (T : Tables) (fs : FileSys) (toks : List String) : Res Cfg := do
  let all ← expand T fs toks
  loop T fs all Cfg.empty

/-! ### after the loop -/

def Cfg.get (T : Tables) (c : Cfg) (loc : String) : Val :=
  match c.env loc with
  | some v => v
  | Option.none =>
    match T.defaults.lookup loc with
    | some "verif.field.Obs()" => .obj "field" "obs"
    | some "verif.field.Fcst()" => .obj "field" "fcst"
    | some "verif.axis.Leadtime()" => .obj "axis" "leadtime"
    | some "verif.aggregator.Mean()" => .obj "aggregator" "mean"
    | some d => match fieldArg? "const:" d with
        | some s => constVal s
        | Option.none => .raw "default" d
    | Option.none => .none

/-- the local variable that the branch of `flag` assigns (its last assignment) -/
def localOf (T : Tables) (flag : String) : String :=
  match ((rowsOf T flag).filter fun r => r.2.1 != "" && r.2.1 != "?").getLast? with
  | some r => r.2.1
  | Option.none => ""

def Val.truthy : Val → Bool
  | .bool b => b
  | .none => false
  | _ => true

/-- one validation after the loop -/
def postCheck (v : Val) (check : String) : Bool :=
  match check, v with
  | "len2", .nums l => l.length == 2
  | "positive", .int i => i > 0
  | c, .str s =>
    -- "oneof:a|b|…": the value is one of the listed names (`X is not None and X not in [...]`)
    match c.splitOn ":" with
    | ["oneof", names] => (names.splitOn "|").contains s
    | _ => true
  | _, _ => true

def postChecks (T : Tables) (c : Cfg) : Bool :=
  T.post.all fun p => postCheck (c.get T p.1) p.2

inductive Stage where
  | version | help | list | run (out : String) (entry : String)
  deriving DecidableEq, Repr

def aggLocal (T : Tables) : String :=
  match T.plAttrs.filter (fun r => r.2.2 == "aggregator") with
  | r :: _ => r.2.1
  | [] => ""

def entryOf (T : Tables) (c : Cfg) : String :=
  let rec go : List (String × String × String) → String
    | [] => "plot"
    | (ty, loc, e) :: rest =>
      if ty == "" then e else if c.get T loc == .str ty then e else go rest
  go T.entries

def stdOutputOf (T : Tables) (c : Cfg) : String :=
  let rec go : List (String × String) → String
    | [] => "Standard"
    | (loc, cls) :: rest => if loc == "" then cls else if (c.get T loc).truthy then cls else go rest
  go T.stdOutputs

/-- what `driver.run` does after the loop, up to the call of the output's entry point -/
def finish (T : Tables) (fs : FileSys) (c : Cfg) : Res Stage :=
  if (c.get T T.versionVar).truthy then .ok .version
  else if !postChecks T c then .error .exit
  else if c.files.any (fun f => !fs.inputs.contains f) then .error .exit
  else
    let listing := T.lists.any fun p => (c.get T p.1).truthy
    if listing then (if c.files.isEmpty then .error .exit else .ok .list)
    else
      let metric := c.get T T.metricVar
      if c.files.isEmpty || metric == .none || (c.get T (localOf T "--help")).truthy then .ok .help
      else
        let figOk := match c.get T (localOf T "-fs") with
          | .str s => (s.splitOn ",").length == 2
          | _ => true
        if !figOk then .error .exit
        else
          let m := match metric with | .str s => s | _ => ""
          let aggOk : Res Unit := match c.get T (aggLocal T) with
            | .str a => (getAggregator T a).map fun _ => ()
            | _ => .ok ()
          match T.outputs.lookup m with
          | some cls => aggOk.map fun _ => .run (String.ofList (cls.toList.takeWhile (· != '('))) (entryOf T c)
          | Option.none =>
            match aggOk with
            | .error e => .error e
            | .ok _ =>
              let ptype := match c.get T (localOf T "-type") with | .str s => s | _ => ""
              if !T.plotTypes.contains ptype then .error .exit
              else .ok (.run (stdOutputOf T c ++ ":" ++ m) (entryOf T c))

/-! ### canonical rendering (the reply of the driver op `argv`) -/

def showStr (s : String) : String := replaceAll s " " "+"

def Val.show : Val → String
  | .none => "-"
  | .bool b => if b then "1" else "0"
  | .str s => showStr s
  | .strs l => ",".intercalate (l.map showStr)
  | .nums l => if l.isEmpty then "[]" else ",".intercalate (l.map toString)
  | .int i => toString i
  | .num q => toString q
  | .obj _ n => n
  | .raw k s => "raw:" ++ k ++ ":" ++ showStr s

/-- `leg.split(',')` with `_` → blank (the block after the loop) -/
def legend (v : Val) : Val :=
  match v with
  | .str s => .strs ((s.splitOn ",").map fun x => replaceAll x "_" " ")
  | v => v

def showData (T : Tables) (c : Cfg) : String :=
  let legLoc := localOf T "-leg"
  ";".intercalate (T.dataKw.map fun p =>
    let v := c.get T p.2
    p.1 ++ "=" ++ (if p.2 == legLoc then legend v else v).show)

/-- the output attributes of the data-selection/computation options -/
def outAttrs : List String := ["axis", "aggregator", "thresholds", "quantiles", "bin_type", "show_acc"]

def showOut (T : Tables) (c : Cfg) : String :=
  ";".intercalate (outAttrs.map fun a =>
    match T.plAttrs.find? (fun r => r.1 == a) with
    | Option.none => a ++ "=?"
    | some r =>
      let v := c.get T r.2.1
      let shown :=
        if r.2.2 == "aggregator" then
          match v with
          | .str s => (match getAggregator T s with | .ok o => o.show | .error _ => "?")
          | _ => "-"
        else if v.truthy || (match v with | .nums _ => true | _ => false) then v.show else "-"
      a ++ "=" ++ shown)

def render (T : Tables) (fs : FileSys) (toks : List String) : String :=
  match parseArgs T fs toks with
  | .error .exit => "ERR"
  | .error (.raise ty) => "EXC:" ++ ty
  | .ok c =>
    match finish T fs c with
    | .error .exit => "ERR"
    | .error (.raise ty) => "EXC:" ++ ty
    | .ok .version => "version"
    | .ok .help =>
      if c.files.isEmpty then "help" else "help files=" ++ ",".intercalate c.files ++ ";" ++ showData T c
    | .ok .list => "list files=" ++ ",".intercalate c.files ++ ";" ++ showData T c
    | .ok (.run out entry) =>
      "run files=" ++ ",".intercalate c.files ++ ";" ++ showData T c ++ " out=" ++ out ++ ";entry=" ++ entry
        ++ ";" ++ showOut T c

end VerifModel.ArgLoop
