/-
  Row types of the generated class tables (`Gen/ClassTable.lean`): the class attributes of
  verif's metric / output / axis classes that the driver's dispatch logic reads.
  `none` stands for Python's `None`.
-/
namespace VerifModel

structure MetricRow where
  /-- class name in lower case: what `-m <name>` is compared with (`verif.metric.get`) -/
  name : String
  cls : String
  /-- `is_valid()`: `description is not None` -/
  valid : Bool
  /-- `type`: deterministic | threshold | probabilistic | diagram -/
  type : String
  supportsThreshold : Bool
  supportsField : Bool
  supportsAggregator : Bool
  requireThresholdType : Option String
  defaultAxis : Option String
  defaultBinType : Option String
  minNumThresholds : Option Nat
  maxNumThresholds : Option Nat
  deriving Repr, DecidableEq

structure OutputRow where
  name : String
  cls : String
  valid : Bool
  supportsThreshold : Bool
  supportsField : Bool
  supportsX : Bool
  supportsAcc : Bool
  requireThresholdType : Option String
  defaultAxis : Option String
  defaultBinType : Option String
  /-- the `_…_core` / entry methods the class (or a base class other than `Output`) defines -/
  overrides : List String
  deriving Repr, DecidableEq

structure AxisRow where
  name : String
  isTimeLike : Bool
  isLocationLike : Bool
  isContinuous : Bool
  /-- does the class implement `label` (abstract in `Axis`) -/
  hasLabel : Bool
  deriving Repr, DecidableEq

end VerifModel
