import VerifModel.Gen.ClassTable
/-
  C19 — the driver's dispatch logic (driver.py:411-572 and 680-697) and the base-class
  defaults of verif.output.Output (output.py:355-367, 411-425), driven by the class
  tables that the translator regenerates from the working tree on every run.

  `dispatch` decides, from the command line alone, whether the run stops with an
  explanatory error that does not depend on the data (`error`), reaches a method that
  the selected output class really implements (`run`), or would fall into a base-class
  default that raises instead of reporting (`unhandled`).
-/
namespace VerifModel.Dispatch
open VerifModel Gen

/-- where `pl.thresholds` comes from -/
inductive ThrSrc
  | none            -- stays `None`
  | given           -- `-r`
  | detDefault      -- 20 values between the smallest and largest obs/fcst (driver.py:529-542)
  | dataThresholds  -- the thresholds stored in the files (driver.py:543-545); may be empty: "No thresholds available"
  | qGiven          -- `-q` (driver.py:572 stores the quantiles in `thresholds`)
  | qData           -- the quantiles stored in the files
  deriving DecidableEq, Repr

def ThrSrc.name : ThrSrc → String
  | .none => "none" | .given => "given" | .detDefault => "detdefault" | .dataThresholds => "data"
  | .qGiven => "qgiven" | .qData => "qdata"

/-- the value of `-agg`: a name, or a number (`verif.aggregator.get` then builds `Quantile(number)`) -/
inductive AggArg
  | named (n : String)
  | number
  deriving DecidableEq, Repr

structure Cmd where
  /-- `-m` -/
  name : String
  /-- `-x` -/
  axis : Option String
  /-- `-type` (default "plot") -/
  type : String
  /-- `-b` -/
  binType : Option String
  /-- is `-r` given -/
  hasR : Bool
  /-- number of values given with `-q` (0: no `-q`) -/
  nQ : Nat
  /-- `-agg` -/
  agg : Option AggArg
  deriving DecidableEq, Repr

inductive Why
  | unknownAxis            -- verif.axis.get: "No axis by name"
  | unknownAgg             -- verif.aggregator.get: "No aggregator by the name"
  | typeNotUnderstood      -- driver.py:493
  | internalThresholdType  -- driver.py:526
  | tooFewQuantiles        -- driver.py:564
  | tooManyQuantiles       -- driver.py:567
  | stub (method : String) -- base-class default of verif.output.Output
  | withinBinType          -- `_plot_core` of a diagram that takes one threshold: "A 'within' bin type cannot be used"
  | badT                   -- `-T <value>`: verif.util.parse_int, "Could not translate … into an integer"
  | nonPositiveT           -- driver.py:343 "-T <value> must be greater than 0"
  deriving DecidableEq, Repr

inductive Decision
  | error (why : Why)
  | run (cls method axis : String) (src : ThrSrc)
  /-- a base-class default that does not call `verif.util.error` (or a class the driver names but
      output.py does not define): the run would end in an unhandled exception -/
  | unhandled (what : String)
  deriving DecidableEq, Repr

structure Resolved where
  pl : OutputRow
  m : Option MetricRow
  deriving Repr

def lookup (k : String) : List (String × String) → Option String
  | [] => none
  | (a, b) :: t => if a == k then some b else lookup k t

def findOutput (cls : String) : Option OutputRow := ClassTable.outputs.find? (fun r => r.cls == cls)
def findMetricCls (cls : String) : Option MetricRow := ClassTable.metrics.find? (fun r => r.cls == cls)

/-- `verif.metric.get(name)`: the class whose lower-case name is `name` and that is valid -/
def getMetric (name : String) : Option MetricRow :=
  ClassTable.metrics.find? (fun r => r.name == name && r.valid)

/-- driver.py:411-491: the special-diagram chain, else `Standard(metric.get(name) or FromField(Other(name)))` -/
def resolve (name : String) : Option Resolved :=
  match lookup name ClassTable.driverChain with
  | some cls => (findOutput cls).map (fun pl => ⟨pl, none⟩)
  | none =>
    match findOutput "Standard" with
    | none => none
    | some pl =>
      match getMetric name with
      | some m => some ⟨pl, some m⟩
      | none => (findMetricCls "FromField").map (fun m => ⟨pl, some m⟩)

def axisKnown (a : String) : Bool := ClassTable.axes.any (fun r => r.name == a)

def mAll (m : Option MetricRow) (f : MetricRow → Bool) : Bool :=
  match m with
  | none => true
  | some r => f r

/-! ### classification of the arguments (everything that needs a table lookup happens here, once per
    name / axis / type; the decision itself works on these summaries) -/

/-- `require_threshold_type` as the driver understands it -/
inductive Req
  | none | deterministic | threshold | quantile
  | other   -- any other string: no branch of the driver recognises it
  deriving DecidableEq, Repr

def Req.parse : Option String → Req
  | .none => .none
  | some s => if s == "deterministic" then .deterministic else if s == "threshold" then .threshold
              else if s == "quantile" then .quantile else .other

/-- how `-x <axis>` enters the driver's tests -/
inductive AxisKind
  | unknown     -- verif.axis.get fails
  | threshold
  | field       -- obs, fcst
  | plain
  deriving DecidableEq, Repr

def AxisKind.of (a : String) : AxisKind :=
  if !axisKnown a then .unknown
  else if a == "threshold" then .threshold
  else if a == "obs" || a == "fcst" then .field
  else .plain

/-- what the driver and the output object know after `-m <name>` has been resolved -/
structure NameD where
  cls : String
  /-- `m is not None`: a standard metric (output class Standard) -/
  isStandard : Bool
  supportsX : Bool
  /-- `pl.supports_threshold and (m is None or m.supports_threshold)` -/
  thrOk : Bool
  /-- `pl.supports_field and (m is None or m.supports_field)` -/
  fldOk : Bool
  reqPl : Req
  reqM : Req
  minQ : Option Nat
  maxQ : Option Nat
  /-- `Output.__init__` / `Standard.__init__`: the axis used when `-x` is absent or dropped -/
  defaultAxis : Option String
  defaultAxisKind : AxisKind
  defaultBinType : Option String
  overrides : List String
  deriving Repr

def NameD.ofResolved (r : Resolved) : NameD :=
  let dax := (match r.m with
    | some m => (match m.defaultAxis with | some a => some a | none => r.pl.defaultAxis)
    | none => r.pl.defaultAxis)
  { cls := r.pl.cls
    isStandard := r.m.isSome
    supportsX := r.pl.supportsX
    thrOk := r.pl.supportsThreshold && mAll r.m (·.supportsThreshold)
    fldOk := r.pl.supportsField && mAll r.m (·.supportsField)
    reqPl := Req.parse r.pl.requireThresholdType
    reqM := (match r.m with | some m => Req.parse m.requireThresholdType | none => .none)
    minQ := (match r.m with | some m => m.minNumThresholds | none => none)
    maxQ := (match r.m with | some m => m.maxNumThresholds | none => none)
    defaultAxis := dax
    defaultAxisKind := (match dax with | some a => AxisKind.of a | none => .unknown)
    defaultBinType := (match r.m with
      | some m => (match m.defaultBinType with | some a => some a | none => r.pl.defaultBinType)
      | none => r.pl.defaultBinType)
    overrides := r.pl.overrides }

def nameD (name : String) : Option NameD := (resolve name).map NameD.ofResolved

/-- what happens after `-type <t>` has selected an entry point of the output object -/
inductive Finish
  | run (method : String)
  | stub (core : String)       -- base-class default that calls verif.util.error
  | unhandled (what : String)  -- base-class default that does something else
  deriving DecidableEq, Repr

structure TypeD where
  /-- in the list of driver.py:483 (else "Type not understood", standard metrics only) -/
  standardOk : Bool
  isImpact : Bool
  /-- driver.py:680-697 -/
  entry : String
  /-- the `_…_core` method the entry point of Output calls first -/
  core : Option String
  /-- is the base-class default of `core` a call of verif.util.error -/
  stubIsError : Bool
  deriving Repr

def typeD (t : String) : TypeD :=
  let entry := (lookup t ClassTable.typeDispatch).getD ClassTable.typeDefault
  let core := lookup entry ClassTable.entryCore
  { standardOk := ClassTable.standardTypes.contains t
    isImpact := t == "impact"
    entry := entry
    core := core
    stubIsError := (match core with | some c => lookup c ClassTable.stubs == some "error" | none => false) }

def finish (overrides : List String) (td : TypeD) : Finish :=
  if overrides.contains td.entry then .run td.entry
  else match td.core with
    | none => .unhandled td.entry
    | some core =>
      if overrides.contains core then .run core
      else if td.stubIsError then .stub core else .unhandled core

def aggKnown : AggArg → Bool
  | .named n => ClassTable.aggregators.contains n
  | .number => true

/-- `-agg` absent, or a value verif.aggregator.get accepts -/
def aggOk : Option AggArg → Bool
  | none => true
  | some a => aggKnown a

/-! ### the decision -/

/-- driver.py:496-509: `-x` is dropped when the output or the metric does not support it
    (and an explicit `-r` with it, for threshold / obs / fcst).  `none`: the default axis is used. -/
def effAxis (nd : NameD) (axis : Option (String × AxisKind)) (hasR : Bool) : Option (String × AxisKind) × Bool :=
  match (if nd.supportsX then axis else none) with
  | none => (none, hasR)
  | some (a, k) =>
    if k == .threshold && !nd.thrOk then (none, false)
    else if k == .field && !nd.fldOk then (none, false)
    else (some (a, k), hasR)

/-- driver.py:512-547 without the data-dependent parts -/
def thresholdSource (nd : NameD) (td : TypeD) (hasR : Bool) : Except Why ThrSrc :=
  if hasR then .ok .given
  else if td.isImpact then .ok .detDefault
  else if nd.reqPl == .deterministic then .ok .detDefault
  else if nd.reqPl == .threshold then .ok .dataThresholds
  else if nd.isStandard then
    (if nd.reqM == .deterministic then .ok .detDefault
     else if nd.reqM == .threshold then .ok .dataThresholds
     else .ok .none)
  else if nd.reqPl != .none then .error .internalThresholdType
  else .ok .none

def needsQuantiles (nd : NameD) : Bool := nd.reqPl == .quantile || (nd.isStandard && nd.reqM == .quantile)

/-- driver.py:548-572 -/
def quantileSource (nd : NameD) (nQ : Nat) (src : ThrSrc) : Except Why ThrSrc :=
  if needsQuantiles nd then
    if nQ == 0 then .ok .qData       -- the count check then depends on the files
    else if (match nd.minQ with | some k => decide (nQ < k) | none => false) then .error .tooFewQuantiles
    else if (match nd.maxQ with | some k => decide (k < nQ) | none => false) then .error .tooManyQuantiles
    else .ok .qGiven
  else .ok src

/-- the axis the output object ends up with, and how it enters the support tests -/
def finalAxis (nd : NameD) (ax : Option (String × AxisKind)) : String × AxisKind :=
  match ax with
  | some p => p
  | none => (nd.defaultAxis.getD "-", nd.defaultAxisKind)

def axisIsUnknown : Option (String × AxisKind) → Bool
  | some (_, k) => k == .unknown
  | none => false

def dispatchD (nd : NameD) (axis : Option (String × AxisKind)) (td : TypeD) (hasR : Bool) (nQ : Nat)
    (aggOk : Bool) : Decision :=
  -- the argument loop resolves `-x` with verif.axis.get before anything else
  if axisIsUnknown axis then .error .unknownAxis
  -- `-agg` of a standard metric is looked up at once (driver.py:480), of a diagram at :660; both precede the run
  else if nd.isStandard && !aggOk then .error .unknownAgg
  else if nd.isStandard && !td.standardOk then .error .typeNotUnderstood
  else
    match effAxis nd axis hasR with
    | (ax, hasR') =>
    match thresholdSource nd td hasR' with
    | .error w => .error w
    | .ok s0 =>
      match quantileSource nd nQ s0 with
      | .error w => .error w
      | .ok src =>
        if !aggOk then .error .unknownAgg
        else match finish nd.overrides td with
          | .run m => .run nd.cls m (finalAxis nd ax).1 src
          | .stub core => .error (.stub core)
          | .unhandled w => .unhandled w

def axisD (a : Option String) : Option (String × AxisKind) := a.map (fun s => (s, AxisKind.of s))

/-- `pl.bin_type` at the time of the run -/
def effBinType (nd : NameD) (b : Option String) : Option String :=
  match b with
  | some b => some b
  | none => nd.defaultBinType

/-- `re.compile(".*within.*").match(bin_type)` on the documented bin types -/
def isWithinType : Option String → Bool
  | some b => b == "within" || b == "=within" || b == "within=" || b == "=within="
  | none => false

/-- the diagrams that work on ONE threshold (`Roc`, `DRoc`, `DRoc0`, `Performance`, `BsDecomp`, …: the generated
    table `refusesWithin`) start their `_plot_core` with error guards, one of which refuses the within-type bins
    (a within-type interval needs two thresholds; `verif.util.get_intervals(bin_type, [t])` is empty).  Whatever the
    thresholds are, such a run ends in one of those messages: the decision is an error, reported from inside the
    method (the output object has been set up). -/
def refineWithin (nd : NameD) (b : Option String) : Decision → Decision
  | .run cls m ax src =>
    if m == "_plot_core" && ClassTable.refusesWithin.contains cls && isWithinType (effBinType nd b)
    then .error .withinBinType else .run cls m ax src
  | d => d

def dispatch (c : Cmd) : Decision :=
  match nameD c.name with
  | none => .unhandled "verif.output class"     -- the driver names a class output.py does not define
  | some nd => refineWithin nd c.binType (dispatchD nd (axisD c.axis) (typeD c.type) c.hasR c.nQ (aggOk c.agg))

/-! ### what C19 asks of a decision -/

/-- the axis the run uses is one the class (and metric) supports -/
def axisSupported (nd : NameD) (k : AxisKind) : Bool :=
  match k with
  | .unknown => false
  | .threshold => nd.thrOk
  | .field => nd.fldOk
  | .plain => true

/-- thresholds / quantiles are there when `require_threshold_type` (or `-type impact`) demands them -/
def thresholdsAvailable (nd : NameD) (td : TypeD) (src : ThrSrc) : Bool :=
  let req := if nd.reqPl != .none then nd.reqPl else if nd.isStandard then nd.reqM else .none
  let isThr := src == .given || src == .detDefault || src == .dataThresholds
  let isQ := src == .qGiven || src == .qData
  ((req != .deterministic && req != .threshold) || isThr || (needsQuantiles nd && isQ)) &&
  (!needsQuantiles nd || isQ) &&
  (!td.isImpact || isThr || isQ)

/-- C19 for one decision: an explicit error, or a run of a method the class really defines, on an axis it
    supports, with the thresholds it requires -/
def goodD (nd : NameD) (axis : Option (String × AxisKind)) (td : TypeD) (hasR : Bool) : Decision → Bool
  | .error _ => true
  | .unhandled _ => false
  | .run cls method ax src =>
    cls == nd.cls && nd.overrides.contains method &&
    (let fa := finalAxis nd (effAxis nd axis hasR).1
     ax == fa.1 && axisSupported nd fa.2) &&
    thresholdsAvailable nd td src

def good (c : Cmd) (d : Decision) : Bool :=
  match nameD c.name with
  | none => false
  | some nd => goodD nd (axisD c.axis) (typeD c.type) c.hasR d

/-! ### `-T` / `-Tagg` / `-Tx` and `-c` (driver.py:214-219, 298-304, 343-355)

The argument loop converts `-T` with `verif.util.parse_int` (error message for anything `int()` rejects),
looks `-Tagg` up with `verif.aggregator.get` and `-Tx` with `verif.axis.get` (error messages for unknown
names); after the loop `-T <= 0` is an error.  All of that happens before the dataset is built and
before `-m` is resolved, and none of it changes which class, method, axis or thresholds are selected:
the values only travel into `Data(…, dim_agg_*)`.  (`-Tx` with a known axis other than time / leadtime
is accepted here; `Data.preaggregate` stops with "Dimension aggregation has to be one of 'time' or
'leadtime'" when the first array is loaded — an error message from inside the run.)
`-c <file>` / `-C <file>` hand the climatology input to `Data`; nothing in the dispatch looks at it. -/

/-- the value of `-T` as `int()` sees it -/
inductive TLen
  | notInt              -- `int(value)` raises ValueError
  | int (v : Int)
  deriving DecidableEq, Repr

structure TArgs where
  /-- `-T` -/
  len : Option TLen := none
  /-- `-Tagg` -/
  agg : Option AggArg := none
  /-- `-Tx` -/
  axis : Option String := none
  /-- `-c` or `-C` given -/
  clim : Bool := false
  deriving DecidableEq, Repr

/-- `-Tx <name>` with a name `verif.axis.get` does not know -/
def tAxisBad : Option String → Bool
  | some a => !axisKnown a
  | none => false

/-- the error exits of the arguments above; `none` = all of them are accepted -/
def tCheck (t : TArgs) : Option Why :=
  if t.len == some .notInt then some .badT
  else if !aggOk t.agg then some .unknownAgg
  else if tAxisBad t.axis then some .unknownAxis
  else match t.len with
    | some (.int v) => if v ≤ 0 then some .nonPositiveT else none
    | _ => none

structure CmdT where
  base : Cmd
  t : TArgs
  deriving DecidableEq, Repr

/-- the decision for a command line that may carry `-T…` / `-c` -/
def dispatchT (c : CmdT) : Decision :=
  match tCheck c.t with
  | some w => .error w
  | none => dispatch c.base

end VerifModel.Dispatch
