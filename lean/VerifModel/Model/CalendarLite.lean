/-
  CalendarLite — the small proleptic-Gregorian calendar that the model of
  `util.get_date` needs (Python's `datetime.datetime(y, m, d) + timedelta(k)`
  and `strftime('%Y%m%d')`).  Everything is on `Nat` (days since 0000-03-01) so
  that the kernel can evaluate it on every day of 1900–2100.

  (Base/Calendar.lean is written by another check; this one is private to C13.)
-/
namespace VerifModel.ParseNumbers.CalendarLite

structure Date where
  y : Nat
  m : Nat
  d : Nat
  deriving DecidableEq, Repr, Inhabited

def isLeap (y : Nat) : Bool := (y % 4 == 0 && y % 100 != 0) || y % 400 == 0

def daysInMonth (y m : Nat) : Nat :=
  if m == 2 then (if isLeap y then 29 else 28)
  else if m == 4 || m == 6 || m == 9 || m == 11 then 30 else 31

/-- what `datetime.datetime(y, m, d)` accepts (MINYEAR = 1, MAXYEAR = 9999) -/
def Date.valid (t : Date) : Bool :=
  1 ≤ t.y && t.y ≤ 9999 && 1 ≤ t.m && t.m ≤ 12 && 1 ≤ t.d && t.d ≤ daysInMonth t.y t.m

/-- days since 0000-03-01 (Hinnant's `days_from_civil`, shifted so that it stays in `Nat`) -/
def days (t : Date) : Nat :=
  let y := if t.m ≤ 2 then t.y - 1 else t.y
  let era := y / 400
  let yoe := y % 400
  let mp := (t.m + 9) % 12
  let doy := (153 * mp + 2) / 5 + t.d - 1
  let doe := yoe * 365 + yoe / 4 - yoe / 100 + doy
  era * 146097 + doe

/-- inverse of `days` (Hinnant's `civil_from_days`) -/
def civil (n : Nat) : Date :=
  let era := n / 146097
  let doe := n % 146097
  let yoe := (doe - doe / 1460 + doe / 36524 - doe / 146096) / 365
  let y := yoe + era * 400
  let doy := doe - (365 * yoe + yoe / 4 - yoe / 100)
  let mp := (5 * doy + 2) / 153
  let d := doy - (153 * mp + 2) / 5 + 1
  let m := if mp < 10 then mp + 3 else mp - 9
  ⟨if m ≤ 2 then y + 1 else y, m, d⟩

/-- `YYYYMMDD` as a number (`strftime('%Y%m%d')` read back with `int`) -/
def Date.ymd (t : Date) : Nat := t.y * 10000 + t.m * 100 + t.d

/-- the (year, month, day) that `get_date` extracts from a number
(`int(date / 10000)`, `int(date / 100 % 100)`, `int(date % 100)`) -/
def ofYmd (n : Nat) : Date := ⟨n / 10000, n / 100 % 100, n % 100⟩

/-- day number of the last calendar date whose `YYYYMMDD` number is ≤ `n`
(`n` itself need not be a date: 20130230, 20130199, 20131301 …).
`+ 1` offset: the result is `1 +` that day number so that "before everything" is 0. -/
def lastDayLE (n : Nat) : Nat :=
  let t := ofYmd n
  if t.y == 0 then 0
  else if t.m == 0 then days ⟨t.y, 1, 1⟩            -- = 1 + days (y-1, 12, 31)
  else if t.m > 12 then days ⟨t.y + 1, 1, 1⟩
  else if t.d == 0 then days ⟨t.y, t.m, 1⟩
  else days ⟨t.y, t.m, min t.d (daysInMonth t.y t.m)⟩ + 1

/-- day numbers of 0001-01-01 and 9999-12-31 (the range of `datetime`) -/
def minDay : Nat := days ⟨1, 1, 1⟩
def maxDay : Nat := days ⟨9999, 12, 31⟩

end VerifModel.ParseNumbers.CalendarLite
