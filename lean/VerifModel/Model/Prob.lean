import VerifModel.Base.XR
import VerifModel.Base.Tr
import VerifModel.Base.Vec
import VerifModel.Model.Interval
import VerifModel.Model.ProbBase
import VerifModel.Gen.Prob
/-
  Model of the probabilistic part of verif (C08): what the code DOES.

    metric.get_p / get_q                          event probability and verifying observation
    data.Data._get_score (Threshold / Quantile)   stored CDF / quantile column, else from the ensemble
    np.quantile(…, method="normal_unbiased")      Hyndman & Fan type 9 on exact rationals
    metric.Bs … PitHistShape                      the score kernels

  The closed-form kernels (Bs, BsUnc, Bss, Ign0, Spherical, QuantileScore) are NOT written here:
  they are machine-translated from /repo on every run (`Gen/Prob.lean`) and used from there.
  Everything is exact: the forecast probabilities the code derives from an ensemble are float32
  numbers, the model's are the rationals k/n (rounding is part of the trusted base).
-/
namespace VerifModel.Prob
open VerifModel

def rabs (x : Rat) : Rat := if x < 0 then -x else x

/-! ## (a) `get_scores`' common-validity filter and `get_p` -/

/-- does case `j` have a finite value in every requested column? (`np.isnan(curr) == 0 & np.isinf(curr) == 0`) -/
def rowOk (cols : List Vec) (j : Nat) : Bool := cols.all fun c => (c.getD j .nan).isFinite

/-- `Data.get_scores` for a non-`All` axis on one slice: keep the cases that are valid in every
requested field; if none is left every field is the one-element array `[nan]`. -/
def getScores (cols : List Vec) : List Vec :=
  match cols with
  | [] => []
  | c0 :: _ =>
    let keep := (List.range c0.length).filter (rowOk cols)
    if keep.isEmpty then cols.map fun _ => [XR.nan]
    else cols.map fun c => keep.map fun j => c.getD j .nan

/-- one entry of `obsP = np.ma.filled(interval.within(obs).astype(float), fill_value=np.nan)`:
the event indicator as a number, NaN for a missing observation (only the `[nan]` placeholder of a
slice without valid cases can be missing here). -/
def obsP (I : Interval) (o : XR) : XR :=
  match I.within o with
  | none => .nan
  | some b => boolToXR b

/-- one entry of `p = p1 - p0`: `c0`, `c1` are the cumulative probabilities at the lower / upper
end; `p0 = 0` when the lower end is -inf, `p1 = 1` when the upper end is +inf. -/
def eventProb (I : Interval) (c0 c1 : XR) : XR :=
  (if XR.eqb I.upper .pinf then .fin 1 else c1) - (if XR.eqb I.lower .ninf then .fin 0 else c0)

/-! ## (b) threshold field: stored CDF column, else from the ensemble -/

/-- `np.isclose(a, b)` with the default tolerances: |a − b| ≤ 1e-8 + 1e-5·|b| (the two constants
as the exact doubles). -/
def atol : Rat := 3022314549036573 / 302231454903657293676544
def rtol : Rat := 5902958103587057 / 590295810358705651712
def isclose (a b : XR) : Bool :=
  match a, b with
  | .fin x, .fin y => decide (rabs (x - y) ≤ atol + rtol * rabs y)
  | .pinf, .pinf => true
  | .ninf, .ninf => true
  | _, _ => false

/-- `np.nanmean((ens <= t) with missing members kept missing)`: the fraction of non-missing
members at or below `t`; NaN when every member is missing. -/
def ensProb (t : XR) (ens : Vec) : XR :=
  let valid := List.filter (fun x => !x.isNan) ens
  if valid.isEmpty then .nan
  else .fin (((List.filter (fun x => XR.le x t) valid).length : Rat) / (valid.length : Rat))

/-- one in-memory input, reduced to what the probabilistic metrics read.  All columns have one
entry per case; `ens` has one member list per case. -/
structure PInput where
  obs : Vec
  fcst : Option Vec := none
  pit : Option Vec := none
  thr : List (XR × Vec) := []
  qnt : List (XR × Vec) := []
  ens : Option (List Vec) := none
  deriving Inhabited

/-- `_get_score(Threshold(t))`: the stored column whose threshold `isclose` to `t`, else computed
from the ensemble.  `none` = `verif.util.error` (no such column and no ensemble) or the
`assert(len(I) == 1)` failure when two stored thresholds are both close. -/
def thresholdColumn (D : PInput) (t : XR) : Option Vec :=
  match D.thr.filter (fun c => isclose c.1 t) with
  | [] => D.ens.map fun e => e.map (ensProb t)
  | [c] => some c.2
  | _ => none

/-! ## (c) quantile field: stored column, else `np.quantile(ens, q, method="normal_unbiased")` -/

/-- `_compute_virtual_index(n, q, alpha = 3/8, beta = 3/8)`: 0-based position in the sorted sample -/
def virtualIndex (n : Nat) (q : Rat) : Rat := (n : Rat) * q + (3 / 8 + q * (1 - 3 / 8 - 3 / 8)) - 1

/-- ⌊r⌋ as a natural number (0 for negative r) -/
def floorNat (r : Rat) : Nat := (r.num / (r.den : Int)).toNat

/-- NumPy's `_quantile` on the ascending sample `s` at virtual index `h`:
`h ≥ n-1` → last value, `h < 0` → first value (`_get_indexes`), otherwise linear interpolation
between the neighbours `s[⌊h⌋]`, `s[⌊h⌋+1]` with weight `h − ⌊h⌋` (`_lerp`). -/
def lerpAt (s : List Rat) (h : Rat) : Option Rat :=
  if s.length = 0 then none
  else if (s.length : Rat) - 1 ≤ h then s.getLast?
  else if h < 0 then s.head?
  else
    match s[floorNat h]?, s[floorNat h + 1]? with
    | some a, some b => some (a + (b - a) * (h - (floorNat h : Rat)))
    | _, _ => none

def insertQ (x : Rat) : List Rat → List Rat
  | [] => [x]
  | y :: ys => if x ≤ y then x :: y :: ys else y :: insertQ x ys
/-- ascending sort -/
def sortQ (xs : List Rat) : List Rat := xs.foldr insertQ []

def ratsOf? (v : Vec) : Option (List Rat) :=
  v.mapM fun x => match x with | .fin q => some q | _ => none

/-- the sample quantile of the members of one case.  `none` = NumPy raises (no members);
a missing member makes the quantile missing (np.quantile is not NaN-aware); ±inf members are
outside the model (verif turns them into missing values when reading). -/
def ensQuantile (q : Rat) (ens : Vec) : Option XR :=
  if ens.isEmpty then none
  else if ens.any XR.isNan then some .nan
  else match ratsOf? ens with
    | some rs => (lerpAt (sortQ rs) (virtualIndex rs.length q)).map XR.fin
    | none => some .nan

/-- `_get_score(Quantile(q))` -/
def quantileColumn (D : PInput) (q : XR) : Option Vec :=
  match D.qnt.filter (fun c => isclose c.1 q) with
  | [] =>
    match D.ens, q with
    | some e, .fin qq => e.mapM (ensQuantile qq)
    | _, _ => none
  | [c] => some c.2
  | _ => none

/-! ## get_p / get_q on a dataset -/

/-- `metric.get_p`: (obsP, p) on the commonly valid cases.  `none` = error exit (a threshold that is
neither stored nor derivable) or the unbounded interval (the code then reads an unassigned name). -/
def getP (D : PInput) (I : Interval) : Option (Vec × Vec) :=
  let needLo := !(XR.eqb I.lower .ninf)
  let needUp := !(XR.eqb I.upper .pinf)
  match needLo, needUp with
  | true, true => do
      let c0 ← thresholdColumn D I.lower
      let c1 ← thresholdColumn D I.upper
      match getScores [D.obs, c0, c1] with
      | [o, a, b] => some (List.map (obsP I) o, List.zipWith (eventProb I) a b)
      | _ => none
  | true, false => do
      let c0 ← thresholdColumn D I.lower
      match getScores [D.obs, c0] with
      | [o, a] => some (List.map (obsP I) o, List.map (fun x => eventProb I x .nan) a)
      | _ => none
  | false, true => do
      let c1 ← thresholdColumn D I.upper
      match getScores [D.obs, c1] with
      | [o, b] => some (List.map (obsP I) o, List.map (fun x => eventProb I .nan x) b)
      | _ => none
  | false, false => none

/-! ## (d) score kernels on vectors (obs, p) -/

/-- `self._edges`: `np.linspace(0, 1, 11)` with the last edge replaced by 1.001.  Every interior
double of the linspace is the smallest double ≥ k/10 (checked on every run by the `edges` op), so
for a double `p` the tests `p >= edges[k]`, `p < edges[k]` agree with the exact k/10; the last edge
is the exact value of the double 1.001. -/
def topEdge : Rat := 2254051613498933 / 2251799813685248
def edgeQ (i : Nat) : Rat := if i = 10 then topEdge else (i : Rat) / 10
def numBins : Nat := 10

/-- `(fcst >= self._edges[i]) & (fcst < self._edges[i + 1])` -/
def inBin (i : Nat) (p : XR) : Bool := XR.ge p (.fin (edgeQ i)) && XR.lt p (.fin (edgeQ (i + 1)))

/-- the bin whose assignment `bs[I] = …` reaches this entry (bins are disjoint) -/
def binIdx (p : XR) : Option Nat := (List.range numBins).find? fun i => inBin i p

/-- `obs[I]` for bin `i` -/
def obsInBin (i : Nat) (o p : Vec) : Vec :=
  List.map (·.1) (List.filter (fun c => inBin i c.2) (List.zip o p))

/-- `obs_mean_I = np.mean(obs[I])` -/
def binObsMean (i : Nat) (o p : Vec) : XR := Vec.mean (obsInBin i o p)

/-- the array `bs` after BsRel's loop: `(fcst[j] - obs_mean_I)²` in the entries of non-empty bins,
NaN in entries no bin covers -/
def relTerms (o p : Vec) : Vec :=
  List.map (fun pj => match binIdx pj with
    | none => XR.nan
    | some i => XR.npow (pj - binObsMean i o p) 2) p

/-- the array `bs` after BsRes's loop: `(obs_mean_I - obs_mean)²` -/
def resTerms (o p : Vec) : Vec :=
  List.map (fun pj => match binIdx pj with
    | none => XR.nan
    | some i => XR.npow (binObsMean i o p - Vec.mean o) 2) p

def bs (T : Tr) (o p : Vec) : XR := Gen.Prob.m_bs T o p
def bsunc (T : Tr) (o p : Vec) : XR := Gen.Prob.m_bsunc T o p
def bss (T : Tr) (o p : Vec) : XR := Gen.Prob.m_bss T o p
def bsrel (o p : Vec) : XR := Vec.nanmean (relTerms o p)
def bsres (o p : Vec) : XR := Vec.nanmean (resTerms o p)
/-- `np.nanmean((obs_mean - obs)**2)` as BssRel / BssRes recompute it -/
def uncOf (o : Vec) : XR := Vec.nanmean (Vec.npow (Vec.sSub (Vec.mean o) o) 2)
def bssrel (o p : Vec) : XR := if XR.eqb (uncOf o) (.fin 0) then .nan else bsrel o p / uncOf o
def bssres (o p : Vec) : XR := if XR.eqb (uncOf o) (.fin 0) then .nan else bsres o p / uncOf o

def ign0 (T : Tr) (o p : Vec) : XR := Vec.mean (List.zipWith (Gen.Prob.e_ign0 T) o p)
def spherical (T : Tr) (o p : Vec) : XR := Vec.mean (List.zipWith (Gen.Prob.e_spherical T) o p)

/-- MarginalRatio: `np.mean(obs) / np.mean(p)`, NaN when `np.mean(p) == 0` -/
def marginalRatio (o p : Vec) : XR :=
  if XR.eqb (Vec.mean p) (.fin 0) then .nan else Vec.mean o / Vec.mean p

/-- QuantileScore: `np.mean(err * (level - (err < 0)))`, `err = obs - q` -/
def quantileScore (T : Tr) (level : XR) (obs q : Vec) : XR :=
  Vec.mean (List.zipWith (Gen.Prob.e_quantilescore T level) obs q)

/-- QuantileCoverage: `I = np.where(no NaN in obs, q…)`, then the mean of the indicator
`q0 (<|<=) obs` and `q1 (>|>=) obs` over `I`; a side at ±inf is not tested -/
def coverage (I : Interval) (useLo useUp : Bool) (obs q0 q1 : Vec) : XR :=
  let rows := List.filter (fun (c : XR × XR × XR) => !(c.1.isNan || c.2.1.isNan || c.2.2.isNan))
    (List.zip obs (List.zip q0 q1))
  Vec.mean (List.map (fun (c : XR × XR × XR) =>
    let c0 := if useLo then (if I.lowerEq then XR.le c.2.1 c.1 else XR.lt c.2.1 c.1) else true
    let c1 := if useUp then (if I.upperEq then XR.ge c.2.2 c.1 else XR.gt c.2.2 c.1) else true
    boolToXR (c0 && c1)) rows)

/-- Spread: `np.mean(q1 - q0)` -/
def spread (q0 q1 : Vec) : XR := Vec.mean (Vec.sub q1 q0)

/-- SpreadSkillRatio: `spread / num_std / sqrt(mean(|obs - fcst|²))`;
`numStd = 0.5·(Φ⁻¹(upper) − Φ⁻¹(lower))` is a parameter (SciPy's `norm.ppf`) -/
def spreadSkill (T : Tr) (numStd : XR) (q0 q1 obs fcst : Vec) : XR :=
  spread q0 q1 / numStd / T.sqrt (Vec.mean (Vec.npow (Vec.abs (Vec.sub obs fcst)) 2))

/-! ### PIT histogram statistics -/

/-- `np.histogram(values, edges)[0]`: bin k counts `edges[k] ≤ v < edges[k+1]`, the last bin also
its right edge; NaN and values outside are not counted -/
def histogram (edges : List Rat) (v : Vec) : List Nat :=
  let nb := edges.length - 1
  (List.range nb).map fun k =>
    let lo := XR.fin (edges.getD k 0)
    let hi := XR.fin (edges.getD (k + 1) 0)
    (List.filter (fun x => XR.ge x lo && (XR.lt x hi || (k + 1 == nb && XR.eqb x hi))) v).length

/-- `np.linspace(0, 1, 11)` (see the remark at `topEdge`) -/
def pitEdges : List Rat := List.map (fun (i : Nat) => (i : Rat) / 10) (List.range 11)

/-- `n = n * 1.0 / sum(n)` -/
def pitNormalise (n : List Nat) : Vec :=
  let s := XR.ofNat (n.foldl (· + ·) 0)
  n.map fun c => XR.ofNat c / s

/-- `n = np.histogram(pit, bins)[0]; n = n * 1.0 / sum(n)` -/
def pitFreq (pit : Vec) : Vec := pitNormalise (histogram pitEdges pit)

/-- `np.diff` -/
def diff (v : Vec) : Vec := List.zipWith (fun a b => b - a) v v.tail
/-- midpoints of consecutive entries: `(x[1:] + x[:-1]) / 2` -/
def mids (v : Vec) : Vec := List.zipWith (fun a b => (b + a) / XR.fin 2) v v.tail

/-- bin centres `(bins[1:] + bins[:-1]) / 2` -/
def pitCenters : Vec := mids (List.map XR.fin pitEdges)

/-- PitHistDev.deviation with numBins = 10 on the normalised histogram -/
def deviationOf (T : Tr) (n : Vec) : XR :=
  T.sqrt (XR.fin (1 / 10) * Vec.sum (Vec.npow (Vec.subS n (.fin (1 / 10))) 2))
def pitDeviation (T : Tr) (pit : Vec) : XR :=
  if pit.isEmpty then .nan else deviationOf T (pitFreq pit)
/-- PitHistDev.expected_deviation with numBins = 10 -/
def pitExpectedDeviation (T : Tr) (pit : Vec) : XR :=
  if pit.isEmpty then .nan
  else T.sqrt (XR.fin (1 - 1 / 10) / (Vec.len pit * XR.fin 10))
def pitHistDev (T : Tr) (pit : Vec) : XR := pitDeviation T pit / pitExpectedDeviation T pit

/-- PitHistSlope: `np.mean(np.diff(n) / np.diff(centers))` -/
def slopeOf (n : Vec) : XR := Vec.mean (Vec.div (diff n) (diff pitCenters))
def pitHistSlope (pit : Vec) : XR := slopeOf (pitFreq pit)

/-- PitHistShape: second difference quotient, `np.mean(np.diff(d) / np.diff(centers2))` -/
def shapeOf (n : Vec) : XR :=
  Vec.mean (Vec.div (diff (Vec.div (diff n) (diff pitCenters))) (diff (mids pitCenters)))
def pitHistShape (pit : Vec) : XR := shapeOf (pitFreq pit)

/-! ## `compute_single` of each probabilistic metric on a dataset -/

/-- `none` = the call ends in an error exit / exception -/
def computeSingle (T : Tr) (name : String) (D : PInput) (I : Interval) (numStd : XR) : Option XR :=
  let thresholdFamily (k : Vec → Vec → XR) : Option XR := (getP D I).map fun op => k op.1 op.2
  let lowInf := I.lower.isInf
  let upInf := I.upper.isInf
  match name with
  | "bs" => thresholdFamily (bs T)
  | "bsrel" => thresholdFamily bsrel
  | "bsres" => thresholdFamily bsres
  | "bsunc" => thresholdFamily (bsunc T)
  | "bss" => thresholdFamily (bss T)
  | "bssrel" => thresholdFamily bssrel
  | "bssres" => thresholdFamily bssres
  | "ign0" => thresholdFamily (ign0 T)
  | "spherical" => thresholdFamily (spherical T)
  | "marginalratio" => thresholdFamily marginalRatio
  | "quantilescore" => do
      let q ← quantileColumn D I.lower
      match getScores [D.obs, q] with
      | [o, q] => some (quantileScore T I.lower o q)
      | _ => none
  | "quantilecoverage" =>
      if lowInf then do
        let q1 ← quantileColumn D I.upper
        match getScores [D.obs, q1] with
        | [o, q1] => some (coverage I false true o q1 q1)
        | _ => none
      else if upInf then do
        let q0 ← quantileColumn D I.lower
        match getScores [D.obs, q0] with
        | [o, q0] => some (coverage I true false o q0 q0)
        | _ => none
      else do
        let q0 ← quantileColumn D I.lower
        let q1 ← quantileColumn D I.upper
        match getScores [D.obs, q0, q1] with
        | [o, q0, q1] => some (coverage I true true o q0 q1)
        | _ => none
  | "spread" => do
      let q0 ← quantileColumn D I.lower
      let q1 ← quantileColumn D I.upper
      match getScores [q0, q1] with
      | [q0, q1] => some (spread q0 q1)
      | _ => none
  | "spreadskillratio" => do
      let q0 ← quantileColumn D I.lower
      let q1 ← quantileColumn D I.upper
      let f ← D.fcst
      match getScores [q0, q1, f, D.obs] with
      | [q0, q1, f, o] => some (spreadSkill T numStd q0 q1 f o)
      | _ => none
  | "quantile" =>
      if !lowInf && !upInf then do
        let q0 ← quantileColumn D I.lower
        let q1 ← quantileColumn D I.upper
        match getScores [q0, q1] with
        | [q0, q1] => some (Vec.mean (Vec.sub q1 q0))
        | _ => none
      else do
        let q ← quantileColumn D (if lowInf then I.upper else I.lower)
        match getScores [q] with
        | [q] => some (Vec.mean q)
        | _ => none
  | "threshold" =>
      if !lowInf && !upInf then do
        let q0 ← thresholdColumn D I.lower
        let q1 ← thresholdColumn D I.upper
        match getScores [q0, q1] with
        | [q0, q1] => some (Vec.mean (Vec.sub q1 q0))
        | _ => none
      else do
        let q ← thresholdColumn D (if lowInf then I.upper else I.lower)
        match getScores [q] with
        | [q] => some (Vec.mean q)
        | _ => none
  | "pit" => do
      match getScores [← D.pit] with
      | [v] => some (Vec.mean v)
      | _ => none
  | "pithistdev" => do
      match getScores [← D.pit] with
      | [v] => some (pitHistDev T v)
      | _ => none
  | "pithistslope" => do
      match getScores [← D.pit] with
      | [v] => some (pitHistSlope v)
      | _ => none
  | "pithistshape" => do
      match getScores [← D.pit] with
      | [v] => some (pitHistShape v)
      | _ => none
  | _ => none

def metricNames : List String :=
  ["bs", "bsrel", "bsres", "bsunc", "bss", "bssrel", "bssres", "ign0", "spherical", "marginalratio",
   "quantilescore", "quantilecoverage", "spread", "spreadskillratio", "quantile", "threshold",
   "pit", "pithistdev", "pithistslope", "pithistshape"]

end VerifModel.Prob
