import VerifModel.Base.XR
/-
  Model of `verif.input.Text.__init__` (input.py:286-598) at the level of TOKENS.

  Input: the list of lines of the file; every line is already split into its
  whitespace-separated words (Python `str.split()`), a line whose first
  character is `#` is a comment line (its words are those of `rowstr[1:]`).
  Every word carries
    * `name` : its text,
    * `val`  : the class/value of CPython `float(text)`       (`Tok`)
    * `sfx`  : the class/value of CPython `float(text[1:])`   (`Tok`, only consulted for
               header words that start with p / q / e)
  The harness's canonicaliser produces `val`/`sfx`; CPython's `float()` is therefore
  modelled at the token-class level (trusted base), everything after `float()` is
  modelled here.

  Python objects that are modelled up to an isomorphism:
    * dictionaries = association lists, newest binding first (`dictGet` finds the
      newest binding = "last row wins");
    * `set` of times / lead times -> `sorted`  = `sortDedup`;
    * `set` of `Location` (hash on (lat,lon,elev), eq on id + almost-equal lat/lon/elev)
      = duplicate-free list in first-insertion order with exact equality (two distinct
      floats with the same hash do not occur); the iteration order of a Python set is
      not specified, the driver and the harness sort locations canonically;
    * `set` of thresholds / quantiles -> `list` (hash order) is canonicalised as
      ascending order; members are `sorted` in the code;
    * NaN keys: the model compares keys structurally (nan = nan).  This is what CPython
      does for the singleton `np.nan` that `_clean` returns for EVERY missing-value token
      (-999, NA, …, and — since the repair of finding text-nan-id-values-lost — a literal nan
      token too): identity shortcut of `dict`/`set`/`tuple` comparison; `Location.__eq__`
      matches NaN with NaN in id, lat, lon and elev.
    * a missing-value token in a lat / lon / altitude / elev / location / id / date / hour /
      unixtime column is a missing coordinate (NaN), as the same entry of a NetCDF file is;
      the defaults (0; ids 0,1,2,…) are for ABSENT columns only.
-/
namespace VerifModel.TextInput

/-- what CPython `float(token)` does with a token -/
inductive Tok where
  | num (q : Rat)
  | nan
  | inf
  | ninf
  | bad (s : String)      -- `ValueError`
  deriving DecidableEq, Repr, Inhabited

/-- `float(s)` when it succeeds -/
def Tok.toXR? : Tok → Option XR
  | .num q => some (.fin q)
  | .nan => some .nan
  | .inf => some .pinf
  | .ninf => some .ninf
  | .bad _ => none

def Tok.isNumber : Tok → Bool      -- `verif.util.is_number`
  | .bad _ => false
  | _ => true

/-- the Python literal `1e30` of `Text._clean` / `verif.util.clean`: the double
1000000000000000019884624838656 (the same constant as in `Model/Clean.lean`) -/
def big : Rat := 1000000000000000019884624838656

/-- `Text._clean` (input.py:560-568, since f945b9c): parse; -999 ↦ nan, a value above 1e30 ↦ nan
(`fvalue == -999 or fvalue > 1e30`, so `inf` / `infinity` is missing too and `-inf` stays a value),
unparseable ↦ nan.  The same missing-value encodings as `verif.util.clean` for NetCDF variables. -/
def cleanTok : Tok → XR
  | .num q => if q = -999 ∨ big < q then .nan else .fin q
  | .nan => .nan
  | .inf => .nan
  | .ninf => .ninf
  | .bad _ => .nan

structure Word where
  name : List Char
  val : Tok
  sfx : Tok
  deriving DecidableEq, Repr, Inhabited

inductive Line where
  | comment (ws : List Word)     -- `rowstr[0] == '#'`, words of `rowstr[1:].split()`
  | row (ws : List Word)         -- `rowstr.split()`
  deriving Repr, Inhabited

/-! ### Lines: `rowstr[0] == "#"`, `rowstr[1:].split()`, `rowstr.split()` (ASCII text) -/

/-- the ASCII characters Python's `str.split()` treats as whitespace -/
def isWs (c : Char) : Bool :=
  c == ' ' || (9 ≤ c.toNat && c.toNat ≤ 13) || (28 ≤ c.toNat && c.toNat ≤ 31)

def splitAux : List Char → List Char → List (List Char)
  | [], cur => if cur.isEmpty then [] else [cur.reverse]
  | c :: cs, cur =>
    if isWs c then (if cur.isEmpty then splitAux cs [] else cur.reverse :: splitAux cs [])
    else splitAux cs (c :: cur)

/-- `str.split()` : the maximal runs of non-whitespace characters -/
def splitWs (s : List Char) : List (List Char) := splitAux s []

/-- how the reader cuts one line of text: (is a comment line, its words) -/
def cutLine (s : List Char) : Bool × List (List Char) :=
  match s with
  | '#' :: rest => (true, splitWs rest)
  | _ => (false, splitWs s)

/-! ### Calendar: `verif.util.date_to_unixtime` = `calendar.timegm(datetime(y,m,d).timetuple())`,
    following CPython's `_ymd2ord` -/
namespace Cal

def isLeap (y : Nat) : Bool := y % 4 == 0 && (y % 100 != 0 || y % 400 == 0)

def daysInMonth (y m : Nat) : Nat :=
  if m == 2 then (if isLeap y then 29 else 28)
  else if m == 4 || m == 6 || m == 9 || m == 11 then 30 else 31

def daysBeforeYear (y : Nat) : Nat :=
  let y1 := y - 1
  y1 * 365 + y1 / 4 - y1 / 100 + y1 / 400

def daysBeforeMonth (y : Nat) : Nat → Nat
  | 0 => 0
  | 1 => 0
  | m + 1 => daysBeforeMonth y m + daysInMonth y m

def ymd2ord (y m d : Nat) : Nat := daysBeforeYear y + daysBeforeMonth y m + d

def validYMD (y m d : Nat) : Bool :=
  1 ≤ y && y ≤ 9999 && 1 ≤ m && m ≤ 12 && 1 ≤ d && d ≤ daysInMonth y m

/-- ordinal of 1970-01-01 -/
def epochOrd : Nat := 719163

/-- YYYYMMDD -> seconds since 1970-01-01 00 UTC; `none` = `datetime` raises ValueError -/
def unixOfDate (date : Nat) : Option Int :=
  let y := date / 10000
  let m := date / 100 % 100
  let d := date % 100
  if validYMD y m d then some ((((ymd2ord y m d : Nat) : Int) - (epochOrd : Int)) * 86400)
  else none

end Cal

/-! ### Header -/

def sDate := "date".toList
def sHour := "hour".toList
def sUnixtime := "unixtime".toList
def sLeadtime := "leadtime".toList
def sOffset := "offset".toList
def sLocation := "location".toList
def sId := "id".toList
def sLat := "lat".toList
def sLon := "lon".toList
def sAltitude := "altitude".toList
def sElev := "elev".toList
def sObs := "obs".toList
def sFcst := "fcst".toList
def sPit := "pit".toList

/-- `Input.get_regular_names` -/
def regularNames : List (List Char) :=
  [sObs, sFcst, sId, sLocation, sLat, sLon, sElev, sAltitude, sHour, sDate, sUnixtime, sLeadtime,
   sOffset]

def isRegular (w : Word) : Bool := regularNames.contains w.name

def startsWith (c : Char) (w : Word) : Bool := w.name.head? == some c

/-- `_get_quantile_fields` -/
def isQ (w : Word) : Bool := startsWith 'q' w && w.sfx.isNumber
/-- `_get_threshold_fields` -/
def isP (w : Word) : Bool := startsWith 'p' w && w.name != sPit && w.sfx.isNumber
/-- `_get_ens_fields` -/
def isE (w : Word) : Bool := startsWith 'e' w && w.name != sElev && w.sfx.isNumber
/-- `_get_other_fields` -/
def isOther (w : Word) : Bool :=
  !isRegular w &&
    !(decide (w.name.length > 1) && (startsWith 'q' w || startsWith 'p' w || startsWith 'e' w)
      && w.sfx.isNumber)

/-- the header check: at least one of obs, fcst, p…, q… -/
def isDataWord (w : Word) : Bool :=
  w.name == sObs || w.name == sFcst || startsWith 'p' w || startsWith 'q' w

/-- key under which a header word is stored in `indices` (offset is an alias of leadtime) -/
def normName (n : List Char) : List Char := if n = sOffset then sLeadtime else n

/-- `row[indices[key]]` : the LAST column whose (normalised) header name is `key` -/
def getCol (hdr row : List Word) (key : List Char) : Option Tok :=
  (((hdr.zip row).filter (fun p => normName p.1.name == key)).getLast?).map (·.2.val)

/-! ### One data row -/

inductive FKey where
  | obs | fcst | pit
  | qtl (v : XR) | ens (v : XR) | thr (v : XR)
  | other (name : List Char)
  deriving DecidableEq, Repr, Inhabited

inductive Err where
  | exit        -- verif.util.error -> SystemExit
  | exc         -- unhandled Python exception (ValueError, IndexError, OverflowError)
  deriving DecidableEq, Repr

/-- a data row after column lookup and cleaning, before the location lookup -/
structure PRow where
  time : XR
  lead : XR
  id : XR
  lat : XR        -- currLat (nan when the column is absent)
  lon : XR
  elev : XR
  cells : List (FKey × XR)
  deriving Repr, Inhabited

/-- `int(x)` followed by `date_to_unixtime`; `none` = an exception is raised (`int` truncates
towards zero; a value below 1 gives year 0 or less, which `datetime` rejects, so only the floor of a
positive value is ever used) -/
def dateToUnix : XR → Option Int
  | .fin q => if q.num / (q.den : Int) ≤ 0 then none else Cal.unixOfDate (q.num / (q.den : Int)).toNat
  | _ => none

def sfxVal (w : Word) : XR := (w.sfx.toXR?).getD .nan

def fieldCells (hdr row : List Word) (p : Word → Bool) (mk : Word → FKey) : List (FKey × XR) :=
  (hdr.filter p).filterMap fun w => (getCol hdr row w.name).map fun t => (mk w, cleanTok t)

/-- `unixtime` of a row: date (+ hour) column, else unixtime column, else the default 0;
a missing-value token in the date (or hour) column is a missing time, NaN, exactly as a missing value
in the unixtime column is; `none` = `int()` / `datetime()` raised (a date that is a number but not a
calendar day) -/
def rowTime (col : List Char → Option Tok) : Option XR :=
  match col sDate with
  | some tk =>
    let add := match col sHour with | some h => cleanTok h * XR.fin 3600 | none => XR.fin 0
    if (cleanTok tk).isNan || add.isNan then some XR.nan else
    match dateToUnix (cleanTok tk) with
    | none => none
    | some ut =>
      match col sHour with
      | some _ => some (XR.fin ut + add)
      | none => some (XR.fin ut)
  | none =>
    match col sUnixtime with
    | some tk => some (cleanTok tk)
    | none => some (XR.fin 0)

def rowLead (col : List Char → Option Tok) : XR :=
  match col sLeadtime with | some tk => cleanTok tk | none => XR.fin 0

def rowId (col : List Char → Option Tok) : XR :=
  match col sLocation with
  | some tk => cleanTok tk
  | none => match col sId with | some tk => cleanTok tk | none => XR.nan

/-- lat / lon of a row: the cleaned token of the column (a missing-value token is a missing
coordinate: NaN); the default 0 only when the file has no such column -/
def rowMeta (col : List Char → Option Tok) (key : List Char) : XR :=
  match col key with | some tk => cleanTok tk | none => XR.fin 0

def rowElev (col : List Char → Option Tok) : XR :=
  match col sAltitude with
  | some tk => cleanTok tk
  | none => match col sElev with | some tk => cleanTok tk | none => XR.fin 0

def baseCells (col : List Char → Option Tok) : List (FKey × XR) :=
  [(FKey.obs, sObs), (FKey.fcst, sFcst), (FKey.pit, sPit)].filterMap fun (k, n) =>
    (col n).map fun t => (k, cleanTok t)

/-- the bindings one row adds to the dictionaries, in the order of the code -/
def rowCells (hdr row : List Word) : List (FKey × XR) :=
  baseCells (getCol hdr row)
    ++ fieldCells hdr row isQ (fun w => .qtl (sfxVal w))
    ++ fieldCells hdr row isE (fun w => .ens (sfxVal w))
    ++ fieldCells hdr row isP (fun w => .thr (sfxVal w))
    ++ fieldCells hdr row isOther (fun w => .other w.name)

def parseRow (hdr row : List Word) : Except Err PRow :=
  if row.length ≠ hdr.length then .error .exit else
  let col := getCol hdr row
  match rowTime col with
  | none => .error .exc
  | some time =>
    .ok { time := time, lead := rowLead col, id := rowId col, lat := rowMeta col sLat,
          lon := rowMeta col sLon, elev := rowElev col, cells := rowCells hdr row }

/-! ### Locations -/

structure Loc where
  id : XR
  lat : XR
  lon : XR
  elev : XR
  deriving DecidableEq, Repr, Inhabited

/-- the `locationInfo` lookup / creation of a `Location` for one row -/
def resolve (locs : List Loc) (r : PRow) : Loc :=
  match (if r.id.isNan then none else locs.find? (fun l => l.id == r.id)) with
  | some l => l
  | none => ⟨r.id, r.lat, r.lon, r.elev⟩

def addLoc (locs : List Loc) (l : Loc) : List Loc := if l ∈ locs then locs else locs ++ [l]

structure Key where
  f : FKey
  t : XR
  l : XR
  loc : Loc
  deriving DecidableEq, Repr

abbrev Dict := List (Key × XR)

def dictGet (d : Dict) (k : Key) : Option XR := (d.find? (fun p => p.1 == k)).map (·.2)

/-- state of the row loop -/
structure St where
  times : List XR := []     -- insertion order, with repeats (a Python set; sorted at the end)
  leads : List XR := []
  locs : List Loc := []
  dict : Dict := []
  deriving Repr

def St.step (s : St) (r : PRow) : St :=
  let loc := resolve s.locs r
  { times := r.time :: s.times
    leads := r.lead :: s.leads
    locs := addLoc s.locs loc
    -- later cells of the same row override earlier ones, later rows override earlier rows
    dict := (r.cells.map fun c => ((⟨c.1, r.time, r.lead, loc⟩ : Key), c.2)).reverse ++ s.dict }

/-! ### Sorted sets -/

def insertSorted (x : XR) : List XR → List XR
  | [] => [x]
  | y :: ys => if x = y then y :: ys else if XR.lt x y then x :: y :: ys else y :: insertSorted x ys

def sortDedup (xs : List XR) : List XR := xs.foldr insertSorted []

/-- first occurrences, in order -/
def dedupFirst {α} [DecidableEq α] : List α → List α
  | [] => []
  | x :: xs => x :: (dedupFirst xs).filter (fun y => y ≠ x)

/-! ### Comments / metadata -/

structure Meta where
  name : Option (List (List Char)) := none      -- words of the name (joined with one blank)
  units : Option (List (List Char)) := none
  x0 : Option XR := none
  x1 : Option XR := none
  deriving DecidableEq, Repr

def sVariable := "variable:".toList
def sUnits := "units:".toList
def sX0 := "x0:".toList
def sX1 := "x1:".toList

/-- one comment line; a line consisting of `#` only is an empty comment and is skipped; `none` = the reader
stops with the error message (`# x0:` / `# x1:` without a value or with a value `float` does not read:
"Could not parse the value in line …").  (Before the repairs fix_barehash / fix_x0 these three cases were
unhandled IndexError / ValueError.) -/
def Meta.step (m : Meta) (ws : List Word) : Option Meta :=
  match ws with
  | [] => some m
  | w :: rest =>
    if w.name = sVariable then some { m with name := some (rest.map (·.name)) }
    else if w.name = sUnits then some { m with units := some (rest.map (·.name)) }
    else if w.name = sX0 then
      match rest with
      | v :: _ => (v.val.toXR?).map fun x => { m with x0 := some x }
      | [] => none
    else if w.name = sX1 then
      match rest with
      | v :: _ => (v.val.toXR?).map fun x => { m with x1 := some x }
      | [] => none
    else some m

def metaOf : Meta → List (List Word) → Option Meta
  | m, [] => some m
  | m, c :: cs => match m.step c with | none => none | some m' => metaOf m' cs

/-! ### The reader -/

structure Parsed where
  times : List XR            -- ascending, unique
  leads : List XR
  locs : List Loc            -- first-insertion order, ids as read (nan = to be assigned)
  dict : Dict
  others : List (List Char)  -- names of the other fields, header order
  hasId : Bool               -- the header has a location or id column
  var : Meta
  deriving Repr

def comments : List Line → List (List Word)
  | [] => []
  | .comment ws :: ls => ws :: comments ls
  | .row _ :: ls => comments ls

def rows : List Line → List (List Word)
  | [] => []
  | .comment _ :: ls => rows ls
  | .row ws :: ls => ws :: rows ls

def parseRows (hdr : List Word) : List (List Word) → Except Err (List PRow)
  | [] => .ok []
  | r :: rs =>
    match parseRow hdr r with
    | .error e => .error e
    | .ok p => match parseRows hdr rs with
      | .error e => .error e
      | .ok ps => .ok (p :: ps)

def assemble (hdr : List Word) (ps : List PRow) (m : Meta) : Parsed :=
  let s := ps.foldl St.step {}
  { times := sortDedup s.times
    leads := sortDedup s.leads
    locs := s.locs
    dict := s.dict
    others := if ps.isEmpty then [] else dedupFirst ((hdr.filter isOther).map (·.name))
    hasId := hdr.any (fun w => w.name == sLocation || w.name == sId)
    var := m }

/-- Errors inside the data rows and inside comment lines are reported in file order by the
code; the model reports the error of the data rows first (both end the run; the harness does
not distinguish the order). -/
def parse (ls : List Line) : Except Err Parsed :=
  match rows ls with
  | [] => match metaOf {} (comments ls) with
          | none => .error .exit
          | some m => .ok (assemble [] [] m)
  | hdr :: rs =>
    if !(hdr.any isDataWord) then .error .exit else
    match parseRows hdr rs with
    | .error e => .error e
    | .ok ps =>
      match metaOf {} (comments ls) with
      | none => .error .exit
      | some m => .ok (assemble hdr ps m)

/-! ### Densification and derived attributes -/

def Parsed.get (P : Parsed) (f : FKey) (t l : XR) (loc : Loc) : XR :=
  (dictGet P.dict ⟨f, t, l, loc⟩).getD .nan

/-- the dense array of field `f`, row-major over times × leads × the given location order -/
def Parsed.arr (P : Parsed) (locs : List Loc) (f : FKey) : List XR :=
  P.times.flatMap fun t => P.leads.flatMap fun l => locs.map fun s => P.get f t l s

/-- 4-d arrays: innermost axis over the parameter values `vs` -/
def Parsed.arr4 (P : Parsed) (locs : List Loc) (mk : XR → FKey) (vs : List XR) : List XR :=
  P.times.flatMap fun t => P.leads.flatMap fun l => locs.flatMap fun s =>
    vs.map fun v => P.get (mk v) t l s

def Parsed.has (P : Parsed) (f : FKey) : Bool := P.dict.any (fun p => p.1.f == f)

def Parsed.thresholds (P : Parsed) : List XR :=
  sortDedup (P.dict.filterMap fun p => match p.1.f with | .thr v => some v | _ => none)
def Parsed.quantiles (P : Parsed) : List XR :=
  sortDedup (P.dict.filterMap fun p => match p.1.f with | .qtl v => some v | _ => none)
def Parsed.members (P : Parsed) : List XR :=
  sortDedup (P.dict.filterMap fun p => match p.1.f with | .ens v => some v | _ => none)

/-- ids after the numbering at the end of `Text.__init__`: a file WITHOUT a location / id column has
its locations numbered 0, 1, 2, … (in the order of `locs`); with an id column the ids are those of the
file — a missing id token stays NaN (as the same entry of a NetCDF file does), nothing is invented -/
def assignIds (hasId : Bool) (locs : List Loc) : List XR :=
  if hasId then locs.map (·.id)
  else (List.range locs.length).map (fun (i : Nat) => XR.fin (i : Rat))

end VerifModel.TextInput
