import VerifModel.Base.XR
import VerifModel.Base.Tr
import VerifModel.Model.Interval
import VerifModel.Gen.Cont
/-
  Model of metric.Contingency: `_compute_abcd` (counting with masked interval
  membership) and `compute_from_obs_fcst` (formula, then ±inf → NaN).
  The 25 formulas themselves are the generated definitions `Gen.Cont.*`.
-/
namespace VerifModel

structure Table where
  a : Nat   -- hits
  b : Nat   -- false alarms
  c : Nat   -- misses
  d : Nat   -- correct rejections
  deriving DecidableEq, Repr

namespace Table
def total (t : Table) : Nat := t.a + t.b + t.c + t.d
/-- exchange the roles of observation and forecast -/
def swap (t : Table) : Table := ⟨t.a, t.c, t.b, t.d⟩
/-- complement the event -/
def compl (t : Table) : Table := ⟨t.d, t.c, t.b, t.a⟩
end Table

/-- pairs in which neither value is missing (the only ones a masked `&` leaves unmasked) -/
def validPairs (obs fcst : Vec) : List (XR × XR) :=
  (obs.zip fcst).filter fun p => !p.1.isNan && !p.2.isNan

/-- `_compute_abcd` with observation interval `I` and forecast interval `J`.
`none`: no elements at all (a=b=c=d=NaN) or every pair masked (np.ma.sum = masked);
both end as NaN in the score. -/
def abcd (I J : Interval) (obs fcst : Vec) : Option Table :=
  if fcst.isEmpty then none
  else
    let vp := validPairs obs fcst
    if vp.isEmpty then none
    else some {
      a := vp.countP fun p => J.withinVal p.2 && I.withinVal p.1
      b := vp.countP fun p => J.withinVal p.2 && !I.withinVal p.1
      c := vp.countP fun p => !J.withinVal p.2 && I.withinVal p.1
      d := vp.countP fun p => !J.withinVal p.2 && !I.withinVal p.1 }

/-- `Contingency.compute_from_obs_fcst`: formula of the table, infinities → NaN -/
def contScore (T : Tr) (name : String) (I J : Interval) (obs fcst : Vec) : Option XR :=
  match abcd I J obs fcst with
  | none => (Gen.Cont.eval T name .nan .nan .nan .nan).map fun _ => .nan
  | some t =>
    (Gen.Cont.eval T name (.ofNat t.a) (.ofNat t.b) (.ofNat t.c) (.ofNat t.d)).map fun v =>
      if v.isInf then .nan else v

end VerifModel
