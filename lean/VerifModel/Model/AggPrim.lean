import VerifModel.Model.Aggregator
/-
  Primitives of the 1-d reading of verif/aggregator.py that the GENERATED file Gen/Agg.lean is written in
  (harness/translate_more.py `gen_agg`).  The class bodies themselves — which NumPy reduction a class calls, with
  which percent level, what is subtracted from what, where the absolute value sits, which end of the array `Change`
  reads — are regenerated from /repo on every run; what stays given here is the NumPy call itself:

    np.mean / median / min / max / std / var / sum (array)       `none` = NumPy raises (min / max of an empty array)
    np.percentile(array, p)                                      p in percent, `Agg.percentile` at level p / 100
    np.quantile(array, q)                                        `Agg.percentile` at level q
    np.nan<f>(array)                                             <f> of the entries that are not NaN
    np.isnan(array), <mask> == 0, np.sum(<mask>)                 masks are `List Bool`
    array[i], array.flatten()[i], np.take(array, i)              constant i, negative = from the end; `none` = IndexError
    a - b, a + b, a * b, a / b, np.abs(a) on results             a result is `Option XR`; an exception propagates

  A value computed from the array is an `Option XR` everywhere (`none` = the call has raised).
-/
namespace VerifModel.AggPrim
open VerifModel

abbrev R := Option XR

def mean (v : Vec) : R := some (Vec.mean v)
def median (v : Vec) : R := some (Agg.medianOf v)
def min (v : Vec) : R := if List.isEmpty v then none else some (Vec.minimum v)
def max (v : Vec) : R := if List.isEmpty v then none else some (Vec.maximum v)
def std (T : Tr) (v : Vec) : R := some (Vec.std T v)
def var (v : Vec) : R := some (Vec.var v)
def sum (v : Vec) : R := some (Vec.sum v)

/-- a number that does not depend on the array (a literal, `self.quantile * 100`) used as a level -/
def percentile (v : Vec) (p : XR) : R :=
  match p with
  | .fin r => Agg.percentile v (r / 100)
  | _ => none
def quantile (v : Vec) (q : XR) : R :=
  match q with
  | .fin r => Agg.percentile v r
  | _ => none

def dropNan (v : Vec) : Vec := List.filter (fun x => !x.isNan) v
def nanmean (v : Vec) : R := mean (dropNan v)
def nanmedian (v : Vec) : R := median (dropNan v)
def nanmin (v : Vec) : R := min (dropNan v)
def nanmax (v : Vec) : R := max (dropNan v)
def nanstd (T : Tr) (v : Vec) : R := std T (dropNan v)
def nanvar (v : Vec) : R := var (dropNan v)
def nansum (v : Vec) : R := sum (dropNan v)
def nanpercentile (v : Vec) (p : XR) : R := if (dropNan v).isEmpty then some .nan else percentile (dropNan v) p

def isnan (v : Vec) : List Bool := List.map XR.isNan v
def bnot (m : List Bool) : List Bool := List.map (fun b => !b) m
def count (m : List Bool) : R := some (XR.ofNat (List.filter id m).length)

/-- `array[i]` for a constant i (negative: from the end); `none` = IndexError -/
def idx (v : Vec) (i : Int) : R :=
  if 0 ≤ i then v[i.toNat]?
  else if (-i).toNat ≤ v.length then v[v.length - (-i).toNat]? else none

def lift2 (f : XR → XR → XR) (a b : R) : R :=
  match a, b with
  | some x, some y => some (f x y)
  | _, _ => none
def sub (a b : R) : R := lift2 (· - ·) a b
def add (a b : R) : R := lift2 (· + ·) a b
def mul (a b : R) : R := lift2 (· * ·) a b
def div (a b : R) : R := lift2 (· / ·) a b
def abs (a : R) : R := a.map XR.abs
def neg (a : R) : R := a.map XR.neg

end VerifModel.AggPrim

namespace VerifModel.Agg
/-- `cls.__name__.lower()` of the class an `Agg` value stands for -/
def className : Agg → String
  | .quantile _ => "quantile"
  | .mean => "mean"
  | .median => "median"
  | .min => "min"
  | .max => "max"
  | .std => "std"
  | .variance => "variance"
  | .iqr => "iqr"
  | .range => "range"
  | .count => "count"
  | .sum => "sum"
  | .meanabs => "meanabs"
  | .absmean => "absmean"
  | .change => "change"
  | .abschange => "abschange"
/-- the constructor argument (`self.quantile`); NaN for the classes without one -/
def level : Agg → XR
  | .quantile q => .fin q
  | _ => .nan
end VerifModel.Agg
