import VerifModel.Model.Data
/-
  Which inputs become value columns of a table (C12, "one column per input file in command-line order"):
    Data._get_num_inputs / num_inputs   data.py:738-739   len(self._inputs) - (self._clim is not None)
    Data.get_names / get_legend         data.py:396-415   names of self._inputs, the last one dropped with a climatology
    Standard._get_x_y                   output.py:836-849 F = data.num_inputs; for f in range(F): y[:, f] = score of input f
  `self._inputs` is `scored ++ [clim]` (data.py:100, `Data.init` in Model/Data.lean).
-/
namespace VerifModel.OutputColumns
open VerifModel

/-- `Data.num_inputs`: the climatology is stored as the last input and not counted -/
def numInputs (D : DataS) : Nat := D.inputs.length - (if D.cfg.clim.isSome then 1 else 0)

/-- the names of `self._inputs`: the names of the scored files followed by the climatology's (data.py:100) -/
def inputNames (cfg : Cfg) (names : List String) (climName : String) : List String :=
  names ++ (cfg.clim.map fun _ => climName).toList

/-- `Data.get_names`: `names[0:-1]` when a climatology was given -/
def getNames (D : DataS) (all : List String) : List String :=
  if D.cfg.clim.isSome then all.dropLast else all

/-- `Data.get_legend`: `-leg` if given, else the names -/
def getLegend (D : DataS) (all : List String) (leg : Option (List String)) : List String :=
  match leg with
  | some l => l
  | none => getNames D all

/-- the matrix `y` of `Standard._get_x_y` as rows: `y = zeros([nx, F]); for f in range(F): y[:, f] = score f`
(a score vector shorter than `nx` cannot be assigned by NumPy; the theorems assume the lengths) -/
def yMatrix (nx F : Nat) (score : Nat → List XR) : List (List XR) :=
  (List.range nx).map fun i => (List.range F).map fun f => (score f).getD i .nan

/-- `Data.get_axis_descriptions`, location-like branch (data.py:419-426): four columns read off `self.locations` -/
def locDescs (D : DataS) : List (String × List XR) :=
  [("id", D.locs.map (·.id)), ("lat", D.locs.map (·.lat)), ("lon", D.locs.map (·.lon)),
   ("elev", D.locs.map (·.elev))]

end VerifModel.OutputColumns
