import VerifModel.Model.Axis
/-
  TimeLabel — model of the time-like branch of `Data.get_axis_descriptions` (data.py:429-438):

      unixtimes = self.get_axis_values(axis)
      dates = [matplotlib.dates.num2date(verif.util.unixtime_to_datenum(unixtime)) for unixtime in unixtimes]
      times = [date.strftime(axis.fmt) for date in dates]
      return {axis.name(): times}

  i.e. the row labels that `-type text` / `-type csv` print in front of the scores of a slice of a
  time-like axis.  The label is the UTC broken-down time of the axis value (an initialisation time for
  `-x time`, the first instant of the bucket for `day`, `week`, `month`, `year`) written with the
  axis's format:

      Time  %Y-%m-%d %H:%M:%S      Day  %Y/%m/%d      Month  %Y/%m      Year  %Y      Week  %Y/%U

  Whole seconds only (the round trip through matplotlib's date numbers is exact to the microsecond
  there; tied by stream out.tlabel).  `%Y` is modelled for the four-digit years 1000 … 9999
  (`label` is `none` outside, glibc does not pad shorter years); `%U` is the week of the year with
  Sunday as the first day of the week, days before the first Sunday being week 00.
  Calendar arithmetic is that of `Base/Calendar.lean` / `Model/Axis.lean` (proved against the
  textbook calendar for 1900-2100 in C11).  Strings are `List Char`.
-/
namespace VerifModel.TimeLabel
open VerifModel.Calendar VerifModel.Axis

abbrev Str := List Char

/-- the decimal digit character of `n % 10` -/
def digit (n : Nat) : Char :=
  match n % 10 with
  | 0 => '0' | 1 => '1' | 2 => '2' | 3 => '3' | 4 => '4'
  | 5 => '5' | 6 => '6' | 7 => '7' | 8 => '8' | _ => '9'

/-- `"%02d" % n` for `n < 100` -/
def pad2 (n : Nat) : Str := [digit (n / 10), digit n]

/-- `"%04d" % n` for `n < 10000` -/
def pad4 (n : Nat) : Str := [digit (n / 1000), digit (n / 100), digit (n / 10), digit n]

/-- `tm_hour`, `tm_min`, `tm_sec` of the UTC broken-down time -/
def hour (t : Int) : Nat := secOfDay t / 3600
def minute (t : Int) : Nat := secOfDay t / 60 % 60
def second (t : Int) : Nat := secOfDay t % 60

/-- `tm_yday` (0 = 1 January) -/
def yday (t : Int) : Nat := dayIndex t - daysFromCivil (civil t).y 1 1

/-- `tm_wday` (0 = Sunday) -/
def wdaySun (t : Int) : Nat := (weekday (dayIndex t) + 1) % 7

/-- `%U`: `(tm_yday + 7 - tm_wday) / 7` -/
def weekU (t : Int) : Nat := (yday t + 7 - wdaySun t) / 7

def ymdChars (sep : Char) (c : Date) : Str := pad4 c.y ++ sep :: pad2 c.m ++ sep :: pad2 c.d

def hmsChars (t : Int) : Str := pad2 (hour t) ++ ':' :: pad2 (minute t) ++ ':' :: pad2 (second t)

/-- `date.strftime(axis.fmt)` for the time-like axes; `none` for the other axes and for years that
`%Y` does not print with four digits -/
def label (k : Kind) (t : Int) : Option Str :=
  let c := civil t
  if 1000 ≤ c.y ∧ c.y ≤ 9999 then
    match k with
    | .time => some (ymdChars '-' c ++ ' ' :: hmsChars t)
    | .day => some (ymdChars '/' c)
    | .month => some (pad4 c.y ++ '/' :: pad2 c.m)
    | .year => some (pad4 c.y)
    | .week => some (pad4 c.y ++ '/' :: pad2 (weekU t))
    | _ => none
  else none

/-- `axis.name()` of the time-like axes (the key of the returned dict = the header of the column) -/
def header : Kind → Option Str
  | .time => some "Time".toList
  | .day => some "Day".toList
  | .month => some "Month".toList
  | .year => some "Year".toList
  | .week => some "Week".toList
  | _ => none

/-- the time-like branch of `Data.get_axis_descriptions`: one label per axis value, in axis order -/
def descriptions (k : Kind) (values : List Int) : Option (Str × List Str) := do
  let h ← header k
  let ls ← values.mapM (label k)
  some (h, ls)

end VerifModel.TimeLabel
