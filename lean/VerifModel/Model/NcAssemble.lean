import VerifModel.Base.XR
import VerifModel.Base.Arr
import VerifModel.Model.Clean
import VerifModel.Model.Data
import VerifModel.Spec.Dataset
/-
  Model of the NetCDF side of verif/input.py (C10):

    get_input             input.py:17-30     `detect`
    Netcdf.is_valid       input.py:144-165   `isValidNc`
    Netcdf.__init__ and the readers, input.py:131-282   `ncAssemble`
    scripts/text2nc.py                       `text2nc`

  The netCDF4 library (bytes ↔ named arrays + attributes) is an external parameter: the
  model starts from `NcVars`, what `netCDF4.Dataset(filename)` shows the reader —
  the dimension sizes, the variables in file order (shape + cells, a cell being masked or a
  value: `NcCell`), and the global attributes the reader looks at.  An optional variable is
  present iff it occurs in `vars`.

  Coordinate variables (time, leadtime, location, lat, lon, altitude, threshold, quantile) go
  through `verif.util.clean` exactly like the data variables: an entry that is masked / the
  fill value, NaN, -999 or above 1e30 is NaN in the attribute (`NcVars.vec`, `cleanArr`).
  What `verif.data.Data` makes of such an input is `ncData`: `Data.init` on `NcInput.dataInput`
  (`_get_common_indices` removes NaN times / lead times / location ids, data.py:674-675).
-/
namespace VerifModel
open Spec

/-- a NetCDF variable as `var[:]` hands it over: shape and row-major cells -/
structure NcArr where
  shape : List Nat
  data : List NcCell
  deriving DecidableEq, Repr, Inhabited

structure NcVars where
  dims : List (String × Nat)
  vars : List (String × NcArr)
  longName : Option String := none
  standardName : Option String := none
  units : Option (List Char) := none
  x0 : Option XR := none
  x1 : Option XR := none
  deriving Repr, Inhabited

def NcVars.var? (V : NcVars) (n : String) : Option NcArr := V.vars.lookup n
def NcVars.dim? (V : NcVars) (n : String) : Option Nat := V.dims.lookup n

/-- an optional variable: present iff `o` is `some` -/
def optVar (n : String) (o : Option NcArr) : List (String × NcArr) :=
  match o with
  | some a => [(n, a)]
  | none => []

def optDim (n : String) (o : Option Nat) : List (String × Nat) :=
  match o with
  | some k => [(n, k)]
  | none => []

/-- `verif.util.clean` on a whole variable: shape kept, every cell cleaned -/
def cleanArr (a : NcArr) : Arr := ⟨a.shape, a.data.map clean⟩

/-- `Input.get_regular_names() + ["threshold", "cdf", "quantile", "x"]` (input.py:141) -/
def ncRegularNames : List String :=
  ["obs", "fcst", "id", "location", "lat", "lon", "elev", "altitude", "hour", "date", "unixtime",
   "leadtime", "offset", "threshold", "cdf", "quantile", "x"]

/-- the attributes of a `verif.input.Netcdf` object -/
structure NcInput where
  times : List XR
  leads : List XR
  locs : List Loc
  thresholds : List XR
  quantiles : List XR
  varName : String
  units : List Char
  x0 : Option XR
  x1 : Option XR
  /-- `other_fields`, in file order (lists `time`, `pit`, `ensemble` too: they are not "regular names") -/
  otherFields : List String
  obs : Option Arr
  fcst : Option Arr
  pit : Option Arr
  ensemble : Option Arr
  thresholdScores : Option Arr
  quantileScores : Option Arr
  /-- `other_score(name)` for every name in `other_fields` -/
  others : List (String × Arr)
  deriving DecidableEq, Repr, Inhabited

/-- `for i in range(lat.shape[0]): Location(id[i], lat[i], lon[i], elev[i])` — the latitude array
decides the number of locations; a shorter companion array is an IndexError -/
def mkLocs : List XR → List XR → List XR → List XR → Except String (List Loc)
  | [], _, _, _ => .ok []
  | a :: as, i :: is, o :: os, e :: es =>
    match mkLocs as is os es with
    | .ok l => .ok (⟨i, a, o, e⟩ :: l)
    | .error m => .error m
  | _ :: _, _, _, _ => .error "IndexError"

/-- a 1-D variable, cleaned; `dflt` when the variable is absent -/
def NcVars.vec (V : NcVars) (n : String) (dflt : List XR) : List XR :=
  match V.var? n with
  | some a => (cleanArr a).data
  | none => dflt

/-- `Netcdf._get_locations`: absent lat / lon / altitude read 0 (`np.zeros`), absent ids 0,1,2,… -/
def ncLocations (V : NcVars) : Except String (List Loc) :=
  match V.dim? "location" with
  | none => .error "KeyError: 'location'"
  | some n =>
    let lat := V.vec "lat" (List.replicate n (.fin 0))
    let lon := V.vec "lon" (List.replicate n (.fin 0))
    let id := V.vec "location" ((List.range lat.length).map fun (i : Nat) => XR.fin (i : Rat))
    let elev := V.vec "altitude" (lat.map fun _ => .fin 0)
    mkLocs lat id lon elev

/-- `Netcdf._get_variable`: the name -/
def ncVarName (V : NcVars) : String :=
  match V.longName with
  | some n => n
  | none => match V.standardName with
    | some n => n
    | none => "Unknown variable"

/-- `Netcdf._get_variable`: the units, wrapped in `$…$` unless empty or `%` -/
def ncUnits (u : Option (List Char)) : List Char :=
  let u := u.getD []
  if u = [] then "Unknown units".toList else if u = ['%'] then ['%'] else '$' :: (u ++ ['$'])

def ncOtherFields (V : NcVars) : List String :=
  (V.vars.map (·.1)).filter fun n => !ncRegularNames.contains n

/-- `Netcdf.__init__` plus the lazily evaluated field properties -/
def ncAssemble (V : NcVars) : Except String NcInput :=
  match V.var? "time" with
  | none => .error "KeyError: 'time'"
  | some t =>
    match V.var? "leadtime" with
    | none => .error "KeyError: 'leadtime'"
    | some l =>
      match ncLocations V with
      | .error m => .error m
      | .ok locs => .ok {
          times := (cleanArr t).data
          leads := (cleanArr l).data
          locs := locs
          thresholds := V.vec "threshold" []
          quantiles := V.vec "quantile" []
          varName := ncVarName V
          units := ncUnits V.units
          x0 := V.x0
          x1 := V.x1
          otherFields := ncOtherFields V
          obs := (V.var? "obs").map cleanArr
          fcst := (V.var? "fcst").map cleanArr
          pit := (V.var? "pit").map cleanArr
          ensemble := (V.var? "ensemble").map cleanArr
          thresholdScores := (V.var? "cdf").map cleanArr
          quantileScores := (V.var? "x").map cleanArr
          others := (ncOtherFields V).filterMap fun n => (V.var? n).map fun a => (n, cleanArr a) }

/-- names that `Netcdf.other_fields` lists although they are not other fields -/
def spuriousOther : List String := ["time", "pit", "ensemble"]

/-- the format-independent view of a NetCDF input -/
def NcInput.dataset (I : NcInput) : Dataset where
  times := I.times
  leads := I.leads
  locs := I.locs
  thresholds := I.thresholds
  quantiles := I.quantiles
  obs := I.obs
  fcst := I.fcst
  pit := I.pit
  ensemble := I.ensemble
  cdf := I.thresholdScores
  x := I.quantileScores
  others := I.others.filter fun p => !spuriousOther.contains p.1
  var := { name := I.varName, units := I.units, x0 := I.x0, x1 := I.x1 }

/-! ### the NetCDF input under `verif.data.Data` -/

/-- a `(time, leadtime, location)` variable as the nested array `Data` indexes (`a[t, l, x]`);
any other rank has no cells -/
def Arr.toArr3 (a : Arr) : Arr3 :=
  match a.dims with
  | [nt, nl, nx] =>
    (List.range nt).map fun t => (List.range nl).map fun l => (List.range nx).map fun x =>
      a.data.getD ((t * nl + l) * nx + x) .nan
  | _ => []

/-- the NetCDF input as `Data` sees it: coordinates (NaN where the file has a missing entry) and the
3-D fields obs, fcst, pit and the other fields -/
def NcInput.dataInput (I : NcInput) : Input where
  times := I.times
  leads := I.leads
  locs := I.locs
  fields := ((([("obs", I.obs), ("fcst", I.fcst), ("pit", I.pit)] : List (String × Option Arr)).filterMap
      fun p => p.2.map fun a => (p.1, a.toArr3))
    ++ (I.others.filter fun p => !spuriousOther.contains p.1).map fun p => (p.1, p.2.toArr3))

/-- `verif.data.Data([verif.input.get_input(file)])` for a file that shows `V` -/
def ncData (V : NcVars) (cfg : Cfg := {}) : Except String DataS :=
  match ncAssemble V with
  | .error e => .error e
  | .ok I => Data.init [I.dataInput] cfg

/-! ### format detection -/

/-- `Netcdf.is_valid`: required dimensions -/
def hasDims (V : NcVars) : Bool :=
  ["time", "location", "leadtime"].all fun d => (V.dims.map (·.1)).contains d

/-- `Netcdf.is_valid`: required variables -/
def hasVars (V : NcVars) : Bool :=
  ["time", "leadtime"].all fun v => (V.vars.map (·.1)).contains v

def isValidNc (V : NcVars) : Bool := hasDims V && hasVars V

inductive Kind where
  | netcdf | comps | text
  deriving DecidableEq, Repr

/-- `verif.input.get_input`, as a function of what the file CONTAINS: `isNc` — netCDF4 can open it;
`validNetcdf` = `Netcdf.is_valid` (`hasDims && hasVars`); `validComps` = `Comps.is_valid` (dimensions
Offset, Date, Location); `validText` = `Text.is_valid` (it is a file).  There is no name argument. -/
def detect (isNc validNetcdf validComps validText : Bool) : Except String Kind :=
  if isNc then
    if validNetcdf then .ok .netcdf
    else if validComps then .ok .comps
    else .error "does not have the correct Netcdf format"
  else if validText then .ok .text
  else .error "is not a valid input file"

/-- the decision for a file that netCDF4 can open and that shows `V` -/
def detectNc (V : NcVars) (validComps : Bool) : Except String Kind :=
  detect true (isValidNc V) validComps true

/-! ### scripts/text2nc.py -/

/-- conversions on storing: `f4` variables round to float32, the `i4` location variable to int32 -/
structure Rounding where
  r32 : Rat → Rat
  i32 : Rat → Rat

def roundX (r : Rat → Rat) : XR → XR
  | .fin q => .fin (r q)
  | v => v

def storeArr (r : Rat → Rat) (a : Arr) : NcArr := ⟨a.dims, a.data.map fun v => .val (roundX r v)⟩
def storeVec (r : Rat → Rat) (v : List XR) : NcArr := ⟨[v.length], v.map fun x => .val (roundX r x)⟩

/-- `var[:] = None` leaves an all-NaN variable (the cdf / x variables of an input that has thresholds /
quantile levels but no such array; before 5c8853e also obs / fcst) -/
def nanArr (dims : List Nat) : Arr := ⟨dims, List.replicate (Arr.prod dims) .nan⟩

/-- `units.replace("$", "")` -/
def stripDollar (u : List Char) : List Char := u.filter (· ≠ '$')

/-- the file `text2nc.py` writes for an input with the attributes `D`.
Written: threshold + cdf and quantile + x (when there are any), time (f8, exact), leadtime, location (i4),
ensemble (when the input has members), lat, lon, altitude, then fcst and obs — each ONLY when the input has
that field (since 5c8853e: `if input.fcst is not None` / `if input.obs is not None`; a text file without an obs
column gives a NetCDF file without an obs variable, not one with all-missing observations) —, pit and every
other field (f4), attributes standard_name, units and — when set — x0, x1 (doubles: stored exactly). -/
def text2nc (R : Rounding) (D : Dataset) : NcVars :=
  let shape3 := [D.times.length, D.leads.length, D.locs.length]
  let nthr := if D.thresholds.isEmpty then none else some D.thresholds.length
  let nqtl := if D.quantiles.isEmpty then none else some D.quantiles.length
  -- `input.num_members > 0`
  let ens := D.ensemble.filter fun a => a.dims.getLastD 0 != 0
  { dims := [("time", D.times.length), ("leadtime", D.leads.length), ("location", D.locs.length)]
      ++ optDim "threshold" nthr ++ optDim "quantile" nqtl
      ++ optDim "ensemble_member" (ens.map fun a => a.dims.getLastD 0)
    vars :=
      optVar "threshold" (nthr.map fun _ => storeVec R.r32 D.thresholds)
      ++ optVar "cdf" (nthr.map fun k => storeArr R.r32 (D.cdf.getD (nanArr (shape3 ++ [k]))))
      ++ optVar "quantile" (nqtl.map fun _ => storeVec R.r32 D.quantiles)
      ++ optVar "x" (nqtl.map fun k => storeArr R.r32 (D.x.getD (nanArr (shape3 ++ [k]))))
      ++ optVar "ensemble" (ens.map (storeArr R.r32))
      ++ [("time", storeVec id D.times),
          ("leadtime", storeVec R.r32 D.leads),
          ("location", storeVec R.i32 (D.locs.map (·.id))),
          ("lat", storeVec R.r32 (D.locs.map (·.lat))),
          ("lon", storeVec R.r32 (D.locs.map (·.lon))),
          ("altitude", storeVec R.r32 (D.locs.map (·.elev)))]
      ++ optVar "fcst" (D.fcst.map (storeArr R.r32))
      ++ optVar "obs" (D.obs.map (storeArr R.r32))
      ++ optVar "pit" (D.pit.map (storeArr R.r32))
      ++ D.others.map fun p => (p.1, storeArr R.r32 p.2)
    standardName := some D.var.name
    units := some (stripDollar D.var.units)
    x0 := D.var.x0
    x1 := D.var.x1 }

end VerifModel
