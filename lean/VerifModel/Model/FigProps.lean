import VerifModel.Gen.Appearance
import VerifModel.Spec.Appearance
import VerifModel.Model.PlotKinds
/-
  Model for C17: an abstract figure record and `applyOptions : Cfg → FigProps`.

  The route of an option is COMPOSED FROM THE REGENERATED TABLES of Gen/Appearance.lean:

      flag --flagLocal--> local --localAttr--> Output attribute --attrSetters--> (method, callee, slot)
                                  \--dataKw--> Data(...) keyword

  and ends in the hand-written table `setterField`, which is the only place that says what a
  matplotlib call does to the figure (`ax.set_xlim(v)` sets the x limits, the `fontsize` argument of
  `ax.set_title` the title font size, …).  Local variable names are never compared with anything but
  each other, so renaming a local in driver.run does not change any route.
-/
namespace VerifModel.FigProps
open VerifModel.Spec.Appearance (Field)
open VerifModel.Gen.Appearance

/-- abstract figure record: the value of every observable property (`none` = the tool's default) -/
abbrev FigProps := Field → Option String

def FigProps.empty : FigProps := fun _ => none

/-- record update -/
def FigProps.set (fp : FigProps) (f : Field) (v : String) : FigProps :=
  fun g => if g = f then some v else fp g

/-- what a call made by an Output method does to the figure: (method, callee, argument slot) ↦ property.
    Slot `if` = the call happens iff the attribute's test succeeds; callee `return` = key of the
    dictionary returned by `_get_plot_options`, which the plotting code passes on to `mpl.plot`. -/
def setterField : List ((String × String × String) × Field) :=
  [(("_adjust_axis", "ax.set_title", "0"), .titleText),
   (("_adjust_axis", "ax.set_title", "fontsize"), .titleSize),
   (("_adjust_axis", "ax.set_xlabel", "0"), .xLabel),
   (("_adjust_axis", "ax.set_ylabel", "0"), .yLabel),
   (("_adjust_axis", "ax.set_xlabel", "fontsize"), .labelSize),
   (("_adjust_axis", "ax.set_ylabel", "fontsize"), .labelSize),
   (("Standard._map_core", "cb.set_label", "0"), .cLabel),
   (("_adjust_axis", "ax.set_xlim", "0"), .xLim),
   (("_adjust_axis", "ax.set_ylim", "0"), .yLim),
   (("Standard._map_core", "map.scatter", "vmin"), .cLim),
   (("Standard._map_core", "map.scatter", "vmax"), .cLim),
   (("_adjust_axis", "ax.set_xticks", "0"), .xTicks),
   (("_adjust_axis", "ax.set_yticks", "0"), .yTicks),
   (("_adjust_axis", "ax.set_xticklabels", "0"), .xTickLabels),
   (("_adjust_axis", "ax.set_yticklabels", "0"), .yTickLabels),
   (("_adjust_axis", "ax.get_xticklabels().set_rotation", "0"), .xTickRotation),
   (("_adjust_axis", "ax.get_yticklabels().set_rotation", "0"), .yTickRotation),
   (("_adjust_axis", "ax.set_xscale", "if"), .xLog),
   (("_adjust_axis", "ax.set_yscale", "if"), .yLog),
   (("_legend", "mpl.legend", "prop.size"), .legendSize),
   (("_legend", "mpl.legend", "loc"), .legendLoc),
   (("Standard._legend", "mpl.legend", "prop.size"), .legendSize),
   (("Standard._legend", "mpl.legend", "loc"), .legendLoc),
   (("_get_plot_options", "return", "color"), .seriesColor),
   (("_get_plot_options", "return", "ls"), .seriesStyle),
   (("_get_plot_options", "return", "lw"), .seriesWidth),
   (("_get_plot_options", "return", "marker"), .seriesMarker),
   (("_get_plot_options", "return", "ms"), .seriesMarkerSize),
   (("_adjust_axis", "ax.get_xticklabels().set_fontsize", "0"), .tickSize),
   (("_adjust_axis", "ax.get_yticklabels().set_fontsize", "0"), .tickSize),
   (("_add_annotation", "mpl.text", "fontsize"), .annotationSize),
   (("_adjust_axis", "ax.grid", "color"), .gridColor),
   (("_adjust_axis", "ax.grid", "linestyle"), .gridStyle),
   (("_adjust_axis", "ax.grid", "lw"), .gridWidth),
   (("_adjust_axis", "ax.grid", "if"), .gridOff),
   (("_plot_perfect_score", "mpl.plot", "if"), .perfectLine),
   (("_adjust_axis", "ax.set_aspect", "0"), .aspect),
   (("_save_plot", "mpl.gcf().set_size_inches", "0"), .figSize),
   (("_save_plot", "mpl.gcf().set_size_inches", "1"), .figSize),
   (("_save_plot", "mpl.savefig", "dpi"), .dpi),
   (("_adjust_axes", "mpl.gcf().subplots_adjust", "left"), .marginLeft),
   (("_adjust_axes", "mpl.gcf().subplots_adjust", "right"), .marginRight),
   (("_adjust_axes", "mpl.gcf().subplots_adjust", "top"), .marginTop),
   (("_adjust_axes", "mpl.gcf().subplots_adjust", "bottom"), .marginBottom),
   (("_save_plot", "verif.util.remove_margin", "if"), .marginsRemoved),
   (("_add_annotation", "mpl.text", "if"), .annotate),
   (("_add_annotation", "mpl.text", "2"), .annotationFields),
   (("_save_plot", "mpl.savefig", "0"), .fileName)]

/-- keyword of `verif.data.Data(...)` ↦ property (`Data.get_legend()` supplies every plot's series names) -/
def dataKwField : List (String × Field) := [("legend", .legendEntries)]

/-! ### interned symbols

String comparison is slow in the Lean kernel, so the routes are computed on the numeric copies of the
generated tables (`…N`, every string replaced by its index in `Gen.Appearance.sym`; Proofs/C17.lean proves
that decoding them gives back the string tables).  A hand-written string enters through `symId`. -/

def symAt (i : Nat) : String := (sym.getD i (0, "")).2

/-- bucket lookup, then the candidate is verified against `sym` (so `symId? s = some i → symAt i = s`
    holds by construction) -/
def symId? (s : String) : Option Nat :=
  match symBuckets.find? fun b => b.1 == s.length with
  | some b =>
    match b.2.find? fun e => e.2 == s with
    | some e => if symAt e.1 == s then some e.1 else none
    | none => none
  | none => none

/-- id of a string (`sym.length` if the string does not occur in the generated tables) -/
def symId (s : String) : Nat := (symId? s).getD sym.length

def setterFieldN : List ((Nat × Nat × Nat) × Field) :=
  setterField.map fun e => ((symId e.1.1, symId e.1.2.1, symId e.1.2.2), e.2)

def dataKwFieldN : List (Nat × Field) := dataKwField.map fun e => (symId e.1, e.2)

def lookupSetter (m c s : Nat) : Option Field :=
  (setterFieldN.find? fun e => e.1.1 == m && e.1.2.1 == c && e.1.2.2 == s).map (·.2)

def dedup [BEq α] : List α → List α
  | [] => []
  | x :: xs => x :: (dedup xs).filter (· != x)

/-- locals assigned in the `elif arg == flag` branch (id 0 = no assignment) -/
def localsOf (flag : Nat) : List Nat :=
  (flagLocalN.filter fun e => e.1 == flag && e.2.1 != 0).map (·.2.1)

/-- Output attributes the flag's locals are assigned to (`pl.<attr> = <local>`) -/
def attrsOf (flag : Nat) : List Nat :=
  dedup ((localsOf flag).flatMap fun l => (localAttrN.filter fun e => e.1 == l).map (·.2))

/-- the generated setter edges that `setterField` gives a meaning to: (method, attr, field) -/
def mappedSetters : List (Nat × Nat × Field) :=
  attrSettersN.filterMap fun e => (lookupSetter e.1 e.2.2.1 e.2.2.2).map fun f => (e.1, e.2.1, f)

/-- the (method, field) pairs an attribute reaches through a mapped setter -/
def landings (attr : Nat) : List (Nat × Field) :=
  (mappedSetters.filter fun e => e.2.1 == attr).map fun e => (e.1, e.2.2)

def fieldsOfLocalData (l : Nat) : List Field :=
  dataKwN.filterMap fun e => if e.2 == l then (dataKwFieldN.find? fun d => d.1 == e.1).map (·.2) else none

/-- figure properties the value of a flag reaches, from the regenerated tables -/
def routeRaw (flag : Nat) : List Field :=
  dedup (((attrsOf flag).flatMap fun a => (landings a).map (·.2)) ++ (localsOf flag).flatMap fieldsOfLocalData)

def allFlags : List Nat := dedup (flagLocalN.map (·.1))

def routeTable : List (Nat × List Field) := allFlags.map fun o => (o, routeRaw o)

def route (flag : String) : List Field :=
  match routeTable.find? fun e => e.1 == symId flag with
  | some e => e.2
  | none => []

/-- matplotlib calls that RESET what another call has set: `ax.set_xscale` installs the scale's own
    tick locator and formatter, so it discards the effect of an earlier `ax.set_xticks` /
    `ax.set_xticklabels` (same for y).  (method, resetting callee, callee whose effect is lost if earlier) -/
def resets : List (String × String × String) :=
  [("_adjust_axis", "ax.set_xscale", "ax.set_xticks"),
   ("_adjust_axis", "ax.set_xscale", "ax.set_xticklabels"),
   ("_adjust_axis", "ax.set_yscale", "ax.set_yticks"),
   ("_adjust_axis", "ax.set_yscale", "ax.set_yticklabels")]

/-- position of a call in the method's source order (`none` if the method never makes it) -/
def callPos (m c : Nat) : Option Nat :=
  let i := callOrderN.findIdx fun e => e.1 == m && e.2 == c
  if i < callOrderN.length then some i else none

/-- every resetting call that is made comes before the call whose effect it would discard -/
def orderOK : Bool :=
  resets.all fun r =>
    match callPos (symId r.1) (symId r.2.1), callPos (symId r.1) (symId r.2.2) with
    | some i, some j => i < j
    | _, _ => true

def replaceId : Nat := symId "replace_"
def labelReplaceId : Nat := symId "label.replace_"

/-- does the parser (or the post-processing of the local) replace '_' by a blank? -/
def usesUnderscoreN (flag : Nat) : Bool :=
  flagLocalN.any fun e => e.1 == flag &&
    (e.2.2 == replaceId || e.2.2 == labelReplaceId || localPostN.any fun p => p.1 == e.2.1 && p.2 == replaceId)

def usesUnderscore (flag : String) : Bool := usesUnderscoreN (symId flag)

def underscoreToSpace := Spec.Appearance.underscoreToSpace

/-- the value that reaches the figure -/
def modelValue (flag v : String) : String :=
  if usesUnderscore flag then underscoreToSpace v else v

abbrev Opts := List (String × String)

/-- one option: every property on its route takes the option's value -/
def step (fp : FigProps) (o : String × String) : FigProps :=
  fun g => if g ∈ route o.1 then some (modelValue o.1 o.2) else fp g

def applyOpts (opts : Opts) : FigProps := opts.foldl step FigProps.empty

/-- configuration of one run: plot kind, number of inputs (series), options in command-line order
    (flags without a value carry `1`; `-f` carries the output file name) -/
structure Cfg where
  plot : String
  nSeries : Nat
  opts : Opts

def applyOptions (c : Cfg) : FigProps := applyOpts c.opts

/-! ### rendering of the canonical FigProps line (what is observable on a given plot) -/

/-- split a comma separated list, keeping `[r:g:b]` items whole (they contain no comma in the op encoding) -/
def items (v : String) : List String := v.splitOn ","

/-- "repeated if there are more lines than entries": entry of series i is `xs[i mod |xs|]` -/
def cyclic (n : Nat) (xs : List String) : List String :=
  if xs.isEmpty then [] else (List.range n).map fun i => xs.getD (i % xs.length) ""

def escape (s : String) : String := s.replace " " "%20"

def extOf (file : String) : String := (file.splitOn ".").getLast?.getD ""

def isSeries : Field → Bool
  | .seriesColor | .seriesStyle | .seriesWidth | .seriesMarker | .seriesMarkerSize => true
  | _ => false

/-- a property is shown when it is set, applicable to the plot kind (and the plot's class does not skip
    it: `PlotKinds.shown`) and not made void by a documented dependency (no grid, hidden legend, no
    annotations, margins removed) -/
def observable (c : Cfg) (fp : FigProps) (f : Field) : Bool :=
  PlotKinds.shown c.plot f &&
  match f with
  | .gridColor | .gridStyle | .gridWidth => (fp .gridOff).isNone
  | .legendEntries | .legendLoc => fp .legendSize != some "0"
  | .annotationFields | .annotationSize => (fp .annotate).isSome
  | .marginLeft | .marginRight | .marginTop | .marginBottom => (fp .marginsRemoved).isNone
  | _ => true

/-- result of handing the user's x limits / x ticks to the axis -/
inductive AxisValue
  | ok (v : String)
  /-- `datetime.datetime(y, m, d)` raises ValueError: not a calendar date -/
  | badDate
  /-- not a list of whole numbers (outside the op encoding of dates) -/
  | unreadable

/-- `_adjust_axis`: on a time-like axis the x limits and x ticks are dates and go through
    `verif.util.date_to_datenum`; everything else reaches the axis as given -/
def axisValue (c : Cfg) (f : Field) (v : String) : AxisValue :=
  if (f == .xLim || f == .xTicks) && PlotKinds.convertsDates c.plot then
    match (items v).mapM String.toNat? with
    | some ds =>
      match PlotKinds.datesToDatenums ds with
      | some ns => .ok (",".intercalate (ns.map toString))
      | none => .badDate
    | none => .unreadable
  else .ok v

def renderField (c : Cfg) (f : Field) (v : String) : String :=
  let shown :=
    if isSeries f then ",".intercalate (cyclic c.nSeries (items v))
    else if f == .fileName then extOf v
    else match axisValue c f v with
      | .ok w => escape w
      | .badDate => "EXC:ValueError"
      | .unreadable => "ERR"
  f.name ++ "=" ++ shown

/-- the properties shown in the canonical line: (property, rendering) -/
def shownParts (c : Cfg) (fp : FigProps) : List (Field × String) :=
  Field.all.filterMap fun f =>
    match fp f with
    | some v => if observable c fp f then some (f, renderField c f v) else none
    | none => none

/-- does setting the x limits / ticks fail on this figure (a date that is no calendar date)? -/
def axisFailure (c : Cfg) (fp : FigProps) : Option String :=
  [Field.xTicks, Field.xLim].findSome? fun f =>
    match fp f with
    | some v => (match axisValue c f v with | .ok _ => none | .badDate => some "EXC:ValueError" | .unreadable => some "ERR")
    | none => none

def render (c : Cfg) (fp : FigProps) : String :=
  match axisFailure c fp with
  | some e => e
  | none =>
    let parts := (shownParts c fp).map (·.2)
    if parts.isEmpty then "-" else " ".intercalate parts

/-- fields of flags in `keep` whose rendering differs between two configurations (independence op) -/
def differing (c c' : Cfg) (keep : List String) : List String :=
  let fp := applyOptions c
  let fp' := applyOptions c'
  keep.filter fun o =>
    (route o).any fun f =>
      observable c fp f && observable c' fp' f &&
        (fp f).map (renderField c f) != (fp' f).map (renderField c' f)

end VerifModel.FigProps
