import VerifModel.Base.XR
/-
  `verif.field.Pit.randomize` (field.py), as used by `Data._get_score` for the Pit field when the variable
  declares a discrete mass (`# x0:` lower, e.g. 0 mm of precipitation; `# x1:` upper, e.g. 100 % humidity).

  The code draws one uniform number per case and per declared mass from a private generator
  (`np.random.RandomState(1)`, since dc3c38f) — the numbers are a parameter of the model (`u0`, `u1`), the
  theorems hold for every sequence of numbers in [0, 1).  Values are exact rationals; a case with a missing
  observation or PIT value is not on a mass (`obs == x0` is false for NaN) and is outside this model.
-/
namespace VerifModel.PitMass

/-- one case: observation `o`, stored PIT value `p` (the CDF at the observation), the numbers drawn for it -/
def randomize1 (x0 x1 : Option Rat) (o p u0 u1 : Rat) : Rat :=
  let p1 := match x0 with
    | some a => if o = a then p * u0 else p
    | none => p
  match x1 with
  | some b => if o = b then 1 - (1 - p1) * u1 else p1
  | none => p1

structure Case where
  obs : Rat
  pit : Rat
  u0 : Rat
  u1 : Rat

def randomize (x0 x1 : Option Rat) (cs : List Case) : List Rat :=
  cs.map fun c => randomize1 x0 x1 c.obs c.pit c.u0 c.u1

/-- the documented meaning ("if the obs is 0 mm and the CDF at 0 mm is 0.3, then a random number between 0 and
0.3 must be used"; "same for the upper discrete mass"): where the value has to lie -/
def Spec (x0 x1 : Option Rat) (o p r : Rat) : Prop :=
  if x0 = some o ∧ x1 ≠ some o then 0 ≤ r ∧ r ≤ p
  else if x1 = some o ∧ x0 ≠ some o then p ≤ r ∧ r ≤ 1
  else if x0 = some o ∧ x1 = some o then 0 ≤ r ∧ r ≤ 1
  else r = p

end VerifModel.PitMass
