import VerifModel.Model.Diagram
/-
  Model of verif/output.py (C16), second part: the series drawn by DRoc / DRoc0, Against, Change, IgnContrib,
  EconomicValue and Murphy, as pure functions of the arrays `Data.get_scores` hands to the diagram.
  Hand-written mirror of the code (loops, comparisons, guards, end points); decoration is not modelled.

    DRoc          Fa / Hit of metric.Contingency for the observation interval of -r and one forecast interval per
                  forecast threshold (np.linspace(t − 10, t + 10, 31); DRoc0: the threshold itself), joined to
                  (1, 1) and (0, 0)
    Against       per ordered pair of inputs: all forecast pairs, the pairs with an observation, and for k = 0..4 the
                  pairs where one input is closer to the observation by more than k/5 · std(obs)/2
    Change        bins (e_{i-1}, e_i] (the first one closed) of obs[d] − obs[d−1]; per bin nanmean of the change and of
                  |obs − fcst| at d
    IgnContrib    np.linspace(0, 1, N + 1) bins [e_i, e_{i+1}) (the last one closed) of the event probability; per
                  non-empty bin mean p, −Σ log2 p(outcome) / (number of binned cases) · (number of bins), count
    EconomicValue per cost-loss ratio (i/20)³: (min(clim, c) − total) / (min(clim, c) − clim·c), 0 when the
                  denominator is 0
    Murphy        per θ = i/20: 2θ·mean(p > θ ∧ o = 0) + 2(1−θ)·mean(p < θ ∧ o = 1) + 2θ(1−θ)·mean(p = θ)
-/
namespace VerifModel.Diagram
open VerifModel

/-! ### DRoc, DRoc0 -/

/-- `np.linspace(threshold - 10, threshold + 10, 31)` in exact arithmetic -/
def drocDefaultThresholds (t : XR) : List XR :=
  (List.range 31).map fun (i : Nat) => t - .fin 10 + .fin ((i : Rat) * (20 / 30))

/-- `(Fa().compute_from_obs_fcst(obs, fcst, interval, f_interval), Hit()…)` -/
def drocPoint (T : Tr) (I J : Interval) (obs fcst : Vec) : XR × XR :=
  ((contScore T "fa" I J obs fcst).getD .nan, (contScore T "hit" I J obs fcst).getD .nan)

/-- the curve of one input: (1, 1), one point per forecast interval, (0, 0) -/
def drocCurve (T : Tr) (I : Interval) (Js : List Interval) (obs fcst : Vec) : Vec × Vec :=
  let pts := Js.map fun J => drocPoint T I J obs fcst
  (.fin 1 :: pts.map (·.1) ++ [.fin 0], .fin 1 :: pts.map (·.2) ++ [.fin 0])

/-- DRoc._plot_core for one input: `interval = get_intervals(bin_type, [threshold])[0]`,
`f_intervals = get_intervals(bin_type, f_thresholds)` (`none`: the IndexError of a within-type -b) -/
def drocSeries (T : Tr) (b : BinType) (t : XR) (fts : List XR) (obs fcst : Vec) : Option (Vec × Vec) :=
  ((getIntervals b (some [t])).head?).map fun I => drocCurve T I (getIntervals b (some fts)) obs fcst

/-! ### Against -/

/-- the ordered pairs of inputs Against draws, in drawing order (two inputs: only (0, 1)) -/
def againstPairs (F : Nat) : List (Nat × Nat) :=
  if F = 2 then [(0, 1)]
  else (List.range F).flatMap fun f0 => ((List.range F).filter fun f1 => f0 != f1).map fun f1 => (f0, f1)

/-- index (in the figure's list of axes) of the panel of the i-th drawn pair.  `mpl.gca().set_aspect(1)` sits inside the
inner loop and also runs for f0 = f1 = 0, before any panel exists: with two inputs that creates the axes everything
is drawn on (index 0); with more inputs it leaves an empty full-figure axes at index 0 and the panels
`mpl.subplot(F, F, f0 + f1*F + 1)` follow in drawing order -/
def againstAxes (F i : Nat) : Nat := if F = 2 then i else i + 1

/-- the red / blue points of level k: cases (obs, x, y) where x (red) resp. y (blue) is closer to the observation by
more than `std * k / N` (`std` = np.std(obs) / 2, N = 5) -/
def againstLevel (std : XR) (k : Nat) (cs : List (XR × XR × XR)) : List (XR × XR × XR) × List (XR × XR × XR) :=
  let m := std * XR.ofNat k / XR.ofNat 5
  (cs.filter fun c => XR.gt (XR.abs (c.1 - c.2.2)) (XR.abs (c.1 - c.2.1) + m),
   cs.filter fun c => XR.lt (XR.abs (c.1 - c.2.2) + m) (XR.abs (c.1 - c.2.1)))

/-- the ten coloured point sets of one pair: k = 0..4, red then blue -/
def againstLevels (T : Tr) (cs : List (XR × XR × XR)) : List (List (XR × XR × XR)) :=
  let std := T.sqrt (Vec.var (cs.map (·.1))) / .fin 2
  (List.range 5).flatMap fun k => [(againstLevel std k cs).1, (againstLevel std k cs).2]

/-- Against for one pair of inputs, on axes `ax`: all forecast pairs `(xa, ya)` (cases with a forecast in every
input), the pairs with an observation, the coloured levels -/
def againstPair (T : Tr) (ax : Nat) (xa ya obs x y : Vec) : List Series :=
  let cs := obs.zip (x.zip y)
  { ax := ax, kind := "line", label := "_", xs := xa, ys := ya } ::
  { ax := ax, kind := "line", label := "_", xs := x, ys := y } ::
  (againstLevels T cs).map fun l => { ax := ax, kind := "line", label := "_", xs := l.map (·.2.1), ys := l.map (·.2.2) }

/-! ### Change -/

/-- the cases of Change: for every initialisation time d ≥ 1 and every (lead time, location) the pair
(obs[d] − obs[d−1], |obs[d] − fcst[d]|); `obs`, `fcst` = one row per initialisation time -/
def changeCases (obs fcst : List Vec) : List (XR × XR) :=
  (List.zipWith (fun (po : Vec × Vec) (f : Vec) => (Vec.sub po.2 po.1).zip (Vec.abs (Vec.sub po.2 f)))
    (obs.zip obs.tail) fcst.tail).flatten

/-- per bin (nanmean of the change, nanmean of the absolute error) -/
def changeSeries (edges : List XR) (cs : List (XR × XR)) : Vec × Vec :=
  let bins := binsFirst edges (·.1) cs
  (bins.map fun b => if b.isEmpty then .nan else Vec.nanmean (b.map (·.1)),
   bins.map fun b => if b.isEmpty then .nan else Vec.nanmean (b.map (·.2)))

/-! ### IgnContrib -/

/-- `N = min(25, max(11, len(obs) // 1000))`, `edges = np.linspace(0, 1, N + 1)` -/
def ignBins (n : Nat) : Nat := Nat.min 25 (Nat.max 11 (n / 1000))
def ignEdges (n : Nat) : List XR := (List.range (ignBins n + 1)).map fun (i : Nat) => XR.fin ((i : Rat) / (ignBins n : Rat))

/-- np.log2 -/
def log2 (T : Tr) (x : XR) : XR := T.log x / T.log (.fin 2)

/-- `-np.sum(np.log2(p[I1])) - np.sum(np.log2(1 - p[I0]))` of one bin; cases = (observed 0/1, probability) -/
def ignSum (T : Tr) (b : List (XR × XR)) : XR :=
  -(Vec.sum ((b.filter fun c => XR.eqb c.1 (.fin 1)).map fun c => log2 T c.2)) -
    Vec.sum ((b.filter fun c => XR.eqb c.1 (.fin 0)).map fun c => log2 T (.fin 1 - c.2))

/-- per bin (x, y, n): x = mean probability and y = ignorance sum / total count · number of bins for a non-empty bin
(NaN otherwise), n = count -/
def ignSeries (T : Tr) (edges : List XR) (cs : List (XR × XR)) : List (XR × XR × Nat) :=
  let bins := binsLast edges (·.2) cs
  let tot := natSum (bins.map List.length)
  bins.map fun b =>
    if b.isEmpty then (.nan, .nan, 0)
    else (Vec.mean (b.map (·.2)), ignSum T b / XR.ofNat tot * XR.ofNat bins.length, b.length)

/-! ### EconomicValue -/

/-- `np.linspace(0, 1, 21)**3` -/
def costLossRatios : List XR := (List.range 21).map fun (i : Nat) => XR.fin (((i : Rat) / 20) ^ 3)

/-- the economic value at one cost-loss ratio; cases = (observed 0/1, probability) -/
def economicValuePoint (c : XR) (cs : List (XR × XR)) : XR :=
  let nCost := cs.countP fun x => XR.ge x.2 c
  let nLoss := cs.countP fun x => XR.lt x.2 c && XR.eqb x.1 (.fin 1)
  let total := (c * XR.ofNat nCost + XR.ofNat nLoss) / XR.ofNat cs.length     -- loss = 1, cost = c
  let clim := Vec.mean (cs.map (·.1))
  let climCost := XR.min clim c
  let perfect := clim * c
  if XR.eqb climCost perfect then .fin 0 else (climCost - total) / (climCost - perfect)

def economicValueSeries (cs : List (XR × XR)) : Vec := costLossRatios.map fun c => economicValuePoint c cs

/-! ### Murphy -/

/-- `np.linspace(0, 1, 21)` -/
def murphyThresholds : List XR := (List.range 21).map fun (i : Nat) => XR.fin ((i : Rat) / 20)

/-- np.mean of a boolean array -/
def meanBool {α : Type} (cs : List α) (q : α → Bool) : XR := Vec.mean (cs.map fun c => boolToXR (q c))

/-- the mean elementary score at θ; cases = (observed 0/1, probability) -/
def murphyPoint (e : XR) (cs : List (XR × XR)) : XR :=
  .fin 0 + .fin 2 * e * meanBool cs (fun c => XR.gt c.2 e && XR.eqb c.1 (.fin 0))
    + .fin 2 * (.fin 1 - e) * meanBool cs (fun c => XR.lt c.2 e && XR.eqb c.1 (.fin 1))
    + .fin 2 * e * (.fin 1 - e) * meanBool cs (fun c => XR.eqb c.2 e)

def murphySeries (cs : List (XR × XR)) : Vec := murphyThresholds.map fun e => murphyPoint e cs

/-! ### TimeSeries -/

/-- `verif.util.nanmean(a, axis=-1)` of the cells of one row: the mean over the locations that have a value -/
def locMeans (row : List Vec) : Vec := row.map Vec.nanmean

/-- `datenums[d] + data.leadtimes / 24.0` (datenum = unixtime / 86400) -/
def tsX (t : XR) (ld : Vec) : Vec := ld.map fun l => t / .fin 86400 + l / .fin 24

/-- insertion of a (key, value) pair into a list sorted by key; the inserted pair replaces an equal key -/
def insertFirst (p : XR × XR) : List (XR × XR) → List (XR × XR)
  | [] => [p]
  | q :: rest =>
    if XR.lt p.1 q.1 then p :: q :: rest
    else if XR.eqb p.1 q.1 then p :: rest
    else q :: insertFirst p rest

/-- `x, I = np.unique(keys, return_index=True); y = vals[I]`: the distinct keys in ascending order, each with the
value of its FIRST occurrence -/
def uniqueFirst (ps : List (XR × XR)) : List (XR × XR) := ps.foldr insertFirst []

/-- the observation line: valid times `(leadtime * 3600 + time) / 86400` of all (run, lead time) cells, made unique,
against the location mean of the first cell with that valid time.  `obs` = runs × lead times × locations. -/
def tsObs (tm ld : Vec) (obs : List (List Vec)) : Vec × Vec :=
  let keys := tm.flatMap fun t => ld.map fun l => (l * .fin 3600 + t) / .fin 86400
  let u := uniqueFirst (keys.zip (obs.map locMeans).flatten)
  (u.map (·.1), u.map (·.2))

/-- one line per run (initialisation time) d: x = its valid times in days, y = the location means per lead time -/
def tsRunLines (label : Nat → String) (tm ld : Vec) (arr : List (List Vec)) : List Series :=
  (tm.zip arr).zipIdx.map fun p =>
    { ax := 0, kind := "line", label := label p.2, xs := tsX p.1.1 ld, ys := locMeans p.1.2 }

structure TsInput where
  fcst : List (List Vec)                  -- runs × lead times × locations
  members : List (List (List Vec))        -- per ensemble member
  quants : List (List (List Vec))         -- per level of -q

/-- TimeSeries: the observation line of input 0; then per input its forecast lines (the first one labelled); then per
input and ensemble member the member lines; then per level of -q (in -q order) and input the quantile lines -/
def timeseriesFigure (tm ld : Vec) (obs0 : List (List Vec)) (qlabels : List String) (ins : List TsInput) : List Series :=
  let o := tsObs tm ld obs0
  { ax := 0, kind := "line", label := "obs", xs := o.1, ys := o.2 } ::
  (perInput (fun k i => tsRunLines (fun d => if d = 0 then inName k else "_") tm ld i.fcst) ins ++
   perInput (fun _ i => i.members.flatMap fun m => tsRunLines (fun _ => "_") tm ld m) ins ++
   qlabels.zipIdx.flatMap fun q =>
     perInput (fun _ i => tsRunLines (fun d => if d = 0 then q.1 else "_") tm ld ((i.quants[q.2]?).getD [])) ins)

/-! ### Meteo -/

/-- `nanmean(nanmean(a, axis=0), axis=1)`: per lead time the mean over the locations of the mean over the runs.
`cells` = lead times × locations × runs -/
def meteoLine (cells : List (List Vec)) : Vec := cells.map fun row => Vec.nanmean (row.map Vec.nanmean)

/-- `[unixtime_to_datenum(data.times[0] + lt*3600) for lt in data.leadtimes]` -/
def meteoX (t0 : XR) (ld : Vec) : Vec := ld.map fun l => (t0 + l * .fin 3600) / .fin 86400

/-- the bands: band i between the i-th lowest and the i-th highest quantile line -/
def meteoBands (x : Vec) (ys : List Vec) : List Series :=
  (List.range (ys.length / 2)).flatMap fun i => fillSeries x ((ys[i]?).getD []) ((ys[ys.length - 1 - i]?).getD [])

/-- `quantiles = np.sort(self.quantiles)`; then each level is fetched again -/
def meteoSorted (qs : List (XR × String × List (List Vec))) : List (XR × String × List (List Vec)) :=
  (Vec.sort (qs.map (·.1))).filterMap fun lev => qs.find? fun q => XR.eqb q.1 lev

/-- Meteo: observation line, forecast line, the quantile lines in ascending order of level, the bands.
`qs` = (level, label, cells) in the order of -q -/
def meteoFigure (x : Vec) (obs fcst : List (List Vec)) (qs : List (XR × String × List (List Vec))) : List Series :=
  let sorted := meteoSorted qs
  let ys := sorted.map fun q => meteoLine q.2.2
  { ax := 0, kind := "line", label := "Observed", xs := x, ys := meteoLine obs } ::
  { ax := 0, kind := "line", label := "Forecast", xs := x, ys := meteoLine fcst } ::
  ((sorted.zip ys).map fun q => { ax := 0, kind := "line", label := q.1.2.1, xs := x, ys := q.2 }) ++
  meteoBands x ys

end VerifModel.Diagram
