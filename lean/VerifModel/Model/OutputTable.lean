import VerifModel.Base.Decimal
/-
  OutputTable — model of `Output.csv`, `Output.text` (output.py:255-353) and of the
  numeric post-processing in `Standard._get_x_y` (output.py:822-855): threshold
  averaging and `-acc`.

  A table is what the writers loop over:
    names   : the keys of `descs` (x-dimension column names), in dict order
    legend  : `ylabels` / `labels` (file names in command-line order, or the -leg names)
    rows    : for every i in range(len(x)) the descriptor fields descs[k][i] and the
              scores y[i, :]
  Strings are `List Char` (provable, kernel-reducible); the driver converts.

  csv:   descriptors are `str(descs[k][i])` — Python's `str` of a NumPy scalar is NOT
         modelled, the csv table carries the descriptor strings; scores are `%g`.
  text:  a descriptor is a string (`%-*s`), a number (`%-*g`) or None (`All`);
         scores are `%-*.4g`; widths max(20, len(name)+1) and max(11, len(label)+1).
  Both writers finish with `s = s.strip()` and then `print(s)` or
  `file.write(s); file.write("\n")`.
-/
namespace VerifModel.OutputTable
open VerifModel Decimal

abbrev Str := List Char

/-- descriptor field of `Output.text` -/
inductive Desc where
  | str (s : Str)       -- isinstance(descs[w][i], basestring)
  | num (x : XR)        -- anything else: formatted with %g
  | all                 -- descs[w] is None
  deriving DecidableEq, Repr

structure Table (δ : Type) where
  names : List Str
  legend : List Str
  rows : List (List δ × List XR)

/-- what kind of `-x` axis the writer is looking at when `_get_x_y` returned `descs = None` -/
inductive AxisKind where
  | threshold | obs | fcst | other
  deriving DecidableEq, Repr

/-- the descriptor columns the writers choose when `_get_x_y` returned `descs = None` (output.py:266-274
for text, 329-337 for csv — the same branches in both writers): `thr` stands for `self.thresholds`,
`axisDescs` for `data.get_axis_descriptions(self.axis)`; `csv` tells which writer is asking. -/
def selectDescs {κ : Type} (csv : Bool) (ax : AxisKind) (thr : κ) (axisDescs : List (Str × κ)) :
    List (Str × κ) :=
  match ax with
  | .threshold => [("Threshold".toList, thr)]
  | .obs => if csv then [("Observed".toList, thr)] else [("Observed".toList, thr)]
  | .fcst => if csv then [("Forecasted".toList, thr)] else [("Forecasted".toList, thr)]
  | .other => axisDescs

/-- Python's `str.isspace` for one character (the set `str.strip()` removes) -/
def pyIsSpace (c : Char) : Bool :=
  let n := c.toNat
  (9 ≤ n && n ≤ 13) || (28 ≤ n && n ≤ 32) || n == 0x85 || n == 0xa0 || n == 0x1680 ||
  (0x2000 ≤ n && n ≤ 0x200a) || n == 0x2028 || n == 0x2029 || n == 0x202f || n == 0x205f ||
  n == 0x3000

/-- `s.strip()` -/
def strip (cs : Str) : Str := ((cs.dropWhile pyIsSpace).reverse.dropWhile pyIsSpace).reverse

/-- `sep.join(xs)` -/
def join (sep : Str) : List Str → Str
  | [] => []
  | [x] => x
  | x :: y :: r => x ++ sep ++ join sep (y :: r)

/-! ### csv -/

def csvHeader (t : Table Str) : Str :=
  join [','] t.names ++ [','] ++ join [','] t.legend ++ ['\n']

def csvRow (r : List Str × List XR) : Str :=
  join [','] r.1 ++ (r.2.map fun y => ',' :: fmtGChars 6 y).flatten ++ ['\n']

/-- the string `s` that `Output.csv` prints / writes -/
def csvChars (t : Table Str) : Str :=
  strip (csvHeader t ++ (t.rows.map csvRow).flatten)

/-! ### text -/

def descWidth (name : Str) : Nat := Nat.max 20 (name.length + 1)
def labelWidth (label : Str) : Nat := Nat.max 11 (label.length + 1)

/-- one cell: `"%-*s| " % (w, s)` -/
def cell (w : Nat) (s : Str) : Str := padRight w s ++ ['|', ' ']

def descStr : Desc → Str
  | .str s => s
  | .num x => fmtGChars 6 x
  | .all => ['A', 'l', 'l']

def textHeader (t : Table Desc) : Str :=
  (t.names.map fun w => cell (descWidth w) w).flatten ++
  (t.legend.map fun l => cell (labelWidth l) l).flatten ++ ['\n']

/-- widths are looked up by position: descriptor k uses names[k], score f uses legend[f]
(the code indexes `lengths[f]`; a score column without a label does not occur because
`y` has one column per label) -/
def zipCells (ws : List Nat) (fields : List Str) : Str :=
  (List.zipWith cell ws fields).flatten

def textRow (t : Table Desc) (r : List Desc × List XR) : Str :=
  zipCells (t.names.map descWidth) (r.1.map descStr) ++
  zipCells (t.legend.map labelWidth) (r.2.map (fmtGChars 4)) ++ ['\n']

/-- the string `s` that `Output.text` prints / writes -/
def textChars (t : Table Desc) : Str :=
  strip (textHeader t ++ (t.rows.map (textRow t)).flatten)

/-! ### where the string goes (`-f`) -/

structure Emitted where
  stdout : Str
  file : Option (Str × Str)     -- (file name, content)
  deriving DecidableEq, Repr

/-- `print(s)` when no file name is set, else `file.write(s); file.write("\n")` -/
def emit (filename : Option Str) (s : Str) : Emitted :=
  match filename with
  | none => ⟨s ++ ['\n'], none⟩
  | some f => ⟨[], some (f, s ++ ['\n'])⟩

/-! ### `Standard._get_x_y`: numbers -/

/-- `np.nan_to_num(y, posinf=inf, neginf=-inf)`: nan ↦ 0, everything else (±inf too) stays -/
def nanToNum : XR → XR
  | .nan => .fin 0
  | x => x

def addRows (a b : List XR) : List XR := List.zipWith (· + ·) a b

/-- running sums of the rows after the current sum `s` -/
def accFrom (s : List XR) : List (List XR) → List (List XR)
  | [] => []
  | r :: rs => let s' := addRows s (r.map nanToNum); s' :: accFrom s' rs

/-- `-acc`: `np.cumsum(np.nan_to_num(y, posinf=inf, neginf=-inf), axis=0)` on the rows × inputs matrix -/
def acc : List (List XR) → List (List XR)
  | [] => []
  | r :: rs => let s := r.map nanToNum; s :: accFrom s rs

/-- non-threshold axis: `yy = zeros(len(x)); for each interval: yy = yy + compute(...); yy / len(intervals)` —
`per` holds one score vector (over the slices) per interval -/
def thresholdAvg (nx : Nat) (per : List (List XR)) : List XR :=
  (per.foldl addRows (List.replicate nx (.fin 0))).map (· / XR.ofNat per.length)

end VerifModel.OutputTable
