import VerifModel.Model.Data
import VerifModel.Model.DetMetrics
import VerifModel.Model.Interval
/-
  Model of the `compute_single` layer of the deterministic metrics: which
  fields are requested from `Data.get_scores` (so which cases are valid), and
  how `-x obs` / `-x fcst` restrict the cases to those whose observation /
  forecast lies in the interval.   (metric.py: ObsFcstBased.compute_single,
  FromField.compute_single, Within, Conditional, XConditional, Count.)

  `cols` are the raw columns of the slice (NaN/inf = missing); `getCols` is what
  `get_scores` returns for a list of columns: the rows where all are valid, or the
  single-NaN placeholder when none is.
-/
namespace VerifModel

inductive CondAxis where
  | none | obs | fcst
  deriving DecidableEq, Repr, Inhabited

/-- `data.get_scores(fields, …)` restricted to one slice, for non-`All` axes -/
def getCols (cols : List Vec) : List Vec := finish .none cols.length cols

/-- keep the entries whose companion value lies in the interval (`np.where(interval.within(x))`;
a masked answer — NaN companion — is not selected) -/
def selectWithin (I : Interval) (by_ : Vec) (v : Vec) : Vec :=
  (List.zip by_ v).filterMap fun p => if I.within p.1 = some true then some p.2 else none

/-- `ObsFcstBased.compute_single` for a metric function `f` on (obs, fcst) -/
def obsFcstSingle (f : Vec → Vec → XR) (ax : CondAxis) (I : Interval) (obs fcst : Vec) : XR :=
  match getCols [obs, fcst] with
  | [o, g] =>
    (match ax with
     | .obs => computeFromObsFcst f (selectWithin I o o) (selectWithin I o g)
     | .fcst => computeFromObsFcst f (selectWithin I g o) (selectWithin I g g)
     | .none => computeFromObsFcst f o g)
  | _ => .nan

/-- `FromField.compute_single` for the Obs metric (`fieldIsObs`) or the Fcst metric.  When no case is
selected the aggregator is applied to an empty array; an aggregator that raises there
(`raisesOnEmpty`: np.min, np.max) gives NaN (the exception is caught), the others give whatever
NumPy gives (np.sum = 0, np.mean = NaN, …).  Total: the layer never fails. -/
def fromFieldSingle (agg : Vec → XR) (raisesOnEmpty : Bool) (fieldIsObs : Bool) (ax : CondAxis)
    (I : Interval) (obs fcst : Vec) : XR :=
  let field := if fieldIsObs then obs else fcst
  let other := if fieldIsObs then fcst else obs
  let vals : Vec :=
    match ax with
    | .none => (getCols [field]).headD []
    | .obs =>
      if fieldIsObs then let c := (getCols [field]).headD []; selectWithin I c c
      else (match getCols [field, other] with
            | [v, a] => selectWithin I a v
            | _ => [])
    | .fcst =>
      if fieldIsObs then (match getCols [field, other] with
            | [v, a] => selectWithin I a v
            | _ => [])
      else let c := (getCols [field]).headD []; selectWithin I c c
  -- an empty selection goes to the aggregator as an empty array (np.sum = 0, np.mean = NaN, …);
  -- `raisesOnEmpty` aggregators (np.min, np.max) raise ValueError there, which is caught: NaN
  if vals.isEmpty && raisesOnEmpty then .nan else agg vals

/-- `Within.compute_from_obs_fcst`: percentage of |o − f| inside the interval -/
def withinSingle (I : Interval) (obs fcst : Vec) : XR :=
  match getCols [obs, fcst] with
  | [o, g] =>
    let d := Vec.abs (Vec.sub o g)
    let hits := (d.filter fun x => I.within x = some true).length
    -- np.mean over a masked array: masked (NaN) entries are excluded from the mean
    let n := (d.filter fun x => (I.within x).isSome).length
    if n = 0 then .nan else .fin ((hits : Rat) / (n : Rat) * 100)
  | _ => .nan

/-- `FromField(field, aux).compute_single` for a value field other than obs / fcst (`verif.field.Other`):
the requested fields are the value field, then the subsetting field under `-x obs` / `-x fcst`
(`axisCol`), then the `aux` field ("also pull values for this field to ensure only common data points
are returned"); the values of the cases valid in ALL of them, restricted to the cases whose axis value
lies in the interval, go to the aggregator (an aggregator that raises on an empty selection: NaN). -/
def fromFieldAuxSingle (agg : Vec → XR) (raisesOnEmpty : Bool) (I : Interval)
    (vals : Vec) (axisCol aux : Option Vec) : XR :=
  let cols := getCols ([vals] ++ axisCol.toList ++ aux.toList)
  let v := cols.headD []
  let sel := match axisCol with
    | some _ => selectWithin I (cols.getD 1 []) v
    | none => v
  if sel.isEmpty && raisesOnEmpty then .nan else agg sel

end VerifModel
