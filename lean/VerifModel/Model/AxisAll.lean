import VerifModel.Model.Axis
/-
  Model of the axis `All` (verif/axis.py class `All`; the default axis of `Data.get_scores`).
  `Data._apply_axis(array, All(), a)` returns the whole (time, lead time, location) array and
  `Data.get_scores` does NOT compress it: the cases where some requested field is missing are
  overwritten with NaN in place (data.py: `I = np.where(valid == 0); scores[i][I] = np.nan`).
  So there is one slice, it has an entry for EVERY case, and an entry is either the case (valid)
  or a hole (NaN).  (`Kind.all` is already the list of all kinds, hence the separate names.)
  Tied to /repo by the `axis.slices` stream of C11 (`slices all …`).
-/
namespace VerifModel.Axis

/-- `Data.get_scores(fields, input, verif.axis.All())`: the whole array in row-major order,
`none` (NaN) exactly at the invalid cases -/
def sliceAll (D : Dims) (valid : Case → Bool) : List (Option Case) :=
  D.allCases.map fun c => if valid c then some c else none

/-- all slices along the axis `All`: exactly one -/
def slicesAll (D : Dims) (valid : Case → Bool) : List (List (Option Case)) := [sliceAll D valid]

end VerifModel.Axis
