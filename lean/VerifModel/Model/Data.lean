import VerifModel.Base.XR
import VerifModel.Base.Vec
/-
  Model of verif/data.py — the pure ("fresh Data object") semantics of

    Data.__init__        common dimensions, subsetting options
    Data._get_score      per-field loading, cutting to the common indices,
                         observation borrowing, cross-input NaN propagation
    Data.get_scores      obs range, climatology, validity mask, slicing

  Arrays are nested lists (time × lead time × location).  The stateful side
  (the two caches) is in Model/DataState.lean; Proofs/C18.lean shows that the
  stateful model always answers what this pure model answers.
-/
namespace VerifModel

abbrev Arr3 := List (List (List XR))

namespace Arr3
def map (f : XR → XR) (a : Arr3) : Arr3 := List.map (List.map (List.map f)) a
def map2 (f : XR → XR → XR) (a b : Arr3) : Arr3 :=
  List.zipWith (List.zipWith (List.zipWith f)) a b
def flat (a : Arr3) : Vec := (List.flatten a).flatten
def get (a : Arr3) (t l x : Nat) : XR := ((a.getD t []).getD l []).getD x .nan
end Arr3

structure Loc where
  id : XR
  lat : XR
  lon : XR
  elev : XR
  deriving DecidableEq, Repr, Inhabited

structure Input where
  times : List XR
  leads : List XR
  locs : List Loc
  /-- named 3-D fields: "obs", "fcst", "pit", any other score name -/
  fields : List (String × Arr3)
  deriving Repr, Inhabited

def Input.field? (I : Input) (name : String) : Option Arr3 := I.fields.lookup name

/-! ### common dimensions (`_get_common_indices`) -/

/-- insert into an ascending duplicate-free list -/
def insertU (x : XR) : List XR → List XR
  | [] => [x]
  | y :: ys => if XR.lt x y then x :: y :: ys else if XR.eqb x y then y :: ys else y :: insertU x ys

/-- `np.unique(np.sort(xs))` with NaN removed (NaNs are removed at the end by the code) -/
def sortU (xs : List XR) : List XR := (xs.filter fun x => !x.isNan).foldr insertU []

def memX (x : XR) (ys : List XR) : Bool := ys.any (XR.eqb x)

/-- values present in the user list (if any) and in every input, ascending, no duplicates, no NaN -/
def commonValues (aux : Option (List XR)) (cols : List (List XR)) : List XR :=
  let start := match aux with
    | some a => sortU a
    | none => match cols with
      | c :: _ => sortU c
      | [] => []
  cols.foldl (fun acc c => acc.filter fun v => memX v c) start

/-- first index holding the value (`np.where(v == temp)[0][0]`) -/
def firstIdx (v : XR) (xs : List XR) : Nat := xs.findIdx (XR.eqb v)

def indicesOf (avail col : List XR) : List Nat := avail.map fun v => firstIdx v col

/-- three successive fancy-index steps -/
def cut (a : Arr3) (It Il Ix : List Nat) : Arr3 :=
  It.map fun t => Il.map fun l => Ix.map fun x => a.get t l x

/-! ### configuration and construction -/

structure Cfg where
  times : Option (List XR) := none
  leads : Option (List XR) := none
  dateStarts : Option (List XR) := none     -- `-d`, already converted to unix day starts
  tods : Option (List XR) := none
  locations : Option (List XR) := none      -- `-l` ids
  locationsX : Option (List XR) := none     -- `-lx` ids
  latRange : Option (XR × XR) := none
  lonRange : Option (XR × XR) := none
  elevRange : Option (XR × XR) := none
  obsRange : Option (XR × XR) := none
  clim : Option Input := none
  climDivide : Bool := false
  obsField : String := "obs"                -- `-obs FIELD`  (Data(obs_field=…)): the stored field read as the observation
  fcstField : String := "fcst"              -- `-fcst FIELD` (Data(fcst_field=…)): the stored field read as the forecast
  deriving Repr, Inhabited

structure DataS where
  inputs : List Input          -- scored inputs followed by the climatology (if any)
  nScored : Nat
  cfg : Cfg
  times : List XR
  leads : List XR
  locs : List Loc
  timesI : List (List Nat)     -- per input (incl. climatology)
  leadsI : List (List Nat)
  locsI : List (List Nat)
  deriving Repr, Inhabited

def inRange (r : XR × XR) (v : XR) : Bool := XR.ge v r.1 && XR.le v r.2

/-- lat/lon range, -l, elevation range, -lx resolved to location ids (data.py:102-152) -/
def useLocations (first : Input) (cfg : Cfg) : Except String (List XR) := do
  let ids := first.locs.map (·.id)
  let u1 ← (if cfg.latRange.isSome || cfg.lonRange.isSome then
      let latR := cfg.latRange.getD (.ninf, .pinf)
      let lonR := cfg.lonRange.getD (.ninf, .pinf)
      let ll := (first.locs.filter fun l => inRange latR l.lat && inRange lonR l.lon).map (·.id)
      let u := match cfg.locations with
        | some ls => ls.filter fun l => memX l ll
        | none => ll
      if u.isEmpty then .error "No available locations within lat/lon range" else .ok u
    else match cfg.locations with
      | some ls => .ok ls
      | none => .ok ids)
  let u2 ← (match cfg.elevRange with
    | some r =>
      let el := (first.locs.filter fun l => inRange r l.elev).map (·.id)
      -- verif.util.intersect = list(set(a) & set(b)); only membership matters afterwards
      let u := u1.filter fun l => memX l el
      if u.isEmpty then .error "No available locations within elevation range" else .ok u
    | none => .ok u1)
  match cfg.locationsX with
  | some xs => .ok (u2.filter fun l => !memX l xs)
  | none => .ok u2

/-- truncation of a time to its day start / hour of day as data.py computes them -/
def dayStart (t : XR) : XR := match t with
  | .fin q => .fin ((q / 86400).floor * 86400 : Int)
  | x => x
def hourOfDay (t : XR) : XR := match t with
  | .fin q => .fin (((q.floor % 86400 : Int) : Rat) / 3600)
  | x => x

/-- the three "No valid … selected" error exits (data.py:159-164) -/
def checkNonEmpty (tvals lvals xvals : List XR) : Except String Unit :=
  if tvals.isEmpty then .error "No valid times selected"
  else if lvals.isEmpty then .error "No valid leadtimes selected"
  else if xvals.isEmpty then .error "No valid locations selected"
  else .ok ()

def Data.init (scored : List Input) (cfg : Cfg) : Except String DataS := do
  let inputs := scored ++ cfg.clim.toList
  let first ← match inputs with
    | f :: _ => pure f
    | [] => throw "no inputs"
  let useLocs ← useLocations first cfg
  let tvals := commonValues cfg.times (inputs.map (·.times))
  let lvals := commonValues cfg.leads (inputs.map (·.leads))
  let xvals := commonValues (some useLocs) (inputs.map fun I => I.locs.map (·.id))
  checkNonEmpty tvals lvals xvals
  let t1 := match cfg.dateStarts with
    | some ds => tvals.filter fun t => memX (dayStart t) ds
    | none => tvals
  let t2 := match cfg.tods with
    | some hs => t1.filter fun t => memX (hourOfDay t) hs
    | none => t1
  -- indices recomputed with the filtered times as the user list
  let tvals' := commonValues (some t2) (inputs.map (·.times))
  let xI0 := indicesOf xvals (first.locs.map (·.id))
  pure {
    inputs := inputs, nScored := scored.length, cfg := cfg,
    times := t2, leads := lvals, locs := xI0.map fun i => first.locs.getD i default,
    timesI := inputs.map fun I => indicesOf tvals' I.times,
    leadsI := inputs.map fun I => indicesOf lvals I.leads,
    locsI := inputs.map fun I => indicesOf xvals (I.locs.map (·.id)) }

/-! ### per-field arrays (`_get_score`) -/

def DataS.cutFor (D : DataS) (i : Nat) (a : Arr3) : Arr3 :=
  cut a (D.timesI.getD i []) (D.leadsI.getD i []) (D.locsI.getD i [])

/-- index of the input whose observation array input `i` uses: itself if it stores observations,
otherwise the first input that does (the code shares that input's array object) -/
def DataS.obsOwner (D : DataS) (i : Nat) : Nat :=
  if ((D.inputs.getD i default).field? "obs").isSome then i
  else ((List.range D.inputs.length).find? fun j => ((D.inputs.getD j default).field? "obs").isSome).getD i

def DataS.ownerOf (D : DataS) (name : String) (i : Nat) : Nat :=
  if name == "obs" then D.obsOwner i else i

/-- per input (incl. climatology): the field cut to the common indices, before propagation.
Observations: inputs that store none borrow the array of the first input that does. -/
def DataS.loadAll (D : DataS) (name : String) : Except String (List Arr3) :=
  let has := fun i => ((D.inputs.getD i default).field? name).isSome
  let idx := List.range D.inputs.length
  if name == "obs" then
    if idx.any has then
      .ok (idx.map fun i =>
        let o := D.obsOwner i
        D.cutFor o (((D.inputs.getD o default).field? "obs").getD []))
    else .error "No files have observations"
  else if idx.all has then
    .ok (idx.map fun i => D.cutFor i (((D.inputs.getD i default).field? name).getD []))
  else .error "does not contain"

/-- a usable value: neither NaN nor ±inf -/
def isValid (v : XR) : Bool := !v.isNan && !v.isInf

/-- is the cell missing (NaN or non-finite) in any of the arrays? -/
def anyNanAt (arrs : List Arr3) (t l x : Nat) : Bool := arrs.any fun b => !isValid (b.get t l x)

/-- cellwise map with indices -/
def mapIdx3 (f : Nat → Nat → Nat → XR → XR) (a : Arr3) : Arr3 :=
  a.mapIdx fun t row => row.mapIdx fun l r => r.mapIdx fun x v => f t l x v

/-- missing (NaN, ±inf) in any input ⇒ NaN in every input (data.py:590-595).  All arrays have the same shape here
(they are cut to the common indices). -/
def propagate (arrs : List Arr3) : List Arr3 :=
  arrs.map fun a => mapIdx3 (fun t l x v => if anyNanAt arrs t l x then .nan else v) a

/-- the array `_get_score(field, i)` returns on a fresh Data object -/
def DataS.fieldArr (D : DataS) (name : String) (i : Nat) : Except String Arr3 := do
  let arrs ← D.loadAll name
  pure ((propagate arrs).getD i [])

/-! ### `-obs FIELD` / `-fcst FIELD`

Stored CDF columns (`p@<t>`), stored quantile columns (`q@<q>`), ensemble members (`e@<k>`), the PIT and other-score
fields are NAMED fields of an input like "obs" and "fcst": a column of the input's 4-D `threshold_scores` /
`quantile_scores` / `ensemble` array is its own 3-D array.  (Deriving a CDF value or a quantile from ensemble members
when the column is not stored is Model/Prob.lean's subject, C08.)

The code resolves the observation / forecast field at request time (`field = self._obs_field`, data.py:459;
`field = self._fcst_field`, data.py:503) and keeps treating the REQUESTED field as observation / forecast for
borrowing, `-obsrange` and the climatology.  `loadAllF` mirrors that; `Input.resolved` is the same thing done once, in
front of everything else: the input in which "obs" names the stored field X and "fcst" the stored field Y
(Proofs/DataFields.lean: `loadAllF_resolved`, `init_resolved`). -/

/-- the stored field a requested field is loaded from -/
def Cfg.storedName (cfg : Cfg) (name : String) : String :=
  if name == "obs" then cfg.obsField else if name == "fcst" then cfg.fcstField else name

/-- can the field stand in for the observation?  The observation path of `_get_score` reads obs, fcst, the PIT and
other-score fields; a stored CDF / quantile column or an ensemble member is an error exit -/
def Cfg.obsFieldOK (cfg : Cfg) : Bool :=
  let kind := cfg.obsField.toList.take 2
  cfg.obsField == "obs" || !(kind == ['p', '@'] || kind == ['q', '@'] || kind == ['e', '@'])

/-- `_get_score` loading step under `-obs` / `-fcst`, as the code does it: the name is resolved, the borrowing
path is taken for the requested observation -/
def DataS.loadAllF (D : DataS) (name : String) : Except String (List Arr3) :=
  let stored := D.cfg.storedName name
  let has := fun i => ((D.inputs.getD i default).field? stored).isSome
  let idx := List.range D.inputs.length
  if name == "obs" then
    if idx.any has then
      if D.cfg.obsFieldOK then
        .ok (idx.map fun i =>
          let o := if has i then i else (idx.find? has).getD i
          D.cutFor o (((D.inputs.getD o default).field? stored).getD []))
      else .error "Cannot use this field as the observation field"
    else .error "No files have observations"
  else if idx.all has then
    .ok (idx.map fun i => D.cutFor i (((D.inputs.getD i default).field? stored).getD []))
  else .error "does not contain"

/-- the input read with the stored field `-obs` names as its observation and the stored field `-fcst` names as its
forecast; every other name is itself (the arrays stored under "obs" / "fcst" are then not reachable, as in the code).
A field that cannot stand in for the observation leaves the input without observations (error exit). -/
def Input.resolved (cfg : Cfg) (I : Input) : Input :=
  if cfg.obsField == "obs" && cfg.fcstField == "fcst" then I
  else { I with fields :=
    ((if cfg.obsFieldOK then I.field? cfg.obsField else none).map fun a => ("obs", a)).toList
    ++ (((I.field? cfg.fcstField).map fun a => ("fcst", a)).toList
    ++ I.fields.filter fun f => !(f.1 == "obs") && !(f.1 == "fcst")) }

def Cfg.resolved (cfg : Cfg) : Cfg := { cfg with clim := cfg.clim.map (Input.resolved cfg) }

/-- `Data(inputs, …, obs_field=X, fcst_field=Y)` -/
def Data.initF (scored : List Input) (cfg : Cfg) : Except String DataS :=
  Data.init (scored.map (Input.resolved cfg)) cfg.resolved

/-! ### slicing (`_apply_axis`) -/

inductive Sel where
  | all                         -- the whole 3-D array (axis All)
  | none                        -- pooled, flattened (axes no, threshold, obs, fcst)
  | time (i : Nat)
  | times (idx : List Nat)      -- time-derived axes: the init times falling in one bucket
  | leads (idx : List Nat)      -- lead-time-derived axes
  | loc (i : Nat)
  deriving Repr, Inhabited, DecidableEq

def applySel (a : Arr3) : Sel → Vec
  | .all => a.flat
  | .none => a.flat
  | .time i => (a.getD i []).flatten
  | .times idx => Arr3.flat (idx.map fun t => a.getD t [])
  | .leads idx => Arr3.flat (List.map (fun row => idx.map fun l => row.getD l []) a)
  | .loc i => (List.map (fun row => List.map (fun r => r.getD i .nan) row) a).flatten

/-- axis values → the indices belonging to the slice `k` (`axis_values == unique[k]`) -/
def groupIdx (vals : List XR) (k : Nat) : List Nat :=
  match (sortU vals)[k]? with
  | none => []
  | some u => (List.range vals.length).filter fun j => XR.eqb (vals.getD j .nan) u

/-! ### `get_scores` -/

structure Req where
  fields : List String
  input : Nat
  sel : Sel
  deriving Repr, Inhabited, DecidableEq

def maskObsRange (r : Option (XR × XR)) (name : String) (a : Arr3) : Arr3 :=
  match r with
  | some (lo, hi) =>
    if name == "obs" then a.map fun v => if XR.lt v lo || XR.gt v hi then .nan else v else a
  | none => a

/-- keep the positions where `keep` is true -/
def compress (keep : List Bool) (v : Vec) : Vec :=
  (List.zip keep v).filterMap fun p => if p.1 then some p.2 else none

/-- climatology adjustment: only observation and forecast values are altered -/
def climAdjust (divide : Bool) (name : String) (v : Vec) (clim : Option Vec) : Vec :=
  match clim with
  | some c =>
    if name == "obs" || name == "fcst" then (if divide then Vec.div v c else Vec.sub v c) else v
  | none => v

/-- a case is valid iff every requested column holds a finite number there -/
def validMask (cols : List Vec) : List Bool :=
  (List.range (cols.headD []).length).map fun k => cols.all fun c => isValid (c.getD k .nan)

/-- masking (whole-array requests) or compression, then the empty ⇒ [NaN] rule -/
def finish (sel : Sel) (nfields : Nat) (cols : List Vec) : List Vec :=
  let valid := validMask cols
  let out := match sel with
    | .all => cols.map fun c => List.zipWith (fun v ok => if ok then v else .nan) c valid
    | _ => cols.map (compress valid)
  if (out.headD []).isEmpty then List.replicate nfields [.nan] else out

/-- one requested column before validity filtering -/
def DataS.column (D : DataS) (r : Req) (clim : Option Vec) (name : String) : Except String Vec := do
  let a ← D.fieldArr name r.input
  pure (climAdjust D.cfg.climDivide name (applySel (maskObsRange D.cfg.obsRange name a) r.sel) clim)

/-- does the request involve the climatology? -/
def DataS.doClim (D : DataS) (r : Req) : Bool :=
  D.cfg.clim.isSome && (r.fields.contains "obs" || r.fields.contains "fcst")

/-- the climatology's forecast for the slice (when the request involves it) -/
def DataS.climP (D : DataS) (r : Req) : Except String (Option Vec) :=
  if D.doClim r then
    match D.fieldArr "fcst" (D.inputs.length - 1) with
    | .error e => .error e
    | .ok c => .ok (some (applySel c r.sel))
  else .ok none

def DataS.getScores (D : DataS) (r : Req) : Except String (List Vec) :=
  if r.input ≥ D.nScored then .error "input_index out of range"
  else
    match D.climP r with
    | .error e => .error e
    | .ok clim =>
      match r.fields.mapM (D.column r clim) with
      | .error e => .error e
      | .ok cols => .ok (finish r.sel r.fields.length cols)

end VerifModel
