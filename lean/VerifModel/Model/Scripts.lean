import VerifModel.Base.XR
import VerifModel.Base.Vec
import VerifModel.Model.Interval
/-
  Model of the helper scripts in /repo/scripts: accumulate.py, ens2prob.py,
  expandverif.py, window.py (and the pass-through part of text2nc.py).

  Hand-written mirror of what the code DOES.  SciPy/NumPy primitives enter with
  their documented definitions:
    scipy.signal.convolve(a, ones(w), "valid", method="direct")
                                                = sums over w consecutive entries
    np.cumsum / np.nancumsum                    = running sums (NaN as 0 for nancumsum)
    np.sort                                     = ascending, NaN last
    np.nanmean / np.mean                        = IEEE means (0/0 = nan)
    scipy.interpolate.interp1d(kind='zero', bounds_error=False)
                                                = previous-grid-point step function, NaN outside the grid
  and are tied to the real libraries by the correspondence stream of C20.
-/
namespace VerifModel.Scripts
open VerifModel

/-! ## 3-D fields (time, leadtime, location) -/

/-- A verif field: dimension sizes and the value stored for each index triple. -/
structure Arr3 where
  T : Nat
  L : Nat
  S : Nat
  cell : Nat → Nat → Nat → XR

/-- the series along the lead-time axis at (time t, location s) -/
def seriesLead (a : Arr3) (t s : Nat) : Vec := (List.range a.L).map fun l => a.cell t l s
/-- the series along the time axis at (lead time l, location s) -/
def seriesTime (a : Arr3) (l s : Nat) : Vec := (List.range a.T).map fun t => a.cell t l s

inductive Axis where
  | leadtime | time
  deriving DecidableEq, Repr

/-! ## accumulate.py -/

/-- `array[np.isnan(array)] = 0` -/
def zeroNan (v : Vec) : Vec := List.map (fun x => if x.isNan then XR.fin 0 else x) v

def cumsumFrom (acc : XR) : Vec → Vec
  | [] => []
  | x :: xs => (acc + x) :: cumsumFrom (acc + x) xs

/-- `np.cumsum` -/
def cumsum (v : Vec) : Vec := cumsumFrom (.fin 0) v

/-- `scipy.signal.convolve(v, ones(w), "valid", method="direct")`: entry s is the sum of v[s .. s+w-1];
`len(v) - w + 1` entries. -/
def convValid (w : Nat) (v : Vec) : Vec :=
  (List.range (v.length + 1 - w)).map fun s => Vec.sum ((v.drop s).take w)

/-- `convolve(array, window, ignore_missing, axis)` of accumulate.py on one series.
`none` = `verif.util.error("Window (%d) is longer than dimension size (%d)")`. -/
def convolve (w : Nat) (ignore : Bool) (v : Vec) : Option Vec :=
  if w > v.length then none
  else
    let a := if ignore then zeroNan v else v
    some (List.replicate (w - 1) XR.nan ++ convValid w a)

/-- accumulate.py on one series: `w = none` is "no -w" (cumulative); every `-w w` with w ≥ 1 goes
through `convolve` (`elif args.w >= 1`; `-w 0` leaves the series untouched); `-i` = ignore missing. -/
def accumulate (w : Option Nat) (ignore : Bool) (v : Vec) : Option Vec :=
  match w with
  | none => some (cumsum (if ignore then zeroNan v else v))   -- np.nancumsum / np.cumsum
  | some w => if w ≥ 1 then convolve w ignore v else some v

/-- entry i of the accumulated series (NaN stands in where the script has exited) -/
def accCell (w : Option Nat) (ignore : Bool) (series : Vec) (i : Nat) : XR :=
  match accumulate w ignore series with
  | some out => out.getD i .nan
  | none => .nan

/-- does the script stop with "Window is longer than dimension size"? -/
def windowTooLong (w : Option Nat) (n : Nat) : Bool :=
  match w with
  | some w => decide (w ≥ 1) && decide (w > n)
  | none => false

/-- accumulate.py on a whole field along `-x leadtime` (default) or `-x time` -/
def accumulate3 (axis : Axis) (w : Option Nat) (ignore : Bool) (a : Arr3) : Option Arr3 :=
  match axis with
  | .leadtime =>
    if windowTooLong w a.L then none
    else some { a with cell := fun t l s => accCell w ignore (seriesLead a t s) l }
  | .time =>
    if windowTooLong w a.T then none
    else some { a with cell := fun t l s => accCell w ignore (seriesTime a l s) t }

/-! ## ens2prob.py -/

/-- `np.sort(ens, axis=3)`: ascending with NaN at the end -/
def sortNanLast (v : Vec) : Vec :=
  Vec.sort (v.filter fun x => !x.isNan) ++ v.filter fun x => x.isNan

def lowerCdf : XR := .fin 0            -- `lower_cdf = 0`
def upperCdf : XR := .fin 1 - lowerCdf -- `upper_cdf = 1 - lower_cdf`

/-- cumulative probability at threshold t:
`cond[I] = ens[I] < threshold` (NaN elsewhere); `np.nanmean(cond) * (upper-lower) + lower/2` -/
def cdf (t : XR) (ens : Vec) : XR :=
  let cond : Vec := List.map (fun e => if e.isNan then XR.nan else boolToXR (XR.lt e t)) ens
  Vec.nanmean cond * (upperCdf - lowerCdf) + lowerCdf / .fin 2

/-- `np.linspace(lower_cdf, upper_cdf, M)` for lower = 0, upper = 1 -/
def linspace01 (M : Nat) : List Rat :=
  (List.range M).map fun (i : Nat) => if M ≤ 1 then (0 : Rat) else (i : Rat) / ((M : Rat) - 1)

/-- `interp1d(xs, ys, kind='zero', bounds_error=False)(q)`: the value at the last grid point
≤ q; NaN outside [first, last] grid point -/
def interpZero (xs : List Rat) (ys : Vec) (q : Rat) : XR :=
  match xs.head?, xs.getLast? with
  | some lo, some hi =>
    if q < lo ∨ hi < q then .nan        -- `bounds_error=False`: fill value NaN
    else ys.getD (xs.countP (fun x => decide (x ≤ q)) - 1) .nan
  | _, _ => .nan

/-- value at quantile level q: `x = ens[..., -1]` if `quantile == 1` else `f(quantile)` -/
def quantile (q : XR) (ens : Vec) : XR :=
  let s := sortNanLast ens
  if XR.eqb q (.fin 1) then s.getLastD .nan
  else match q with
    | .fin q => interpZero (linspace01 s.length) s q
    | _ => .nan

/-- `pit = np.mean(ens < obs)` over the members; `pit[np.isnan(obs)] = np.nan` -/
def pit (obs : XR) (ens : Vec) : XR :=
  if obs.isNan then .nan
  else Vec.mean (List.map (fun e => boolToXR (XR.lt e obs)) ens)

/-! ## expandverif.py -/

/-- `int(t / 86400) * 86400` -/
def wholeDay (t : Int) : Int := (t.tdiv 86400) * 86400

def insertUniq (x : Int) : List Int → List Int
  | [] => [x]
  | y :: ys => if x < y then x :: y :: ys else if x = y then y :: ys else y :: insertUniq x ys

/-- `np.unique`: ascending without repeats -/
def uniqueSorted (l : List Int) : List Int := l.foldr insertUniq []

/-- output initialisation times: for each `-i` hour (outer), each whole day of the input (inner) -/
def expandTimes (itimes : List Int) (inits : List Rat) : List Rat :=
  inits.flatMap fun h => (uniqueSorted (itimes.map wholeDay)).map fun (d : Int) => (d : Rat) + h * 3600

/-- `alltimes.flatten()`: valid time of every stored (time, leadtime), time-major -/
def allTimes (itimes : List Int) (ileads : List Rat) : List Rat :=
  itimes.flatMap fun (t : Int) => ileads.map fun (l : Rat) => l * 3600 + (t : Rat)

/-- index of the first element satisfying p (`np.where(...)[0][0]`) -/
def firstIdx {α : Type} (p : α → Bool) : List α → Option Nat
  | [] => none
  | x :: xs => if p x then some 0 else (firstIdx p xs).map (· + 1)

/-- the observation written at output (init time ot, lead time ol), location s:
that of the first stored (t0,l0) with t0 + 3600·l0 = ot + 3600·ol; the fill value (missing) if none -/
def expandCell (itimes : List Int) (ileads : List Rat) (obs : Arr3) (ot ol : Rat) (s : Nat) : XR :=
  match firstIdx (fun v => decide (v = ot + ol * 3600)) (allTimes itimes ileads) with
  | some i => obs.cell (i / ileads.length) (i % ileads.length) s
  | none => .nan

/-! ## window.py -/

/-- `calculate_window` on one series: for each lead time o, q = number of k ≥ o whose running
total from o lies in the interval, I = min(o+q, O-1); the value is leadtimes[I] − leadtimes[o];
NaN where the input was NaN. -/
def windowSeries (I : Interval) (leads : Vec) (v : Vec) : Vec :=
  (List.range v.length).map fun o =>
    if (v.getD o .nan).isNan then XR.nan
    else
      let q := (cumsum (v.drop o)).countP fun c => I.within c == some true
      leads.getD (Nat.min (q + o) (v.length - 1)) .nan - leads.getD o .nan

/-! ## whole files -/

/-- what the scripts read from an input file (`verif.input.get_input`) -/
structure VFile where
  name : String
  units : String
  times : List Int
  leads : List Rat
  ids : Vec
  lats : Vec
  lons : Vec
  elevs : Vec
  obs : Option Arr3
  fcst : Option Arr3
  M : Nat
  ens : Nat → Nat → Nat → Nat → XR

def VFile.member (f : VFile) (t l s : Nat) : Vec := (List.range f.M).map fun m => f.ens t l s m

/-- accumulate.py on one field of the file: an absent field (a verif file may hold only obs or
only fcst) stays absent; `none` = the script stops (window too long) -/
def accumulateField (axis : Axis) (w : Option Nat) (ignore : Bool) : Option Arr3 → Option (Option Arr3)
  | none => some none
  | some a => (accumulate3 axis w ignore a).map some

/-- accumulate.py: the fields that are present are accumulated, an absent field is not written,
everything else is copied.  `none` = the script stops (window too long). -/
def accumulateFile (axis : Axis) (w : Option Nat) (ignore : Bool) (f : VFile) : Option VFile :=
  match accumulateField axis w ignore f.obs, accumulateField axis w ignore f.fcst with
  | some o', some fc' => some { f with obs := o', fcst := fc' }
  | _, _ => none

/-- `calculate_window` on a whole field (along the lead-time axis) -/
def window3 (I : Interval) (leads : Vec) (a : Arr3) : Arr3 :=
  { a with cell := fun t l s => (windowSeries I leads (seriesLead a t s)).getD l .nan }

/-- window.py: the fields that are present are turned into windows, an absent field (a verif file
may hold only obs or only fcst) is not written, everything else is copied.  The script has no
error exit of its own once the interval is built. -/
def windowFile (I : Interval) (f : VFile) : VFile :=
  let leads : Vec := f.leads.map XR.fin
  { f with obs := f.obs.map (window3 I leads), fcst := f.fcst.map (window3 I leads) }

/-- text2nc.py: times, lead times, location metadata, obs and fcst are written as read
(the probabilistic columns are C10's subject) -/
def text2ncFile (f : VFile) : VFile := f

/-- output of ens2prob.py -/
structure ProbFile where
  base : VFile
  thresholds : Vec
  quantiles : Vec
  cdf : Nat → Nat → Nat → Nat → XR        -- (time, leadtime, location, threshold index)
  x : Nat → Nat → Nat → Nat → XR          -- (time, leadtime, location, quantile index)
  pit : Option (Nat → Nat → Nat → XR)

def ens2probFile (thresholds quantiles : Vec) (wantPit : Bool) (f : VFile) : ProbFile :=
  { base := f
    thresholds := thresholds
    quantiles := quantiles
    cdf := fun t l s i => cdf (thresholds.getD i .nan) (f.member t l s)
    x := fun t l s i => quantile (quantiles.getD i .nan) (f.member t l s)
    pit := if wantPit then
        f.obs.map fun o => fun t l s => pit (o.cell t l s) (f.member t l s)
      else none }

/-- output of expandverif.py: new times and lead times, observations re-indexed; name, units and
location metadata copied.  (`fcst` is created but never written: all missing.) -/
structure ExpandFile where
  name : String
  units : String
  times : List Rat
  leads : List Rat
  ids : Vec
  lats : Vec
  lons : Vec
  elevs : Vec
  obs : Arr3

def expandFile (inits oleads : List Rat) (f : VFile) : Option ExpandFile :=
  match f.obs with
  | none => none
  | some o =>
    let ot := expandTimes f.times inits
    some { name := f.name, units := f.units, times := ot, leads := oleads
           ids := f.ids, lats := f.lats, lons := f.lons, elevs := f.elevs
           obs := ⟨ot.length, oleads.length, o.S, fun t l s =>
             expandCell f.times f.leads o (ot.getD t 0) (oleads.getD l 0) s⟩ }

end VerifModel.Scripts
