import VerifModel.Base.XR
import VerifModel.Base.Tr
/-
  Line-protocol helpers for the executable driver: parsing and printing of
  numbers (`num/den`, `nan`, `inf`, `-inf`), vectors (comma separated, `-` = empty)
  and a `Float` instance of `Tr`.
-/
namespace VerifModel.Proto
open VerifModel

def parseInt? (s : String) : Option Int := s.toInt?

def parseXR? (s : String) : Option XR :=
  if s == "nan" then some .nan
  else if s == "inf" then some .pinf
  else if s == "-inf" then some .ninf
  else match s.splitOn "/" with
    | [n] => (parseInt? n).map fun n => .fin (n : Rat)
    | [n, d] => do
        let n ← parseInt? n
        let d ← d.toNat?
        if d == 0 then none else some (.fin (mkRat n d))
    | _ => none

def parseVec? (s : String) : Option Vec :=
  if s == "-" || s == "" then some []
  else (s.splitOn ",").mapM parseXR?

def showVec (v : Vec) : String :=
  if v.isEmpty then "-" else ",".intercalate (v.map toString)

def showOptBool : Option Bool → String
  | none => "m"
  | some true => "t"
  | some false => "f"

/-- Rat → Float (correct to a few ulp; transcendental results are compared with tolerance) -/
def ratToFloat (q : Rat) : Float :=
  Float.ofInt q.num / Float.ofNat q.den

/-- Float → Rat, exact (decodes the IEEE-754 bits; non-finite ↦ 0, never used) -/
def floatToRat (f : Float) : Rat :=
  let b := f.toBits.toNat
  let sign : Int := if b / 2 ^ 63 = 1 then -1 else 1
  let e : Nat := (b / 2 ^ 52) % 2048
  let m : Nat := b % 2 ^ 52
  if e = 2047 then 0
  else
    let (mant, ex) : Nat × Int := if e = 0 then (m, -1074) else (m + 2 ^ 52, (e : Int) - 1075)
    if ex ≥ 0 then ((sign * (mant * 2 ^ ex.toNat : Nat) : Int) : Rat)
    else mkRat (sign * (mant : Int)) (2 ^ (-ex).toNat)

def floatTr : Tr where
  sqrtQ q := floatToRat (Float.sqrt (ratToFloat q))
  logQ q := floatToRat (Float.log (ratToFloat q))
  expQ q := floatToRat (Float.exp (ratToFloat q))
  cbrtQ q := floatToRat (Float.pow (ratToFloat q) (1.0 / 3.0))

end VerifModel.Proto
