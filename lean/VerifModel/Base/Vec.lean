import VerifModel.Base.XR
import VerifModel.Base.Tr
/-
  Vec — NumPy-style operations on 1-D arrays (List XR) used by the generated
  definitions: elementwise arithmetic with broadcasting of scalars,
  comparisons, reductions, sorting.
-/
namespace VerifModel.Vec
open VerifModel

/-- embed a list of rationals as a vector of finite values -/
def ofRats (xs : List Rat) : Vec := List.map XR.fin xs

def mapX (f : XR → XR) (v : Vec) : Vec := List.map f v
def neg (v : Vec) : Vec := List.map XR.neg v
def abs (v : Vec) : Vec := List.map XR.abs v
def npow (v : Vec) (n : Nat) : Vec := List.map (fun x => XR.npow x n) v

def add (v w : Vec) : Vec := List.zipWith (· + ·) v w
def sub (v w : Vec) : Vec := List.zipWith (· - ·) v w
def mul (v w : Vec) : Vec := List.zipWith (· * ·) v w
def div (v w : Vec) : Vec := List.zipWith (· / ·) v w

def addS (v : Vec) (s : XR) : Vec := List.map (· + s) v
def subS (v : Vec) (s : XR) : Vec := List.map (· - s) v
def mulS (v : Vec) (s : XR) : Vec := List.map (· * s) v
def divS (v : Vec) (s : XR) : Vec := List.map (· / s) v

def sAdd (s : XR) (v : Vec) : Vec := List.map (s + ·) v
def sSub (s : XR) (v : Vec) : Vec := List.map (s - ·) v
def sMul (s : XR) (v : Vec) : Vec := List.map (s * ·) v
def sDiv (s : XR) (v : Vec) : Vec := List.map (s / ·) v

def cmp (r : XR → XR → Bool) (v w : Vec) : List Bool := List.zipWith r v w
def cmpS (r : XR → XR → Bool) (v : Vec) (s : XR) : List Bool := List.map (fun x => r x s) v
def countTrue (b : List Bool) : XR := XR.ofNat (b.filter id).length

/-- np.nanmean: mean of the non-NaN entries (0/0 = nan when there are none) -/
def nanmean (v : Vec) : XR := Vec.mean (v.filter (fun x => !x.isNan))

/-- np.var (population variance, ddof = 0) -/
def var (v : Vec) : XR :=
  let m := Vec.mean v
  Vec.mean (List.map (fun x => x * x) (subS v m))

def std (T : Tr) (v : Vec) : XR := T.sqrt (var v)

/-- insertion into an ascending list (IEEE `<`; the model never sorts NaN) -/
def insertSorted (x : XR) : Vec → Vec
  | [] => [x]
  | y :: ys => if XR.lt y x then y :: insertSorted x ys else x :: y :: ys

/-- np.sort: ascending, stable is irrelevant for values -/
def sort (v : Vec) : Vec := v.foldr insertSorted []

def minimum (v : Vec) : XR := match v with
  | [] => .nan
  | x :: xs => xs.foldl (fun a b => if b.isNan || a.isNan then .nan else XR.min a b) x

def maximum (v : Vec) : XR := match v with
  | [] => .nan
  | x :: xs => xs.foldl (fun a b => if b.isNan || a.isNan then .nan else XR.max a b) x

end VerifModel.Vec
