/-
  Proleptic Gregorian calendar on `Nat` (core Lean only).

  Days are counted from 0000-03-01 (day 0), the convention of H. Hinnant's
  `civil_from_days` / `days_from_civil` ("chrono-Compatible Low-Level Date
  Algorithms"), so that every intermediate quantity is a natural number and the
  kernel can evaluate the functions with its GMP-accelerated `Nat` primitives.
  1970-01-01 is day `epoch = 719468`.  This is what Python's `datetime` /
  `calendar.timegm` compute for the instants verif passes to them; the tie to
  the real code is the exhaustive correspondence stream of C11.
-/
namespace VerifModel.Calendar

/-- day number (from 0000-03-01) of 1970-01-01 -/
def epoch : Nat := 719468

/-- a civil date (year, month 1..12, day 1..31) -/
structure Date where
  y : Nat
  m : Nat
  d : Nat
  deriving DecidableEq, Repr, Inhabited

/-- Hinnant's `civil_from_days`, argument already shifted to the 0000-03-01 origin. -/
def civilFromDays (z : Nat) : Date :=
  let era := z / 146097
  let doe := z % 146097
  let yoe := (doe - doe / 1460 + doe / 36524 - doe / 146096) / 365
  let doy := doe - (365 * yoe + yoe / 4 - yoe / 100)
  let mp := (5 * doy + 2) / 153
  let d := doy - (153 * mp + 2) / 5 + 1
  let m := if mp < 10 then mp + 3 else mp - 9
  let y := yoe + era * 400
  ⟨if m ≤ 2 then y + 1 else y, m, d⟩

/-- Hinnant's `days_from_civil` (result counted from 0000-03-01; total on `Nat`:
meaningful for year ≥ 1, month 1..12, day ≥ 1). -/
def daysFromCivil (y m d : Nat) : Nat :=
  let y' := if m ≤ 2 then y - 1 else y
  let era := y' / 400
  let yoe := y' % 400
  let mp := if m > 2 then m - 3 else m + 9
  let doy := (153 * mp + 2) / 5 + d - 1
  let doe := yoe * 365 + yoe / 4 - yoe / 100 + doy
  era * 146097 + doe

def daysOf (c : Date) : Nat := daysFromCivil c.y c.m c.d

/-- weekday, Monday = 0 … Sunday = 6 (`datetime.weekday()`); 0000-03-01 is a Wednesday -/
def weekday (z : Nat) : Nat := (z + 2) % 7

/-- `YYYYMMDD` integer of a date and back (verif's "date" representation) -/
def Date.toYmd (c : Date) : Nat := c.y * 10000 + c.m * 100 + c.d

def Date.ofYmd (n : Nat) : Date := ⟨n / 10000, n / 100 % 100, n % 100⟩

/-- `allFrom p lo n`: `p` holds for `lo, lo+1, …, lo+n-1` (structural recursion, kernel friendly) -/
def allFrom (p : Nat → Bool) : Nat → Nat → Bool
  | _, 0 => true
  | lo, n + 1 => p lo && allFrom p (lo + 1) n

theorem allFrom_spec (p : Nat → Bool) (lo n : Nat) (h : allFrom p lo n = true) :
    ∀ z, lo ≤ z → z < lo + n → p z = true := by
  induction n generalizing lo with
  | zero => intro z h1 h2; omega
  | succ n ih =>
    intro z h1 h2
    simp only [allFrom, Bool.and_eq_true] at h
    by_cases hz : z = lo
    · subst hz; exact h.1
    · exact ih (lo + 1) h.2 z (by omega) (by omega)

end VerifModel.Calendar
