import VerifModel.Base.XR
import VerifModel.Base.Vec
/-
  MA — the few `numpy.ma` operations on masked BOOLEAN arrays that the generated definitions
  (Gen/Abcd.lean) use.  One element of a masked boolean array is an `Option Bool`
  (`none` = masked); an array is a list of elements.

  NumPy semantics mirrored here (checked against NumPy by the stream cont.genabcd on every run):
    * a binary ufunc on masked arrays masks an element iff it is masked in either operand;
    * `x == 0`, `~x`, `np.logical_not(x)` keep the mask;
    * `np.ma.sum` adds the unmasked elements (True = 1) and returns `masked` when there is no
      unmasked element (in particular for the empty array).
-/
namespace VerifModel.MA

def and : Option Bool → Option Bool → Option Bool
  | some a, some b => some (a && b)
  | _, _ => none

def or : Option Bool → Option Bool → Option Bool
  | some a, some b => some (a || b)
  | _, _ => none

def not : Option Bool → Option Bool
  | some a => some (!a)
  | none => none

/-- `np.ma.sum(<masked bool array>)`: `none` = the constant `masked` -/
def sum (xs : List (Option Bool)) : Option Nat :=
  if xs.all Option.isNone then none else some (xs.countP (· == some true))

/-! ### index sets `I = np.where(mask)[0]` of a 1-D array, kept as the mask itself (Gen/Brier.lean) -/

/-- `x[I]`: the elements at the positions where the mask is true, in order -/
def take : List Bool → Vec → Vec
  | true :: m, x :: xs => x :: take m xs
  | false :: m, _ :: xs => take m xs
  | _, _ => []

/-- `x[I] = v` for an array `v` with one element per selected position -/
def put : Vec → List Bool → Vec → Vec
  | _ :: xs, true :: m, v :: vs => v :: put xs m vs
  | x :: xs, true :: m, [] => x :: put xs m []
  | x :: xs, false :: m, vs => x :: put xs m vs
  | xs, _, _ => xs

/-- `x[I] = s` for a scalar `s` (broadcast) -/
def putS : Vec → List Bool → XR → Vec
  | x :: xs, b :: m, s => (if b then s else x) :: putS xs m s
  | xs, _, _ => xs

end VerifModel.MA
