import VerifModel.Base.XR
/-
  Tr — the real functions verif takes from NumPy/SciPy (sqrt, log, exp, the
  normal quantile function).  They are *parameters* of the model: a theorem
  quantifies over every `Tr` (optionally over every lawful one), the
  executable driver instantiates them with `Float`.

  `logQ`, `sqrtQ`, … act on rationals; the lift to `XR` fixes the IEEE
  behaviour at the specials and outside the domain (log 0 = -inf, log of a
  negative = nan, sqrt of a negative = nan).
-/
namespace VerifModel

structure Tr where
  sqrtQ : Rat → Rat
  logQ : Rat → Rat
  expQ : Rat → Rat
  cbrtQ : Rat → Rat

namespace Tr

def sqrt (T : Tr) : XR → XR
  | .fin q => if q < 0 then .nan else .fin (T.sqrtQ q)
  | .pinf => .pinf
  | .ninf => .nan
  | .nan => .nan

def log (T : Tr) : XR → XR
  | .fin q => if q < 0 then .nan else if q = 0 then .ninf else .fin (T.logQ q)
  | .pinf => .pinf
  | .ninf => .nan
  | .nan => .nan

/-- `x ** (1.0/3)`: NaN for negatives (NumPy float power) -/
def cbrt (T : Tr) : XR → XR
  | .fin q => if q < 0 then .nan else .fin (T.cbrtQ q)
  | .pinf => .pinf
  | .ninf => .nan
  | .nan => .nan

def exp (T : Tr) : XR → XR
  | .fin q => .fin (T.expQ q)
  | .pinf => .pinf
  | .ninf => .fin 0
  | .nan => .nan

/-- The laws the property theorems use.  They hold for the real functions and
(on the inputs the harness generates) for their IEEE double versions. -/
structure Lawful (T : Tr) : Prop where
  sqrt_zero : T.sqrtQ 0 = 0
  sqrt_nonneg : ∀ q, 0 ≤ q → 0 ≤ T.sqrtQ q
  sqrt_mono : ∀ p q, 0 ≤ p → p ≤ q → T.sqrtQ p ≤ T.sqrtQ q
  log_one : T.logQ 1 = 0
  log_lt : ∀ p q, 0 < p → p < q → T.logQ p < T.logQ q
  cbrt_zero : T.cbrtQ 0 = 0
  cbrt_nonneg : ∀ q, 0 ≤ q → 0 ≤ T.cbrtQ q
  exp_zero : T.expQ 0 = 1

end Tr
end VerifModel
