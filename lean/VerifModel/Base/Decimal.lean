import VerifModel.Base.XR
/-
  Decimal — C / Python `%.{p}g` applied to the EXACT rational value of a number
  (every finite double is a rational; the harness passes doubles exactly).

    "%g"   % y  = fmtG 6 y      (Output.csv, numeric descriptors of Output.text)
    "%.4g" % y  = fmtG 4 y      (Output.text)
    "%-*s" / "%-*g" / "%-*.4g"  = padRight width (…)

  The C rule (ISO C 7.21.6.1, `g` conversion):  let P = p (1 if p = 0); convert in
  style `e` with P-1 decimals, giving the decimal exponent X *after rounding*;
  if  -4 ≤ X < P  use style `f` with P-1-X decimals, else style `e` with P-1
  decimals; then remove trailing zeros of the fraction and a trailing point.
  CPython rounds the exact binary value correctly (round-half-even on the exact
  value, `PyOS_double_to_string` → `_Py_dg_dtoa` mode 2), which is what
  `roundHalfEven` below does on the rational.

  Everything is on `List Char` (kernel-reducible, provable); `fmtG` wraps the
  result into a `String` for the driver.  Negative zero is not modelled (XR has
  a single zero).
-/
namespace VerifModel.Decimal
open VerifModel

/-! ### integer helpers (structural recursion on a fuel argument so that the kernel can
evaluate them; the fuel `n` is always sufficient because `n < 10 ^ n`) -/

/-- ⌊log₁₀ n⌋ with fuel (0 for n < 10) -/
def ilog10F : Nat → Nat → Nat
  | 0, _ => 0
  | f + 1, n => if n < 10 then 0 else ilog10F f (n / 10) + 1

/-- ⌊log₁₀ n⌋ for n ≥ 1 (and 0 for n = 0) -/
def ilog10 (n : Nat) : Nat := ilog10F n n

/-- ⌊log₁₀ (n / m)⌋ for positive naturals n, m:
    n ≥ m : the number of digits of ⌊n/m⌋ minus one;
    n < m : -k for the least k ≥ 1 with n·10^k ≥ m, and that k is the number of digits of
            ⌈m/n⌉ - 1 = ⌊(m-1)/n⌋. -/
def floorLog10 (n m : Nat) : Int :=
  if m ≤ n then (ilog10 (n / m) : Int) else -((ilog10 ((m - 1) / n) : Int) + 1)

/-- N / D rounded to the nearest natural, ties to even -/
def roundHalfEven (N D : Nat) : Nat :=
  let q := N / D
  let r := N % D
  if 2 * r < D then q else if D < 2 * r then q + 1 else if q % 2 = 0 then q else q + 1

/-- (n/m) / 10^s as a fraction of naturals -/
def scaleND (n m : Nat) (s : Int) : Nat × Nat :=
  if 0 ≤ s then (n, m * 10 ^ s.toNat) else (n * 10 ^ (-s).toNat, m)

/-- P significant decimal digits and a decimal exponent: the value is
`digits · 10^(exp - (P-1))`, with `10^(P-1) ≤ digits < 10^P`. -/
structure Dec where
  digits : Nat
  exp : Int
  deriving DecidableEq, Repr

/-- correctly rounded P-digit decimal of n/m (n, m > 0, P ≥ 1) -/
def toDec (P n m : Nat) : Dec :=
  let e := floorLog10 n m
  let nd := scaleND n m (e - ((P : Int) - 1))
  let d := roundHalfEven nd.1 nd.2
  if d = 10 ^ P then ⟨10 ^ (P - 1), e + 1⟩ else ⟨d, e⟩

/-- the rational a `Dec` denotes -/
def Dec.value (P : Nat) (d : Dec) : Rat :=
  let s := d.exp - ((P : Int) - 1)
  if 0 ≤ s then (d.digits * 10 ^ s.toNat : Nat) else mkRat d.digits (10 ^ (-s).toNat)

/-! ### digits and characters -/

def digitChar (d : Nat) : Char := Char.ofNat (48 + d)

/-- decimal digits, least significant first, at least one digit, no leading zero -/
def digitsRevF : Nat → Nat → List Nat
  | 0, n => [n]
  | f + 1, n => if n < 10 then [n] else (n % 10) :: digitsRevF f (n / 10)

def digitsRev (n : Nat) : List Nat := digitsRevF n n

/-- exactly k digits of n mod 10^k, least significant first -/
def padRev : Nat → Nat → List Nat
  | 0, _ => []
  | k + 1, n => (n % 10) :: padRev k (n / 10)

def natChars (n : Nat) : List Char := (digitsRev n).reverse.map digitChar

/-- the fraction n / 10^k (n < 10^k) as ".ddd" without trailing zeros; empty if it is zero -/
def fracChars (k n : Nat) : List Char :=
  let ds := ((padRev k n).dropWhile (· == 0)).reverse
  if ds.isEmpty then [] else '.' :: ds.map digitChar

/-- style `f` with P-1-X decimals, trailing zeros removed (used for -4 ≤ X < P) -/
def fixedChars (P : Nat) (d : Dec) : List Char :=
  let k := ((P : Int) - 1 - d.exp).toNat
  natChars (d.digits / 10 ^ k) ++ fracChars k (d.digits % 10 ^ k)

/-- `e+XX` / `e-XX`, at least two exponent digits -/
def expChars (X : Int) : List Char :=
  let a := X.natAbs
  'e' :: (if X < 0 then '-' else '+') :: (if a < 10 then '0' :: natChars a else natChars a)

/-- style `e` with P-1 decimals, trailing zeros removed -/
def sciChars (P : Nat) (d : Dec) : List Char :=
  natChars (d.digits / 10 ^ (P - 1)) ++ fracChars (P - 1) (d.digits % 10 ^ (P - 1)) ++ expChars d.exp

def precOf (p : Nat) : Nat := if p = 0 then 1 else p

/-- is the rounded exponent in the range where `%g` uses fixed notation? -/
def useFixed (P : Nat) (d : Dec) : Bool := decide (-4 ≤ d.exp) && decide (d.exp < (P : Int))

/-- `%.{p}g` of a non-zero rational -/
def fmtRatChars (p : Nat) (q : Rat) : List Char :=
  let P := precOf p
  let d := toDec P q.num.natAbs q.den
  (if q < 0 then ['-'] else []) ++ (if useFixed P d then fixedChars P d else sciChars P d)

/-- `"%.{p}g" % x` as a character list -/
def fmtGChars (p : Nat) : XR → List Char
  | .nan => ['n', 'a', 'n']
  | .pinf => ['i', 'n', 'f']
  | .ninf => ['-', 'i', 'n', 'f']
  | .fin q => if q = 0 then ['0'] else fmtRatChars p q

/-- `"%.{p}g" % x` -/
def fmtG (p : Nat) (x : XR) : String := String.ofList (fmtGChars p x)

/-- `"%-*s" % (w, s)`: left-justified, padded with blanks to at least w characters -/
def padRight (w : Nat) (s : List Char) : List Char := s ++ List.replicate (w - s.length) ' '

/-! ### reading a decimal numeral back (used by the soundness theorems; `none` if malformed) -/

def digitVal? (c : Char) : Option Nat :=
  if '0' ≤ c ∧ c ≤ '9' then some (c.toNat - 48) else none

/-- value of a digit string, most significant first -/
def digitsVal? (cs : List Char) : Option Nat :=
  cs.foldl (fun acc c => do let a ← acc; let d ← digitVal? c; pure (10 * a + d)) (some 0)

def isDigitC (c : Char) : Bool := decide ('0' ≤ c) && decide (c ≤ '9')

/-- 10^e as a rational for an integer e -/
def pow10 (e : Int) : Rat := if 0 ≤ e then ((10 ^ e.toNat : Nat) : Rat) else mkRat 1 (10 ^ (-e).toNat)

/-- unsigned numeral  ddd[.ddd][e±dd] -/
def unsignedVal? (cs : List Char) : Option Rat :=
  let (ip, r1) := cs.span isDigitC
  if ip.isEmpty then none else do
    let i ← digitsVal? ip
    let (fr, r2) : List Char × List Char := match r1 with
      | '.' :: r => r.span isDigitC
      | _ => ([], r1)
    let f ← digitsVal? fr
    let m : Rat := (i : Rat) + mkRat f (10 ^ fr.length)
    match r2 with
    | [] => some m
    | 'e' :: s :: ds =>
        if ds.isEmpty then none else do
          let a ← digitsVal? ds
          if s = '+' then some (m * pow10 a)
          else if s = '-' then some (m * pow10 (-(a : Int)))
          else none
    | _ => none

/-- the number a `%g` output denotes (`nan`, `inf`, `-inf`, signed decimal numerals) -/
def valueOf? (cs : List Char) : Option XR :=
  if cs = ['n', 'a', 'n'] then some .nan
  else if cs = ['i', 'n', 'f'] then some .pinf
  else if cs = ['-', 'i', 'n', 'f'] then some .ninf
  else match cs with
    | '-' :: r => (unsignedVal? r).map fun v => .fin (-v)
    | _ => (unsignedVal? cs).map .fin

end VerifModel.Decimal
