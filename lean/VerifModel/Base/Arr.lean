import VerifModel.Base.XR
/-
  Arr — an n-dimensional NumPy array as its shape and its C-order (row-major)
  flat data.  Well-formed: `data.length = prod dims`.
-/
namespace VerifModel

structure Arr where
  dims : List Nat
  data : List XR
  deriving DecidableEq, Repr, Inhabited

namespace Arr

/-- product of a list of extents (the number of cells of that shape) -/
def prod : List Nat → Nat
  | [] => 1
  | d :: ds => d * prod ds

def WF (a : Arr) : Prop := a.data.length = prod a.dims

instance (a : Arr) : Decidable a.WF := inferInstanceAs (Decidable (_ = _))

/-- row-major flat index of a multi-index (one entry per dimension) -/
def flatIndex : List Nat → List Nat → Nat
  | _ :: ds, i :: is => i * prod ds + flatIndex ds is
  | _, _ => 0

/-- the multi-index is inside the shape -/
def InBounds : List Nat → List Nat → Prop
  | [], [] => True
  | d :: ds, i :: is => i < d ∧ InBounds ds is
  | _, _ => False

end Arr
end VerifModel
