/-
  XR — the numeric domain of the model: an exact rational, or one of the IEEE
  specials that verif's NumPy code can produce (+inf, -inf, NaN).

  The operations follow NumPy's float64 rules for the specials (x/0 = ±inf,
  0/0 = nan, inf-inf = nan, 0*inf = nan, every comparison with nan is false),
  but finite arithmetic is exact: there is no rounding in this model (see
  DESIGN.md §2.2 — rounding is in the trusted base, not in the theorems).
  Signed zeros are not modelled (1/(-0.0) does not occur in the modelled code).
-/
namespace VerifModel

inductive XR where
  | fin (q : Rat)
  | pinf
  | ninf
  | nan
  deriving DecidableEq, Repr, Inhabited

namespace XR

instance : OfNat XR n := ⟨fin (n : Rat)⟩
instance : Coe Rat XR := ⟨fin⟩

def ofNat (n : Nat) : XR := fin (n : Rat)
def ofInt (n : Int) : XR := fin (n : Rat)

def isNan : XR → Bool
  | nan => true
  | _ => false

def isInf : XR → Bool
  | pinf => true
  | ninf => true
  | _ => false

def isFinite : XR → Bool
  | fin _ => true
  | _ => false

/-- sign of a rational as an `XR` infinity (used for x/0 and inf*x) -/
def infOfSign (q : Rat) : XR :=
  if q = 0 then nan else if q > 0 then pinf else ninf

def neg : XR → XR
  | fin q => fin (-q)
  | pinf => ninf
  | ninf => pinf
  | nan => nan

def add : XR → XR → XR
  | nan, _ => nan
  | _, nan => nan
  | fin x, fin y => fin (x + y)
  | fin _, pinf => pinf
  | fin _, ninf => ninf
  | pinf, fin _ => pinf
  | ninf, fin _ => ninf
  | pinf, pinf => pinf
  | ninf, ninf => ninf
  | pinf, ninf => nan
  | ninf, pinf => nan

def sub (a b : XR) : XR := add a (neg b)

def mul : XR → XR → XR
  | nan, _ => nan
  | _, nan => nan
  | fin x, fin y => fin (x * y)
  | fin x, pinf => infOfSign x
  | fin x, ninf => infOfSign (-x)
  | pinf, fin y => infOfSign y
  | ninf, fin y => infOfSign (-y)
  | pinf, pinf => pinf
  | ninf, ninf => pinf
  | pinf, ninf => ninf
  | ninf, pinf => ninf

def div : XR → XR → XR
  | nan, _ => nan
  | _, nan => nan
  | fin x, fin y => if y = 0 then infOfSign x else fin (x / y)
  | fin _, pinf => fin 0
  | fin _, ninf => fin 0
  | pinf, fin y => if y < 0 then ninf else pinf   -- inf / 0.0 = inf
  | ninf, fin y => if y < 0 then pinf else ninf
  | pinf, pinf => nan
  | ninf, ninf => nan
  | pinf, ninf => nan
  | ninf, pinf => nan

instance : Neg XR := ⟨neg⟩
instance : Add XR := ⟨add⟩
instance : Sub XR := ⟨sub⟩
instance : Mul XR := ⟨mul⟩
instance : Div XR := ⟨div⟩

def abs : XR → XR
  | fin q => fin (if q < 0 then -q else q)
  | pinf => pinf
  | ninf => pinf
  | nan => nan

/-- IEEE `<` : false whenever a NaN is involved -/
def lt : XR → XR → Bool
  | nan, _ => false
  | _, nan => false
  | fin x, fin y => decide (x < y)
  | fin _, pinf => true
  | fin _, ninf => false
  | pinf, _ => false
  | ninf, fin _ => true
  | ninf, pinf => true
  | ninf, ninf => false

/-- IEEE `<=` -/
def le : XR → XR → Bool
  | nan, _ => false
  | _, nan => false
  | fin x, fin y => decide (x ≤ y)
  | fin _, pinf => true
  | fin _, ninf => false
  | pinf, pinf => true
  | pinf, _ => false
  | ninf, _ => true

def gt (a b : XR) : Bool := lt b a
def ge (a b : XR) : Bool := le b a

/-- IEEE `==` : nan ≠ nan -/
def eqb : XR → XR → Bool
  | fin x, fin y => decide (x = y)
  | pinf, pinf => true
  | ninf, ninf => true
  | _, _ => false

def eq0 (a : XR) : Bool := eqb a (fin 0)

/-- integer power with a natural exponent (`x**2`, `x**3`) -/
def npow (a : XR) : Nat → XR
  | 0 => fin 1
  | n + 1 => mul (npow a n) a

def min (a b : XR) : XR := if lt b a then b else a   -- np.minimum without nan handling
def max (a b : XR) : XR := if lt a b then b else a

def toString : XR → String
  | fin q => if q.den = 1 then s!"{q.num}" else s!"{q.num}/{q.den}"
  | pinf => "inf"
  | ninf => "-inf"
  | nan => "nan"

instance : ToString XR := ⟨toString⟩

end XR

abbrev Vec := List XR

namespace Vec
def sum (v : Vec) : XR := v.foldl (· + ·) (XR.fin 0)
def len (v : Vec) : XR := XR.ofNat v.length
def mean (v : Vec) : XR := sum v / len v
end Vec

end VerifModel
