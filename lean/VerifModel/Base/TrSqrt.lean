import VerifModel.Base.Tr
/-
  Pointwise facts about the square root of a `Tr`, used by the correlation theorems of C05.

  The real square root satisfies `√q · √q = q` for every q ≥ 0; no rational-valued function does
  (√2 is irrational), so this cannot be a field of `Tr.Lawful` (the structure would have no
  instance).  The theorems therefore take the fact AT THE ONE ARGUMENT they use: "the computed
  root of q is exact" (`SqrtExactAt`), or, where the code clips the result to [-1, 1], the weaker
  "the computed root is positive and not above the true root" (`SqrtBelowAt`).  IEEE `sqrt` is
  correctly rounded: it satisfies `SqrtExactAt q` whenever √q is representable and misses it by at
  most one unit in the last place otherwise (that rounding is in the trusted base, DESIGN §2.2).
  `SqrtPos` (positive arguments have positive roots) holds for IEEE `sqrt` exactly.
-/
namespace VerifModel.Tr

/-- positive arguments have positive roots -/
def SqrtPos (T : Tr) : Prop := ∀ q : Rat, 0 < q → 0 < T.sqrtQ q

/-- the computed root of `q` is exact -/
def SqrtExactAt (T : Tr) (q : Rat) : Prop := 0 ≤ T.sqrtQ q ∧ T.sqrtQ q * T.sqrtQ q = q

/-- the computed root of `q` is positive and does not exceed the true root -/
def SqrtBelowAt (T : Tr) (q : Rat) : Prop := 0 < T.sqrtQ q ∧ T.sqrtQ q * T.sqrtQ q ≤ q

end VerifModel.Tr
