import VerifModel.Base.Proto
import VerifModel.Model.Axis
import VerifModel.Spec.Calendar
/- Driver ops for the axis buckets, date conversions and slicing (C11). -/
namespace VerifModel.Driver.Axis
open VerifModel Proto VerifModel.Axis VerifModel.Calendar

def showRat (q : Rat) : String := toString (XR.fin q)

def showRats (l : List Rat) : String :=
  if l.isEmpty then "-" else ",".intercalate (l.map showRat)

def parseRat? (s : String) : Option Rat :=
  match parseXR? s with
  | some (.fin q) => some q
  | _ => none

def parseRats? (s : String) : Option (List Rat) :=
  if s == "-" || s == "" then some [] else (s.splitOn ",").mapM parseRat?

def ratToInt? (q : Rat) : Option Int := if q.den = 1 then some q.num else none

def parseInts? (s : String) : Option (List Int) := do
  let qs ← parseRats? s
  qs.mapM ratToInt?

def parseLoc? (s : String) : Option Loc :=
  match s.splitOn ":" with
  | [a, b, c, d] => do some ⟨← parseRat? a, ← parseRat? b, ← parseRat? c, ← parseRat? d⟩
  | _ => none

def parseLocs? (s : String) : Option (List Loc) :=
  if s == "-" then some [] else (s.splitOn ";").mapM parseLoc?

def convInt (fn : String) (x : Int) : Option String :=
  match fn with
  | "date_to_unixtime" => if x < 0 then none else some (toString (dateToUnixtime x.toNat))
  | "unixtime_to_date" => some (toString (unixtimeToDate x))
  | "date_to_datenum" => if x < 0 then none else some (toString (dateToDatenum x.toNat))
  | "unixtime_to_datenum" => some (showRat (unixtimeToDatenum x))
  | "rt_date_unix" => if x < 0 then none else some (toString (unixtimeToDate (dateToUnixtime x.toNat)))
  | "rt_unix_date" => some (toString (dateToUnixtime (unixtimeToDate x)))
  | "rt_date_datenum" =>
      if x < 0 then none else some (toString (datenumToDate ((dateToDatenum x.toNat : Int) : Rat)))
  | "rt_unix_datenum" => some (toString (datenumToDate (unixtimeToDatenum x)))
  | _ => none

def handle (args : List String) : Option String :=
  match args with
  | ["bucket", ax, xs] => do
      let k ← Kind.ofName? ax
      match k.timeBucket? with
      | some f => do
          let ts ← parseInts? xs
          some (showRats (ts.map f))
      | none =>
        match k.leadBucket? with
        | some g => do
            let ls ← parseRats? xs
            some (showRats (ls.map g))
        | none => none
  | ["conv", "datenum_to_date", xs] => do
      let ns ← parseRats? xs
      some (",".intercalate (ns.map fun n => toString (datenumToDate n)))
  | ["conv", "get_date", xs] => do
      -- pairs date:diff
      let ps ← (xs.splitOn ",").mapM fun p =>
        match p.splitOn ":" with
        | [d, k] => do some ((← d.toNat?), (← k.toInt?))
        | _ => none
      some (",".intercalate (ps.map fun (d, k) => toString (getDate d k)))
  | ["conv", fn, xs] => do
      let ts ← parseInts? xs
      let outs ← ts.mapM (convInt fn)
      some (",".intercalate outs)
  | ["slices", ax, ts, ls, locs, mask, _how] => do
      let k ← Kind.ofName? ax
      let D : Dims := ⟨← parseInts? ts, ← parseRats? ls, ← parseLocs? locs⟩
      let (L, S) := (D.leadtimes.length, D.locs.length)
      let bits := mask.toList
      if bits.length ≠ D.times.length * L * S then none else
      let flat : Case → Nat := fun c => c.1 * L * S + c.2.1 * S + c.2.2
      let valid : Case → Bool := fun c => bits[flat c]? == some '1'
      let showSlice (s : List Case) : String :=
        if s.isEmpty then "nan" else ",".intercalate (s.map fun c => toString (flat c))
      some (showRats (axisValues k D) ++ "|" ++ ";".intercalate ((slices k D valid).map showSlice))
  | ["spec_dates", ks] => do
      -- textbook calendar (Spec): civil date and weekday of the days k1 ≤ k2 ≤ … after 1970-01-01,
      -- by iterating "the day after"
      let ks ← parseInts? ks
      let step : (Nat × Date) × List String → Int → (Nat × Date) × List String :=
        fun ((k0, c0), acc) k =>
          let k := k.toNat
          let c := if k0 ≤ k then Spec.Cal.addDays c0 (k - k0) else Spec.Cal.dateOfEpochDay k
          ((k, c), s!"{c.toYmd}:{Spec.Cal.weekdayOfEpochDay k}" :: acc)
      let (_, out) := ks.foldl step ((0, ⟨1970, 1, 1⟩), [])
      some (",".intercalate out.reverse)
  | _ => none

end VerifModel.Driver.Axis
