import VerifModel.Base.Proto
import VerifModel.Model.Axis
import VerifModel.Model.AxisAll
import VerifModel.Gen.Axis
import VerifModel.Spec.Calendar
/- Driver ops for the axis buckets, date conversions and slicing (C11). -/
namespace VerifModel.Driver.Axis
open VerifModel Proto VerifModel.Axis VerifModel.Calendar

def showRat (q : Rat) : String := toString (XR.fin q)

def showRats (l : List Rat) : String :=
  if l.isEmpty then "-" else ",".intercalate (l.map showRat)

def parseRat? (s : String) : Option Rat :=
  match parseXR? s with
  | some (.fin q) => some q
  | _ => none

def parseRats? (s : String) : Option (List Rat) :=
  if s == "-" || s == "" then some [] else (s.splitOn ",").mapM parseRat?

def ratToInt? (q : Rat) : Option Int := if q.den = 1 then some q.num else none

def parseInts? (s : String) : Option (List Int) := do
  let qs ← parseRats? s
  qs.mapM ratToInt?

def parseLoc? (s : String) : Option Loc :=
  match s.splitOn ":" with
  | [a, b, c, d] => do some ⟨← parseRat? a, ← parseRat? b, ← parseRat? c, ← parseRat? d⟩
  | _ => none

def parseLocs? (s : String) : Option (List Loc) :=
  if s == "-" then some [] else (s.splitOn ";").mapM parseLoc?

def convInt (fn : String) (x : Int) : Option String :=
  match fn with
  | "date_to_unixtime" => if x < 0 then none else some (toString (dateToUnixtime x.toNat))
  | "unixtime_to_date" => some (toString (unixtimeToDate x))
  | "date_to_datenum" => if x < 0 then none else some (toString (dateToDatenum x.toNat))
  | "unixtime_to_datenum" => some (showRat (unixtimeToDatenum x))
  | "rt_date_unix" => if x < 0 then none else some (toString (unixtimeToDate (dateToUnixtime x.toNat)))
  | "rt_unix_date" => some (toString (dateToUnixtime (unixtimeToDate x)))
  | "rt_date_datenum" =>
      if x < 0 then none else some (toString (datenumToDate ((dateToDatenum x.toNat : Int) : Rat)))
  | "rt_unix_datenum" => some (toString (datenumToDate (unixtimeToDatenum x)))
  | _ => none

/-- `d=20000101,20000102;tod=0,6;t=946684800` (any subset of the three keys) or `-` -/
def parseSubset? (s : String) : Option TimeSubset :=
  if s == "-" then some {} else
  (s.splitOn ";").foldlM (init := ({} : TimeSubset)) fun acc part =>
    match part.splitOn "=" with
    | ["d", v] => do
        let xs ← parseInts? v
        if xs.any (· < 0) then none else some { acc with dates := some (xs.map Int.toNat) }
    | ["tod", v] => do some { acc with tods := some (← parseInts? v) }
    | ["t", v] => do some { acc with times := some (← parseInts? v) }
    | _ => none

/-- the dataset of a `slices` / `slicescli` op after the user's subset: the restricted dimensions and
the flat index (into the unrestricted `T x L x S` grid) of a case of the restricted dataset;
`none` where `Data.__init__` exits ("No valid times selected": `-t` leaves no time) -/
def subsetDataset (D : Dims) (sub : TimeSubset) : Option (Dims × (Case → Nat)) :=
  let (L, S) := (D.leadtimes.length, D.locs.length)
  let D' := D.restrict sub.keep
  let K := keptIdx sub.keep D.times
  let emptyT : Bool := match sub.times with
    | none => D.times.isEmpty
    | some ts => (D.times.filter ts.contains).isEmpty
  if emptyT then none else
  some (D', fun c => (K[c.1]?).getD 0 * L * S + c.2.1 * S + c.2.2)

/-- `slices all …`: `Data.get_scores([Obs, Fcst], 0, verif.axis.All())`: shape and the whole array in
row-major order, the flat index of the case where it is valid and `nan` where it is not; `nan` alone
where no initialisation time survives (`scores[0].shape[0] == 0` in get_scores) -/
def slicesAllOp (ts ls locs mask sub : String) : Option String := do
  let D : Dims := ⟨← parseInts? ts, ← parseRats? ls, ← parseLocs? locs⟩
  let sub ← parseSubset? sub
  let bits := mask.toList
  if bits.length ≠ D.times.length * D.leadtimes.length * D.locs.length then none else
  match subsetDataset D sub with
  | none => some "ERR"
  | some (D', flat) =>
    let valid : Case → Bool := fun c => bits[flat c]? == some '1'
    if D'.times.isEmpty then some "nan" else
    let showCell : Option Case → String
      | some c => toString (flat c)
      | none => "nan"
    some (s!"{D'.times.length},{D'.leadtimes.length},{D'.locs.length}|" ++
      ",".intercalate ((sliceAll D' valid).map showCell))

def slicesOp (ax ts ls locs mask sub : String) : Option String := do
  if ax == "all" then slicesAllOp ts ls locs mask sub else
  let k ← Kind.ofName? ax
  let D : Dims := ⟨← parseInts? ts, ← parseRats? ls, ← parseLocs? locs⟩
  let sub ← parseSubset? sub
  let bits := mask.toList
  if bits.length ≠ D.times.length * D.leadtimes.length * D.locs.length then none else
  match subsetDataset D sub with
  | none => some "ERR"
  | some (D', flat) =>
    let valid : Case → Bool := fun c => bits[flat c]? == some '1'
    let showSlice (s : List Case) : String :=
      if s.isEmpty then "nan" else ",".intercalate (s.map fun c => toString (flat c))
    some (showRats (axisValues k D') ++ "|" ++ ";".intercalate ((slices k D' valid).map showSlice))

/-- the forecast error the harness writes for flat case `q` (props/c11.py `_offset`) and the one of
the second file (`_offset2`) -/
def absQ (x : Rat) : Rat := if x < 0 then -x else x
def offset1 (q : Nat) : Rat := (((7 * q) % 5 : Nat) : Rat) - 2 + (if q % 3 = 0 then 1 / 2 else 0)
def offset2 (q : Nat) : Rat := 1 / 4 - offset1 q

/-- `verif f [g] -m obs -agg count | -m mae  -x <axis> -type csv`: number of rows and the score
column of every file.  obs is missing in case `q` iff `mask[q] = 0` and `q` is even, fcst of file 1
iff `mask[q] = 0` and `q` is odd, fcst of file 2 iff `mask2[q] = 0`. -/
def cliOp (ax metric ts ls locs mask sub mask2 : String) : Option String := do
  let k ← Kind.ofName? ax
  let D : Dims := ⟨← parseInts? ts, ← parseRats? ls, ← parseLocs? locs⟩
  let sub ← parseSubset? sub
  let bits := mask.toList
  let two := mask2 != "-"
  let bits2 := mask2.toList
  let n := D.times.length * D.leadtimes.length * D.locs.length
  if bits.length ≠ n || (two && bits2.length ≠ n) then none else
  match subsetDataset D sub with
  | none => some "ERR"
  | some (D', flat) =>
    let m1 : Nat → Bool := fun q => bits[q]? == some '1'
    let m2 : Nat → Bool := fun q => !two || bits2[q]? == some '1'
    let showCol (f : List Case → String) (valid : Case → Bool) : String :=
      let ss := slices k D' valid
      if ss.isEmpty then "-" else ",".intercalate (ss.map f)
    match metric with
    | "count" =>
      let col := showCol (fun s => toString s.length) (fun c => m1 (flat c) || flat c % 2 == 1)
      some (toString (axisValues k D').length ++ "|" ++ col ++ (if two then "|" ++ col else ""))
    | "mae" =>
      let valid : Case → Bool := fun c => m1 (flat c) && m2 (flat c)
      let mean (off : Nat → Rat) (s : List Case) : String :=
        if s.isEmpty then "nan" else
          showRat ((s.map fun c => absQ (off (flat c))).foldl (· + ·) 0 / (s.length : Rat))
      some (toString (axisValues k D').length ++ "|" ++ showCol (mean offset1) valid ++
        (if two then "|" ++ showCol (mean offset2) valid else ""))
    | _ => none

def handle (args : List String) : Option String :=
  match args with
  | ["bucket", ax, xs] => do
      let k ← Kind.ofName? ax
      match k.timeBucket? with
      | some f => do
          let ts ← parseInts? xs
          some (showRats (ts.map f))
      | none =>
        match k.leadBucket? with
        | some g => do
            let ls ← parseRats? xs
            some (showRats (ls.map g))
        | none => none
  | ["conv", "datenum_to_date", xs] => do
      let ns ← parseRats? xs
      some (",".intercalate (ns.map fun n => toString (datenumToDate n)))
  | ["conv", "get_date", xs] => do
      -- pairs date:diff
      let ps ← (xs.splitOn ",").mapM fun p =>
        match p.splitOn ":" with
        | [d, k] => do some ((← d.toNat?), (← k.toInt?))
        | _ => none
      some (",".intercalate (ps.map fun (d, k) => toString (getDate d k)))
  | ["conv", fn, xs] => do
      let ts ← parseInts? xs
      let outs ← ts.mapM (convInt fn)
      some (",".intercalate outs)
  | ["slices", ax, ts, ls, locs, mask, _how] => slicesOp ax ts ls locs mask "-"
  | ["slices", ax, ts, ls, locs, mask, _how, sub] => slicesOp ax ts ls locs mask sub
  | ["slicescli", ax, metric, ts, ls, locs, mask, _how, sub, mask2] =>
      cliOp ax metric ts ls locs mask sub mask2
  | ["genbucket", "leadtimeday", xs] => do
      let ls ← parseRats? xs
      some (showRats (ls.map fun l => ((Gen.Axis.leadtimeday l : Int) : Rat)))
  | ["genbucket", "timeofday", xs] => do
      let ts ← parseInts? xs
      some (showRats (ts.map Gen.Axis.timeofday))
  | ["spec_dates", ks] => do
      -- textbook calendar (Spec): civil date and weekday of the days k1 ≤ k2 ≤ … after 1970-01-01,
      -- by iterating "the day after"
      let ks ← parseInts? ks
      let step : (Nat × Date) × List String → Int → (Nat × Date) × List String :=
        fun ((k0, c0), acc) k =>
          let k := k.toNat
          let c := if k0 ≤ k then Spec.Cal.addDays c0 (k - k0) else Spec.Cal.dateOfEpochDay k
          ((k, c), s!"{c.toYmd}:{Spec.Cal.weekdayOfEpochDay k}" :: acc)
      let (_, out) := ks.foldl step ((0, ⟨1970, 1, 1⟩), [])
      some (",".intercalate out.reverse)
  | _ => none

end VerifModel.Driver.Axis
