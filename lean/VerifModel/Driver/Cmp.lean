import VerifModel.Base.Proto
import VerifModel.Model.Interval
import VerifModel.Spec.Events
import VerifModel.Gen.Cmp
/- Driver ops for the comparison kernels (C07). -/
namespace VerifModel.Driver.Cmp
open VerifModel Proto

def parseBool? (s : String) : Option Bool :=
  if s == "1" then some true else if s == "0" then some false else none

def parseOptXR? (s : String) : Option (Option XR) :=
  if s == "-" then some none else (parseXR? s).map some

def showInterval (I : Interval) : String :=
  s!"{I.lower}:{I.upper}:{if I.lowerEq then 1 else 0}:{if I.upperEq then 1 else 0}"

def showOptVec : Option (List XR) → String
  | none => "ERR"
  | some v => showVec v

def handle (args : List String) : Option String :=
  match args with
  | ["within", lo, hi, le, ue, xs] => do
      let I : Interval := ⟨← parseXR? lo, ← parseXR? hi, ← parseBool? le, ← parseBool? ue⟩
      let xs ← parseVec? xs
      some ("".intercalate (xs.map fun x => showOptBool (I.within x)))
  | ["withinS", lo, hi, le, ue, xs] => do
      let I : Interval := ⟨← parseXR? lo, ← parseXR? hi, ← parseBool? le, ← parseBool? ue⟩
      let xs ← parseVec? xs
      some ("".intercalate (xs.map fun x => showOptBool (I.within x)))
  | ["event", b, t, u, xs] => do
      let b ← BinType.ofName? b
      let (t, u, xs) := (← parseXR? t, ← parseXR? u, ← parseVec? xs)
      some ("".intercalate (xs.map fun x => showOptBool ((intervalOf b t u).within x)))
  | ["gwithinA", lo, hi, le, ue, xs] => do
      let (lo, hi, le, ue) := (← parseXR? lo, ← parseXR? hi, ← parseBool? le, ← parseBool? ue)
      let xs ← parseVec? xs
      some ("".intercalate (xs.map fun x =>
        showOptBool (if x.isNan then none else some (Gen.Cmp.withinArray lo hi le ue x))))
  | ["gwithinS", lo, hi, le, ue, xs] => do
      let (lo, hi, le, ue) := (← parseXR? lo, ← parseXR? hi, ← parseBool? le, ← parseBool? ue)
      let xs ← parseVec? xs
      some ("".intercalate (xs.map fun x =>
        showOptBool (if x.isNan then none else some (Gen.Cmp.withinScalar lo hi le ue x))))
  | ["infcmp", b, t, u, xs] => do
      -- both evaluators side by side (C07_inf_disagree): "<thresholded value>:<membership>" per value
      let b ← BinType.ofName? b
      let (t, u, xs) := (← parseXR? t, ← parseXR? u, ← parseVec? xs)
      let cells ← xs.mapM fun x => (applyThreshold b t (some u) x).map fun v =>
        s!"{v}:{showOptBool ((intervalOf b t u).within x)}"
      some (";".intercalate cells)
  | ["thresh", b, t, u, xs] => do
      let b ← BinType.ofName? b
      let (t, u, xs) := (← parseXR? t, ← parseOptXR? u, ← parseVec? xs)
      some (showOptVec (xs.mapM fun x => applyThreshold b t u x))
  | ["gthresh", b, t, u, xs] => do
      let (t, u, xs) := (← parseXR? t, ← parseOptXR? u, ← parseVec? xs)
      some (showOptVec (xs.mapM fun x =>
        if x.isNan then (Gen.Cmp.applyThreshold b t u (.fin 0)).map (fun _ => x)
        else Gen.Cmp.applyThreshold b t u x))
  | ["tprob", b, p, pu] => do
      let b ← BinType.ofName? b
      let (p, pu) := (← parseXR? p, ← parseOptXR? pu)
      some (match applyThresholdProb b p pu with | none => "ERR" | some v => toString v)
  | ["gtprob", b, p, pu] => do
      let (p, pu) := (← parseXR? p, ← parseOptXR? pu)
      some (match Gen.Cmp.applyThresholdProb b p pu with | none => "ERR" | some v => toString v)
  | ["intervals", b, ts] => do
      let b ← BinType.ofName? b
      let ts ← if ts == "none" then some none else (parseVec? ts).map some
      some (";".intercalate ((getIntervals b ts).map showInterval))
  | ["gintervalBody", b, t, u] => do
      let (t, u) := (← parseXR? t, ← parseXR? u)
      some (match Gen.Cmp.intervalBody b t u with | none => "ERR" | some I => showInterval I)
  | ["partition", ts, xs] => do
      let (ts, xs) := (← parseVec? ts, ← parseVec? xs)
      let ivs := getIntervals .withinEq (some ts)
      some (",".intercalate (xs.map fun x =>
        toString (ivs.filter (fun I => I.within x == some true)).length))
  | ["center", lo, hi] => do
      let I : Interval := ⟨← parseXR? lo, ← parseXR? hi, false, false⟩
      some (toString I.center)
  | ["spec_event", b, t, u, xs] => do
      -- the documented relation itself (oracle); finite rationals only
      let b ← BinType.ofName? b
      let (t, u, xs) := (← parseXR? t, ← parseXR? u, ← parseVec? xs)
      match t, u with
      | .fin t, .fin u =>
        some ("".intercalate (xs.map fun x => match x with
          | .fin x => if Spec.event b t u x then "t" else "f"
          | .nan => "m"
          | _ => "?"))
      | _, _ => none
  | _ => none

end VerifModel.Driver.Cmp
