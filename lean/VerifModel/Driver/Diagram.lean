import VerifModel.Base.Proto
import VerifModel.Model.Diagram
import VerifModel.Model.DiagramMore
import VerifModel.Model.DiagramStd
import VerifModel.Spec.Diagram
/-
  Driver ops for C16:
    diag <name> <opts> <in0> [<in1> …]     the series the modelled diagram draws
        opts   k=v;k=v or -     m (metric / field)  b (bin type)  r  q  ax (vectors)  simple=1
                                tm, ld (initialisation times, lead times: timeseries, meteo)
        in<k>  key=v1|v2|…;key=…          valid-case vectors per slice, as fetched by Data.get_scores
      reply  <axes>:<kind>:<label>:<x>:<y>[:<w>];…     or UNMODELLED
    bin <edges> <x> <y>                    util.bin  ->  xx:yy:counts
    fillpoly <xs> <lower> <upper>          util.fill: the polygon's vertices  ->  X:Y   (- : nothing drawn)
    diagseq <op> // <op> // …              diagrams drawn one after the other from one dataset: the model is a pure
                                           function of the dataset, so each <op> (a `diag …` line) is answered as if it
                                           were alone  ->  reply@@reply@@…
    spec_bincount <conv> <edges> <x>       Spec: number of bins of the convention that contain x
-/
namespace VerifModel.Driver.Diagram
open VerifModel Proto VerifModel.Diagram

structure Opts where
  m : String := ""
  b : Option BinType := none
  r : Option Vec := none
  q : Option Vec := none
  ax : Option Vec := none
  simple : Bool := false
  tm : Vec := []          -- initialisation times (unixtime) and lead times (hours): timeseries, meteo
  ld : Vec := []
  agg : Agg := .mean      -- -agg
  acc : Bool := false     -- -acc
  xk : String := "data"   -- kind of x-axis: threshold | no | data (standard, obsfcst)

abbrev Inp := List (String × List Vec)

def parseOpts (s : String) : Option Opts :=
  if s == "-" then some {} else
  (s.splitOn ";").foldlM (fun (o : Opts) kv =>
    match kv.splitOn "=" with
    | k :: rest =>
      let v := "=".intercalate rest
      if k == "m" then some { o with m := v }
      else if k == "b" then (BinType.ofName? v).map fun b => { o with b := some b }
      else if k == "r" then (parseVec? v).map fun x => { o with r := some x }
      else if k == "q" then (parseVec? v).map fun x => { o with q := some x }
      else if k == "ax" then (parseVec? v).map fun x => { o with ax := some x }
      else if k == "simple" then some { o with simple := true }
      else if k == "tm" then (parseVec? v).map fun x => { o with tm := x }
      else if k == "ld" then (parseVec? v).map fun x => { o with ld := x }
      else if k == "agg" then (Agg.get v).map fun a => { o with agg := a }
      else if k == "acc" then some { o with acc := true }
      else if k == "xk" then some { o with xk := v }
      else some o
    | _ => none) {}

def parseInp (s : String) : Option Inp :=
  (s.splitOn ";").mapM fun kv =>
    match kv.splitOn "=" with
    | [k, v] => ((v.splitOn "|").mapM parseVec?).map fun sl => (k, sl)
    | _ => none

def getS (i : Inp) (k : String) : List Vec := (i.lookup k).getD []
def get1 (i : Inp) (k : String) : Vec := (getS i k).headD []

def showSeries (s : Series) : String :=
  let base := s!"{s.ax}:{s.kind}:{s.label}:{showVec s.xs}:{showVec s.ys}"
  match s.ws with
  | some w => base ++ ":" ++ showVec w
  | none => base

def showFig (l : List Series) : String := if l.isEmpty then "-" else ";".intercalate (l.map showSeries)

/-- "%g" of 100·q for the quantile levels the harness uses (integers) -/
def pct (q : XR) : String :=
  match q with
  | .fin r => let p := r * 100; if p.den = 1 then s!"{p.num}%" else s!"{p.num}/{p.den}%"
  | _ => "?%"

def line (ax : Nat) (label : String) (xs ys : Vec) : Series := { ax := ax, kind := "line", label := label, xs := xs, ys := ys }

def zipSl (a b : List Vec) : List (Vec × Vec) := a.zip b

/-- standard: in<k> carries o<i>, a<i>, b<i> = the columns get_scores returned for interval i (observation, second
field, third field), one slice after the other -/
def stdCells (i : Inp) (n : Nat) : List (List DiagramStd.Cols) :=
  (List.range n).map fun k =>
    let a := getS i s!"a{k}"
    let b := getS i s!"b{k}"
    (getS i s!"o{k}").zipIdx.map fun s => (s.1, a.getD s.2 [], b.getD s.2 [])

def xKind (s : String) : DiagramStd.XKind :=
  if s == "threshold" then .threshold else if s == "no" then .no else .data


def figure (T : Tr) (name : String) (o : Opts) (ins : List Inp) : Option (List Series) :=
  let F := ins.length
  let bAbove := o.b.getD .above
  let bWithin := o.b.getD .withinEq
  let t : XR := ((o.r.getD []).headD .nan)
  let hasAx := o.ax.isSome
  let ivs := getIntervals bWithin o.r
  let centers := ivs.map Interval.center
  match name with
  | "obsfcst" =>
    let qs := o.q.getD []
    let cols := ins.map fun i => (getS i "fcst", qs.zipIdx.map fun q => (pct q.1, getS i s!"q{q.2}"))
    if o.agg == .mean && !o.acc && o.xk != "no" then
      some (obsfcstSeries (o.ax.getD []) (getS (ins.headD []) "obs") cols)
    else
      some (DiagramStd.obsfcstFigure T o.agg o.acc (o.xk == "no") (o.ax.getD []) (getS (ins.headD []) "obs") cols)
  | "qq" =>
    let qs := o.q.getD []
    some (perInput (fun k i =>
      let col := fun key => if hasAx then DiagramStd.sliceAgg T o.agg (getS i key) else get1 i key
      let s := qqSeries (col "obs") (col "fcst")
      line 0 (inName k ++ (if qs.isEmpty then "" else "_(deterministic)")) s.1 s.2 ::
        qs.zipIdx.map fun q => line 0 (inName k ++ "_(" ++ pct q.1 ++ ")") s.1 (sortN (col s!"q{q.2}"))) ins)
  | "scatter" =>
    some (perInput (fun k i =>
      let col := fun key => if hasAx then DiagramStd.sliceAgg T o.agg (getS i key) else get1 i key
      let obs := col "obs"
      let fc := col "fcst"
      line 0 (inName k) obs fc ::
        (match o.simple, o.r with
         | false, some edges =>
           let vals := scatterQuantiles edges obs fc
           let m := mids edges
           (vals.zipIdx.map fun v =>
              line 0 (if k = 0 then (if v.2 = 0 then "1%" else if v.2 = 10 then "99%" else if v.2 = 1 then "10%-90%" else "_") else "_") v.1 m) ++
           (m.zipIdx.map fun mi =>
              line 0 "_" [((vals[1]?.getD [])[mi.2]?).getD .nan, ((vals[9]?.getD [])[mi.2]?).getD .nan] [mi.1, mi.1])
         | _, _ => [])) ins)
  | "cond" =>
    some (perInput (fun k i =>
      let fo := condSeries ivs (get1 i "obs") (get1 i "fcst")
      let of := condSeries ivs (get1 i "fcst") (get1 i "obs")
      [line 0 (inName k ++ "_(F|O)") fo.1 fo.2, line 0 (inName k ++ "_(O|F)") of.2 of.1]) ins)
  | "freq" =>
    some (perInput (fun k i => [line 0 (inName k) centers (freqSeries ivs (get1 i "fcst"))]) ins ++
      [line 0 "Observed" centers (freqSeries ivs (get1 (ins.getLastD []) "obs"))])
  | "hist" => some (perInput (fun k i => [line 0 (inName k) centers (histSeries ivs (get1 i "v"))]) ins)
  | "sort" => some (perInput (fun k i => let s := sortSeries (get1 i "v"); [line 0 (inName k) s.1 s.2]) ins)
  | "marginal" =>
    let ts := o.r.getD []
    let pt := fun (i : Inp) => ts.zipIdx.map fun tj => marginalPoint bAbove tj.1 (get1 i s!"o{tj.2}") (get1 i s!"p{tj.2}")
    some (perInput (fun k i => [line 0 (inName k) ts ((pt i).map (·.1))]) ins ++
      [line 0 "Observed" ts ((pt (ins.getLastD [])).map (·.2))])
  | "reliability" =>
    let edges := o.q.getD reliabilityDefaultEdges
    let rel := ins.map fun i => reliabilitySeries 5 edges (relCases bAbove t (get1 i "obs") (get1 i "p"))
    let main := perInput (fun k r => [line 0 (inName k) (r.map (·.1)) (r.map (·.2.1))]) rel
    let anyBig := rel.any fun r => r.any fun b => 1 < b.2.2       -- np.max(n) > 1
    some (main ++ (if !o.simple && anyBig then rel.map fun r => line 1 "_" (r.map (·.1)) (r.map fun b => XR.ofNat b.2.2) else []))
  | "invreliability" =>
    -- in<k> carries obs<t>, q<t>: the valid cases of the t-th level of -q
    some (invreliabilityFigure (o.r.getD [])
      ((o.q.getD []).zipIdx.map fun q => ins.map fun i => (get1 i s!"obs{q.2}", get1 i s!"q{q.2}")))
  | "discrimination" =>
    let edges := o.q.getD tenths
    some (perInput (fun k i =>
      let cs := relCases bAbove t (get1 i "obs") (get1 i "p")
      let lay := discriminationLayout edges k F
      let h0 := discriminationSeries edges cs (.fin 0)
      let h1 := discriminationSeries edges cs (.fin 1)
      [{ ax := 0, kind := "bar", label := inName k ++ "_not_observed", xs := lay.1, ys := h0, ws := some (h0.map fun _ => lay.2.2) },
       { ax := 0, kind := "bar", label := inName k ++ "_observed", xs := lay.2.1, ys := h1, ws := some (h1.map fun _ => lay.2.2) }]) ins)
  | "roc" =>
    let levels := o.q.getD tenths
    some (perInput (fun k i =>
      let cs := (get1 i "obs").zip ((get1 i "p").map (pEvent bAbove))
      let s := rocSeries (intervalOf bAbove t t) levels cs
      [line 0 (inName k) s.1 s.2]) ins)
  | "performance" =>
    some (perInput (fun k i =>
      let pts := (zipSl (getS i "obs") (getS i "fcst")).map fun s => performancePoint T (intervalOf bAbove t t) s.1 s.2
      [line 0 (inName k) (pts.map (·.1)) (pts.map (·.2))]) ins)
  | "taylor" =>
    some (perInput (fun k i =>
      let sl := zipSl (getS i "obs") (getS i "fcst")
      let pts := sl.map fun s => taylorPoint T (decide (1 < sl.length)) s.1 s.2
      [line 0 (inName k) (pts.map (·.1)) (pts.map (·.2))]) ins)
  | "error" =>
    some (perInput (fun k i =>
      let pts := (zipSl (getS i "obs") (getS i "fcst")).map fun s => errorSeries T s.1 s.2
      [line 0 (inName k) (pts.map (·.1)) (pts.map (·.2))]) ins)
  | "pithist" =>
    let edges := o.r.getD tenths
    some (perInput (fun k i =>
      let b := pithistBars edges (get1 i "pit")
      [{ ax := k, kind := "bar", label := "_", xs := b.1, ys := b.2.1, ws := some b.2.2 }]) ins)
  | "spreadskill" =>
    some (perInput (fun k i =>
      let s := spreadskillSeries T (o.r.getD []) (ssCases (get1 i "obs") (get1 i "fcst") (get1 i "lo") (get1 i "hi"))
      [line 0 (inName k) s.1 s.2]) ins)
  | "bsdecomp" =>
    some (perInput (fun k i =>
      let pts := (zipSl (getS i "obs") (getS i "p")).map fun s => bsdecompPoint (bsCases bAbove t s.1 s.2)
      [line 0 (inName k) (pts.map (·.1)) (pts.map (·.2))]) ins)
  | "standard" =>
    -- the four deterministic scores on a data axis without -agg / -acc keep the model of C16_def_standard
    if o.xk == "data" && o.agg == .mean && !o.acc && o.r.isNone && ["mae", "bias", "rmse", "corr"].contains o.m then
      some (perInput (fun k i =>
        [line 0 (inName k) (o.ax.getD []) (standardSeries T o.m ((stdCells i 1).headD [] |>.map fun c => (c.1, c.2.1)))]) ins)
    else
      let ivs := getIntervals bAbove o.r
      DiagramStd.standard T o.m o.agg o.acc (xKind o.xk) (o.ax.getD []) ivs (ins.map fun i => stdCells i ivs.length)
  | "droc" | "droc0" =>
    let fts := if name == "droc0" then [t] else drocDefaultThresholds t
    (ins.mapM fun i => drocSeries T bAbove t fts (get1 i "obs") (get1 i "fcst")).map fun cs =>
      perInput (fun k (s : Vec × Vec) => [line 0 (inName k) s.1 s.2]) cs
  | "against" =>
    -- in<k> carries fa (its forecasts where every input has one) and obs, fcst (the cases with an observation)
    some ((againstPairs F).zipIdx.flatMap fun pr =>
      let i0 := ins.getD pr.1.1 []
      let i1 := ins.getD pr.1.2 []
      againstPair T (againstAxes F pr.2) (get1 i0 "fa") (get1 i1 "fa") (get1 i0 "obs") (get1 i0 "fcst") (get1 i1 "fcst"))
  | "change" =>
    -- obs, fcst: one slice per initialisation time
    some (perInput (fun k i =>
      let s := changeSeries (o.r.getD []) (changeCases (getS i "obs") (getS i "fcst"))
      [line 0 (inName k) s.1 s.2]) ins)
  | "igncontrib" =>
    let edges := ignEdges (get1 (ins.headD []) "obs").length
    let rs := ins.map fun i => ignSeries T edges (relCases bAbove t (get1 i "obs") (get1 i "p"))
    some (perInput (fun k r => [line 0 (inName k) (r.map (·.1)) (r.map (·.2.1))]) rs ++
      rs.map fun r => line 1 "_" (r.map (·.1)) (r.map fun b => XR.ofNat b.2.2))
  | "economicvalue" =>
    some (perInput (fun k i =>
      [line 0 (inName k) costLossRatios (economicValueSeries (relCases bAbove t (get1 i "obs") (get1 i "p")))]) ins)
  | "murphy" =>
    some (perInput (fun k i =>
      [line 0 (inName k) murphyThresholds (murphySeries (relCases bAbove t (get1 i "obs") (get1 i "p")))]) ins)
  | "timeseries" =>
    -- in<k> carries <field><d> = one slice per lead time (values over the locations) for every run d;
    -- fields: obs, fcst, e<m>_ (member m), q<j>_ (j-th level of -q); nmem = number of members
    let runs := fun (i : Inp) (key : String) => (List.range o.tm.length).map fun d => getS i s!"{key}{d}"
    let qs := o.q.getD []
    some (timeseriesFigure o.tm o.ld (runs (ins.headD []) "obs") (qs.map pct)
      (ins.map fun i =>
        { fcst := runs i "fcst",
          members := (List.range (get1 i "nmem").length).map fun m => runs i s!"e{m}_",
          quants := qs.zipIdx.map fun q => runs i s!"q{q.2}_" }))
  | "meteo" =>
    -- in0 carries <field><l> = one slice per location (values over the runs) for every lead time l
    let i := ins.headD []
    let leads := fun (key : String) => (List.range o.ld.length).map fun l => getS i s!"{key}{l}"
    some (meteoFigure (meteoX (o.tm.headD .nan) o.ld) (leads "obs") (leads "fcst")
      ((o.q.getD []).zipIdx.map fun q => (q.1, pct q.1, leads s!"q{q.2}_")))
  | _ => none

def showNats (l : List Nat) : String := if l.isEmpty then "-" else ",".intercalate (l.map toString)

def toRat? : XR → Option Rat
  | .fin q => some q
  | _ => none

/-- split a token list at the separator token -/
def splitAt (sep : String) : List String → List (List String)
  | [] => [[]]
  | t :: rest =>
    match splitAt sep rest with
    | cur :: more => if t == sep then [] :: cur :: more else (t :: cur) :: more
    | [] => [[t]]

def handle1 (args : List String) : Option String :=
  match args with
  | ["diag", _, "unmodelled"] => some "UNMODELLED"
  | "diag" :: name :: opts :: ins => do
      let o ← parseOpts opts
      let ins ← ins.mapM parseInp
      -- `verif.util.error` exits: Meteo with more than one input, Against with fewer than two
      if (name == "meteo" && ins.length != 1) || (name == "against" && ins.length < 2) then some "ERR" else
      match figure floatTr name o ins with
      | some f => some (showFig f)
      | none => some "UNMODELLED"
  | ["bin", edges, x, y] => do
      let (e, x, y) := (← parseVec? edges, ← parseVec? x, ← parseVec? y)
      let r := utilBin e x y
      some s!"{showVec r.1}:{showVec r.2.1}:{showNats r.2.2}"
  | ["fillpoly", xs, lower, upper] => do
      let (x, lo, up) := (← parseVec? xs, ← parseVec? lower, ← parseVec? upper)
      let p := fillPolygon x lo up
      some (if p.isEmpty then "-" else s!"{showVec (p.map (·.1))}:{showVec (p.map (·.2))}")
  | ["spec_bincount", conv, edges, x] => do
      let (e, x) := (← (← parseVec? edges).mapM toRat?, ← toRat? (← parseXR? x))
      let c ← if conv == "ho" then some Spec.Diagram.Conv.ho else if conv == "oc" then some .oc
              else if conv == "hist" then some .hist else none
      some (toString (Spec.Diagram.binCount c e x))
  | _ => none

def handle (args : List String) : Option String :=
  match args with
  | "diagseq" :: rest => some ("@@".intercalate ((splitAt "//" rest).map fun a => (handle1 a).getD "ERR bad-op"))
  | _ => handle1 args

end VerifModel.Driver.Diagram
