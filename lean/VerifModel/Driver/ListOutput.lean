import VerifModel.Base.Proto
import VerifModel.Model.ListOutput
/-
  Driver op for the listing options of the command line (C13, stream cli.list):

    clilist <flags> T=<t,t,…|-> L=<id:lat:lon:elev;…|-> R=<x,x,…|-> Q=<x,x,…|-> [scenario …]

  flags: comma-separated subset of thresholds,quantiles,locations,times,dates (the `--list-*` options on
  the command line); T, L, R, Q: the verified times (integers), locations (exact doubles `num/den`),
  thresholds and quantiles of the `Data` object the real run built (captured by the harness).  `T=?`: the
  real run ended before a dataset existed — reply `NOCAP`.  Trailing tokens (the scenario the harness
  replays) are ignored.  Reply: the standard output, with `\` ↦ `\\` and newline ↦ `\n`.
-/
namespace VerifModel.Driver.ListOutput
open VerifModel Proto ListOutput

def dropN (n : Nat) (s : String) : String := String.ofList (s.toList.drop n)
def hasPrefix (p s : String) : Bool := s.toList.take p.length == p.toList

def esc (s : List Char) : String :=
  String.ofList (s.flatMap fun c => if c == '\\' then ['\\', '\\'] else if c == '\n' then ['\\', 'n'] else [c])

def parseTimes? (s : String) : Option (List Int) :=
  if s == "-" || s == "" then some [] else (s.splitOn ",").mapM String.toInt?

def parseRat? (s : String) : Option Rat :=
  match parseXR? s with
  | some (.fin q) => some q
  | _ => none

def parseLoc? (s : String) : Option Loc :=
  match (s.splitOn ":").mapM parseRat? with
  | some [a, b, c, d] => some ⟨a, b, c, d⟩
  | _ => none

def parseLocs? (s : String) : Option (List Loc) :=
  if s == "-" || s == "" then some [] else (s.splitOn ";").mapM parseLoc?

def parseFlags (s : String) : Flags :=
  let l := s.splitOn ","
  ⟨l.contains "thresholds", l.contains "quantiles", l.contains "locations", l.contains "times", l.contains "dates"⟩

def run (flags t l r q : String) : Option String :=
  if !(hasPrefix "T=" t && hasPrefix "L=" l && hasPrefix "R=" r && hasPrefix "Q=" q) then none
  else if dropN 2 t == "?" then some "NOCAP"
  else do
    let ts ← parseTimes? (dropN 2 t)
    let ls ← parseLocs? (dropN 2 l)
    let rs ← parseVec? (dropN 2 r)
    let qs ← parseVec? (dropN 2 q)
    some (esc (listing (parseFlags flags) rs qs ls ts))

def handle (args : List String) : Option String :=
  match args with
  | "clilist" :: flags :: t :: l :: r :: q :: _ => run flags t l r q
  | _ => none

end VerifModel.Driver.ListOutput
