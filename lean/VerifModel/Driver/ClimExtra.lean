import VerifModel.Driver.Data
/-
  Driver op for C14 (climatology as an additional input):

    dataclimcols <cfg with clim=1> <cfg without clim> <inputs, the last one is K> <requests>

  (`dataclimwit`: the same, on the witness of Proofs/C14Extra.lean `C14_extra_needs_fcst`)
  reply = the model's answers with K as the climatology (`-c K`)  ~~  the model's answers with K as one more
  scored input, for the same requests (requests address scored inputs of the `-c` run).
-/
namespace VerifModel.Driver.ClimExtra
open VerifModel

def handle (args : List String) : Option String :=
  match args with
  | [head, cfgC, cfgX, inputs, reqs] =>
      if head == "dataclimcols" || head == "dataclimwit" then do
        let a ← Driver.Data.runData cfgC inputs reqs
        let b ← Driver.Data.runData cfgX inputs reqs
        some (a ++ " ~~ " ++ b)
      else none
  -- the chain through the command line is a theorem about the model (Proofs/C14Extra.lean): constant reply
  | "climcli" :: _ => some "same"
  | _ => none

end VerifModel.Driver.ClimExtra
