import VerifModel.Base.Proto
import VerifModel.Model.Aggregator
import VerifModel.Model.Preagg
import VerifModel.Model.PreaggData
import VerifModel.Driver.Data
import VerifModel.Spec.Stats
/- Driver ops for the aggregators and the -T pre-aggregation (C15). -/
namespace VerifModel.Driver.Agg
open VerifModel Proto

def parseDims? (s : String) : Option (List Nat) :=
  if s == "-" || s == "" then some [] else (s.splitOn ",").mapM String.toNat?

def showDims (d : List Nat) : String :=
  if d.isEmpty then "-" else ",".intercalate (d.map toString)

def showArr (a : Arr) : String := s!"{showDims a.dims};{showVec a.data}"

def showOptXR : Option XR → String
  | none => "EXC"
  | some v => toString v

def showOptRat : Option Rat → String
  | none => "undef"
  | some q => toString (XR.fin q)

/-- a sample without missing values, as rationals -/
def ratsOf? (v : Vec) : Option (List Rat) :=
  v.mapM fun x => match x with
    | .fin q => some q
    | _ => none

def toOpt : XR → Option Rat
  | .fin q => some q
  | _ => none

/-- the Spec's answer for a sample that may contain missing values: `count` counts the
non-missing ones, `change`/`abschange` only need the first and last, every other statistic is
stated for complete samples only -/
def specStat (a : Agg) (v : Vec) : String :=
  match a with
  | .count => toString (Spec.Stats.countValid (v.map toOpt))
  | .change | .abschange =>
    match List.head? v, List.getLast? v with
    | some (.fin x), some (.fin y) => showOptRat (Spec.Stats.eval floatTr a [x, y])
    | none, _ => "undef"
    | _, _ => "missing"
  | _ =>
    match ratsOf? v with
    | some r => showOptRat (Spec.Stats.eval floatTr a r)
    | none => "missing"

def axisOf? (s : String) : Option (XR × Nat) :=
  if s == "leadtime" then some (.fin 1, 1) else if s == "time" then some (.fin 3600, 0) else none

def handle (args : List String) : Option String :=
  match args with
  | ["agg", name, v] => do
      let v ← parseVec? v
      match Agg.get name with
      | none => some "ERR"
      | some a => some (showOptXR (Agg.apply floatTr a v))
  | ["aggget", name] =>
      some (match Agg.get name with
            | none => if name == "quantile" then "EXC" else "ERR"   -- Quantile() without a level: TypeError
            | some (.quantile q) => s!"quantile:{XR.fin q}"
            | some a => (Agg.names.find? (fun p => p.2 == a)).elim "?" (·.1))
  | ["aggaxis", name, k, dims, data] => do
      let (k, dims, data) := (← k.toInt?, ← parseDims? dims, ← parseVec? data)
      match Agg.get name with
      | none => some "ERR"
      | some a => some (match Agg.callAxis floatTr a k ⟨dims, data⟩ with
                        | none => "EXC"
                        | some r => showArr r)
  | ["preagg", axis, name, h, coords, vals] => do
      let ((scale, _), h, coords, vals) := (← axisOf? axis, ← parseXR? h, ← parseVec? coords, ← parseVec? vals)
      match Agg.get name with
      | none => some "ERR"
      | some a => some (match Preagg.preagg1 (Agg.apply floatTr a) scale h coords vals with
                        | none => "EXC"
                        | some r => showVec r)
  | ["preaggarr", axis, name, h, coords, dims, data] => do
      let ((scale, k), h, coords) := (← axisOf? axis, ← parseXR? h, ← parseVec? coords)
      let (dims, data) := (← parseDims? dims, ← parseVec? data)
      match Agg.get name with
      | none => some "ERR"
      | some a => some (match Preagg.preaggArr (Agg.apply floatTr a) scale h coords k ⟨dims, data⟩ with
                        | none => "EXC"
                        | some r => showArr r)
  | ["tdata", _src, axis, name, h, times, leads, dims, obs, fcst, ens, field, sel] => do
      let ((scale, k), h, times, leads) := (← axisOf? axis, ← parseXR? h, ← parseVec? times, ← parseVec? leads)
      let (dims, obs, fcst, ens) := (← parseDims? dims, ← parseVec? obs, ← parseVec? fcst, ← parseVec? ens)
      let d3 := dims.take 3
      let fld : Preagg.FieldSel ← match field.splitOn ":" with
        | ["obs"] => some .obs
        | ["fcst"] => some .fcst
        | ["ens", m] => m.toNat?.map .member
        | ["thr", x] => (parseXR? x).map .threshold
        | ["q", q] => (Agg.parseDecimal? q).map .quantile
        | _ => none
      let (selT, selL) ← match sel.splitOn ":" with
        | ["-"] => some (none, none)
        | ["t", v] => (parseVec? v).map fun v => (some v, none)
        | ["l", v] => (parseVec? v).map fun v => (none, some v)
        | _ => none
      match Agg.get name with
      | none => some "ERR"
      | some a =>
        some (match Preagg.dataScore (Agg.apply floatTr a) scale k h times leads ⟨d3, obs⟩ ⟨d3, fcst⟩ ⟨dims, ens⟩ fld selT selL with
              | none => "UNMODELLED"
              | some none => "EXC"
              | some (some r) => showArr r)
  | ["tdata2", _src, axis, name, h, cfg, inputs, reqs] => do
      -- -T with several inputs: the `data` encoding of Driver/Data.lean plus axis, aggregator, window length
      let ((scale, k), h) := (← axisOf? axis, ← parseXR? h)
      let ins ← (Driver.Data.splitNE inputs "#").mapM Driver.Data.parseInput?
      let hasClim := (Driver.Data.splitNE (if cfg == "-" then "" else cfg) ";").any (· == "clim=1")
      let (scored, clim) := if hasClim then (ins.dropLast, ins.getLast?) else (ins, none)
      let c ← Driver.Data.parseCfg? cfg clim
      match Agg.get name with
      | none => some "ERR"
      | some a =>
        match Data.init scored c with
        | .error _ => some "ERR init"
        | .ok D0 =>
          let head := s!"T={showVec D0.times};L={showVec D0.leads};X={showVec (D0.locs.map (·.id))}"
          let one (s : String) : String :=
            match Driver.Data.parseReq? D0 s with
            | none => "ERR bad-req"
            | some r =>
              match PreaggData.getScoresT (Agg.apply floatTr a) scale h k scored c r with
              | none => "EXC"
              | some (.error _) => "ERR"
              | some (.ok cols) => Driver.Data.showCols cols
          some (" | ".intercalate (head :: (Driver.Data.splitNE reqs ";").map one))
  | "tcli" :: _ => some "UNMODELLED"      -- command-line stream: only the oracle speaks (the driver loop is C13's model)
  | ["spec_agg", name, v] => do
      let v ← parseVec? v
      match Agg.get name with
      | none => some "ERR"
      | some a => some (specStat a v)
  | ["spec_window", h, coords, l] => do
      -- positions of the series that lie in the trailing window (l-h, l]
      let (h, coords, l) := (← toOpt (← parseXR? h), ← ratsOf? (← parseVec? coords), ← toOpt (← parseXR? l))
      let idx := Spec.Stats.window coords (List.range coords.length) h l
      some (if idx.isEmpty then "-" else ",".intercalate (idx.map toString))
  | ["spec_preagg", axis, name, h, coords, vals] => do
      let ((scale, _), h, coords, vals) := (← axisOf? axis, ← toOpt (← parseXR? h), ← ratsOf? (← parseVec? coords), ← parseVec? vals)
      let scale ← toOpt scale
      match Agg.get name with
      | none => some "ERR"
      | some a => some (";".intercalate (Spec.Stats.preagg (specStat a) coords vals (h * scale)))
  | _ => none

end VerifModel.Driver.Agg
